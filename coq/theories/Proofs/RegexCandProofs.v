(* Proofs/RegexCandProofs.v — the RegexMatcher model meets the candidate contract [cand_ok] of
   Proofs/FindSpecProofs.v on LF-terminated buffers, for final HIRs with local look-around
   (Model/CoreLinePaths.v [local_looks]); hence (Props/C03.v slice_eq_ref_from_candidate_contract)
   SliceByLine::run delivers exactly the lines whose content has a match. *)
From RG Require Import Base.Bytes Base.BytesFacts Base.LineTerm Model.Lines Model.SearcherCore Model.Glue
  Spec.GrepSpec Spec.RegexSem Model.RegexBuild Model.RegexLiteral Model.CoreLinePaths
  Proofs.LinesProofs Proofs.SlowPathProofs Proofs.FastPathProofs Proofs.FindSpecProofs
  Proofs.RegexSemProofs Proofs.RegexBuildProofs Proofs.RegexPassesProofs Proofs.RegexLiteralProofs
  Proofs.LinePathsProofs Proofs.LineLocalityProofs Proofs.RegexLiteralBytes.

(* ---- the literal search ---- *)
Definition occ (l hay : bytes) (q : nat) : Prop := q + length l <= length hay /\ sub hay q (q + length l) = l.

Lemma first_prefix_some lits t n : first_prefix lits t = Some n ->
  exists l, In l lits /\ is_prefix_of l t = true /\ n = length l.
Proof.
  induction lits as [|l r IH]; cbn; [discriminate|]. destruct (is_prefix_of l t) eqn:E.
  - intro H; injection H as <-. exists l. auto.
  - intro H. destruct (IH H) as (l' & H1 & H2 & H3). exists l'. auto.
Qed.

Lemma first_prefix_none lits t : first_prefix lits t = None -> forall l, In l lits -> is_prefix_of l t = false.
Proof.
  induction lits as [|l r IH]; cbn; [intros _ ? []|]. destruct (is_prefix_of l t) eqn:E; [discriminate|].
  intros H l' [<-|Hin]; auto.
Qed.

Lemma occ_prefix l hay q : q <= length hay -> (occ l hay q <-> is_prefix_of l (skipn q hay) = true).
Proof.
  intro Hq. unfold occ, sub. replace (q + length l - q) with (length l) by lia. split.
  - intros [H1 H2]. apply is_prefix_of_app. exists (skipn (length l) (skipn q hay)).
    rewrite <- H2 at 1. symmetry. apply firstn_skipn.
  - intro H. pose proof (is_prefix_of_length _ _ H) as Hl. rewrite skipn_length in Hl.
    split; [lia|now apply prefix_firstn].
Qed.

Lemma occ_cons l x r q : occ l (x :: r) (S q) <-> occ l r q.
Proof. unfold occ, sub. cbn [length skipn]. replace (S q + length l - S q) with (q + length l - q) by lia. split; intros [H1 H2]; split; auto; lia. Qed.

Lemma find_lit_some lits : forall hay e, find_lit lits hay = Some e ->
  exists l q, In l lits /\ occ l hay q /\ e = q + length l /\
              forall l' q', In l' lits -> occ l' hay q' -> q <= q'.
Proof.
  intro hay; induction hay as [|x r IH]; intros e H; cbn [find_lit] in H.
  - destruct (first_prefix lits []) as [n|] eqn:E; [|discriminate]. injection H as <-.
    apply first_prefix_some in E as (l & H1 & H2 & ->). exists l, 0. split; [exact H1|].
    split; [apply occ_prefix; [cbn; lia|exact H2]|]. split; [reflexivity|intros; lia].
  - destruct (first_prefix lits (x :: r)) as [n|] eqn:E.
    + injection H as <-. apply first_prefix_some in E as (l & H1 & H2 & ->). exists l, 0. split; [exact H1|].
      split; [apply occ_prefix; [cbn; lia|exact H2]|]. split; [reflexivity|intros; lia].
    + destruct (find_lit lits r) as [e'|] eqn:F; [|discriminate]. injection H as <-.
      destruct (IH e' eq_refl) as (l & q & H1 & H2 & -> & H4). exists l, (S q).
      split; [exact H1|]. split; [now apply occ_cons|]. split; [reflexivity|].
      intros l' [|q'] Hin Hocc.
      * apply occ_prefix in Hocc; [|cbn; lia]. cbn [skipn] in Hocc.
        rewrite (first_prefix_none _ _ E l' Hin) in Hocc. discriminate.
      * apply occ_cons in Hocc. specialize (H4 l' q' Hin Hocc). lia.
Qed.

Lemma find_lit_none lits : forall hay, find_lit lits hay = None ->
  forall l q, In l lits -> ~ occ l hay q.
Proof.
  intro hay; induction hay as [|x r IH]; intros H l q Hin Hocc; cbn [find_lit] in H.
  - destruct (first_prefix lits []) eqn:E; [discriminate|].
    assert (q = 0) by (destruct Hocc as [Hq _]; cbn in Hq; lia). subst q.
    apply occ_prefix in Hocc; [|cbn; lia]. cbn [skipn] in Hocc. rewrite (first_prefix_none _ _ E l Hin) in Hocc. discriminate.
  - destruct (first_prefix lits (x :: r)) eqn:E; [discriminate|].
    destruct (find_lit lits r) eqn:F; [discriminate|]. destruct q as [|q].
    + apply occ_prefix in Hocc; [|cbn; lia]. cbn [skipn] in Hocc. rewrite (first_prefix_none _ _ E l Hin) in Hocc. discriminate.
    + apply occ_cons in Hocc. exact (IH eq_refl l q Hin Hocc).
Qed.

(* ---- lines of an LF-terminated buffer ---- *)
Notation LF := 10%N.
Definition nolf (l : bytes) : Prop := forallb (fun x => negb (LF =? x)%N) l = true.

(* the length of a line's content *)
Definition clen (l : bytes) : nat := length (without_terminator (LTByte LF) l).

Lemma nolf_byte l p : nolf l -> p < length l -> byte_at l p <> LF.
Proof.
  unfold nolf, byte_at. revert p; induction l as [|x r IH]; intros p H Hp; cbn in *; [lia|].
  apply andb_true_iff in H as [H1 H2]. destruct p; [|apply IH; [exact H2|lia]].
  apply negb_true_iff, N.eqb_neq in H1. congruence.
Qed.

Lemma wt_terminated body : nolf body -> without_terminator (LTByte LF) (body ++ [LF]) = body.
Proof.
  intros _. unfold without_terminator. cbn [lt_bytes].
  assert (E : is_suffix_of [LF] (body ++ [LF]) = true).
  { unfold is_suffix_of. rewrite app_length. cbn [length]. apply andb_true_iff. split; [apply Nat.leb_le; lia|].
    replace (length body + 1 - 1) with (length body) by lia. rewrite skipn_app, skipn_all, Nat.sub_diag. cbn.
    now rewrite N.eqb_refl. }
  rewrite E. rewrite app_length. cbn [length]. replace (length body + 1 - 1) with (length body) by lia.
  rewrite firstn_app, firstn_all, Nat.sub_diag. cbn. apply app_nil_r.
Qed.

Lemma wt_partial l : partial LF l -> without_terminator (LTByte LF) l = l.
Proof.
  intros [Hne Hn]. unfold without_terminator. cbn [lt_bytes].
  destruct (is_suffix_of [LF] l) eqn:E; [|reflexivity]. exfalso.
  unfold is_suffix_of in E. apply andb_true_iff in E as [E1 E2]. apply Nat.leb_le in E1. cbn [length] in *.
  apply bytes_eqb_eq in E2.
  unfold nolf in Hn. rewrite <- (firstn_skipn (length l - 1) l), E2, forallb_app in Hn.
  apply andb_true_iff in Hn as [_ Hn]. cbn in Hn. discriminate.
Qed.

Lemma byte_at_mid (u v : bytes) x : byte_at (u ++ x :: v) (length u) = x.
Proof. unfold byte_at. rewrite app_nth2 by lia. now rewrite Nat.sub_diag. Qed.

Lemma byte_at_app_r (u v : bytes) p : byte_at (u ++ v) (length u + p) = byte_at v p.
Proof. unfold byte_at. rewrite app_nth2 by lia. f_equal. lia. Qed.

Lemma byte_at_app_l (u v : bytes) p : p < length u -> byte_at (u ++ v) p = byte_at u p.
Proof. intro H. unfold byte_at. now rewrite app_nth1. Qed.

Lemma sub_mid (u m v : bytes) : sub (u ++ m ++ v) (length u) (length u + length m) = m.
Proof.
  unfold sub. replace (length u + length m - length u) with (length m) by lia.
  rewrite skipn_app, skipn_all, Nat.sub_diag. cbn [skipn app].
  rewrite firstn_app, firstn_all, Nat.sub_diag. cbn. apply app_nil_r.
Qed.

Lemma shape_split pre : forall l post, lines_shape LF (pre ++ l :: post) ->
  Forall (terminated LF) pre /\ (terminated LF l \/ (partial LF l /\ post = [])).
Proof.
  induction pre as [|x r IH]; intros l post H; cbn [app] in H.
  - split; [constructor|]. inversion H; subst; auto.
  - inversion H as [|? Hp|? ? Ht Hs]; subst.
    + destruct r; discriminate.
    + destruct (IH _ _ Hs) as [H1 H2]. split; [constructor; assumption|exact H2].
Qed.

Lemma concat_terminated_last pre : Forall (terminated LF) pre -> pre <> [] -> exists w, concat pre = w ++ [LF].
Proof.
  induction 1 as [|x r Hx Hr IH]; intro Hne; [congruence|].
  destruct r as [|y r'].
  - destruct Hx as (body & -> & _). exists body. cbn. now rewrite app_nil_r.
  - destruct (IH ltac:(discriminate)) as (w & E). exists (x ++ w). cbn [concat] in *. rewrite E. now rewrite app_assoc.
Qed.

(* the geometry of one line inside the buffer made of the lines *)
Lemma line_geometry pre l post :
  lines_shape LF (pre ++ l :: post) ->
  let hay := concat (pre ++ l :: post) in
  let a := length (concat pre) in
  let b := a + clen l in
  a <= b <= length hay /\
  (a = 0 \/ byte_at hay (a - 1) = LF) /\
  (b = length hay \/ byte_at hay b = LF) /\
  sub hay a b = without_terminator (LTByte LF) l /\
  ((terminated LF l /\ b + 1 = a + length l) \/ (partial LF l /\ post = [] /\ b = a + length l)) /\
  nolf (without_terminator (LTByte LF) l).
Proof.
  intros Hs hay a b. destruct (shape_split _ _ _ Hs) as [Hpre Hl].
  assert (Ehay : hay = concat pre ++ l ++ concat post).
  { unfold hay. rewrite concat_app. reflexivity. }
  assert (Hleft : a = 0 \/ byte_at hay (a - 1) = LF).
  { destruct pre as [|x r]; [left; reflexivity|right].
    destruct (concat_terminated_last (x :: r) Hpre ltac:(discriminate)) as (w & E).
    unfold a. rewrite Ehay, E, app_length. cbn [length]. replace (length w + 1 - 1) with (length w) by lia.
    rewrite <- app_assoc. cbn [app]. apply byte_at_mid. }
  destruct Hl as [(body & -> & Hb)|((Hne & Hn) & ->)].
  - assert (Ec : without_terminator (LTByte LF) (body ++ [LF]) = body) by (now apply wt_terminated).
    assert (Hc : clen (body ++ [LF]) = length body) by (unfold clen; now rewrite Ec).
    unfold b. rewrite Hc, Ec. rewrite Ehay, !app_length. cbn [length].
    split; [lia|]. split; [rewrite <- Ehay; exact Hleft|]. split; [|split; [|split]].
    + right. rewrite <- app_assoc. cbn [app]. rewrite app_assoc.
      replace (a + length body) with (length (concat pre ++ body)) by (rewrite app_length; reflexivity).
      apply byte_at_mid.
    + rewrite <- (app_assoc body). apply sub_mid.
    + left. split; [exists body; auto|lia].
    + exact Hb.
  - assert (Ec : without_terminator (LTByte LF) l = l) by (apply wt_partial; split; assumption).
    assert (Hc : clen l = length l) by (unfold clen; now rewrite Ec).
    unfold b. rewrite Hc, Ec. rewrite Ehay. cbn [concat]. rewrite !app_length. cbn [length].
    split; [lia|]. split; [rewrite app_nil_r in Ehay; rewrite app_nil_r, <- Ehay; exact Hleft|]. split; [|split; [|split]].
    + left. lia.
    + apply sub_mid.
    + right. repeat split; auto.
    + exact Hn.
Qed.

(* a span without a line feed lies inside one line's content, or is the empty span at the very end
   after a terminated last line *)
Lemma region_of_span ls : lines_shape LF ls -> forall i j,
  i <= j <= length (concat ls) -> (forall p, i <= p < j -> byte_at (concat ls) p <> LF) ->
  (exists pre l post, ls = pre ++ l :: post /\ length (concat pre) <= i /\ j <= length (concat pre) + clen l) \/
  (i = j /\ j = length (concat ls) /\ (ls = [] \/ exists pre l, ls = pre ++ [l] /\ terminated LF l)).
Proof.
  induction 1 as [|l Hp|l ls Ht Hs IH]; intros i j Hij Hb.
  - right. cbn [concat length] in *. repeat split; auto; lia.
  - left. exists [], l, []. cbn [concat app length] in *. rewrite app_nil_r in Hij. unfold clen. rewrite (wt_partial l Hp).
    repeat split; lia.
  - destruct Ht as (body & -> & Hbody). cbn [concat] in *.
    destruct (Nat.le_gt_cases i (length body)) as [Hi|Hi].
    + left. exists [], (body ++ [LF]), ls. cbn [app concat length]. unfold clen. rewrite (wt_terminated body Hbody).
      split; [reflexivity|]. split; [lia|].
      destruct (Nat.le_gt_cases j (length body)) as [Hj|Hj]; [lia|]. exfalso.
      apply (Hb (length body)); [lia|]. rewrite <- app_assoc. cbn [app]. apply byte_at_mid.
    + rewrite !app_length in Hij. cbn [length] in Hij.
      destruct (IH (i - (length body + 1)) (j - (length body + 1)) ltac:(lia)) as [(pre & l & post & -> & H1 & H2)|(H1 & H2 & H3)].
      * intros p Hp. specialize (Hb (length (body ++ [LF]) + p)). rewrite byte_at_app_r in Hb. apply Hb.
        rewrite app_length. cbn [length]. lia.
      * left. exists ((body ++ [LF]) :: pre), l, post. cbn [app concat]. rewrite !app_length. cbn [length].
        split; [reflexivity|]. lia.
      * right. rewrite !app_length. cbn [length]. split; [lia|]. split; [lia|]. right.
        destruct H3 as [->|(pre & l & -> & Hl)].
        -- exists [], (body ++ [LF]). split; [reflexivity|]. exists body. auto.
        -- exists ((body ++ [LF]) :: pre), l. split; [reflexivity|exact Hl].
Qed.

Lemma is_match_sem_iff h c : is_match_sem h c = true <-> exists i j, Matches h c i j.
Proof.
  unfold is_match_sem. rewrite existsb_exists. split.
  - intros (i & Hin & H). destruct (ends h c i) as [|j r] eqn:E; [discriminate|].
    exists i, j. apply ends_spec_proof. rewrite E. now left.
  - intros (i & j & M). exists i. split.
    + apply in_seq. apply matches_bounds in M. lia.
    + apply ends_spec_proof in M. destruct (ends h c i); [destruct M|reflexivity].
Qed.

Lemma length_sub' (s : bytes) a b : a <= b <= length s -> length (sub s a b) = b - a.
Proof. intro H. unfold sub. rewrite firstn_length, skipn_length. lia. Qed.

Lemma byte_at_firstn (t : bytes) m p : p < m -> byte_at (firstn m t) p = byte_at t p.
Proof.
  unfold byte_at. revert m p; induction t as [|x r IH]; intros [|m] [|p] H; cbn; try reflexivity; try lia.
  apply IH. lia.
Qed.

Lemma byte_at_sub (s : bytes) a b p : p < b - a -> byte_at (sub s a b) p = byte_at s (a + p).
Proof. intro H. unfold sub. rewrite byte_at_firstn by exact H. apply byte_at_skipn. Qed.

(* LF lines: a line's content has a match iff the buffer has a match inside its content region *)
Definition content_match (h : hir) (l : bytes) : bool := is_match_sem h (without_terminator (LTByte LF) l).

Lemma pm_iff h : local_looks h = true -> forall pre l post, lines_shape LF (pre ++ l :: post) ->
  (content_match h l = true <->
   exists i j, length (concat pre) <= i /\ j <= length (concat pre) + clen l /\
               Matches h (concat (pre ++ l :: post)) i j).
Proof.
  intros Hloc pre l post Hs. destruct (line_geometry pre l post Hs) as (Hab & HL & HR & Hsub & _ & _).
  set (hay := concat (pre ++ l :: post)) in *. set (a := length (concat pre)) in *.
  set (b := a + clen l) in *.
  unfold content_match. rewrite <- Hsub, is_match_sem_iff. split.
  - intros (i & j & M). pose proof (matches_bounds _ _ _ _ M) as B. rewrite length_sub' in B by exact Hab.
    exists (a + i), (a + j). split; [lia|]. split; [lia|].
    apply (line_locality_partial_proof h hay a b i j Hloc Hab HL HR ltac:(lia)). exact M.
  - intros (i & j & Ha & Hb & M). pose proof (matches_bounds _ _ _ _ M) as B.
    exists (i - a), (j - a).
    apply (line_locality_partial_proof h hay a b (i - a) (j - a) Hloc Hab HL HR ltac:(lia)).
    replace (a + (i - a)) with i by lia. replace (a + (j - a)) with j by lia. exact M.
Qed.

(* the contract, for any per-line test [cm] that is sound for the buffer: a line that passes has a
   buffer match inside its (LF) content region; if [need_back], conversely *)
Section RC.
  Variable h : hir.
  (* no match of the final HIR contains a line feed (Props/C11.v build_line_terminator_promise) *)
  Hypothesis Hclean : forall buf i j, Matches h buf i j -> forall p, i <= p < j -> byte_at buf p <> LF.
  Variable cm : bytes -> bool.
  Variable need_back : bool.
  Hypothesis cm_fwd : forall pre l post, lines_shape LF (pre ++ l :: post) -> cm l = true ->
    exists i j, length (concat pre) <= i /\ j <= length (concat pre) + clen l /\
                Matches h (concat (pre ++ l :: post)) i j.
  Hypothesis cm_back : need_back = true -> forall pre l post i j, lines_shape LF (pre ++ l :: post) ->
    length (concat pre) <= i -> j <= length (concat pre) + clen l ->
    Matches h (concat (pre ++ l :: post)) i j -> cm l = true.
  Notation content_match := cm.

  (* if every match of the buffer starts at or after x, no line that ends before x has a match;
     likewise for literal occurrences *)
  Lemma earlier_lines_quiet pre l post (P : nat -> Prop) :
    lines_shape LF (pre ++ l :: post) ->
    (forall y pre1 pre2, pre = pre1 ++ y :: pre2 -> content_match y = true ->
       exists i, P i /\ i < length (concat pre)) ->
    (forall i, P i -> length (concat pre) <= i) ->
    Forall (fun y => content_match y = false) pre.
  Proof.
    intros Hs Hwit Hmin. apply Forall_forall. intros y Hy.
    destruct (content_match y) eqn:E; [|reflexivity]. exfalso.
    apply in_split in Hy as (pre1 & pre2 & ->).
    destruct (Hwit y pre1 pre2 eq_refl E) as (i & Hi & Hlt). specialize (Hmin i Hi). lia.
  Qed.

  (* a match inside an earlier line of pre starts before the start of l *)
  Lemma earlier_match pre1 y pre2 l post :
    lines_shape LF ((pre1 ++ y :: pre2) ++ l :: post) -> content_match y = true ->
    exists i j, Matches h (concat ((pre1 ++ y :: pre2) ++ l :: post)) i j /\
                length (concat pre1) <= i /\ j <= length (concat pre1) + clen y /\
                length (concat pre1) + clen y < length (concat (pre1 ++ y :: pre2)).
  Proof.
    intros Hs Hy. rewrite <- app_assoc in Hs. cbn [app] in Hs.
    destruct (cm_fwd pre1 y (pre2 ++ l :: post) Hs Hy) as (i & j & H1 & H2 & M).
    destruct (line_geometry pre1 y (pre2 ++ l :: post) Hs) as (_ & _ & _ & _ & Hk & _).
    exists i, j. rewrite <- app_assoc. cbn [app]. split; [exact M|]. split; [exact H1|]. split; [exact H2|].
    rewrite concat_app. cbn [concat]. rewrite !app_length.
    destruct Hk as [[_ Hk]|(_ & Hk & _)]; [lia|destruct pre2; discriminate].
  Qed.

  Variable span : bytes -> option (nat * nat).
  (* what is assumed of the regex engine's search (regex-automata, leftmost-first; not modelled):
     the span it reports is a match of the HIR and no match starts before it; no report = no match *)
  Definition span_ok : Prop :=
    forall hay, match span hay with
                | Some (i, j) => Matches h hay i j /\ forall i' j', Matches h hay i' j' -> i <= i'
                | None => forall i j, ~ Matches h hay i j
                end.
  Hypothesis Hspan : span_ok.

  Variable lits : option (list bytes).
  (* the fast-line literals: every region holding a match holds an occurrence (Props/C11.v
     candidate_never_skips_a_matching_line); they are non-empty and contain no line feed *)
  Definition lits_ok : Prop :=
    match lits with
    | None => True
    | Some ls =>
      (forall l, In l ls -> l <> [] /\ nolf l) /\
      (forall buf a b i j, Matches h buf i j -> a <= i -> j <= b ->
         exists l q, In l ls /\ a <= q /\ q + length l <= b /\ sub buf q (q + length l) = l)
    end.
  Hypothesis Hlits : lits_ok.

  (* the contract on the list of remaining lines *)
  Lemma cand_on_lines ls : lines_shape LF ls -> ls <> [] ->
    match regex_find_candidate lits span (concat ls) with
    | None => Forall (fun l => content_match l = false) ls
    | Some (conf, x) =>
      (exists pre l post, ls = pre ++ l :: post /\ Forall (fun y => content_match y = false) pre /\
                          length (concat pre) <= x /\
                          (x < length (concat pre) + length l \/
                           (post = [] /\ x = length (concat pre) + length l /\ partial LF l)) /\
                          (conf = true -> need_back = true -> content_match l = true))
      \/ (conf = true /\ x = length (concat ls) /\ Forall (fun l => content_match l = false) ls /\
          (exists pre l, ls = pre ++ [l] /\ terminated LF l))
    end.
  Proof.
    intros Hs Hne. set (hay := concat ls).
    (* no line matches when the buffer has no match / no occurrence *)
    assert (Hnone : (forall i j, ~ Matches h hay i j) -> Forall (fun l => content_match l = false) ls).
    { intro Hno. apply Forall_forall. intros y Hy. destruct (content_match y) eqn:E; [|reflexivity]. exfalso.
      apply in_split in Hy as (p1 & p2 & ->). destruct (cm_fwd p1 y p2 Hs E) as (i & j & _ & _ & Mm).
      exact (Hno i j Mm). }
    (* in_line from a span inside the content region *)
    assert (Hin : forall pre l post x, ls = pre ++ l :: post -> length (concat pre) <= x ->
              x <= length (concat pre) + clen l ->
              x < length (concat pre) + length l \/ (post = [] /\ x = length (concat pre) + length l /\ partial LF l)).
    { intros pre l post x E H1 H2. rewrite E in Hs.
      destruct (line_geometry pre l post Hs) as (_ & _ & _ & _ & Hk & _).
      destruct Hk as [[_ Hk]|(Hp & Hpost & Hk)]; [left; lia|].
      destruct (Nat.eq_dec x (length (concat pre) + length l)); [right; auto|left; lia]. }
    unfold regex_find_candidate. destruct lits as [lt_|] eqn:EL.
    - (* Candidate: leftmost literal occurrence *)
      pose proof Hlits as HLs. unfold lits_ok in HLs. rewrite EL in HLs. destruct HLs as [Hl1 Hl2].
      destruct (find_lit lt_ hay) as [e|] eqn:EF; cbn [option_map].
      + destruct (find_lit_some lt_ hay e EF) as (l0 & q & Hl0 & [Hq1 Hq2] & -> & Hleft).
        destruct (Hl1 l0 Hl0) as [Hne0 Hn0].
        assert (Hlen0 : 1 <= length l0) by (destruct l0; [congruence|cbn; lia]).
        destruct (region_of_span ls Hs q (q + length l0) ltac:(fold hay; lia)) as [(pre & l & post & E & H1 & H2)|(H1 & _)]; [| |lia].
        { intros p Hp. fold hay. replace p with (q + (p - q)) by lia.
          assert (Hb : byte_at hay (q + (p - q)) = byte_at l0 (p - q)).
          { transitivity (byte_at (sub hay q (q + length l0)) (p - q)); [|now rewrite Hq2].
            symmetry. apply byte_at_sub; lia. }
          rewrite Hb. apply nolf_byte; [exact Hn0|lia]. }
        left. exists pre, l, post. split; [exact E|]. split; [|split; [lia|split; [apply (Hin pre l post _ E); lia|discriminate]]].
        rewrite E in Hs. apply (earlier_lines_quiet pre l post (fun i => exists l' , In l' lt_ /\ occ l' hay i)).
        * exact Hs.
        * intros y p1 p2 Ep Hy. subst pre.
          destruct (earlier_match p1 y p2 l post Hs Hy) as (i & j & Mm & G1 & G2 & G3).
          rewrite <- E in Mm. fold hay in Mm.
          destruct (Hl2 hay (length (concat p1)) (length (concat p1) + clen y) i j Mm G1 G2) as (l' & q' & I1 & I2 & I3 & I4).
          exists q'. split; [exists l'; split; [exact I1|]|lia].
          split; [|exact I4]. pose proof (matches_bounds _ _ _ _ Mm).
          destruct (line_geometry p1 y (p2 ++ l :: post)) as (Hg & _); [rewrite <- app_assoc in Hs; exact Hs|].
          rewrite <- app_assoc in E. cbn [app] in E. rewrite <- E in Hg. fold hay in Hg. lia.
        * intros i (l' & I1 & I2). specialize (Hleft l' i I1 I2). lia.
      + apply Hnone. intros i j Mm.
        destruct (Hl2 hay 0 (length hay) i j Mm ltac:(lia) ltac:(apply matches_bounds in Mm; lia)) as (l' & q' & I1 & _ & I3 & I4).
        exact (find_lit_none lt_ hay EF l' q' I1 (conj I3 I4)).
    - (* Confirmed: the regex itself *)
      pose proof (Hspan hay) as Hsp. destruct (span hay) as [[i j]|]; cbn [option_map snd].
      + destruct Hsp as [Mm Hleft]. pose proof (matches_bounds _ _ _ _ Mm) as B.
        destruct (region_of_span ls Hs i j ltac:(fold hay; lia) (Hclean hay i j Mm)) as [(pre & l & post & E & H1 & H2)|(H1 & H2 & H3)].
        * left. exists pre, l, post. split; [exact E|]. rewrite E in Hs.
          split; [|split; [lia|split; [apply (Hin pre l post _ E); lia|]]].
          -- apply (earlier_lines_quiet pre l post (fun x => exists y, Matches h hay x y)); [exact Hs| |].
             ++ intros y p1 p2 Ep Hy. subst pre.
                destruct (earlier_match p1 y p2 l post Hs Hy) as (i' & j' & Mm' & G1 & G2 & G3).
                rewrite <- E in Mm'. fold hay in Mm'. exists i'. split; [exists j'; exact Mm'|].
                pose proof (matches_bounds _ _ _ _ Mm'). lia.
             ++ intros x (y & Mx). specialize (Hleft x y Mx). lia.
          -- intros _ Hnb. apply (cm_back Hnb pre l post i j Hs); [lia|lia|]. rewrite <- E. exact Mm.
        * right. split; [reflexivity|]. split; [exact H2|]. split; [|destruct H3 as [->|H3]; [congruence|exact H3]].
          apply Forall_forall. intros y Hy. destruct (content_match y) eqn:Ey; [|reflexivity]. exfalso.
          apply in_split in Hy as (p1 & p2 & ->).
          destruct (cm_fwd p1 y p2 Hs Ey) as (i' & j' & G1 & G2 & Mm').
          fold hay in Mm'. specialize (Hleft i' j' Mm').
          destruct (line_geometry p1 y p2 Hs) as (Hg & _ & _ & _ & Hk & _).
          pose proof (matches_bounds _ _ _ _ Mm') as B'. fold hay in Hg.
          destruct Hk as [[_ Hk]|(Hp & -> & Hk)].
          -- assert (length (concat p1) + length y <= length hay).
             { unfold hay. rewrite concat_app. cbn [concat]. rewrite !app_length. lia. }
             unfold hay in *. lia.
          -- (* the last line is partial: contradiction with H3 *)
             destruct H3 as [E0|(pre' & l' & E' & Ht')]; [destruct p1; discriminate|].
             apply app_inj_tail in E' as [_ <-]. destruct Hp as [_ Hn]. destruct Ht' as (bd & -> & _).
             unfold nolf in Hn. rewrite forallb_app in Hn. apply andb_true_iff in Hn as [_ Hn]. cbn in Hn. discriminate.
      + now apply Hnone.
  Qed.
End RC.

(* ---- from the searcher's line bookkeeping to the list of lines ---- *)
Lemma lines_at_shape_concat cfg s : lt_byte (c_lt cfg) = LF -> forall ls p,
  lines_at cfg s ls p -> lines_shape LF ls /\ skipn p s = concat ls.
Proof.
  intro Hlt. induction ls as [|l r IH]; intros p H; cbn [lines_at] in H.
  - split; [constructor|]. subst p. cbn. apply skipn_all.
  - destruct H as ((Hsub & Hle & Hkind) & Hterm & Hrest). rewrite Hlt in *.
    destruct (IH _ Hrest) as [Hs Hc]. split.
    + destruct r as [|y r'].
      * destruct Hkind as [Ht|[Hp _]]; [constructor; [exact Ht|constructor]|now constructor].
      * constructor; [apply Hterm; discriminate|exact Hs].
    + cbn [concat]. rewrite <- Hc. rewrite <- Hsub at 1. unfold sub.
      replace (p + length l - p) with (length l) by lia.
      rewrite <- (firstn_skipn (length l) (skipn p s)) at 1. f_equal.
      rewrite Nat.add_comm. symmetry. apply skipn_add.
Qed.

Lemma cand_ok_of_lines h span lits cfg adv fa s (cm : bytes -> bool) (need_back : bool) :
  lt_byte (c_lt cfg) = LF ->
  (forall l, pmatch cfg (regex_line_matcher h adv lits span fa) l = cm l) ->
  (lt_is_crlf (c_lt cfg) = false -> need_back = true) ->
  (forall ls, lines_shape LF ls -> ls <> [] ->
     match regex_find_candidate lits span (concat ls) with
     | None => Forall (fun l => cm l = false) ls
     | Some (conf, x) =>
       (exists pre l post, ls = pre ++ l :: post /\ Forall (fun y => cm y = false) pre /\
                           length (concat pre) <= x /\
                           (x < length (concat pre) + length l \/
                            (post = [] /\ x = length (concat pre) + length l /\ partial LF l)) /\
                           (conf = true -> need_back = true -> cm l = true))
       \/ (conf = true /\ x = length (concat ls) /\ Forall (fun l => cm l = false) ls /\
           (exists pre l, ls = pre ++ [l] /\ terminated LF l))
     end) ->
  cand_ok cfg (regex_line_matcher h adv lits span fa) s.
Proof.
  intros Hb Hpm Hnb Hlines p ls Hat Hne.
  destruct (lines_at_shape_concat cfg s Hb ls p Hat) as [Hs Hc].
  pose proof (Hlines ls Hs Hne) as H.
  change (m_find_candidate (regex_line_matcher h adv lits span fa) (skipn p s))
    with (regex_find_candidate lits span (skipn p s)).
  rewrite Hc.
  assert (HF : forall xs, Forall (fun y => cm y = false) xs ->
                          Forall (fun y => pmatch cfg (regex_line_matcher h adv lits span fa) y = false) xs).
  { intros xs Hx. eapply Forall_impl; [|exact Hx]. intros y Hy. now rewrite Hpm. }
  destruct (regex_find_candidate lits span (concat ls)) as [[conf x]|]; [|now apply HF].
  destruct H as [(pre & l & post & E & Hpre & H1 & H2 & H3)|(Hconf & Hx & Hall & (pre & l & E & Ht))].
  - left. exists pre, l, post. split; [exact E|]. split; [now apply HF|]. split.
    + unfold in_line. rewrite Hb. split; [exact H1|exact H2].
    + intros Hcf Hcr. rewrite Hpm. apply H3; [exact Hcf|now apply Hnb].
  - right. split; [exact Hconf|]. split; [exact Hx|]. split; [now apply HF|].
    exists pre, l. rewrite Hb. auto.
Qed.

Theorem regex_cand_ok_proof : forall h span lits cfg adv fa s,
  local_looks h = true ->
  (forall buf i j, Matches h buf i j -> forall p, i <= p < j -> byte_at buf p <> LF) ->
  span_ok h span -> lits_ok h lits -> c_lt cfg = LTByte LF ->
  cand_ok cfg (regex_line_matcher h adv lits span fa) s.
Proof.
  intros h span lits cfg adv fa s Hloc Hclean Hspan Hlits Hlt.
  apply (cand_ok_of_lines h span lits cfg adv fa s (content_match h) true).
  - now rewrite Hlt.
  - intro l. unfold pmatch, content_match, regex_line_matcher, regex_matcher. cbn [m_is_match]. now rewrite Hlt.
  - reflexivity.
  - intros ls Hs Hne.
    apply (cand_on_lines h Hclean (content_match h) true); auto.
    + intros pre l post Hsh Hc. now apply (pm_iff h Hloc pre l post Hsh).
    + intros _ pre l post i j Hsh H1 H2 Mm. apply (pm_iff h Hloc pre l post Hsh). eauto.
Qed.

(* the literals of a good sequence are not empty *)
Lemma fast_line_literals_nonempty c acc h lits :
  fast_line_literals (inner_literals c acc h) = Some lits -> forall l, In l lits -> l <> [].
Proof.
  unfold fast_line_literals, inner_literals.
  destruct (c_line_terminator c); [|discriminate].
  destruct (acc && negb (contains_word_unicode h)); [discriminate|].
  destruct (is_alternation_literal h); [discriminate|].
  unfold extract_untagged. set (t' := t_map optimize_for_prefix_by_preference (extract extractor_new h)).
  destruct (t_is_good t') eqn:G; [|discriminate].
  unfold t_is_good in G. destruct (t_has_poisonous_literal t') eqn:P; [discriminate|].
  unfold t_has_poisonous_literal in P.
  destruct (t_seq t') as [[|l0 ls]|]; try discriminate.
  intro H; injection H as <-. intros l Hin. change (l_bytes l0 :: map l_bytes ls) with (map l_bytes (l0 :: ls)) in Hin.
  apply in_map_iff in Hin as (x & <- & Hx).
  assert (Hp : lit_is_poisonous x = false).
  { destruct (lit_is_poisonous x) eqn:E; [|reflexivity].
    assert (existsb lit_is_poisonous (l0 :: ls) = true) by (apply existsb_exists; eauto). congruence. }
  unfold lit_is_poisonous in Hp. destruct (l_bytes x); [discriminate|discriminate].
Qed.

(* build_many's final HIR has no leaf that can produce the advertised byte terminator *)
Lemma leaf_free_wrap b c h : leaf_free b h = true -> leaf_free b (wrap c h) = true.
Proof.
  intro H. unfold wrap, into_whole_line, into_word.
  destruct (c_whole_line c); [cbn; now rewrite H|]. destruct (c_word c); [cbn; now rewrite H|exact H].
Qed.

Lemma build_leaf_free norm rc tr final b :
  build norm rc tr = inl (final, Some (RTByte b)) -> leaf_free b final = true.
Proof.
  unfold build. destruct (configure norm rc tr) as [h|e] eqn:E; [|discriminate].
  intro H; injection H as <- Ha. unfold advertised_terminator in Ha.
  destruct (contains_anchor_haystack (wrap rc h)); [discriminate|].
  unfold configure in E. destruct (match c_ban rc with Some x => ban_check x tr | None => None end); [discriminate|].
  rewrite Ha in E. cbn [strip_from_match] in E. unfold strip_from_match_ascii in E.
  destruct (127 <? b)%N; [discriminate|]. apply leaf_free_wrap. exact (strip_ascii_leaf_free b tr h E).
Qed.

Lemma not_in_nolf (l : bytes) : ~ In LF l -> nolf l.
Proof.
  unfold nolf. induction l as [|x r IH]; intro H; cbn; [reflexivity|]. apply andb_true_iff. split.
  - apply negb_true_iff, N.eqb_neq. intro E. apply H. left. now symmetry.
  - apply IH. intro Hin. apply H. now right.
Qed.

Theorem literals_free_of_terminator_proof : forall norm rc tr final b acc lits,
  (b <= 127)%N -> build norm rc tr = inl (final, Some (RTByte b)) ->
  fast_line_literals (inner_literals rc acc final) = Some lits -> forall l, In l lits -> ~ In b l.
Proof.
  intros norm rc tr final b acc lits Hb Hbuild E l Hin.
  exact (fast_line_literals_free b Hb rc acc final lits (build_leaf_free norm rc tr final b Hbuild) E l Hin).
Qed.

(* C01 for the model, both line paths, every searcher configuration without binary detection:
   the run of SliceByLine equals the grep reference whose "line matches" test is "the final HIR
   has a match in the line's content" *)
Theorem c01_slice_run_eq_ref_proof :
  forall norm, norm_ok norm ->
  forall rc tr final acc span fa cfg s,
    build norm rc tr = inl (final, Some (RTByte LF)) ->
    local_looks final = true ->
    span_ok final span ->
    c_lt cfg = LTByte LF -> c_binary cfg = BNone ->
    slice_by_line_run cfg (regex_line_matcher final (Some (RTByte LF))
                             (fast_line_literals (inner_literals rc acc final)) span fa) (fun _ => Continue) s
    = RunOk (grep_ref cfg (is_match_sem final) s).
Proof.
  intros norm Hn rc tr final acc span fa cfg s Hb Hloc Hspan Hlt Hbin.
  set (lits := fast_line_literals (inner_literals rc acc final)).
  change (is_match_sem final) with (m_is_match (regex_line_matcher final (Some (RTByte LF)) lits span fa)).
  apply slice_eq_ref_proof; [exact Hbin|]. apply find_spec_of_cand_proof.
  apply regex_cand_ok_proof; auto.
  - intros buf i j Mm p Hp Hbyte.
    pose proof (build_line_terminator_promise_proof norm Hn rc tr final (RTByte LF) buf i j Hb Mm p Hp) as H.
    cbn in H. rewrite Hbyte in H. discriminate.
  - unfold lits_ok. destruct lits as [ls|] eqn:E; [|exact I]. split.
    + intros l Hin. split; [exact (fast_line_literals_nonempty rc acc final ls E l Hin)|].
      apply not_in_nolf.
      exact (fast_line_literals_free LF ltac:(lia) rc acc final ls (build_leaf_free norm rc tr final LF Hb) E l Hin).
    + intros buf a b i j Mm Ha Hbb. exact (candidate_never_skips_proof rc acc final ls buf a b i j E Mm Ha Hbb).
Qed.

(* ---- span_ok is satisfiable ---- *)
Lemma find_seq_min (f : nat -> bool) n : forall a i, find f (seq a n) = Some i ->
  a <= i /\ f i = true /\ forall k, a <= k < i -> f k = false.
Proof.
  induction n as [|n IH]; intros a i H; cbn in H; [discriminate|].
  destruct (f a) eqn:E.
  - injection H as <-. repeat split; auto. intros; lia.
  - destruct (IH _ _ H) as (H1 & H2 & H3). repeat split; [lia|exact H2|].
    intros k Hk. destruct (Nat.eq_dec k a) as [->|]; [exact E|apply H3; lia].
Qed.

Theorem sem_span_ok : forall h, span_ok h (sem_span h).
Proof.
  intros h hay. unfold sem_span.
  set (f := fun i => match ends h hay i with [] => false | _ => true end).
  destruct (find f (seq 0 (S (length hay)))) as [i|] eqn:E.
  - destruct (find_seq_min f _ _ _ E) as (_ & Hf & Hmin). unfold f in Hf.
    destruct (ends h hay i) as [|j r] eqn:Ee; [discriminate|]. split.
    + apply ends_spec_proof. rewrite Ee. now left.
    + intros i' j' Mm. destruct (Nat.le_gt_cases i i') as [|Hlt]; [assumption|exfalso].
      specialize (Hmin i' ltac:(lia)). unfold f in Hmin. apply ends_spec_proof in Mm.
      destruct (ends h hay i'); [destruct Mm|discriminate].
  - intros i j Mm. pose proof (matches_bounds _ _ _ _ Mm) as B.
    assert (Hin : In i (seq 0 (S (length hay)))) by (apply in_seq; lia).
    pose proof (find_none _ _ E i Hin) as Hf. unfold f in Hf. apply ends_spec_proof in Mm.
    destruct (ends h hay i); [destruct Mm|discriminate].
Qed.

(* ---- CRLF lines ---- *)
Definition content_match_crlf (h : hir) (l : bytes) : bool := is_match_sem h (without_terminator LTCrlf l).

Lemma rev_head_in {A} (l : list A) x r : rev l = x :: r -> l = rev r ++ [x].
Proof. intro H. apply (f_equal (@rev A)) in H. rewrite rev_involutive in H. exact H. Qed.

Lemma rev_nil_inv {A} (l : list A) : rev l = [] -> l = [].
Proof. intro H. apply (f_equal (@rev A)) in H. now rewrite rev_involutive in H. Qed.

Lemma wt_crlf_nolf l : nolf l -> without_terminator LTCrlf l = l.
Proof.
  intro Hn. unfold without_terminator. destruct (rev l) as [|x r] eqn:E; [reflexivity|].
  apply rev_head_in in E. destruct x as [|p]; [reflexivity|].
  do 4 (destruct p as [p|p|]; try reflexivity). exfalso.
  subst l. unfold nolf in Hn. rewrite forallb_app in Hn. apply andb_true_iff in Hn as [_ Hn]. cbn in Hn. discriminate.
Qed.

Lemma wt_crlf_terminated body :
  without_terminator LTCrlf (body ++ [LF]) = match rev body with 13%N :: r' => rev r' | _ => body end.
Proof.
  unfold without_terminator. rewrite rev_app_distr. cbn [rev app].
  destruct (rev body) as [|x r] eqn:E; [apply rev_nil_inv in E; now subst body|].
  pose proof (rev_head_in _ _ _ E) as Eb.
  destruct x as [|p]; [cbn; now rewrite <- Eb|].
  do 4 (destruct p as [p|p|]; try (cbn; now rewrite <- Eb)).
Qed.

Lemma sub_prefix (s : bytes) a b n : a + n <= b -> sub s a (a + n) = firstn n (sub s a b).
Proof.
  intro H. unfold sub. replace (a + n - a) with n by lia. rewrite firstn_firstn.
  now replace (Nat.min n (b - a)) with n by lia.
Qed.

Lemma crlf_geometry pre l post :
  lines_shape LF (pre ++ l :: post) ->
  let hay := concat (pre ++ l :: post) in
  let a := length (concat pre) in
  exists b, a <= b /\ b <= a + clen l /\ b <= length hay /\
    sub hay a b = without_terminator LTCrlf l /\
    (a = 0 \/ byte_at hay (a - 1) = LF) /\
    (b = length hay \/ (byte_at hay b = 13%N /\ b < length hay) \/
     (byte_at hay b = LF /\ b < length hay /\ (b = a \/ byte_at hay (b - 1) <> 13%N))).
Proof.
  intros Hs. cbv zeta. destruct (line_geometry pre l post Hs) as (Hab & HL & HR & Hsub & Hk & Hn).
  set (hay := concat (pre ++ l :: post)) in *. set (a := length (concat pre)) in *.
  set (b := a + clen l) in *.
  destruct Hk as [[(body & -> & Hbody) Hk]|(Hp & Hpost & Hk)].
  - (* terminated line *)
    rewrite (wt_terminated body Hbody) in Hsub, Hn. rewrite wt_crlf_terminated.
    assert (Hcl : clen (body ++ [LF]) = length body) by (unfold clen; now rewrite wt_terminated).
    assert (Hlen : b + 1 <= length hay).
    { unfold hay. rewrite concat_app. cbn [concat]. rewrite !app_length. cbn [length]. unfold b, a. rewrite Hcl. lia. }
    destruct (rev body) as [|x r] eqn:E.
    + (* empty body *)
      apply rev_nil_inv in E. assert (Hl0 : length body = 0) by (rewrite E; reflexivity).
      exists b. split; [lia|]. split; [lia|]. split; [lia|]. split; [exact Hsub|]. split; [exact HL|].
      right. right. destruct HR as [HR|HR]; [lia|].
      split; [exact HR|]. split; [lia|]. left. unfold b. rewrite Hcl. lia.
    + pose proof (rev_head_in _ _ _ E) as Eb.
      assert (Hx : byte_at hay (b - 1) = x).
      { replace (b - 1) with (a + length (rev r)).
        - rewrite <- byte_at_sub with (b := b); [|unfold b; rewrite Hcl, Eb, app_length; cbn; lia].
          rewrite Hsub, Eb. apply byte_at_mid.
        - unfold b. rewrite Hcl, Eb, app_length. cbn. lia. }
      assert (Hcase : x = 13%N \/ x <> 13%N) by (destruct (N.eq_dec x 13); auto).
      destruct Hcase as [-> | Hne].
      * (* the body ends in "\r": the content is the body without it *)
        exists (a + length (rev r)).
        assert (Hb1 : a + length (rev r) + 1 = b) by (unfold b; rewrite Hcl, Eb, app_length; cbn; lia).
        split; [lia|]. split; [lia|]. split; [lia|]. split.
        { rewrite (sub_prefix hay a b (length (rev r))) by lia. rewrite Hsub, Eb.
          rewrite firstn_app, firstn_all, Nat.sub_diag. cbn. apply app_nil_r. }
        split; [exact HL|]. right. left. split; [|lia].
        replace (a + length (rev r)) with (b - 1) by lia. exact Hx.
      * exists b. split; [lia|]. split; [lia|]. split; [lia|]. split.
        { rewrite Hsub. destruct x as [|p]; [reflexivity|].
          do 4 (destruct p as [p|p|]; try reflexivity). congruence. }
        split; [exact HL|]. right. right. destruct HR as [HR|HR]; [lia|].
        split; [exact HR|]. split; [lia|]. right. now rewrite Hx.
  - (* last line without terminator *)
    destruct Hp as [Hne Hnl]. rewrite (wt_partial l (conj Hne Hnl)) in Hsub.
    exists b. rewrite (wt_crlf_nolf l Hnl). split; [lia|]. split; [lia|]. split; [lia|].
    split; [exact Hsub|]. split; [exact HL|]. left.
    unfold hay. rewrite Hpost, concat_app. cbn [concat]. rewrite !app_length. cbn [length]. unfold a in *. lia.
Qed.

Lemma cm_fwd_crlf h : local_looks_crlf h = true -> forall pre l post,
  lines_shape LF (pre ++ l :: post) -> content_match_crlf h l = true ->
  exists i j, length (concat pre) <= i /\ j <= length (concat pre) + clen l /\
              Matches h (concat (pre ++ l :: post)) i j.
Proof.
  intros Hloc pre l post Hs Hc.
  destruct (crlf_geometry pre l post Hs) as (b & H1 & H2 & H3 & Hsub & HL & HR).
  set (hay := concat (pre ++ l :: post)) in *. set (a := length (concat pre)) in *.
  unfold content_match_crlf in Hc. rewrite <- Hsub in Hc. apply is_match_sem_iff in Hc as (i & j & M).
  pose proof (matches_bounds _ _ _ _ M) as B. rewrite length_sub' in B by lia.
  exists (a + i), (a + j). split; [lia|]. split; [lia|].
  apply (line_locality_crlf_proof h hay a b i j Hloc ltac:(lia) HL HR ltac:(lia)). exact M.
Qed.

Theorem regex_cand_ok_crlf_proof : forall h span lits cfg adv fa s,
  local_looks_crlf h = true ->
  (forall buf i j, Matches h buf i j -> forall p, i <= p < j -> byte_at buf p <> LF) ->
  span_ok h span -> lits_ok h lits -> c_lt cfg = LTCrlf ->
  cand_ok cfg (regex_line_matcher h adv lits span fa) s.
Proof.
  intros h span lits cfg adv fa s Hloc Hclean Hspan Hlits Hlt.
  apply (cand_ok_of_lines h span lits cfg adv fa s (content_match_crlf h) false).
  - now rewrite Hlt.
  - intro l. unfold pmatch, content_match_crlf, regex_line_matcher, regex_matcher. cbn [m_is_match]. now rewrite Hlt.
  - rewrite Hlt. cbn. discriminate.
  - intros ls Hs Hne.
    apply (cand_on_lines h Hclean (content_match_crlf h) false); auto.
    + intros pre l post Hsh Hc. now apply (cm_fwd_crlf h Hloc pre l post Hsh).
    + discriminate.
Qed.

Lemma build_leaf_free_crlf norm rc tr final :
  build norm rc tr = inl (final, Some RTCrlf) -> leaf_free LF final = true.
Proof.
  unfold build. destruct (configure norm rc tr) as [h|e] eqn:E; [|discriminate].
  intro H; injection H as <- Ha. unfold advertised_terminator in Ha.
  destruct (contains_anchor_haystack (wrap rc h)); [discriminate|].
  unfold configure in E. destruct (match c_ban rc with Some x => ban_check x tr | None => None end); [discriminate|].
  rewrite Ha in E. cbn [strip_from_match] in E. unfold strip_from_match_ascii in E.
  change (127 <? 13)%N with false in E. change (127 <? 10)%N with false in E. cbn iota in E.
  destruct (strip_ascii 13 tr) as [h1|e1]; [|discriminate].
  apply leaf_free_wrap. exact (strip_ascii_leaf_free LF (norm h1) h E).
Qed.

(* C01 for the model with the CRLF terminator (after the D1/D9 repairs) *)
Theorem c01_slice_run_eq_ref_crlf_proof :
  forall norm, norm_ok norm ->
  forall rc tr final acc span fa cfg s,
    build norm rc tr = inl (final, Some RTCrlf) ->
    local_looks_crlf final = true ->
    span_ok final span ->
    c_lt cfg = LTCrlf -> c_binary cfg = BNone ->
    slice_by_line_run cfg (regex_line_matcher final (Some RTCrlf)
                             (fast_line_literals (inner_literals rc acc final)) span fa) (fun _ => Continue) s
    = RunOk (grep_ref cfg (is_match_sem final) s).
Proof.
  intros norm Hn rc tr final acc span fa cfg s Hb Hloc Hspan Hlt Hbin.
  set (lits := fast_line_literals (inner_literals rc acc final)).
  change (is_match_sem final) with (m_is_match (regex_line_matcher final (Some RTCrlf) lits span fa)).
  apply slice_eq_ref_proof; [exact Hbin|]. apply find_spec_of_cand_proof.
  apply regex_cand_ok_crlf_proof; auto.
  - intros buf i j Mm p Hp Hbyte.
    pose proof (build_line_terminator_promise_proof norm Hn rc tr final RTCrlf buf i j Hb Mm p Hp) as H.
    cbn in H. rewrite Hbyte in H. cbn in H. discriminate.
  - unfold lits_ok. destruct lits as [ls|] eqn:E; [|exact I]. split.
    + intros l Hin. split; [exact (fast_line_literals_nonempty rc acc final ls E l Hin)|].
      apply not_in_nolf.
      exact (fast_line_literals_free LF ltac:(lia) rc acc final ls (build_leaf_free_crlf norm rc tr final Hb) E l Hin).
    + intros buf a b i j Mm Ha Hbb. exact (candidate_never_skips_proof rc acc final ls buf a b i j E Mm Ha Hbb).
Qed.
