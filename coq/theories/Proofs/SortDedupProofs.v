(* Proofs/SortDedupProofs.v — Vec::sort + Vec::dedup on indices below n is the ascending enumeration of
   the members:  sort_dedup l = filter (mem l) (seq 0 n) *)
From Coq Require Import Sorting.Sorted.
From RG Require Import Base.Bytes Model.Glob Model.GlobSet.

Lemma insert_sorted_in a l x : In x (insert_sorted a l) <-> x = a \/ In x l.
Proof.
  induction l as [|y r IH]; cbn [insert_sorted].
  - cbn. intuition.
  - destruct (Nat.leb a y); cbn [In]; [intuition|]. rewrite IH. intuition.
Qed.

Lemma sort_in l x : In x (sort l) <-> In x l.
Proof.
  induction l as [|a r IH]; cbn [sort]; [tauto|]. rewrite insert_sorted_in, IH. cbn. intuition.
Qed.

Lemma insert_sorted_sorted a l : StronglySorted le l -> StronglySorted le (insert_sorted a l).
Proof.
  induction l as [|y r IH]; intro H; cbn [insert_sorted].
  - repeat constructor.
  - inversion H as [|? ? Hr Hy]; subst. destruct (Nat.leb a y) eqn:E.
    + apply Nat.leb_le in E. constructor; [assumption|]. constructor; [assumption|].
      rewrite Forall_forall in *. intros z Hz. specialize (Hy z Hz). lia.
    + apply Nat.leb_gt in E. constructor; [now apply IH|].
      rewrite Forall_forall in *. intros z Hz. apply insert_sorted_in in Hz as [->|Hz]; [lia|auto].
Qed.

Lemma sort_sorted l : StronglySorted le (sort l).
Proof. induction l; cbn [sort]; [constructor|now apply insert_sorted_sorted]. Qed.

Lemma dedup_spec l :
  StronglySorted le l -> StronglySorted lt (dedup l) /\ (forall x, In x (dedup l) <-> In x l).
Proof.
  induction l as [|a r IH]; intro H.
  - split; [constructor|tauto].
  - inversion H as [|? ? Hr Ha]; subst. destruct (IH Hr) as [IH1 IH2].
    cbn [dedup]. destruct r as [|y r'].
    + split; [repeat constructor|tauto].
    + destruct (Nat.eqb a y) eqn:E.
      * apply Nat.eqb_eq in E. subst y. split; [assumption|].
        intro x. rewrite IH2. cbn. intuition.
      * apply Nat.eqb_neq in E. split.
        -- constructor; [assumption|]. rewrite Forall_forall in *. intros z Hz. apply IH2 in Hz.
           assert (Hay : a <= y) by (apply Ha; now left).
           destruct Hz as [<-|Hz]; [lia|].
           inversion Hr as [|? ? _ Hy]; subst. rewrite Forall_forall in Hy. specialize (Hy z Hz). lia.
        -- intro x. cbn [In]. rewrite IH2. cbn. tauto.
Qed.

Lemma strict_sorted_unique (l1 : list nat) : forall l2,
  StronglySorted lt l1 -> StronglySorted lt l2 -> (forall x, In x l1 <-> In x l2) -> l1 = l2.
Proof.
  induction l1 as [|a r1 IH]; intros l2 H1 H2 Hm.
  - destruct l2 as [|b r2]; [reflexivity|]. exfalso. apply (Hm b). now left.
  - destruct l2 as [|b r2]; [exfalso; apply (Hm a); now left|].
    inversion H1 as [|? ? Hr1 Ha]; subst. inversion H2 as [|? ? Hr2 Hb]; subst.
    rewrite Forall_forall in Ha, Hb.
    assert (a = b).
    { destruct (proj1 (Hm a) (or_introl eq_refl)) as [->|Ha2]; [reflexivity|].
      destruct (proj2 (Hm b) (or_introl eq_refl)) as [->|Hb2]; [reflexivity|].
      specialize (Ha _ Hb2). specialize (Hb _ Ha2). lia. }
    subst b. f_equal. apply IH; try assumption. intro x. split; intro Hx.
    + destruct (proj1 (Hm x) (or_intror Hx)) as [<-|]; [|assumption]. specialize (Ha _ Hx). lia.
    + destruct (proj2 (Hm x) (or_intror Hx)) as [<-|]; [|assumption]. specialize (Hb _ Hx). lia.
Qed.

Lemma filter_seq_sorted f s n : StronglySorted lt (filter f (seq s n)).
Proof.
  revert s; induction n as [|n IH]; intro s; cbn [seq filter]; [constructor|].
  destruct (f s); [|apply IH]. constructor; [apply IH|].
  rewrite Forall_forall. intros z Hz. apply filter_In in Hz as [Hz _]. apply in_seq in Hz. lia.
Qed.

Theorem sort_dedup_filter l n :
  (forall j, In j l -> j < n) ->
  sort_dedup l = filter (fun i => existsb (Nat.eqb i) l) (seq 0 n).
Proof.
  intro Hb. unfold sort_dedup. destruct (dedup_spec (sort l) (sort_sorted l)) as [Hs Hm].
  apply strict_sorted_unique; [assumption|apply filter_seq_sorted|].
  intro x. rewrite Hm, sort_in, filter_In, in_seq, existsb_exists. split.
  - intro Hx. split; [specialize (Hb _ Hx); lia|]. exists x. split; [assumption|apply Nat.eqb_refl].
  - intros [_ (y & Hy & E)]. apply Nat.eqb_eq in E. now subst.
Qed.
