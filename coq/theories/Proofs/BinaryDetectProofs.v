(* Proofs/BinaryDetectProofs.v — lemmas about Model/BinaryDetect.v *)
From RG Require Import Base.Bytes Base.BytesFacts Model.LineBufferBin Model.BinaryDetect
  Proofs.LineBufferBinProofs.

(* a delivered line does not contain b *)
Definition ev_free (b : byte) (ev : event) : Prop :=
  match ev with
  | EMatched _ l | EContext _ _ l => ~ In b l
  | _ => True
  end.

Definition is_line_event (ev : event) : bool :=
  match ev with EMatched _ _ | EContext _ _ _ => true | _ => false end.

Definition is_binary_event (ev : event) : bool := match ev with EBinary _ => true | _ => false end.

(* chronological trace: every line delivered before the first binary_data notification is b-free *)
Fixpoint guarded (b : byte) (tr : list event) : Prop :=
  match tr with
  | [] => True
  | EBinary _ :: _ => True
  | ev :: r => ev_free b ev /\ guarded b r
  end.

Lemma sub_In {A} (s : list A) i j x : In x (sub s i j) -> In x s.
Proof. intro H. apply In_sub_iff in H as (k & _ & _ & H). eapply nth_error_In; exact H. Qed.

Lemma guarded_all b tr : Forall (ev_free b) tr -> guarded b tr.
Proof. induction 1 as [|ev r H _ IH]; cbn; [exact I|]. destruct ev; tauto. Qed.

Lemma guarded_prefix b before off after :
  Forall (ev_free b) before -> guarded b (before ++ EBinary off :: after).
Proof. induction 1 as [|ev r H _ IH]; cbn; [exact I|]. destruct ev; tauto. Qed.

Section Searcher.
  Context {St : Type}.
  Variable sink : St -> event -> St * bool.
  Variable mode : bin_mode.
  Variable b : byte.

  Notation world := (@world St).
  Notation emit := (emit sink).

  Lemma emit_trace w ev : snd (fst (emit w ev)) = ev :: snd w.
  Proof. unfold BinaryDetect.emit. destruct (sink (fst w) ev). reflexivity. Qed.

  Lemma emit_fst w ev w' r : BinaryDetect.emit sink w ev = (w', r) -> w' = fst (emit w ev).
  Proof. intro H. rewrite H. reflexivity. Qed.

  Definition mode_byte (m : bin_mode) : option byte :=
    match m with BNone => None | BQuit x | BConvert x => Some x end.

  Lemma detect_binary_trace buf s e cb w q cb' w' :
    detect_binary sink mode buf s e cb w = (q, cb', w') ->
    (w' = w /\ cb' = cb /\ (cb = None -> forall bb, mode_byte mode = Some bb -> memchr bb (sub buf s e) = None)) \/
    (exists i bb, mode_byte mode = Some bb /\ memchr bb (sub buf s e) = Some i /\
                  w' = fst (emit w (EBinary (s + i))) /\ cb = None /\ cb' = Some (s + i)).
  Proof.
    unfold detect_binary. destruct cb as [o|].
    - intro H. injection H as _ <- <-. left. repeat split. discriminate.
    - destruct mode as [|b0|b0]; [intro H; injection H as _ <- <-; left; repeat split; intros _ bb Hb; discriminate| |];
        (destruct (memchr b0 (sub buf s e)) as [i|] eqn:M;
         [|intro H; injection H as _ <- <-; left; repeat split; intros _ bb Hb; injection Hb as <-; exact M];
         destruct (BinaryDetect.emit sink w (EBinary (s + i))) as [w1 r] eqn:E;
         apply emit_fst in E;
         destruct r; cbn; intro H; injection H as _ <- <-; right; exists i, b0; repeat split; assumption).
  Qed.

  (* what detect_binary guarantees when it lets the call through *)
  Lemma detect_binary_pass buf s e cb w cb' w' :
    detect_binary sink mode buf s e cb w = (false, cb', w') ->
    (mode = BQuit b -> ~ In b (sub buf s e)) /\
    (mode = BConvert b -> cb' = None -> ~ In b (sub buf s e)).
  Proof.
    unfold detect_binary. destruct cb as [o|].
    - intro H. injection H as Hq <- <-. split; [intros ->; discriminate|discriminate].
    - destruct mode as [|b0|b0].
      + intro H. split; discriminate.
      + destruct (memchr b0 (sub buf s e)) as [i|] eqn:M.
        * destruct (BinaryDetect.emit sink w (EBinary (s + i))) as [w1 r]. destruct r; discriminate.
        * intro H. split; [|discriminate]. intro Hm. injection Hm as <-. apply memchr_none. exact M.
      + destruct (memchr b0 (sub buf s e)) as [i|] eqn:M.
        * destruct (BinaryDetect.emit sink w (EBinary (s + i))) as [w1 r]. destruct r; cbn; intro H; [|discriminate].
          injection H as <- <-. split; discriminate.
        * intro H. split; [discriminate|]. intros Hm _. injection Hm as <-. apply memchr_none. exact M.
  Qed.

  (* ---- a generic preservation lemma: P is a predicate on (Core.binary_byte_offset, world) ---- *)
  Definition inert (ev : event) : Prop :=
    match ev with EBreak | EFinish _ _ => True | _ => False end.

  Section Pres.
    Variable P : option nat -> world -> Prop.
    Hypothesis P_inert : forall cb w ev, inert ev -> P cb w -> P cb (fst (emit w ev)).
    Variables (binary : bool) (abs : nat) (buf : bytes).
    (* binary_data is only ever called from the guard of the slice strategies *)
    Hypothesis P_binary : binary = true -> forall w s e i bb,
        mode_byte mode = Some bb -> memchr bb (sub buf s e) = Some i ->
        P None w -> P (Some (s + i)) (fst (emit w (EBinary (s + i)))).

    Definition line_ok (cb' : option nat) (c : call) : Prop :=
      binary = false \/
      ((mode = BQuit b -> ~ In b (sub buf (c_start c) (c_end c))) /\
       (mode = BConvert b -> cb' = None -> ~ In b (sub buf (c_start c) (c_end c)))).

    Hypothesis P_line : forall cb w c, line_ok cb c -> P cb w -> P cb (fst (emit w (call_event abs buf c))).

    Lemma detect_binary_pres s e cb w q cb' w' :
      binary = true ->
      detect_binary sink mode buf s e cb w = (q, cb', w') -> P cb w -> P cb' w'.
    Proof.
      intros Hb H HP. destruct (detect_binary_trace _ _ _ _ _ _ _ _ H) as [(-> & -> & _)|(i & bb & Hm & Hi & -> & -> & ->)]; [exact HP|].
      eapply P_binary; eassumption.
    Qed.

    Lemma guard_pres c cb w q cb' w' :
      guard sink mode binary buf c cb w = (q, cb', w') ->
      P cb w -> P cb' w' /\ (q = false -> line_ok cb' c).
    Proof.
      unfold guard. assert (Hb : binary = true \/ binary = false) by (clear; destruct binary; auto).
      destruct Hb as [B|B]; rewrite B.
      - intros H HP. split; [eapply detect_binary_pres; [exact B|eassumption|eassumption]|].
        intros ->. right. eapply detect_binary_pass. exact H.
      - intros H HP. injection H as <- <- <-. split; [exact HP|]. intros _. left. exact B.
    Qed.

    Lemma emit_break_pres c cb w w' r :
      emit_break sink c w = (w', r) -> P cb w -> P cb w'.
    Proof.
      unfold emit_break. destruct (c_break c).
      - intros H HP. apply emit_fst in H as ->. apply P_inert; [exact I|exact HP].
      - intros H HP. injection H as <- _. exact HP.
    Qed.

    Lemma emit_line_pres c cb w w' r :
      line_ok cb c -> BinaryDetect.emit sink w (call_event abs buf c) = (w', r) -> P cb w -> P cb w'.
    Proof. intros Hok H HP. apply emit_fst in H as ->. apply P_line; assumption. Qed.

    Lemma sink_call_pres c cb w go cb' w' :
      sink_call sink mode binary abs buf c cb w = (go, cb', w') -> P cb w -> P cb' w'.
    Proof.
      unfold sink_call. intros H HP.
      destruct (negb (c_matched c) && match c_kind c with KBefore => true | _ => false end).
      - destruct (emit_break sink c w) as [w1 r1] eqn:E1. pose proof (emit_break_pres _ _ _ _ _ E1 HP) as HP1.
        destruct r1; cbn [negb] in H; [|injection H as _ <- <-; exact HP1].
        destruct (guard sink mode binary buf c cb w1) as [[q cb2] w2] eqn:E2.
        destruct (guard_pres _ _ _ _ _ _ E2 HP1) as [HP2 Hok].
        destruct q; [injection H as _ <- <-; exact HP2|].
        destruct (BinaryDetect.emit sink w2 (call_event abs buf c)) as [w3 r3] eqn:E3.
        injection H as _ <- <-. eapply emit_line_pres; [apply Hok; reflexivity|exact E3|exact HP2].
      - destruct (guard sink mode binary buf c cb w) as [[q cb2] w2] eqn:E2.
        destruct (guard_pres _ _ _ _ _ _ E2 HP) as [HP2 Hok].
        destruct q; [injection H as _ <- <-; exact HP2|].
        destruct (if c_matched c then emit_break sink c w2 else (w2, true)) as [w3 r3] eqn:E3.
        assert (HP3 : P cb2 w3).
        { destruct (c_matched c); [eapply emit_break_pres; eassumption|injection E3 as <- _; exact HP2]. }
        destruct r3; cbn [negb] in H; [|injection H as _ <- <-; exact HP3].
        destruct (BinaryDetect.emit sink w3 (call_event abs buf c)) as [w4 r4] eqn:E4.
        injection H as _ <- <-. eapply emit_line_pres; [apply Hok; reflexivity|exact E4|exact HP3].
    Qed.

    Lemma run_calls_pres cs : forall cb w st cb' w',
      run_calls sink mode binary abs buf cs cb w = (st, cb', w') -> P cb w -> P cb' w'.
    Proof.
      induction cs as [|c cs IH]; intros cb w st cb' w' H HP; cbn [run_calls] in H.
      - injection H as _ <- <-. exact HP.
      - destruct (sink_call sink mode binary abs buf c cb w) as [[go cb1] w1] eqn:E.
        pose proof (sink_call_pres _ _ _ _ _ _ E HP) as HP1.
        destruct go; [eapply IH; eassumption|injection H as _ <- <-; exact HP1].
    Qed.
  End Pres.

  Lemma call_event_free abs buf c : ~ In b (sub buf (c_start c) (c_end c)) -> ev_free b (call_event abs buf c).
  Proof. unfold call_event. destruct (c_matched c); cbn; tauto. Qed.

  (* ---- slice strategies ---- *)
  Lemma slice_run_pres (P : option nat -> world -> Prop) sniff slice plan fp s0 :
    (forall cb w ev, inert ev -> P cb w -> P cb (fst (emit w ev))) ->
    (forall w s e i bb, mode_byte mode = Some bb -> memchr bb (sub slice s e) = Some i ->
                        P None w -> P (Some (s + i)) (fst (emit w (EBinary (s + i))))) ->
    (forall cb w c, line_ok true slice cb c -> P cb w -> P cb (fst (emit w (call_event 0 slice c)))) ->
    P None (fst (emit (s0, []) EBegin)) ->
    exists cb, P cb (slice_run sink mode sniff slice plan fp (s0, [])).
  Proof.
    intros P_inert P_binary P_line P0. unfold slice_run.
    destruct (BinaryDetect.emit sink (s0, []) EBegin) as [w1 r1] eqn:E1.
    assert (P1 : P None w1) by (first [exact P0 | apply emit_fst in E1; rewrite E1; exact P0]). clear P0. rename P1 into P0.
    assert (Hfin : forall cb w pos, P cb w ->
              exists cb', P cb' (fst (BinaryDetect.emit sink w (EFinish (byte_count cb pos) cb)))).
    { intros cb w pos HP. exists cb. apply P_inert; [exact I|exact HP]. }
    destruct r1; [|apply Hfin; exact P0].
    destruct (detect_binary sink mode slice 0 (Nat.min (length slice) sniff) None w1) as [[q cb2] w2] eqn:E2.
    pose proof (detect_binary_pres P true slice (fun _ => P_binary) _ _ _ _ _ _ _ eq_refl E2 P0) as HP2.
    destruct q; [apply Hfin; exact HP2|].
    destruct (run_calls sink mode true 0 slice plan cb2 w2) as [[st cb3] w3] eqn:E3.
    apply Hfin. eapply (run_calls_pres P P_inert true 0 slice (fun _ => P_binary) P_line); eassumption.
  Qed.

  Lemma slice_quit_events_free_proof sniff slice plan fp s0 :
    mode = BQuit b ->
    Forall (ev_free b) (snd (slice_run sink mode sniff slice plan fp (s0, []))).
  Proof.
    intro Hm.
    destruct (slice_run_pres (fun _ w => Forall (ev_free b) (snd w)) sniff slice plan fp s0) as [cb H]; [| | | |exact H].
    - intros cb w ev Hi HP. rewrite emit_trace. constructor; [destruct ev; cbn in *; tauto|exact HP].
    - intros w s e i bb _ _ HP. rewrite emit_trace. constructor; [exact I|exact HP].
    - intros cb w c [Hb|[Hq _]] HP; [discriminate|]. rewrite emit_trace. constructor; [|exact HP].
      apply call_event_free. apply Hq. exact Hm.
    - rewrite emit_trace. constructor; [exact I|constructor].
  Qed.

  Lemma Forall_rev' {A} (Q : A -> Prop) l : Forall Q l -> Forall Q (rev l).
  Proof. intro H. apply Forall_forall. intros x Hx. apply in_rev in Hx. revert x Hx. apply Forall_forall. exact H. Qed.

  Lemma slice_convert_guarded_proof sniff slice plan fp s0 :
    mode = BConvert b ->
    guarded b (rev (snd (slice_run sink mode sniff slice plan fp (s0, [])))).
  Proof.
    intro Hm.
    set (P := fun (cb : option nat) (w : world) =>
                match cb with
                | None => Forall (ev_free b) (snd w)
                | Some _ => exists after off before,
                              snd w = after ++ EBinary off :: before /\ Forall (ev_free b) before
                end).
    destruct (slice_run_pres P sniff slice plan fp s0) as [cb H].
    - intros [o|] w ev Hi HP; unfold P in *; rewrite emit_trace.
      + destruct HP as (a & off & bf & -> & Hf). exists (ev :: a), off, bf. split; [reflexivity|exact Hf].
      + constructor; [destruct ev; cbn in *; tauto|exact HP].
    - intros w s e i bb _ _ HP. unfold P in *. rewrite emit_trace. exists [], (s + i), (snd w). split; [reflexivity|exact HP].
    - intros [o|] w c Hok HP; unfold P in *; rewrite emit_trace.
      + destruct HP as (a & off & bf & -> & Hf). exists (call_event 0 slice c :: a), off, bf. split; [reflexivity|exact Hf].
      + destruct Hok as [Hb|[_ Hc]]; [discriminate|]. constructor; [|exact HP].
        apply call_event_free. apply Hc; [exact Hm|reflexivity].
    - unfold P. rewrite emit_trace. constructor; [exact I|constructor].
    - destruct cb as [o|]; unfold P in H.
      + destruct H as (a & off & bf & -> & Hf). rewrite rev_app_distr. cbn [rev]. rewrite <- app_assoc. cbn [app].
        apply guarded_prefix. apply Forall_rev'. exact Hf.
      + apply guarded_all. apply Forall_rev'. exact H.
  Qed.

  (* anything preserved by every emission other than begin holds of the final world *)
  Lemma slice_run_emit_pres (Q : world -> Prop) sniff slice plan fp s0 :
    (forall w ev, ev <> EBegin -> Q w -> Q (fst (emit w ev))) ->
    Q (fst (emit (s0, []) EBegin)) ->
    Q (slice_run sink mode sniff slice plan fp (s0, [])).
  Proof.
    intros HQ H0.
    destruct (slice_run_pres (fun _ w => Q w) sniff slice plan fp s0) as [cb H]; [| | | |exact H].
    - intros cb w ev Hi HP. apply HQ; [destruct ev; cbn in Hi; try contradiction; discriminate|exact HP].
    - intros w s e i bb _ _ HP. apply HQ; [discriminate|exact HP].
    - intros cb w c _ HP. apply HQ; [unfold call_event; destruct (c_matched c); discriminate|exact HP].
    - exact H0.
  Qed.

  (* ---- reader strategy over any Core ---- *)
  Section Reader.
    Context {core : Type}.
    Variable c_roll : core -> bytes -> nat * core.
    Variable c_plan : core -> bytes -> list call * bool * core.
    Variable cfg : lb_config.
    Hypothesis Hhides : hides cfg b.
    Hypothesis roll_bound : forall c buf, fst (c_roll c buf) <= length buf.
    (* Q: preserved by emitting any event that is not begin and carries no b *)
    Variable Q : world -> Prop.
    Hypothesis Q_emit : forall w ev, ev <> EBegin -> ev_free b ev -> Q w -> Q (fst (emit w ev)).

    Notation rbl_state := (@rbl_state St core).

    Definition rbl_inv (st : rbl_state) : Prop := lb_reach cfg (rs_lb st) /\ Q (rs_w st).

    Lemma rbl_fill_inv st r st' :
      rbl_fill sink c_roll cfg st = (r, st') -> rbl_inv st -> rbl_inv st'.
    Proof.
      unfold rbl_fill. intros H [Hr Hf].
      destruct (c_roll (rs_core st) (lb_buffer (rs_lb st))) as [consumed core'] eqn:Er.
      assert (Hc : consumed <= length (lb_buffer (rs_lb st))).
      { pose proof (roll_bound (rs_core st) (lb_buffer (rs_lb st))) as X. rewrite Er in X. exact X. }
      pose proof (reach_consume cfg _ _ Hr Hc) as Hr1.
      destruct (lb_fill cfg (lb_consume (rs_lb st) consumed) (rs_rd st)) as [[[fr lb2] rd2]|] eqn:Ef;
        [|injection H as _ <-; split; assumption].
      pose proof (reach_fill cfg _ _ _ _ _ Hr1 Ef) as Hr2.
      destruct fr as [didread| |]; [|injection H as _ <-; split; assumption|injection H as _ <-; split; assumption].
      match type of H with (let (w, notified_stop) := ?X in _) = _ => destruct X as [w ns] eqn:Ew end.
      assert (Hw : Q w).
      { destruct (match lb_bin (rs_lb st) with Some _ => true | None => false end); [injection Ew as <- _; exact Hf|].
        destruct (lb_bin lb2) as [off|]; [|injection Ew as <- _; exact Hf].
        destruct (BinaryDetect.emit sink (rs_w st) (EBinary off)) as [w1 r1] eqn:Ee. injection Ew as <- _.
        apply emit_fst in Ee as ->. apply Q_emit; [discriminate|exact I|exact Hf]. }
      destruct ns; [injection H as _ <-; split; assumption|].
      destruct (negb didread || _); [injection H as _ <-; split; assumption|].
      destruct (Nat.eqb consumed 0 && Nat.eqb (length (lb_buffer (rs_lb st))) (length (lb_buffer lb2))) eqn:Eq;
        injection H as _ <-; (split; [|exact Hw]); [|exact Hr2].
      apply andb_true_iff in Eq as [_ Eq]. apply Nat.eqb_eq in Eq. cbn [rs_lb].
      apply reach_consume; [exact Hr2|lia].
    Qed.

    Lemma rbl_loop_inv fuel : forall st st' o,
      rbl_loop sink mode c_roll c_plan cfg fuel st = (st', o) -> rbl_inv st -> rbl_inv st'.
    Proof.
      induction fuel as [|fuel IH]; intros st st' o H Hinv; cbn [rbl_loop] in H; [injection H as <- _; exact Hinv|].
      destruct (rbl_fill sink c_roll cfg st) as [r st1] eqn:Ef.
      pose proof (rbl_fill_inv _ _ _ Ef Hinv) as Hinv1.
      destruct r as [[|]| |]; try (injection H as <- _; exact Hinv1).
      destruct (c_plan (rs_core st1) (lb_buffer (rs_lb st1))) as [[calls go_all] core'] eqn:Ep.
      destruct (run_calls sink mode false (rs_cabs st1) (lb_buffer (rs_lb st1)) calls None (rs_w st1))
        as [[stopped cb'] w'] eqn:Erun.
      destruct Hinv1 as [Hr1 Hf1].
      assert (Hw' : Q w').
      { eapply (run_calls_pres (fun _ w => Q w)); [| | |exact Erun|exact Hf1].
        - intros cb w ev Hi HP. apply Q_emit; [destruct ev; cbn in Hi; try contradiction; discriminate
                                             |destruct ev; cbn in *; tauto|exact HP].
        - discriminate.
        - intros cb w c _ HP. apply Q_emit; [unfold call_event; destruct (c_matched c); discriminate| |exact HP].
          apply call_event_free. intro Hin.
          apply sub_In in Hin. revert Hin. apply (reach_buffer_free cfg b); assumption. }
      assert (Hinv2 : rbl_inv (mk_rs (rs_lb st1) (rs_rd st1) core' (rs_cabs st1) w')) by (split; assumption).
      destruct stopped; [injection H as <- _; exact Hinv2|].
      destruct go_all; [eapply IH; eassumption|injection H as <- _; exact Hinv2].
    Qed.

    Lemma rbl_run_pres fuel lb0 rd core0 s0 :
      Q (fst (emit (s0, []) EBegin)) ->
      Q (fst (rbl_run sink mode c_roll c_plan cfg fuel lb0 rd core0 (s0, []))).
    Proof.
      intro H0. unfold rbl_run. destruct (BinaryDetect.emit sink (s0, []) EBegin) as [w1 r1] eqn:E1.
      assert (H1 : Q w1) by (first [exact H0 | apply emit_fst in E1; rewrite E1; exact H0]). clear H0. rename H1 into H0.
      assert (Hinv0 : rbl_inv (mk_rs (lb_clear lb0) rd core0 0 w1)) by (split; [apply reach_clear|exact H0]).
      match goal with |- context [let (st, o) := ?X in _] => destruct X as [st o] eqn:El end.
      assert (Hinv : rbl_inv st).
      { destruct r1; [eapply rbl_loop_inv; eassumption|injection El as <- _; exact Hinv0]. }
      destruct Hinv as [_ Hf]. destruct o; cbn [fst snd]; [|exact Hf|exact Hf].
      apply Q_emit; [discriminate|exact I|exact Hf].
    Qed.
  End Reader.

  Lemma rbl_events_free_proof {core : Type} (c_roll : core -> bytes -> nat * core)
        (c_plan : core -> bytes -> list call * bool * core) cfg fuel lb0 rd core0 s0 :
    hides cfg b -> (forall c buf, fst (c_roll c buf) <= length buf) ->
    Forall (ev_free b) (snd (fst (rbl_run sink mode c_roll c_plan cfg fuel lb0 rd core0 (s0, [])))).
  Proof.
    intros Hh Hr. apply (rbl_run_pres c_roll c_plan cfg Hh Hr (fun w => Forall (ev_free b) (snd w))).
    - intros w ev _ Hf HQ. rewrite emit_trace. constructor; assumption.
    - rewrite emit_trace. constructor; [exact I|constructor].
  Qed.
End Searcher.
