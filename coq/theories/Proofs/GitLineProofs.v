(* Proofs/GitLineProofs.v — line level: for every line in the class (Spec/GitLineClass.v) and every path of
   separator-free components, ripgrep's reading of the line = git's; then file level and tree level. *)
From RG Require Import Base.Bytes Base.BytesFacts Model.Glob Model.GlobSet Spec.GlobSem Spec.GlobSetSem
  Model.Gitignore Spec.GitSem Spec.GitGrammar Spec.GitLineClass
  Proofs.GlobSemProofs Proofs.GlobPathProofs Proofs.GlobStrategyProofs Proofs.GitSemProofs Proofs.GitSegProofs
  Proofs.GlobSetProofs Proofs.GitignoreProofs.

Lemma ranges_eqb_eq a : forall b, ranges_eqb a b = true -> a = b.
Proof.
  induction a as [|[x1 y1] a IH]; intros [|[x2 y2] b] H; cbn in H; try discriminate; [reflexivity|].
  apply andb_true_iff in H as [H H3]. apply andb_true_iff in H as [H1 H2].
  apply N.eqb_eq in H1, H2. subst. f_equal. now apply IH.
Qed.

Lemma token_eqb_eq a b : token_eqb a b = true -> a = b.
Proof.
  destruct a, b; cbn; intro H; try discriminate; try reflexivity.
  - apply N.eqb_eq in H. now subst.
  - apply andb_true_iff in H as [H1 H2]. apply Bool.eqb_prop in H1. apply ranges_eqb_eq in H2. now subst.
Qed.

Lemma tokens_eqb_eq a : forall b, tokens_eqb a b = true -> a = b.
Proof.
  induction a as [|x a IH]; intros [|y b] H; cbn in H; try discriminate; [reflexivity|].
  apply andb_true_iff in H as [H1 H2]. apply token_eqb_eq in H1. subst. f_equal. now apply IH.
Qed.

Lemma cpat_seg_id l : map cpat_of (map seg_of_cpat l) = l.
Proof. induction l as [|[|ws] l IH]; cbn; now rewrite ?IH. Qed.

Lemma wmatch_star_true ci : forall s, wmatch ci [WStar] s = true.
Proof. induction s as [|b s IH]; [reflexivity|]. cbn [wmatch] in *. rewrite IH. apply orb_true_r. Qed.

Lemma wmatch_star2_true ci : forall s, wmatch ci [WStar; WStar] s = true.
Proof.
  intro s. destruct s as [|b s]; [reflexivity|].
  change (wmatch ci [WStar; WStar] (b :: s)) with
    (wmatch ci [WStar] (b :: s) || (fix star (s0 : bytes) : bool :=
        wmatch ci [WStar] s0 || match s0 with [] => false | _ :: s' => star s' end) s).
  now rewrite wmatch_star_true.
Qed.

Lemma lone_dstar_everything ci comps : comps <> [] -> cmatch ci [CDStar; CSimple [WStar; WStar]] comps = true.
Proof.
  intro H. induction comps as [|c r IH]; [congruence|].
  destruct r as [|c2 r].
  - cbn [cmatch]. now rewrite wmatch_star2_true.
  - change (cmatch ci [CDStar; CSimple [WStar; WStar]] (c :: c2 :: r)) with
      (cmatch ci [CSimple [WStar; WStar]] (c :: c2 :: r) || cmatch ci [CDStar; CSimple [WStar; WStar]] (c2 :: r)).
    rewrite IH by discriminate. apply orb_true_r.
Qed.

Theorem line_class_sound_proof ci line rel is_dir :
  line_class ci line = true -> rel <> [] -> Forall comp_ok rel ->
  rg_line re_spec ci line rel is_dir = git_line ci line rel is_dir.
Proof.
  unfold line_class, rg_line, git_line. intros H Hne Hrel.
  destruct (add_line ci line) as [|e|g]; destruct (git_parse_line line) as [p|]; try discriminate; try reflexivity.
  apply andb_true_iff in H as [H Hd]. apply andb_true_iff in H as [H Hw]. apply andb_true_iff in H as [H Hls].
  apply andb_true_iff in H as [H Hci].
  apply Bool.eqb_prop in Hd, Hw, Hci. rewrite Hd, Hw. unfold pat_matches, re_spec.
  apply orb_true_iff in H as [H|H]; apply andb_true_iff in H as [Hsegs Htok]; apply tokens_eqb_eq in Htok; rewrite Htok.
  - rewrite (seg_sem_eq (g_opts (ig_glob g)) ci Hci Hls false _ rel Hsegs Hne Hrel).
    unfold git_cpats. cbn [app]. rewrite cpat_seg_id. rewrite andb_comm. reflexivity.
  - assert (E : gp_comps p = [CDStar; CSimple [WStar; WStar]]).
    { revert Hsegs. generalize (gp_comps p). intros cps Hl. unfold is_lone_dstar in Hl.
      repeat (match type of Hl with context [match ?x with _ => _ end] => destruct x; try discriminate Hl end).
      reflexivity. }
    rewrite E, lone_dstar_everything by assumption. cbn [tmatch]. rewrite andb_comm. reflexivity.
Qed.

(* ---------------------------------------------------------------- file level *)
Definition verdict_opt (v : verdict) : option bool :=
  match v with VNone => None | VIgnore => Some true | VWhitelist => Some false end.

Lemma find_app {A} (f : A -> bool) (a b : list A) :
  find f (a ++ b) = match find f a with Some x => Some x | None => find f b end.
Proof. induction a as [|x a IH]; [reflexivity|]. cbn. destruct (f x); [reflexivity|exact IH]. Qed.

Definition lines_in_class (ci : bool) (lines : list bytes) : Prop :=
  Forall (fun l => line_class ci l = true) lines.

Lemma file_verdict_cons ci l r rel is_dir :
  file_verdict ci (l :: r) rel is_dir =
  match file_verdict ci r rel is_dir with Some v => Some v | None => git_line ci l rel is_dir end.
Proof. reflexivity. Qed.

Theorem file_eq_git_proof ci lines rel is_dir :
  lines_in_class ci lines -> rel <> [] -> Forall comp_ok rel ->
  verdict_opt (matched_stripped re_spec (add_lines ci lines) (join rel) is_dir) = file_verdict ci lines rel is_dir.
Proof.
  intros Hcl Hne Hrel. rewrite matched_stripped_last_match_proof.
  induction lines as [|l r IH]; [reflexivity|].
  pose proof (Forall_inv Hcl) as Hl. pose proof (Forall_inv_tail Hcl) as Hr. specialize (IH Hr).
  rewrite file_verdict_cons, <- (line_class_sound_proof ci l rel is_dir Hl Hne Hrel).
  unfold rg_line. cbn [add_lines]. destruct (add_line ci l) as [|e|g].
  - rewrite IH. now destruct (file_verdict ci r rel is_dir).
  - rewrite IH. now destruct (file_verdict ci r rel is_dir).
  - cbn [rev]. rewrite find_app. rewrite <- IH.
    destruct (find (fun g0 => line_hit g0 (join rel) is_dir) (rev (add_lines ci r))) as [x|].
    + cbn [verdict_of verdict_opt]. now destruct (ig_whitelist x).
    + cbn [find verdict_of verdict_opt]. unfold line_hit, dir_ok.
      destruct (re_spec (ig_glob g) (join rel) && (negb (ig_only_dir g) || is_dir)); [|reflexivity].
      cbn [verdict_of verdict_opt]. now destruct (ig_whitelist g).
Qed.

(* ---------------------------------------------------------------- tree level *)
Definition parse_igs (ci : bool) (igs : list (list bytes * list bytes)) : list ignore_file :=
  map (fun dl => (fst dl, add_lines ci (snd dl))) igs.
Definition igs_in_class (ci : bool) (igs : list (list bytes * list bytes)) : Prop :=
  Forall (fun dl => lines_in_class ci (snd dl)) igs.

Lemma comps_prefix_strip d : forall p, comps_prefix d p = strip_dir d p.
Proof.
  induction d as [|x d IH]; intros p; [reflexivity|]. destruct p as [|y p]; [reflexivity|].
  cbn. destruct (bytes_eqb x y); [apply IH|reflexivity].
Qed.

Lemma comps_prefix_suffix d : forall p rel, comps_prefix d p = Some rel -> Forall comp_ok p -> Forall comp_ok rel.
Proof.
  induction d as [|x d IH]; intros p rel H Hp; cbn in H.
  - injection H as <-. exact Hp.
  - destruct p as [|y p]; [discriminate|]. destruct (bytes_eqb x y); [|discriminate].
    eapply IH; [eassumption|]. now apply Forall_inv_tail in Hp.
Qed.

Lemma skipped_eq ci igs path is_dir :
  igs_in_class ci igs -> Forall comp_ok path ->
  skipped re_spec (parse_igs ci igs) path is_dir = git_excluded ci igs path is_dir.
Proof.
  intros Hcl Hp. unfold skipped. induction igs as [|[d lines] r IH]; [reflexivity|].
  pose proof (Forall_inv Hcl) as Hl. pose proof (Forall_inv_tail Hcl) as Hr. specialize (IH Hr). cbn [snd] in Hl.
  cbn [parse_igs map fst snd chain_verdict git_excluded]. fold (parse_igs ci r).
  rewrite <- (comps_prefix_strip d path). destruct (comps_prefix d path) as [rel|] eqn:E; [|exact IH].
  destruct rel as [|c0 rel']; [exact IH|].
  assert (Hrel : Forall comp_ok (c0 :: rel')) by (eapply comps_prefix_suffix; eassumption).
  rewrite <- (file_eq_git_proof ci lines (c0 :: rel') is_dir Hl ltac:(discriminate) Hrel).
  destruct (matched_stripped re_spec (add_lines ci lines) (join (c0 :: rel')) is_dir); [exact IH|reflexivity|reflexivity].
Qed.

Lemma ancestors_eq ci igs : forall rest pre,
  igs_in_class ci igs -> Forall comp_ok (pre ++ rest) ->
  ancestors_ok re_spec (parse_igs ci igs) pre rest = git_ancestors_ok ci igs pre rest.
Proof.
  induction rest as [|c r IH]; intros pre Hcl Hp; [reflexivity|].
  destruct r as [|c2 r']; [reflexivity|].
  cbn [ancestors_ok git_ancestors_ok].
  assert (Hpc : Forall comp_ok (pre ++ [c])).
  { apply Forall_app in Hp as [H1 H2]. apply Forall_app. split; [assumption|]. constructor; [|constructor].
    now apply Forall_inv in H2. }
  rewrite skipped_eq by assumption. f_equal. apply IH; [assumption|].
  now rewrite <- app_assoc.
Qed.

Theorem tree_rg_eq_git_proof ci igs path is_dir :
  igs_in_class ci igs -> Forall comp_ok path ->
  visited re_spec (parse_igs ci igs) path is_dir = git_visited ci igs path is_dir.
Proof.
  intros Hcl Hp. unfold visited, git_visited. rewrite ancestors_eq, skipped_eq by assumption. reflexivity.
Qed.

(* the set of entries of any finite tree that are visited *)
Corollary tree_listing_eq_git_proof ci igs (entries : list (list bytes * bool)) :
  igs_in_class ci igs -> Forall (fun e => Forall comp_ok (fst e)) entries ->
  filter (fun e => visited re_spec (parse_igs ci igs) (fst e) (snd e)) entries =
  filter (fun e => git_visited ci igs (fst e) (snd e)) entries.
Proof.
  intros Hcl He. apply filter_ext_in. intros e Hin. rewrite Forall_forall in He.
  apply tree_rg_eq_git_proof; [assumption|]. now apply He.
Qed.
