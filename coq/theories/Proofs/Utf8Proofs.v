(* Proofs/Utf8Proofs.v — the strict decoder of Spec/RegexSem.v inverts char::encode_utf8:
   a successful decode yields a scalar value whose encoding is exactly the bytes consumed; and the
   byte-range over-approximation used by non_matching.rs (Utf8Sequences) covers every byte of
   every encoding in the range. *)
From RG Require Import Base.Bytes Spec.RegexSem Model.RegexBuild Proofs.RegexSemProofs Proofs.RegexBuildProofs.
From Coq Require Import ZArith Lia.
Local Open Scope N_scope.


Lemma dm a b c : c <> 0 -> b < c -> (a * c + b) / c = a /\ (a * c + b) mod c = b.
Proof.
  intros Hc Hb. split.
  - symmetry. apply (N.div_unique _ _ _ b); lia.
  - symmetry. apply (N.mod_unique _ _ a); lia.
Qed.

Lemma digits2 a b : b < 64 -> (a * 64 + b) / 64 = a /\ (a * 64 + b) mod 64 = b.
Proof. intro. apply dm; lia. Qed.

Lemma digits3 a b c : b < 64 -> c < 64 ->
  let cp := a * 4096 + b * 64 + c in
  cp / 4096 = a /\ (cp / 64) mod 64 = b /\ cp mod 64 = c.
Proof.
  intros Hb Hc cp.
  assert (E : cp = (a * 64 + b) * 64 + c) by (unfold cp; lia).
  destruct (digits2 (a * 64 + b) c Hc) as [E1 E2]. destruct (digits2 a b Hb) as [E3 E4].
  rewrite E. split; [|split].
  - change 4096 with (64 * 64). rewrite <- N.div_div by lia. now rewrite E1, E3.
  - now rewrite E1, E4.
  - exact E2.
Qed.

Lemma digits4 a b c d : b < 64 -> c < 64 -> d < 64 ->
  let cp := a * 262144 + b * 4096 + c * 64 + d in
  cp / 262144 = a /\ (cp / 4096) mod 64 = b /\ (cp / 64) mod 64 = c /\ cp mod 64 = d.
Proof.
  intros Hb Hc Hd cp.
  assert (E : cp = (a * 4096 + b * 64 + c) * 64 + d) by (unfold cp; lia).
  destruct (digits2 (a * 4096 + b * 64 + c) d Hd) as [E1 E2].
  destruct (digits3 a b c Hb Hc) as (E3 & E4 & E5).
  rewrite E. split; [|split; [|split]].
  - change 262144 with (64 * 4096). rewrite <- N.div_div by lia. now rewrite E1, E3.
  - change 4096 with (64 * 64) at 2. rewrite <- N.div_div by lia. now rewrite E1, E4.
  - now rewrite E1, E5.
  - exact E2.
Qed.

Lemma utf8_decode_encode t cp n :
  utf8_decode t = DOk cp n ->
  is_scalar cp = true /\ firstn n t = utf8_encode cp /\ n = length (utf8_encode cp).
Proof.
  unfold utf8_decode. destruct t as [|b0 r]; [discriminate|].
  destruct (utf8_len b0) as [k|] eqn:EL; [|discriminate].
  apply utf8_len_cases in EL.
  destruct EL as [[-> Hb]|[[-> Hb]|[[-> Hb]|[-> Hb]]]].
  - intro H; injection H as <- <-. unfold is_scalar, utf8_encode.
    assert (E : (b0 <? 128) = true) by (apply N.ltb_lt; lia). rewrite E.
    split; [|split; reflexivity].
    apply andb_true_iff; split; [apply orb_true_iff; left; apply N.ltb_lt; lia|apply N.leb_le; lia].
  - destruct r as [|b1 r]; [discriminate|]. destruct (_ && _) eqn:C; [|discriminate].
    intro H; injection H as <- <-. unfold is_cont in C. bool_to_prop.
    set (cp := (b0 - 192) * 64 + (b1 - 128)).
    assert (Hcp : 128 <= cp <= 2047) by (unfold cp; lia).
    unfold is_scalar, utf8_encode.
    assert (E1 : (cp <? 128) = false) by (apply N.ltb_ge; lia).
    assert (E2 : (cp <? 2048) = true) by (apply N.ltb_lt; lia).
    rewrite E1, E2. split; [|split; [|reflexivity]].
    + apply andb_true_iff; split; [apply orb_true_iff; left; apply N.ltb_lt; lia|apply N.leb_le; lia].
    + cbn [firstn]. destruct (digits2 (b0 - 192) (b1 - 128)) as [D1 D2]; [lia|]. fold cp in D1, D2.
      rewrite D1, D2. f_equal; [|f_equal]; lia.
  - destruct r as [|b1 [|b2 r]]; try discriminate. destruct (_ && _) eqn:C; [|discriminate].
    intro H; injection H as <- <-. unfold is_cont in C.
    set (cp := (b0 - 224) * 4096 + (b1 - 128) * 64 + (b2 - 128)).
    assert (Hcp : 2048 <= cp <= 65535 /\ (cp < 55296 \/ 57343 < cp)).
    { unfold cp. bool_to_prop; lia. }
    unfold is_scalar, utf8_encode.
    assert (E1 : (cp <? 128) = false) by (apply N.ltb_ge; lia).
    assert (E2 : (cp <? 2048) = false) by (apply N.ltb_ge; lia).
    assert (E3 : (cp <? 65536) = true) by (apply N.ltb_lt; lia).
    rewrite E1, E2, E3. split; [|split; [|reflexivity]].
    + apply andb_true_iff; split; [|apply N.leb_le; lia].
      apply orb_true_iff. destruct Hcp as [_ [H|H]]; [left|right]; apply N.ltb_lt; lia.
    + cbn [firstn]. assert (128 <= b1 <= 191 /\ 128 <= b2 <= 191 /\ 224 <= b0) by (bool_to_prop; lia).
      destruct (digits3 (b0 - 224) (b1 - 128) (b2 - 128)) as (D1 & D2 & D3); [lia|lia|]. fold cp in D1, D2, D3.
      rewrite D1, D2, D3. f_equal; [|f_equal; [|f_equal]]; lia.
  - destruct r as [|b1 [|b2 [|b3 r]]]; try discriminate. destruct (_ && _) eqn:C; [|discriminate].
    intro H; injection H as <- <-. unfold is_cont in C.
    set (cp := (b0 - 240) * 262144 + (b1 - 128) * 4096 + (b2 - 128) * 64 + (b3 - 128)).
    assert (Hcp : 65536 <= cp <= 1114111).
    { unfold cp. bool_to_prop; lia. }
    unfold is_scalar, utf8_encode.
    assert (E1 : (cp <? 128) = false) by (apply N.ltb_ge; lia).
    assert (E2 : (cp <? 2048) = false) by (apply N.ltb_ge; lia).
    assert (E3 : (cp <? 65536) = false) by (apply N.ltb_ge; lia).
    rewrite E1, E2, E3. split; [|split; [|reflexivity]].
    + apply andb_true_iff; split; [|apply N.leb_le; lia].
      apply orb_true_iff. right. apply N.ltb_lt; lia.
    + cbn [firstn].
      assert (128 <= b1 <= 191 /\ 128 <= b2 <= 191 /\ 128 <= b3 <= 191 /\ 240 <= b0) by (bool_to_prop; lia).
      destruct (digits4 (b0 - 240) (b1 - 128) (b2 - 128) (b3 - 128)) as (D1 & D2 & D3 & D4); [lia|lia|lia|].
      fold cp in D1, D2, D3, D4.
      rewrite D1, D2, D3, D4. f_equal; [|f_equal; [|f_equal; [|f_equal]]]; lia.
Qed.

(* ---- the Utf8Sequences over-approximation ---- *)
(* turn quotients and remainders into opaque atoms before calling lia *)
Ltac atoms :=
  repeat match goal with
  | H : context [?a / ?b] |- _ => let q := fresh "q" in set (q := a / b) in *; clearbody q
  | H : context [?a mod ?b] |- _ => let q := fresh "r" in set (q := a mod b) in *; clearbody q
  | |- context [?a / ?b] => let q := fresh "q" in set (q := a / b) in *; clearbody q
  | |- context [?a mod ?b] => let q := fresh "r" in set (q := a mod b) in *; clearbody q
  end.
Lemma mod64_hits_sound a y b : a <= y <= b -> mod64_hits a b (y mod 64) = true.
Proof.
  intros H. unfold mod64_hits.
  assert (E : (b <? a) = false) by (apply N.ltb_ge; lia). rewrite E.
  destruct (63 <=? b - a) eqn:E1; [reflexivity|]. apply N.leb_gt in E1.
  pose proof (N.div_mod y 64 ltac:(lia)) as Dy. pose proof (N.div_mod a 64 ltac:(lia)) as Da.
  pose proof (N.div_mod b 64 ltac:(lia)) as Db.
  pose proof (N.mod_lt y 64 ltac:(lia)). pose proof (N.mod_lt a 64 ltac:(lia)). pose proof (N.mod_lt b 64 ltac:(lia)).
  assert (a / 64 <= y / 64) by (apply N.div_le_mono; lia).
  assert (y / 64 <= b / 64) by (apply N.div_le_mono; lia).
  destruct (a / 64 =? b / 64) eqn:E2.
  - apply N.eqb_eq in E2. apply andb_true_iff; split; apply N.leb_le; atoms; lia.
  - apply N.eqb_neq in E2. apply orb_true_iff.
    destruct (N.eq_dec (y / 64) (a / 64)) as [Q|Q]; [left|right]; apply N.leb_le; atoms; lia.
Qed.

Lemma div_mono a b c : c <> 0 -> a <= b -> a / c <= b / c.
Proof. intros Hc H. now apply N.div_le_mono. Qed.

Lemma is_cont_tag v : v < 64 -> is_cont (128 + v) = true /\ 128 + v - 128 = v.
Proof. intro H. unfold is_cont. split; [apply andb_true_iff; split; apply N.leb_le; lia|lia]. Qed.

Lemma seq_hits_2 lo hi cp x : lo <= cp <= hi -> In x [192 + cp / 64; 128 + cp mod 64] -> seq_hits 2 192 lo hi x = true.
Proof.
  intros H Hx. unfold seq_hits. assert (E : (hi <? lo) = false) by (apply N.ltb_ge; lia). rewrite E.
  pose proof (N.mod_lt cp 64 ltac:(lia)) as Hm.
  pose proof (div_mono lo cp 64 ltac:(lia) ltac:(lia)). pose proof (div_mono cp hi 64 ltac:(lia) ltac:(lia)).
  destruct Hx as [<-|[<-|[]]]; apply orb_true_iff.
  - left. apply andb_true_iff; split; apply N.leb_le; lia.
  - right. destruct (is_cont_tag _ Hm) as [C ->]. rewrite C. now apply mod64_hits_sound.
Qed.

Lemma seq_hits_3 lo hi cp x : lo <= cp <= hi ->
  In x [224 + cp / 4096; 128 + (cp / 64) mod 64; 128 + cp mod 64] -> seq_hits 3 224 lo hi x = true.
Proof.
  intros H Hx. unfold seq_hits. assert (E : (hi <? lo) = false) by (apply N.ltb_ge; lia). rewrite E.
  pose proof (N.mod_lt cp 64 ltac:(lia)) as Hm. pose proof (N.mod_lt (cp / 64) 64 ltac:(lia)) as Hm2.
  pose proof (div_mono lo cp 4096 ltac:(lia) ltac:(lia)). pose proof (div_mono cp hi 4096 ltac:(lia) ltac:(lia)).
  pose proof (div_mono lo cp 64 ltac:(lia) ltac:(lia)). pose proof (div_mono cp hi 64 ltac:(lia) ltac:(lia)).
  destruct Hx as [<-|[<-|[<-|[]]]]; apply orb_true_iff.
  - left. apply andb_true_iff; split; apply N.leb_le; lia.
  - right. destruct (is_cont_tag _ Hm2) as [C ->]. rewrite C. cbn [andb]. apply orb_true_iff. left.
    apply mod64_hits_sound. lia.
  - right. destruct (is_cont_tag _ Hm) as [C ->]. rewrite C. cbn [andb]. apply orb_true_iff. right.
    now apply mod64_hits_sound.
Qed.

Lemma seq_hits_4 lo hi cp x : lo <= cp <= hi ->
  In x [240 + cp / 262144; 128 + (cp / 4096) mod 64; 128 + (cp / 64) mod 64; 128 + cp mod 64] ->
  seq_hits 4 240 lo hi x = true.
Proof.
  intros H Hx. unfold seq_hits. assert (E : (hi <? lo) = false) by (apply N.ltb_ge; lia). rewrite E.
  pose proof (N.mod_lt cp 64 ltac:(lia)) as Hm. pose proof (N.mod_lt (cp / 64) 64 ltac:(lia)) as Hm2.
  pose proof (N.mod_lt (cp / 4096) 64 ltac:(lia)) as Hm3.
  pose proof (div_mono lo cp 262144 ltac:(lia) ltac:(lia)). pose proof (div_mono cp hi 262144 ltac:(lia) ltac:(lia)).
  pose proof (div_mono lo cp 4096 ltac:(lia) ltac:(lia)). pose proof (div_mono cp hi 4096 ltac:(lia) ltac:(lia)).
  pose proof (div_mono lo cp 64 ltac:(lia) ltac:(lia)). pose proof (div_mono cp hi 64 ltac:(lia) ltac:(lia)).
  destruct Hx as [<-|[<-|[<-|[<-|[]]]]]; apply orb_true_iff.
  - left. apply andb_true_iff; split; apply N.leb_le; lia.
  - right. destruct (is_cont_tag _ Hm3) as [C ->]. rewrite C. cbn [andb]. apply orb_true_iff. left.
    apply orb_true_iff. left. apply mod64_hits_sound. lia.
  - right. destruct (is_cont_tag _ Hm2) as [C ->]. rewrite C. cbn [andb]. apply orb_true_iff. left.
    apply orb_true_iff. right. apply mod64_hits_sound. lia.
  - right. destruct (is_cont_tag _ Hm) as [C ->]. rewrite C. cbn [andb]. apply orb_true_iff. right.
    now apply mod64_hits_sound.
Qed.

Lemma utf8_range_hits_sound lo hi cp x :
  lo <= cp <= hi -> is_scalar cp = true -> In x (utf8_encode cp) -> utf8_range_hits lo hi x = true.
Proof.
  intros H Hs Hx. unfold utf8_range_hits, utf8_encode, is_scalar in *.
  apply andb_true_iff in Hs as [Hs1 Hs2]. apply N.leb_le in Hs2.
  destruct (cp <? 128) eqn:E1.
  { apply N.ltb_lt in E1. destruct Hx as [<-|[]].
    rewrite !orb_true_iff. left; left; left; left.
    unfold seq_hits. assert (E : (N.min hi 127 <? lo) = false) by (apply N.ltb_ge; lia). rewrite E.
    apply andb_true_iff; split; apply N.leb_le; lia. }
  apply N.ltb_ge in E1.
  destruct (cp <? 2048) eqn:E2.
  { apply N.ltb_lt in E2. rewrite !orb_true_iff. left; left; left; right.
    eapply seq_hits_2; [|exact Hx]. lia. }
  apply N.ltb_ge in E2.
  destruct (cp <? 65536) eqn:E3.
  { apply N.ltb_lt in E3. apply orb_true_iff in Hs1 as [Hs1|Hs1]; apply N.ltb_lt in Hs1.
    - rewrite !orb_true_iff. left; left; right. eapply seq_hits_3; [|exact Hx]. lia.
    - rewrite !orb_true_iff. left; right. eapply seq_hits_3; [|exact Hx]. lia. }
  apply N.ltb_ge in E3.
  rewrite !orb_true_iff. right. eapply seq_hits_4; [|exact Hx]. lia.
Qed.
