(* Proofs/WalkParBase.v — list lemmas for the per-worker state vectors of Model/WalkPar.v *)
From Coq Require Import List Arith Bool Lia Permutation.
Import ListNotations.
From RG Require Import Model.WalkPar Spec.WalkParSpec.

Lemma length_upd : forall A (l : list A) i x, length (upd l i x) = length l.
Proof. induction l as [|h t IH]; intros [|i] x; cbn; auto. Qed.

Lemma nth_error_upd_eq : forall A (l : list A) i x, i < length l -> nth_error (upd l i x) i = Some x.
Proof.
  induction l as [|h t IH]; intros [|i] x Hi; cbn in *; try lia; auto. apply IH. lia.
Qed.

Lemma nth_error_upd_neq : forall A (l : list A) i j x, i <> j -> nth_error (upd l i x) j = nth_error l j.
Proof.
  induction l as [|h t IH]; intros [|i] [|j] x Hij; cbn; auto; try congruence.
Qed.

Lemma nth_upd_eq : forall A (l : list A) i x d, i < length l -> nth i (upd l i x) d = x.
Proof.
  induction l as [|h t IH]; intros [|i] x d Hi; cbn in *; try lia; auto. apply IH. lia.
Qed.

Lemma nth_upd_neq : forall A (l : list A) i j x d, i <> j -> nth j (upd l i x) d = nth j l d.
Proof.
  induction l as [|h t IH]; intros [|i] [|j] x d Hij; cbn; auto; try congruence.
Qed.

Lemma upd_oob : forall A (l : list A) i x, length l <= i -> upd l i x = l.
Proof.
  induction l as [|h t IH]; intros [|i] x Hi; cbn in *; auto; try lia. f_equal. apply IH. lia.
Qed.

Lemma nth_error_nth : forall A (l : list A) i x d, nth_error l i = Some x -> nth i l d = x.
Proof. induction l as [|h t IH]; intros [|i] x d H; cbn in *; try discriminate; auto. congruence. Qed.

Lemma nth_error_lt : forall A (l : list A) i x, nth_error l i = Some x -> i < length l.
Proof. intros. apply nth_error_Some. congruence. Qed.

Lemma nth_nth_error : forall A (l : list A) i d, i < length l -> nth_error l i = Some (nth i l d).
Proof. induction l as [|h t IH]; intros [|i] d Hi; cbn in *; try lia; auto. apply IH. lia. Qed.

(* the shape of an update *)
Lemma upd_split : forall A (l : list A) i x d, i < length l ->
  exists l1 l2, l = l1 ++ nth i l d :: l2 /\ upd l i x = l1 ++ x :: l2 /\ length l1 = i.
Proof.
  induction l as [|h t IH]; intros [|i] x d Hi; cbn in *; try lia.
  - exists [], t. auto.
  - destruct (IH i x d) as (l1 & l2 & E1 & E2 & E3); [lia|].
    exists (h :: l1), l2. cbn. rewrite <- E1, E2, E3. auto.
Qed.

(* sums over an updated vector *)
Lemma list_sum_upd : forall A (g : A -> nat) (l : list A) i x d, i < length l ->
  list_sum (map g (upd l i x)) + g (nth i l d) = list_sum (map g l) + g x.
Proof.
  intros A g l i x d Hi. destruct (upd_split A l i x d Hi) as (l1 & l2 & E1 & E2 & _).
  rewrite E2. rewrite E1 at 2. rewrite !map_app, !list_sum_app. cbn. lia.
Qed.

Lemma count_upd : forall A (g : A -> bool) (l : list A) i x d, i < length l ->
  count g (upd l i x) + (if g (nth i l d) then 1 else 0) = count g l + (if g x then 1 else 0).
Proof. intros. unfold count. apply (list_sum_upd A (fun y => if g y then 1 else 0)). auto. Qed.

(* multisets over an updated vector *)
Lemma flat_map_upd : forall A B (g : A -> list B) (l : list A) i x d, i < length l ->
  Permutation (flat_map g (upd l i x) ++ g (nth i l d)) (flat_map g l ++ g x).
Proof.
  intros A B g l i x d Hi. destruct (upd_split A l i x d Hi) as (l1 & l2 & E1 & E2 & _).
  rewrite E2. rewrite E1 at 2. rewrite !flat_map_app. cbn.
  rewrite <- !app_assoc.
  apply Permutation_app_head.
  (* g x ++ fm l2 ++ g old   ~   g old ++ fm l2 ++ g x *)
  rewrite (app_assoc (g x)), (app_assoc (g (nth i l d))).
  rewrite (Permutation_app_comm (g x ++ flat_map g l2)).
  rewrite <- app_assoc.
  apply Permutation_app_head. apply Permutation_app_comm.
Qed.

Lemma count_cons : forall A (g : A -> bool) h t, count g (h :: t) = (if g h then 1 else 0) + count g t.
Proof. reflexivity. Qed.

Lemma count_pos_ex : forall A (g : A -> bool) (l : list A), 1 <= count g l -> exists i, i < length l /\ forall d, g (nth i l d) = true.
Proof.
  induction l as [|h t IH]; intros H.
  - cbv in H. lia.
  - rewrite count_cons in H. destruct (g h) eqn:E.
    + exists 0. split; [cbn; lia|]. intros; auto.
    + destruct IH as (i & Hi & Hg); [lia|]. exists (S i). split; [cbn; lia|]. auto.
Qed.

Lemma count_zero_all : forall A (g : A -> bool) (l : list A), (forall x, In x l -> g x = false) -> count g l = 0.
Proof.
  induction l as [|h t IH]; intros H; auto.
  rewrite count_cons, (H h) by (left; auto). rewrite IH; auto. intros; apply H; right; auto.
Qed.

Lemma count_ge_in : forall A (g : A -> bool) (l : list A) x, In x l -> g x = true -> 1 <= count g l.
Proof.
  induction l as [|h t IH]; intros x HI Hg; [destruct HI|].
  destruct HI as [E|I]; rewrite count_cons.
  - subst. rewrite Hg. lia.
  - specialize (IH x I Hg). lia.
Qed.

Lemma list_sum_pos_ex : forall (l : list nat), 1 <= list_sum l -> exists i, i < length l /\ 1 <= nth i l 0.
Proof.
  induction l as [|h t IH]; intros H.
  - cbv in H. lia.
  - change (list_sum (h :: t)) with (h + list_sum t) in H. destruct h.
    + destruct IH as (i & Hi & Hn); [lia|]. exists (S i). split; [cbn; lia|]. auto.
    + exists 0. split; cbn; lia.
Qed.

(* split_mask / remove_nth conserve elements *)
Lemma split_mask_perm : forall A (mask : list bool) (l taken kept : list A),
  split_mask mask l = (taken, kept) -> Permutation l (taken ++ kept).
Proof.
  intros A mask l. revert mask. induction l as [|x r IH]; intros mask taken kept H; cbn in H.
  - inversion H. auto.
  - destruct mask as [|b mr].
    + inversion H. cbn. auto.
    + destruct (split_mask mr r) as [t k] eqn:E. specialize (IH _ _ _ E).
      destruct b; inversion H; subst; cbn.
      * constructor. auto.
      * rewrite IH. apply Permutation_middle.
Qed.

Lemma split_mask_in : forall A (mask : list bool) (l taken kept : list A),
  split_mask mask l = (taken, kept) -> (forall x, In x taken -> In x l) /\ (forall x, In x kept -> In x l).
Proof.
  intros A mask l taken kept H. pose proof (split_mask_perm _ _ _ _ _ H) as P.
  split; intros x Hx; apply (Permutation_in x (Permutation_sym P)); apply in_or_app; auto.
Qed.

Lemma remove_nth_perm : forall A k (l : list A) m, nth_error l k = Some m -> Permutation l (m :: remove_nth k l).
Proof.
  intros A k l. revert k. induction l as [|x r IH]; intros [|k] m H; cbn in *; try discriminate.
  - inversion H. auto.
  - specialize (IH _ _ H). rewrite perm_swap. constructor. auto.
Qed.

Lemma nth_in_or_default_nil : forall A (l : list (list A)) i x, In x (nth i l []) -> i < length l.
Proof.
  intros A l i x H. destruct (Nat.lt_ge_cases i (length l)); auto.
  rewrite nth_overflow in H by lia. destruct H.
Qed.

(* victims_of *)
Lemma victims_not_self : forall w n, ~ In w (victims_of w n).
Proof.
  intros w n H. unfold victims_of in H. apply in_app_or in H. destruct H as [H|H]; apply in_seq in H; lia.
Qed.

Lemma victims_length : forall w n, w < n -> length (victims_of w n) = n - 1.
Proof. intros. unfold victims_of. rewrite app_length, !seq_length. lia. Qed.

Lemma victims_in : forall w n v, v < n -> v <> w -> w < n -> In v (victims_of w n).
Proof.
  intros w n v Hv Hne Hw. unfold victims_of. apply in_or_app.
  destruct (Nat.lt_ge_cases v w); [right|left]; apply in_seq; lia.
Qed.
