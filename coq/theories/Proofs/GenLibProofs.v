(* Proofs/GenLibProofs.v — the definitions of Gen/DecisionsLib.v (regenerated on every run from the source text of
   the library crates by tools/gen/decisions_lib.py) are equal, for all arguments, to the hand-written model
   definitions the property theorems are about.  When the source of a mirrored function changes its meaning, the
   regenerated definition changes and the corresponding lemma below stops compiling (the check reports it).
   The proofs are by case analysis only, so that they survive any re-arrangement of the source that keeps the
   meaning (they do not depend on the shape of the generated term). *)
From RG Require Import Base.Bytes Base.LineTerm Model.Lines Model.SearcherCore Model.Glue Model.SearcherGlue
  Model.Decode Model.Summary Model.Standard Model.Json Model.IgnoreDir Model.Walk Model.LibExpected Model.LibArgs Gen.DecisionsLib.
From RG Require Model.LineBufferBin Model.BinaryDetect.
Local Open Scope bool_scope.

(* the model keeps matcher.non_matching_bytes() as one membership function, "false if None" (Model/SearcherCore.v
   m_nonmatching); the source distinguishes None from a set: the hypothesis [nm_agrees] (a local notation) relates the two views *)
Local Notation nm_agrees M nmb :=
  (forall b : byte, m_nonmatching M b = match nmb with Some f => f b | None => false end).

Ltac crush_bool :=
  repeat match goal with
         | |- context [if ?b then _ else _] => destruct b eqn:?
         | |- context [match ?o with Some _ => _ | None => _ end] => destruct o eqn:?
         end; try reflexivity; try discriminate; try congruence.

Lemma is_line_by_line_fast_eq : forall (cfg : config) (M : matcher) (c : core) (nmb : option (byte -> bool)),
  nm_agrees M nmb ->
  DecisionsLib.is_line_by_line_fast (c_passthru cfg) (c_stop_on_nonmatch cfg) (has_matched c) (m_line_term M)
                                    (c_lt cfg) nmb
  = SearcherCore.is_line_by_line_fast cfg M c.
Proof.
  intros cfg M c nmb Hnm.
  unfold DecisionsLib.is_line_by_line_fast, is_line_by_line_fast_expected, SearcherCore.is_line_by_line_fast, ltb_.
  rewrite (Hnm (lt_byte (c_lt cfg))).
  destruct (c_passthru cfg); [reflexivity|].
  destruct (c_stop_on_nonmatch cfg && has_matched c); [reflexivity|].
  destruct (m_line_term M) as [lt|]; destruct nmb as [f|];
    repeat match goal with |- context [if ?b then _ else _] => destruct b end; reflexivity.
Qed.

Lemma max_context_eq : forall cfg : config,
  DecisionsLib.max_context (c_before cfg) (c_after cfg) = SearcherCore.max_context cfg.
Proof. intros cfg. reflexivity. Qed.

Lemma multi_line_with_matcher_eq : forall (cfg : config) (M : matcher) (nmb : option (byte -> bool)),
  nm_agrees M nmb ->
  DecisionsLib.multi_line_with_matcher (c_multi_line cfg) (m_line_term M) (c_lt cfg) nmb
  = Glue.multi_line_with_matcher cfg M.
Proof.
  intros cfg M nmb Hnm.
  unfold DecisionsLib.multi_line_with_matcher, multi_line_with_matcher_expected, Glue.multi_line_with_matcher.
  rewrite (Hnm (lt_byte (c_lt cfg))).
  destruct (c_multi_line cfg); destruct (m_line_term M) as [lt|]; destruct nmb as [f|]; cbn [negb andb];
    repeat match goal with |- context [if ?b then _ else _] => destruct b end; reflexivity.
Qed.

Lemma slice_needs_transcoding_eq_glue : forall (enc_set bom_sniffing : bool) (s : bytes),
  DecisionsLib.slice_needs_transcoding enc_set bom_sniffing (SearcherGlue.slice_has_bom s)
  = SearcherGlue.needs_transcoding enc_set bom_sniffing s.
Proof. intros. reflexivity. Qed.

Lemma slice_needs_transcoding_eq_decode : forall (c : enc_config) (s : bytes),
  DecisionsLib.slice_needs_transcoding (match ec_encoding c with Some _ => true | None => false end)
                                       (ec_bom_sniffing c) (Decode.slice_has_bom s)
  = Decode.slice_needs_transcoding c s.
Proof. intros. reflexivity. Qed.

Lemma requires_path_eq : forall k : skind, DecisionsLib.requires_path k = Summary.requires_path k.
Proof. intros k; destruct k; reflexivity. Qed.
Lemma requires_stats_eq : forall k : skind, DecisionsLib.requires_stats k = Summary.requires_stats k.
Proof. intros k; destruct k; reflexivity. Qed.
Lemma quit_early_eq : forall k : skind, DecisionsLib.quit_early k = Summary.quit_early k.
Proof. intros k; destruct k; reflexivity. Qed.

Lemma summary_should_quit_eq : forall (cfg : sconfig) (match_count : nat),
  DecisionsLib.summary_should_quit (sc_max cfg) match_count = Summary.ss_should_quit cfg match_count.
Proof.
  intros cfg mc. unfold DecisionsLib.summary_should_quit, summary_should_quit_expected, Summary.ss_should_quit.
  destruct (sc_max cfg); reflexivity.
Qed.

Lemma standard_should_quit_eq : forall (cfg : stdconfig) (match_count after_rem : nat),
  DecisionsLib.standard_should_quit (st_max cfg) match_count after_rem
  = Standard.sd_should_quit cfg match_count after_rem.
Proof.
  intros cfg mc ar. unfold DecisionsLib.standard_should_quit, standard_should_quit_expected, Standard.sd_should_quit.
  destruct (st_max cfg); reflexivity.
Qed.

Lemma match_more_than_limit_eq : forall (cfg : stdconfig) (match_count : nat),
  DecisionsLib.match_more_than_limit (st_max cfg) match_count = Standard.sd_more_than_limit cfg match_count.
Proof.
  intros cfg mc. unfold DecisionsLib.match_more_than_limit, match_more_than_limit_expected, Standard.sd_more_than_limit.
  destruct (st_max cfg); reflexivity.
Qed.

Lemma should_skip_entry_eq : forall (ig : ignore) (path : bytes) (is_dir : bool),
  DecisionsLib.should_skip_entry (m_is_ignore (matched_dir_entry ig path is_dir))
                                 (m_is_whitelist (matched_dir_entry ig path is_dir))
  = IgnoreDir.should_skip_entry ig path is_dir.
Proof.
  intros ig path is_dir. unfold DecisionsLib.should_skip_entry, should_skip_entry_expected, IgnoreDir.should_skip_entry.
  destruct (matched_dir_entry ig path is_dir); reflexivity.
Qed.

(* ReadByLine::should_binary_quit has no model definition of its own (Model/BinaryDetect.v inlines it in rbl_fill):
   the generated conjunction is compared with the hand-written copy *)
Lemma should_binary_quit_eq : forall a b : bool,
  DecisionsLib.should_binary_quit a b = should_binary_quit_expected a b.
Proof. intros a b; destruct a, b; reflexivity. Qed.

(* non-vacuity of [nm_agrees]: both views of a matcher's non-matching set exist for every matcher *)
Lemma nm_agrees_some : forall M, nm_agrees M (Some (m_nonmatching M)).
Proof. intros M b. reflexivity. Qed.

(* ------------------------------------------------------------------ json.rs *)
Lemma json_should_quit_eq : forall (cfg : jconfig) (match_count after_rem : nat),
  DecisionsLib.json_should_quit (j_max cfg) match_count after_rem = Json.js_should_quit cfg match_count after_rem.
Proof.
  intros cfg mc ar. unfold DecisionsLib.json_should_quit, json_should_quit_expected, standard_should_quit_expected,
    Json.js_should_quit.
  destruct (j_max cfg); reflexivity.
Qed.

Lemma json_match_more_than_limit_eq : forall (cfg : jconfig) (match_count : nat),
  DecisionsLib.json_match_more_than_limit (j_max cfg) match_count = Json.js_more_than_limit cfg match_count.
Proof.
  intros cfg mc. unfold DecisionsLib.json_match_more_than_limit, json_match_more_than_limit_expected,
    match_more_than_limit_expected, Json.js_more_than_limit.
  destruct (j_max cfg); reflexivity.
Qed.

(* ------------------------------------------------------------------ walk.rs (Model/Walk.v) *)
Lemma skip_filesize_eq : forall (fs : fsys) (maxsz : N) (e : dent),
  DecisionsLib.skip_filesize maxsz (de_len fs e) = Walk.skip_filesize fs maxsz e.
Proof.
  intros fs maxsz e. unfold DecisionsLib.skip_filesize, skip_filesize_expected, Walk.skip_filesize.
  destruct (de_len fs e) as [n|]; [|reflexivity]. destruct (maxsz <? n)%N; reflexivity.
Qed.

(* the model has no stdout handle (self.skip = None); d5 = true is the tree after the repair of D5 *)
Lemma skip_entry_eq : forall (fs : fsys) (max_filesize : option N) (has_filter : bool) (filter : dent -> bool)
    (should_skip : igstack -> dent -> bool) (ig : igstack) (e : dent) (pe : bool),
  DecisionsLib.skip_entry (de_depth e) (should_skip ig e) None pe (is_some_N max_filesize) (de_is_dir e)
                          (filesize_verdict fs max_filesize e) (filter_of has_filter filter e)
  = skip_entry_with fs max_filesize has_filter filter should_skip true ig e.
Proof.
  intros fs mf hf filter ss ig e pe.
  unfold DecisionsLib.skip_entry, skip_entry_expected, skip_entry_with, filter_of, filesize_verdict, is_some_N.
  destruct (Nat.eqb (de_depth e) 0); [reflexivity|].
  destruct (ss ig e); [reflexivity|].
  destruct mf as [m|]; destruct (de_is_dir e); destruct hf; cbn [andb negb];
    try destruct (Walk.skip_filesize fs m e); try destruct (filter e); reflexivity.
Qed.

(* the remaining input of the source function: with a stdout handle, an entry that is that file is skipped *)
Lemma skip_entry_stdout : forall depth mfs isd sfv flt,
  depth <> 0 -> DecisionsLib.skip_entry depth false (Some tt) true mfs isd sfv flt = true.
Proof.
  intros depth mfs isd sfv flt Hd. unfold DecisionsLib.skip_entry, skip_entry_expected.
  destruct (Nat.eqb depth 0) eqn:E; [apply Nat.eqb_eq in E; contradiction|]. reflexivity.
Qed.
Lemma skip_entry_not_stdout : forall depth ss mfs isd sfv flt,
  DecisionsLib.skip_entry depth ss (Some tt) false mfs isd sfv flt
  = DecisionsLib.skip_entry depth ss None false mfs isd sfv flt.
Proof.
  intros. unfold DecisionsLib.skip_entry, skip_entry_expected.
  destruct (Nat.eqb depth 0); [reflexivity|]. destruct ss; reflexivity.
Qed.

(* Worker::generate_work: should_skip_entry first, then the two decisions and the send condition, is par_skip *)
Lemma par_skip_eq : forall (fs : fsys) (max_filesize : option N) (has_filter : bool) (filter : dent -> bool)
    (should_skip : igstack -> dent -> bool) (ig : igstack) (e : dent),
  (if should_skip ig e then true else
   negb (DecisionsLib.par_send
           (DecisionsLib.par_should_skip_filesize (is_some_N max_filesize) (de_is_dir e)
                                                  (filesize_verdict fs max_filesize e))
           (DecisionsLib.par_should_skip_filtered (filter_of has_filter filter e))))
  = par_skip fs max_filesize has_filter filter should_skip ig e.
Proof.
  intros fs mf hf filter ss ig e.
  unfold DecisionsLib.par_send, DecisionsLib.par_should_skip_filesize, DecisionsLib.par_should_skip_filtered,
    par_send_expected, par_should_skip_filesize_expected, par_should_skip_filtered_expected,
    par_skip, filter_of, filesize_verdict, is_some_N.
  destruct (ss ig e); [reflexivity|].
  destruct mf as [m|]; destruct (de_is_dir e); destruct hf; cbn [andb negb];
    try destruct (Walk.skip_filesize fs m e); try destruct (filter e); reflexivity.
Qed.

(* ------------------------------------------------------------------ core.rs Core::detect_binary (Model/BinaryDetect.v) *)
(* the value detect_binary returns; the model's new binary_byte_offset and the EBinary event are not part of the tie *)
Lemma detect_binary_result_eq :
  forall (St : Type) (sink : St -> BinaryDetect.event -> St * bool) (mode : LineBufferBin.bin_mode) (buf : bytes)
         (s e : nat) (cb : option nat) (w : BinaryDetect.world),
    DecisionsLib.detect_binary_result
      (match cb with Some _ => true | None => false end) (LineBufferBin.is_quit mode) mode s
      (fun b => memchr b (sub buf s e))
      (fun off => snd (BinaryDetect.emit sink w (BinaryDetect.EBinary off)))
    = fst (fst (BinaryDetect.detect_binary sink mode buf s e cb w)).
Proof.
  intros St sink mode buf s e cb w.
  unfold DecisionsLib.detect_binary_result, detect_binary_result_expected, BinaryDetect.detect_binary.
  destruct cb as [o|]; [reflexivity|].
  destruct mode as [|b|b]; [reflexivity| |];
    (destruct (memchr b (sub buf s e)) as [i|]; [|reflexivity];
     destruct (BinaryDetect.emit sink w (BinaryDetect.EBinary (s + i))) as [w' r]; destruct r; reflexivity).
Qed.
