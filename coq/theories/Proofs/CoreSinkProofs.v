(* Proofs/CoreSinkProofs.v — the Core sink functions under a sink that always continues and with
   binary detection off: explicit post-states. *)
From RG Require Import Base.Bytes Base.BytesFacts Model.Lines Model.SearcherCore.

Section S.
  Variable cfg : config.
  Variable M : matcher.
  Hypothesis Hbin : c_binary cfg = BNone.
  Variable binary : bool.
  Notation K := (fun _ : nat => Continue).

  Definition any_ctx : bool := Nat.ltb 0 (c_before cfg) || Nat.ltb 0 (c_after cfg).

  Lemma emit_K c e : emit K c e = OK true (set_log c (e :: log c)).
  Proof. reflexivity. Qed.

  Lemma detect_binary_K c buf rs re : bin_off c = None -> detect_binary cfg K c buf rs re = OK false c.
  Proof. intro H. unfold detect_binary. rewrite H, Hbin. reflexivity. Qed.

  Lemma binary_guard_K b c buf rs re k : bin_off c = None ->
    binary_guard cfg K b c buf rs re k = k c.
  Proof. intro H. unfold binary_guard. destruct b; [|reflexivity]. now rewrite detect_binary_K. Qed.

  Definition brk (c : core) (p : nat) : core :=
    if negb any_ctx || negb (has_sunk c) || negb (Nat.ltb (last_line_visited c) p) then c
    else set_log c (EBreak :: log c).

  Lemma sink_break_K c p : sink_break_context cfg K c p = OK true (brk c p).
  Proof.
    unfold sink_break_context, brk, any_ctx.
    destruct (negb _ || negb (has_sunk c) || negb _); reflexivity.
  Qed.

  Lemma brk_bin c p : bin_off (brk c p) = bin_off c.
  Proof. unfold brk. destruct (_ || _ || _); reflexivity. Qed.

  Definition with_event (c : core) (e : event) (re acl : nat) : core :=
    set_visited (set_log c (e :: log c)) re acl.

  Definition post_matched (c : core) (buf : bytes) (rs re : nat) : core :=
    let c1 := count_lines cfg (brk c rs) buf rs in
    with_event c1 (EMatched (abs_off c1 + rs) (line_number c1) (sub buf rs re)) re (c_after cfg).

  Definition post_ctx (k : ctx_kind) (c : core) (buf : bytes) (rs re : nat) : core :=
    let c1 := count_lines cfg c buf rs in
    with_event c1 (EContext k (abs_off c1 + rs) (line_number c1) (sub buf rs re)) re
      (match k with CAfter => after_context_left c1 - 1 | _ => after_context_left c1 end).

  Lemma count_lines_bin c buf u : bin_off (count_lines cfg c buf u) = bin_off c.
  Proof. unfold count_lines. destruct (line_number c); [|reflexivity]. destruct (Nat.leb _ _); reflexivity. Qed.

  Lemma sink_matched_K c buf rs re : bin_off c = None ->
    sink_matched cfg K binary c buf rs re = OK true (post_matched c buf rs re).
  Proof.
    intro H. unfold sink_matched. rewrite binary_guard_K by exact H.
    rewrite sink_break_K. cbn [andthen]. rewrite emit_K. reflexivity.
  Qed.

  Lemma sink_before_K c buf rs re : bin_off c = None ->
    sink_before_context cfg K binary c buf rs re = OK true (post_ctx CBefore c buf rs re).
  Proof. intro H. unfold sink_before_context. rewrite binary_guard_K by exact H. rewrite emit_K. reflexivity. Qed.

  Lemma sink_after_K c buf rs re : bin_off c = None ->
    sink_after_context cfg K binary c buf rs re = OK true (post_ctx CAfter c buf rs re).
  Proof. intro H. unfold sink_after_context. rewrite binary_guard_K by exact H. rewrite emit_K. reflexivity. Qed.

  Lemma sink_other_K c buf rs re : bin_off c = None ->
    sink_other_context cfg K binary c buf rs re = OK true (post_ctx COther c buf rs re).
  Proof. intro H. unfold sink_other_context. rewrite binary_guard_K by exact H. rewrite emit_K. reflexivity. Qed.
End S.
