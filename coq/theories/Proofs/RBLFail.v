(* Proofs/RBLFail.v — property C16, failing input source: a read() that fails (or is interrupted) at
   any point of the read history makes ReadByLine::run return the error without calling finish, and
   the results delivered before it are a prefix of the results of the search whose history continues
   differently from that point on. *)
From RG Require Import Base.Bytes Model.Lines Model.SearcherCore Model.Glue Model.ReadByLine
  Proofs.PrefixLaw Proofs.PrefixCore Proofs.MLPrefix Proofs.RBLPrefix.

Section Fail.
  Variable x y : read_step.
  Variable h2 h2' : list read_step.
  Hypothesis Hx : x = RFail \/ x = RInterrupted.

  Definition agree (rd1 rd2 : reader) : Prop :=
    r_rest rd1 = r_rest rd2 /\ exists h1, r_hist rd1 = h1 ++ x :: h2 /\ r_hist rd2 = h1 ++ y :: h2'.

  Definition fill_rel (a b : fill_result) : Prop :=
    match a, b with
    | FillIoErr, _ => True
    | FillOk d1 lb1 rd1, FillOk d2 lb2 rd2 => d1 = d2 /\ lb1 = lb2 /\ agree rd1 rd2
    | FillAllocErr, FillAllocErr => True
    | FillFuel, FillFuel => True
    | _, _ => False
    end.

  Lemma fill_loop_lockstep ltb pol : forall fuel lb rd1 rd2,
    agree rd1 rd2 -> fill_rel (lb_fill_loop fuel ltb pol lb rd1) (lb_fill_loop fuel ltb pol lb rd2).
  Proof.
    induction fuel as [|f IH]; intros lb rd1 rd2 (Hrest & h1 & H1 & H2); cbn [lb_fill_loop]; [exact I|].
    destruct (lb_ensure_capacity pol lb) as [lb'|]; [|exact I].
    rewrite H1, H2, <- Hrest.
    destruct h1 as [|st h1]; cbn [app].
    - destruct Hx as [-> | ->]; exact I.
    - destruct st as [n| |]; [|exact I|exact I].
      set (readlen := Nat.min (Nat.min (Nat.max 1 n) (lb_cap lb' - length (lb_data lb'))) (length (r_rest rd1))).
      assert (Hag : agree {| r_rest := skipn readlen (r_rest rd1); r_hist := h1 ++ x :: h2 |}
                          {| r_rest := skipn readlen (r_rest rd1); r_hist := h1 ++ y :: h2' |}).
      { split; [reflexivity|]. exists h1. split; reflexivity. }
      destruct (Nat.eqb readlen 0).
      + cbn. auto.
      + destruct (rfind_byte ltb (firstn readlen (r_rest rd1))).
        * cbn. auto.
        * apply IH. exact Hag.
  Qed.

  Lemma fill_lockstep ltb pol lb rd1 rd2 :
    agree rd1 rd2 -> fill_rel (lb_fill ltb pol lb rd1) (lb_fill ltb pol lb rd2).
  Proof.
    intro H. unfold lb_fill. destruct H as (Hrest & Hh). rewrite <- Hrest.
    apply fill_loop_lockstep. split; [exact Hrest|exact Hh].
  Qed.

  Variable cfg : config.
  Variable M : matcher.
  Variable pol : alloc_policy.

  Definition rf_rel (c : core) (lb : linebuf) (a b : rbl_fill_result) : Prop :=
    match a, b with
    | RFErr c1, _ => c1 = rollc cfg c lb
    | RF g1 c1 lb1 rd1, RF g2 c2 lb2 rd2 => g1 = g2 /\ c1 = c2 /\ lb1 = lb2 /\ agree rd1 rd2
    | RFFuel, RFFuel => True
    | _, _ => False
    end.

  Lemma rbl_fill_lockstep c lb rd1 rd2 :
    agree rd1 rd2 -> rf_rel c lb (rbl_fill cfg pol c lb rd1) (rbl_fill cfg pol c lb rd2).
  Proof.
    intro H. unfold rbl_fill.
    pose proof (eq_refl : rollc cfg c lb = snd (roll cfg c (lb_buffer lb))) as Hr.
    destruct (roll cfg c (lb_buffer lb)) as [consumed c1]. cbn [snd] in Hr.
    pose proof (fill_lockstep (lt_byte (c_lt cfg)) pol (lb_consume lb consumed) rd1 rd2 H) as F.
    destruct (lb_fill _ _ _ rd1) as [d1 lb1 rd1'| | |]; destruct (lb_fill _ _ _ rd2) as [d2 lb2 rd2'| | |];
      cbn [fill_rel rf_rel] in *; try exact I; try contradiction; try reflexivity; try (symmetry; exact Hr).
    destruct F as (<- & <- & Hag).
    destruct (negb d1); [cbn; auto|]. destruct (_ && _); cbn; auto.
  Qed.

  Definition loop_rel (a b : outcome * linebuf) : Prop :=
    a = b \/
    exists c1, fst a = ERR c1 /\
      match fin_core (fst b) with Some c2 => exists ext, log c2 = ext ++ log c1 | None => True end.

  Lemma rbl_loop_lockstep : forall fuel c lb rd1 rd2,
    agree rd1 rd2 -> loop_rel (rbl_loop cfg M K pol fuel c lb rd1) (rbl_loop cfg M K pol fuel c lb rd2).
  Proof.
    induction fuel as [|f IH]; intros c lb rd1 rd2 H; [left; reflexivity|].
    pose proof (rbl_fill_lockstep c lb rd1 rd2 H) as F.
    pose proof (good2_rblc_loop cfg M pol (S f) lb rd2 K c) as G2.
    rewrite <- rbl_loop_fst in G2.
    pose proof (rbl_fill_core cfg pol c lb rd2) as Hc2.
    cbn [rbl_loop] in *.
    destruct (rbl_fill cfg pol c lb rd1) as [g1 c1 lb1 rd1'|c1|]; destruct (rbl_fill cfg pol c lb rd2) as [g2 c2 lb2 rd2'|c2|];
      cbn [rf_rel fill_core] in F, Hc2; try contradiction.
    - destruct F as (<- & <- & <- & Hag). destruct g1; [|left; reflexivity].
      destruct (match_by_line cfg M K false c1 (lb_buffer lb1)) as [[|] c'| |]; try (left; reflexivity).
      apply IH. exact Hag.
    - right. exists c1. split; [reflexivity|].
      destruct (fin_core (fst _)) as [cK|]; [|exact I].
      destruct G2 as ((ext & He) & _). exists ext. rewrite He. subst c1. now rewrite log_rollc.
    - right. exists c1. split; [reflexivity|]. cbn. exists []. subst c1 c2. reflexivity.
    - right. exists c1. split; [reflexivity|]. exact I.
    - left. reflexivity.
  Qed.

  Variable cap : nat.
  Variable stream : bytes.
  Variable h1 : list read_step.

  Definition events_of (rr : run_result) : option (list event) :=
    match rr with RunOk e => Some e | RunErr e => Some e | RunFuel => None end.

  (* the run whose history fails at read number |h1|, against any run that agrees with it before that read *)
  Theorem read_failure_is_prefix_proof :
    let runF := read_by_line_run cfg M K pol cap stream (h1 ++ x :: h2) in
    let runG := read_by_line_run cfg M K pol cap stream (h1 ++ y :: h2') in
    runF = runG \/
    exists evs, runF = RunErr evs /\
      match events_of runG with Some evsG => exists rest, evsG = evs ++ rest | None => True end.
  Proof.
    cbv zeta. unfold read_by_line_run.
    destruct (emit K (core_new cfg) EBegin) as [b c| |]; [|left; reflexivity|left; reflexivity].
    destruct b; [|left; reflexivity].
    assert (Hag : agree {| r_rest := stream; r_hist := h1 ++ x :: h2 |} {| r_rest := stream; r_hist := h1 ++ y :: h2' |}).
    { split; [reflexivity|]. exists h1. split; reflexivity. }
    pose proof (rbl_loop_lockstep (2 * length stream + 4) c (lb_new cap) _ _ Hag) as L.
    destruct (rbl_loop cfg M K pol (2 * length stream + 4) c (lb_new cap) {| r_rest := stream; r_hist := h1 ++ x :: h2 |}) as [o1 l1].
    destruct (rbl_loop cfg M K pol (2 * length stream + 4) c (lb_new cap) {| r_rest := stream; r_hist := h1 ++ y :: h2' |}) as [o2 l2].
    destruct L as [E|(c1 & E1 & E2)].
    - injection E as <- <-. left. reflexivity.
    - cbn [fst] in E1, E2. subst o1. right. exists (rev (log c1)). split; [reflexivity|].
      destruct o2 as [b2 c2|c2|]; cbn [fin_core] in E2; cbn [events_of finish].
      + destruct E2 as (ext & He). unfold finish. cbn [events_of].
        exists (rev (EFinish (lb_abs l2) (bin_off c2) :: ext)).
        cbn [rev]. rewrite He, rev_app_distr. cbn [rev]. now rewrite <- app_assoc.
      + destruct E2 as (ext & He). exists (rev ext). now rewrite He, rev_app_distr.
      + exact I.
  Qed.
End Fail.

