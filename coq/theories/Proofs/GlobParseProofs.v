(* Proofs/GlobParseProofs.v — the glob parser is total (the fuel S (length glob) always suffices) and
   never reaches one of its unwrap()/assert! panics *)
From RG Require Import Base.Bytes Model.Glob.

Definition nopanic {A} (r : result A) : Prop := r <> Err Panic.

Lemma push_token_chars p t p' : push_token p t = Ok p' -> chars p' = chars p.
Proof. unfold push_token. destruct (stack p); [discriminate|]. intro H; injection H as <-. reflexivity. Qed.

Lemma push_token_nopanic p t : nopanic (push_token p t).
Proof. unfold push_token, nopanic. destruct (stack p); discriminate. Qed.

Lemma bump_chars p : length (chars (bump p)) <= length (chars p).
Proof. unfold bump. destruct (chars p); cbn; lia. Qed.

Lemma bump_stack p : stack (bump p) = stack p.
Proof. unfold bump. destruct (chars p); reflexivity. Qed.

Lemma push2stars_chars p p' : push2stars p = Ok p' -> chars p' = chars p.
Proof.
  unfold push2stars, bind. destruct (push_token p TStar) eqn:E; [|discriminate]. intro H.
  apply push_token_chars in H. apply push_token_chars in E. congruence.
Qed.

Lemma push2stars_nopanic p : nopanic (push2stars p).
Proof.
  unfold push2stars, bind, nopanic. destruct (push_token p TStar) eqn:E.
  - apply push_token_nopanic.
  - intro H. injection H as ->. now apply (push_token_nopanic p TStar).
Qed.

Lemma pop_token_chars p t p' : pop_token p = Ok (t, p') -> chars p' = chars p.
Proof.
  unfold pop_token. destruct (stack p); [discriminate|]. destruct (rev l); [discriminate|].
  intro H; injection H as _ <-. reflexivity.
Qed.

(* the tail of parse_star after the suffix decision *)
Definition star_tail (is_suffix : bool) (p : parser) : result parser :=
  bind (pop_token p) (fun tp =>
    let '(t, p) := tp in
    match t with
    | TRecPrefix => push_token p TRecPrefix
    | TRecSuffix => push_token p TRecSuffix
    | _ => if is_suffix then push_token p TRecSuffix else push_token p TRecZeroOrMore
    end).

Lemma star_tail_chars b p p' : star_tail b p = Ok p' -> chars p' = chars p.
Proof.
  unfold star_tail, bind. destruct (pop_token p) as [[t q]|] eqn:E; [|discriminate].
  apply pop_token_chars in E. intro H. rewrite <- E.
  destruct t; try destruct b; now apply push_token_chars in H.
Qed.

Lemma star_tail_nopanic b p top rest :
  stack p = top :: rest -> top <> [] -> nopanic (star_tail b p).
Proof.
  intros Hs Ht. unfold star_tail, bind, pop_token. rewrite Hs.
  destruct (rev top) eqn:Er.
  - exfalso. apply Ht. rewrite <- (rev_involutive top), Er. reflexivity.
  - destruct t; try destruct b; apply push_token_nopanic.
Qed.

Lemma parse_star_eq p :
  parse_star p =
  let prev0 := prev p in
  if negb (opt_is (peek p) 42) then push_token p TStar
  else
    let p := bump p in
    bind (have_tokens p) (fun ht =>
    if negb ht then
      if negb (match peek p with None => true | Some c => is_sep c end) then push2stars p
      else bind (push_token p TRecPrefix) (fun p => Ok (bump p))
    else
    if negb (opt_sep prev0) &&
       (Nat.leb (length (stack p)) 1 || (negb (opt_is prev0 44) && negb (opt_is prev0 123)))
    then push2stars p
    else
      match peek p with
      | None => star_tail true (bump p)
      | Some c =>
        if ((c =? 44)%N || (c =? 125)%N) && Nat.leb 2 (length (stack p)) then star_tail true p
        else if is_sep c then star_tail false (bump p)
        else push2stars p
      end).
Proof. reflexivity. Qed.

Lemma parse_star_chars p p' : parse_star p = Ok p' -> length (chars p') <= length (chars p).
Proof.
  rewrite parse_star_eq. cbv zeta. destruct (negb (opt_is (peek p) 42)).
  { intro H. apply push_token_chars in H; apply (f_equal (@length _)) in H. lia. }
  pose proof (bump_chars p) as Hb. set (q := bump p) in *. unfold bind.
  destruct (have_tokens q) as [ht|]; [|discriminate]. destruct (negb ht).
  { destruct (negb _).
    - intro H. apply push2stars_chars in H; apply (f_equal (@length _)) in H. lia.
    - destruct (push_token q TRecPrefix) eqn:E; [|discriminate]. intro H. injection H as <-.
      apply push_token_chars in E; apply (f_equal (@length _)) in E. pose proof (bump_chars a). lia. }
  destruct (_ && _).
  { intro H. apply push2stars_chars in H; apply (f_equal (@length _)) in H. lia. }
  pose proof (bump_chars q) as Hq.
  destruct (peek q) as [c|].
  - destruct (_ && _); [|destruct (is_sep c)]; intro H;
      [apply star_tail_chars in H; apply (f_equal (@length _)) in H|apply star_tail_chars in H; apply (f_equal (@length _)) in H|apply push2stars_chars in H; apply (f_equal (@length _)) in H]; lia.
  - intro H. apply star_tail_chars in H; apply (f_equal (@length _)) in H. lia.
Qed.

Lemma parse_star_nopanic p : nopanic (parse_star p).
Proof.
  rewrite parse_star_eq. cbv zeta. destruct (negb (opt_is (peek p) 42)); [apply push_token_nopanic|].
  set (q := bump p). unfold bind, have_tokens. destruct (stack q) as [|top rest] eqn:Es; [discriminate|].
  destruct top as [|t0 top'] eqn:Et; cbn [negb].
  { destruct (negb _); [apply push2stars_nopanic|].
    destruct (push_token q TRecPrefix) eqn:E; [discriminate|]. intro H. injection H as ->.
    now apply (push_token_nopanic q TRecPrefix). }
  destruct (_ && _); [apply push2stars_nopanic|].
  assert (Hne : t0 :: top' <> []) by discriminate.
  destruct (peek q) as [c|].
  - destruct (_ && _); [|destruct (is_sep c)].
    + eapply star_tail_nopanic; eassumption.
    + eapply star_tail_nopanic; [rewrite bump_stack; eassumption|assumption].
    + apply push2stars_nopanic.
  - eapply star_tail_nopanic; [rewrite bump_stack; eassumption|assumption].
Qed.

(* ---- classes ---- *)
Lemma add_to_last_range_ok ranges c :
  ranges <> [] -> nopanic (add_to_last_range ranges c) /\
                  (forall r, add_to_last_range ranges c = Ok r -> r <> []).
Proof.
  intro H. unfold add_to_last_range, nopanic. destruct (rev ranges) as [|[lo hi] r] eqn:Er.
  - exfalso. apply H. rewrite <- (rev_involutive ranges), Er. reflexivity.
  - destruct (c <? lo)%N; split; try discriminate. intros r0 H0. injection H0 as <-.
    destruct (rev r); discriminate.
Qed.

Lemma class_loop_ok cs : forall pv cu ranges first in_range,
  (first = false -> ranges <> []) -> (in_range = true -> first = false) ->
  nopanic (class_loop cs pv cu ranges first in_range) /\
  (forall rs ir cs' pv' cu', class_loop cs pv cu ranges first in_range = Ok (rs, ir, cs', pv', cu') ->
                             length cs' < length cs).
Proof.
  induction cs as [|c cs IH]; intros pv cu ranges first in_range H1 H2; cbn [class_loop].
  - split; [discriminate|]. intros; discriminate.
  - assert (Hsnoc : forall x, ranges ++ [x] <> []) by (intros x; destruct ranges; discriminate).
    assert (Hstep : forall pv cu ranges first in_range,
       (first = false -> ranges <> []) -> (in_range = true -> first = false) ->
       nopanic (class_loop cs pv cu ranges first in_range) /\
       (forall rs ir cs' pv' cu', class_loop cs pv cu ranges first in_range = Ok (rs, ir, cs', pv', cu') ->
                                  length cs' < S (length cs))).
    { intros. destruct (IH pv0 cu0 ranges0 first0 in_range0) as [A B]; auto. split; [assumption|].
      intros. specialize (B _ _ _ _ _ H3). lia. }
    cbn [length].
    destruct (c =? 93)%N.
    { destruct first.
      - apply Hstep; [intros _; apply Hsnoc|intro E; specialize (H2 E); discriminate].
      - split; [discriminate|]. intros rs ir cs' pv' cu' H. injection H as _ _ <- _ _. lia. }
    destruct (c =? 45)%N.
    { destruct first.
      - apply Hstep; [intros _; apply Hsnoc|intro E; specialize (H2 E); discriminate].
      - destruct in_range.
        + destruct (add_to_last_range_ok ranges 45 (H1 eq_refl)) as [Hp Hr]. unfold bind.
          destruct (add_to_last_range ranges 45) as [r|e] eqn:Ea.
          * apply Hstep; [intros _; now apply Hr|discriminate].
          * split; [intro F; injection F as ->; now apply Hp|intros; discriminate].
        + specialize (H1 eq_refl). destruct ranges as [|r0 rr]; [congruence|].
          apply Hstep; [intros _; discriminate|reflexivity]. }
    destruct in_range.
    + assert (Hf : first = false) by now apply H2. destruct (add_to_last_range_ok ranges c (H1 Hf)) as [Hp Hr].
      unfold bind. destruct (add_to_last_range ranges c) as [r|e] eqn:Ea.
      * apply Hstep; [intros _; now apply Hr|discriminate].
      * split; [intro F; injection F as ->; now apply Hp|intros; discriminate].
    + apply Hstep; [intros _; apply Hsnoc|discriminate].
Qed.

Lemma parse_class_ok p :
  nopanic (parse_class p) /\ (forall p', parse_class p = Ok p' -> length (chars p') <= length (chars p)).
Proof.
  unfold parse_class.
  set (np := match peek p with
             | Some c => if (c =? 33)%N || (c =? 94)%N then (true, bump p) else (false, p)
             | None => (false, p) end).
  assert (Hq : length (chars (snd np)) <= length (chars p)).
  { unfold np. destruct (peek p); [destruct (_ || _)|]; cbn [snd]; [apply bump_chars|lia|lia]. }
  destruct np as [negated q]. cbn [snd] in Hq. unfold bind.
  destruct (class_loop_ok (chars q) (prev q) (cur q) [] true false) as [Hp Hl];
    [discriminate|discriminate|].
  destruct (class_loop (chars q) (prev q) (cur q) [] true false) as [[[[[rs ir] cs'] pv'] cu']|e] eqn:E.
  - split; [apply push_token_nopanic|]. intros p' H. apply push_token_chars in H; apply (f_equal (@length _)) in H. cbn [chars] in H.
    specialize (Hl _ _ _ _ _ eq_refl). lia.
  - split; [intro F; injection F as ->; now apply Hp|intros; discriminate].
Qed.

(* ---- one step, the loop ---- *)
Lemma set_stack_chars p s : chars (set_stack p s) = chars p.
Proof. reflexivity. Qed.

Lemma step_ok o c p :
  nopanic (step o c p) /\ (forall p', step o c p = Ok p' -> length (chars p') <= length (chars p)).
Proof.
  unfold step.
  destruct (c =? 63)%N. { split; [apply push_token_nopanic|]. intros p' H. apply push_token_chars in H; apply (f_equal (@length _)) in H. lia. }
  destruct (c =? 42)%N. { split; [apply parse_star_nopanic|apply parse_star_chars]. }
  destruct (c =? 91)%N. { apply parse_class_ok. }
  destruct (c =? 123)%N.
  { unfold push_alternate. destruct (Nat.ltb _ _); split; try discriminate.
    intros p' H. injection H as <-. cbn. lia. }
  destruct (c =? 125)%N.
  { unfold pop_alternate. destruct (pop_alts (stack p) []) as [s alts]. split; [apply push_token_nopanic|].
    intros p' H. apply push_token_chars in H; apply (f_equal (@length _)) in H. rewrite H. cbn. lia. }
  destruct (c =? 44)%N.
  { unfold parse_comma. destruct (Nat.leb _ _).
    - split; [apply push_token_nopanic|]. intros p' H. apply push_token_chars in H; apply (f_equal (@length _)) in H. lia.
    - split; [discriminate|]. intros p' H. injection H as <-. cbn. lia. }
  destruct (c =? 92)%N.
  { unfold parse_backslash. destruct (backslash_escape o).
    - destruct (cur (bump p)); split; try discriminate; [apply push_token_nopanic|].
      intros p' H. apply push_token_chars in H; apply (f_equal (@length _)) in H. pose proof (bump_chars p). lia.
    - split; [apply push_token_nopanic|]. intros p' H. apply push_token_chars in H; apply (f_equal (@length _)) in H. lia. }
  split; [apply push_token_nopanic|]. intros p' H. apply push_token_chars in H; apply (f_equal (@length _)) in H. lia.
Qed.

Lemma parse_loop_total o : forall fuel p,
  length (chars p) < fuel ->
  exists r, parse_loop fuel o p = Some r /\ r <> Err Panic.
Proof.
  induction fuel as [|f IH]; intros p Hf; [lia|]. cbn [parse_loop].
  destruct (cur (bump p)) as [c|] eqn:Ec.
  - destruct (step_ok o c (bump p)) as [Hp Hl].
    assert (Hb : length (chars (bump p)) < length (chars p)).
    { unfold bump in *. destruct (chars p); cbn in *; [discriminate|lia]. }
    destruct (step o c (bump p)) as [p'|e] eqn:Es.
    + apply IH. specialize (Hl _ eq_refl). lia.
    + exists (Err e). split; [reflexivity|exact Hp].
  - eexists. split; [reflexivity|discriminate].
Qed.

Theorem build_total o g : exists r, build o g = Some r /\ r <> Err Panic.
Proof.
  unfold build, build_fuel.
  destruct (parse_loop_total o (S (length g)) (mk_parser [[]] g None None)) as (r & -> & Hr); [cbn; lia|].
  destruct r as [p|e].
  - destruct (stack p) as [|ts [|x y]]; eexists; (split; [reflexivity|discriminate]).
  - exists (Err e). split; [reflexivity|]. intro H. apply Hr. congruence.
Qed.
