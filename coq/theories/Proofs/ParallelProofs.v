(* Proofs/ParallelProofs.v — property C08: the output of the parallel drivers is a join of per-file blocks in
   completion order; of the serial drivers in walk order; same blocks, separators between non-empty blocks. *)
From RG Require Import Base.Bytes Model.CliTypes Model.CliExpected Gen.DecisionsCli Model.MainRun Model.Process
  Spec.ExitSpec Proofs.DecisionsProofs Proofs.MainRunProofs.
From Coq Require Import Permutation.
Local Open Scope bool_scope.

(* a run in which no per-file error occurs and stdout stays open (the property's quantifier) *)
Definition item_clean (it : item) : bool :=
  match it with
  | IErr _ => false
  | ISkip => true
  | IHay h => match h_res h, h_print h with (SMatch | SNoMatch), POk => true | _, _ => false end
  end.

(* the per-file blocks of a walk, in its order *)
Definition blocks (items : list item) : list bytes :=
  flat_map (fun it => match it with IHay h => [h_out h] | _ => [] end) items.

Definition sep_with (c : cfg) (term : bytes) : option bytes := option_map (fun s => s ++ term) (c_sep c).

Lemma join_blocks_app : forall sepl first l1 l2,
  join_blocks sepl first (l1 ++ l2) =
  join_blocks sepl first l1 ++ join_blocks sepl (first && forallb is_nil l1) l2.
Proof.
  intros sepl first l1; revert first; induction l1 as [|b l1 IH]; intros first l2.
  - cbn. now rewrite andb_true_r.
  - cbn [app join_blocks forallb]. destruct b as [|x xs].
    + cbn [is_nil andb]. apply IH.
    + cbn [is_nil andb]. rewrite andb_false_r. rewrite IH. cbn [andb]. now rewrite <- !app_assoc.
Qed.


(* what one file adds to stdout: the separator line (if something was printed before and the block is not empty)
   and the block *)
Lemma sep_line_join : forall c term s b,
  sep_line c term s b ++ b = join_blocks (sep_with c term) (negb (printed s)) [b].
Proof.
  intros c term s b. unfold sep_line, sep_with. destruct b as [|x xs]; [reflexivity|].
  cbn [join_blocks]. rewrite app_nil_r. destruct (c_sep c) as [sp|]; cbn [option_map]; destruct (printed s); reflexivity.
Qed.

Lemma write_out_printed : forall b s, printed (write_out b s) = printed s || negb (is_nil b).
Proof. intros b s. unfold write_out, is_nil. cbn. destruct b; reflexivity. Qed.

(* ---- parallel search ---- *)
Lemma par_loop_out : forall c items s,
  forallb item_clean items = true -> c_quit_after_match c = false ->
  exists s', par_loop c items s = (s', LEnd) /\
    out s' = out s ++ join_blocks (sep_with c [10%N]) (negb (printed s)) (blocks items) /\
    printed s' = printed s || negb (forallb is_nil (blocks items)) /\
    diags s' = diags s /\ errored s' = errored s.
Proof.
  intros c items; induction items as [|it rest IH]; intros s Hc Hq.
  - exists s. cbn. rewrite app_nil_r, orb_false_r. auto.
  - cbn [forallb] in Hc. apply andb_prop in Hc as [Hc1 Hc].
    destruct it as [id| |h]; [discriminate| |].
    + cbn [par_loop build_from_result blocks flat_map app]. apply IH; assumption.
    + cbn [item_clean] in Hc1. cbn [par_loop build_from_result].
      assert (Hstep : forall m : bool,
        let s1 := (if m then set_matched true (set_searched (h_id h) s) else set_searched (h_id h) s) in
        h_print h = POk ->
        exists s2, bw_print c h s1 = (POk, s2) /\
          out s2 = out s ++ join_blocks (sep_with c [10%N]) (negb (printed s)) [h_out h] /\
          printed s2 = printed s || negb (is_nil (h_out h)) /\ diags s2 = diags s /\ errored s2 = errored s).
      { intros m s1 Hp. unfold bw_print. rewrite Hp.
        assert (A : printed s1 = printed s /\ out s1 = out s /\ diags s1 = diags s /\ errored s1 = errored s)
          by (subst s1; destruct m; cbn; auto).
        destruct A as (A1 & A2 & A3 & A4).
        destruct (h_out h) as [|x xs] eqn:Ho.
        - exists s1. cbn. rewrite app_nil_r, orb_false_r. repeat split; auto.
        - eexists; split; [reflexivity|]. rewrite <- Ho. cbn [out write_out printed diags errored].
          rewrite (sep_line_join c [10%N] s1 (h_out h)), A1, A2, A3, A4, Ho. cbn.
          split; [reflexivity|]. split; [|auto]. f_equal.
          destruct (negb (printed s)); [reflexivity|]. destruct (sep_with c [10%N]) as [[|y ys]|]; reflexivity. }
      destruct (h_res h) eqn:Hr; try discriminate; destruct (h_print h) eqn:Hp; try discriminate;
        cbn [is_match].
      * destruct (Hstep true eq_refl) as (s2 & B & O & P & D & E). cbn zeta in B. rewrite B.
        rewrite Hq, andb_false_r.
        destruct (IH s2 Hc Hq) as (s' & L & O' & P' & D' & E'). exists s'. split; [exact L|].
        cbn [blocks flat_map]. change (h_out h :: flat_map _ rest) with ([h_out h] ++ blocks rest).
        rewrite join_blocks_app, O', O, P, <- app_assoc. cbn [forallb]. rewrite andb_true_r.
        rewrite P', P, D', D, E', E. repeat split; auto.
        -- f_equal. f_equal. f_equal. rewrite negb_orb, negb_involutive. reflexivity.
        -- rewrite <- orb_assoc. f_equal. cbn [app forallb]. now rewrite negb_andb.
      * destruct (Hstep false eq_refl) as (s2 & B & O & P & D & E). cbn zeta in B. rewrite B.
        rewrite Hq, andb_false_r.
        destruct (IH s2 Hc Hq) as (s' & L & O' & P' & D' & E'). exists s'. split; [exact L|].
        cbn [blocks flat_map]. change (h_out h :: flat_map _ rest) with ([h_out h] ++ blocks rest).
        rewrite join_blocks_app, O', O, P, <- app_assoc. cbn [forallb]. rewrite andb_true_r.
        rewrite P', P, D', D, E', E. repeat split; auto.
        -- f_equal. f_equal. f_equal. rewrite negb_orb, negb_involutive. reflexivity.
        -- rewrite <- orb_assoc. f_equal. cbn [app forallb]. now rewrite negb_andb.
Qed.

(* ---- serial search ---- *)
Lemma search_loop_out : forall c items s,
  forallb item_clean items = true -> c_quit_after_match c = false ->
  exists s', search_loop c items s = (s', LEnd) /\
    out s' = out s ++ join_blocks (sep_with c (c_lineterm c)) (negb (printed s)) (blocks items) /\
    printed s' = printed s || negb (forallb is_nil (blocks items)) /\
    diags s' = diags s /\ errored s' = errored s.
Proof.
  intros c items; induction items as [|it rest IH]; intros s Hc Hq.
  - exists s. cbn. rewrite app_nil_r, orb_false_r. auto.
  - cbn [forallb] in Hc. apply andb_prop in Hc as [Hc1 Hc].
    destruct it as [id| |h]; [discriminate| |].
    + cbn [search_loop build_from_result blocks flat_map app]. apply IH; assumption.
    + cbn [item_clean] in Hc1. cbn [search_loop build_from_result].
      set (s1 := serial_emit c h (set_searched (h_id h) s)).
      assert (A : out s1 = out s ++ join_blocks (sep_with c (c_lineterm c)) (negb (printed s)) [h_out h] /\
                  printed s1 = printed s || negb (is_nil (h_out h)) /\ diags s1 = diags s /\ errored s1 = errored s).
      { subst s1. unfold serial_emit. cbn [out write_out printed diags errored].
        rewrite (sep_line_join c (c_lineterm c) (set_searched (h_id h) s) (h_out h)). cbn [printed set_searched out].
        split; [reflexivity|]. split; [|auto]. f_equal.
        destruct (h_out h) as [|x xs]; [reflexivity|]. cbn.
        destruct (negb (printed s)); [reflexivity|]. destruct (sep_with c (c_lineterm c)) as [[|y ys]|]; reflexivity. }
      destruct A as (O & P & D & E).
      assert (G : forall m : bool, exists s', search_loop c rest (set_matched m s1) = (s', LEnd) /\
                out s' = out s ++ join_blocks (sep_with c (c_lineterm c)) (negb (printed s)) (blocks (IHay h :: rest)) /\
                printed s' = printed s || negb (forallb is_nil (blocks (IHay h :: rest))) /\
                diags s' = diags s /\ errored s' = errored s).
      { intros m. destruct (IH (set_matched m s1) Hc Hq) as (s' & L & O' & P' & D' & E'). exists s'. split; [exact L|].
        cbn [blocks flat_map]. change (h_out h :: flat_map _ rest) with ([h_out h] ++ blocks rest).
        cbn [out set_matched printed diags errored] in O', P', D', E'.
        rewrite join_blocks_app, O', O, P, <- app_assoc. cbn [forallb]. rewrite andb_true_r.
        rewrite P', P, D', D, E', E. repeat split; auto.
        - f_equal. f_equal. f_equal. rewrite negb_orb, negb_involutive. reflexivity.
        - rewrite <- orb_assoc. f_equal. cbn [app forallb]. now rewrite negb_andb. }
      destruct (h_res h) eqn:Hr; try discriminate; rewrite Hq, andb_false_r; apply G.
Qed.

(* ---- the two drivers on clean runs ---- *)
Definition no_stats (c : cfg) : Prop := c_stats c = None.

Lemma parallel_output_proof : forall c items,
  c_setup_ok c = true -> c_quit_after_match c = false -> c_stats c = None ->
  forallb item_clean items = true ->
  out (snd (search_parallel c items st0)) = join_blocks (sep_with c [10%N]) true (blocks items) /\
  diags (snd (search_parallel c items st0)) =
    (if c_implicit_path c && negb (existsb item_is_hay items) && c_messages c then [DgNothingSearched] else []).
Proof.
  intros c items Hok Hq Hst Hc. unfold search_parallel. rewrite Hok. cbn [negb].
  destruct (par_loop_out c items st0 Hc Hq) as (s' & L & O & P & D & E). rewrite L. cbn [snd].
  pose proof (par_loop_flags c items st0 s' LEnd) as F.
  assert (Hnp : forallb item_no_pipe_par items = true).
  { clear - Hc. induction items as [|it rest IH]; [reflexivity|]. cbn in *. apply andb_prop in Hc as [A B].
    rewrite (IH B), andb_true_r. destruct it as [| |h]; auto. cbn in *.
    destruct (h_res h), (h_print h), (h_out h); auto; discriminate. }
  destruct (F Hnp L) as (_ & _ & C & _). destruct (C eq_refl) as [_ C2]. cbn in C2.
  unfold finish_parallel. rewrite Hst, C2.
  destruct (c_implicit_path c && negb (existsb item_is_hay items)); cbn [andb out diags err_message].
  - rewrite O, D. cbn. split; [reflexivity|]. destruct (c_messages c); reflexivity.
  - rewrite O, D. cbn. auto.
Qed.

Lemma serial_output_proof : forall c items,
  c_setup_ok c = true -> c_quit_after_match c = false -> c_stats c = None -> c_collects c = false ->
  forallb item_clean items = true ->
  out (snd (search_serial c items st0)) = join_blocks (sep_with c (c_lineterm c)) true (blocks items).
Proof.
  intros c items Hok Hq Hst Hcol Hc. unfold search_serial. rewrite Hok, Hcol. cbn [negb].
  destruct (search_loop_out c items st0 Hc Hq) as (s' & L & O & P & D & E). rewrite L. cbn [snd].
  unfold finish_search. rewrite Hst. destruct (c_implicit_path c && negb (searched s')); cbn; rewrite O; reflexivity.
Qed.

Lemma blocks_perm : forall items items', Permutation items items' -> Permutation (blocks items) (blocks items').
Proof.
  intros items items' P. unfold blocks. induction P; cbn.
  - constructor.
  - apply Permutation_app_head. exact IHP.
  - rewrite !app_assoc. apply Permutation_app_tail. apply Permutation_app_comm.
  - eapply perm_trans; eassumption.
Qed.

Lemma item_clean_perm : forall items items', Permutation items items' ->
  forallb item_clean items = forallb item_clean items'.
Proof. intros; now apply forallb_perm. Qed.

(* C08, main statement: for every completion order items' of the walk items, the parallel stdout is the join of
   the blocks in that order, the serial stdout the join of the same blocks in walk order; each block contiguous
   and byte-identical, none twice, none missing, the separator line exactly between consecutive non-empty blocks *)
Lemma par_output_is_block_permutation_proof : forall c items items',
  c_setup_ok c = true -> c_quit_after_match c = false -> c_stats c = None -> c_collects c = false ->
  forallb item_clean items = true ->
  Permutation items items' ->
  out (snd (search_parallel c items' st0)) = join_blocks (sep_with c [10%N]) true (blocks items') /\
  out (snd (search_serial c items st0)) = join_blocks (sep_with c (c_lineterm c)) true (blocks items) /\
  Permutation (blocks items) (blocks items').
Proof.
  intros c items items' Hok Hq Hst Hcol Hc P.
  assert (Hc' : forallb item_clean items' = true) by (now rewrite <- (item_clean_perm _ _ P)).
  split; [exact (proj1 (parallel_output_proof c items' Hok Hq Hst Hc'))|].
  split; [exact (serial_output_proof c items Hok Hq Hst Hcol Hc)|]. now apply blocks_perm.
Qed.

(* same order and a "\n" terminator: byte-identical *)
Lemma par_eq_serial_same_order_proof : forall c items,
  c_setup_ok c = true -> c_quit_after_match c = false -> c_stats c = None -> c_collects c = false ->
  forallb item_clean items = true -> c_lineterm c = [10%N] ->
  out (snd (search_parallel c items st0)) = out (snd (search_serial c items st0)).
Proof.
  intros c items Hok Hq Hst Hcol Hc Hl.
  rewrite (proj1 (parallel_output_proof c items Hok Hq Hst Hc)), (serial_output_proof c items Hok Hq Hst Hcol Hc), Hl.
  reflexivity.
Qed.

(* ---- --files ---- *)
Lemma files_loop_out : forall c items s,
  forallb item_clean items = true -> c_quit_after_match c = false ->
  exists s', files_loop c items s = (s', LEnd) /\ out s' = out s ++ concat (blocks items).
Proof.
  intros c items; induction items as [|it rest IH]; intros s Hc Hq.
  - exists s. cbn. now rewrite app_nil_r.
  - cbn [forallb] in Hc. apply andb_prop in Hc as [Hc1 Hc].
    destruct it as [id| |h]; [discriminate| |].
    + cbn [files_loop build_from_result blocks flat_map app]. apply IH; assumption.
    + cbn [item_clean] in Hc1. cbn [files_loop build_from_result]. rewrite Hq.
      destruct (h_res h); try discriminate; destruct (h_print h); try discriminate;
        (destruct (IH (write_out (h_out h) (set_matched true s)) Hc Hq) as (s' & L & O); exists s'; split; [exact L|];
         rewrite O; cbn; now rewrite <- app_assoc).
Qed.

Lemma print_thread_out : forall q s,
  forallb (fun h => match h_print h with POk => true | _ => false end) q = true ->
  out (fst (print_thread q s)) = out s ++ concat (map h_out q).
Proof.
  induction q as [|h q IH]; intros s H; [cbn; now rewrite app_nil_r|].
  cbn in H. apply andb_prop in H as [H1 H2]. cbn [print_thread]. destruct (h_print h); try discriminate.
  rewrite IH by exact H2. cbn. now rewrite <- app_assoc.
Qed.

Lemma files_output_proof : forall c items items',
  c_setup_ok c = true -> c_quit_after_match c = false -> c_collects c = false ->
  forallb item_clean items = true ->
  Permutation items items' ->
  out (snd (files_parallel c items' st0)) = concat (blocks items') /\
  out (snd (files_serial c items st0)) = concat (blocks items) /\
  Permutation (blocks items) (blocks items').
Proof.
  intros c items items' Hok Hq Hcol Hc P.
  assert (Hc' : forallb item_clean items' = true) by (now rewrite <- (item_clean_perm _ _ P)).
  split; [|split; [|now apply blocks_perm]].
  - unfold files_parallel. rewrite Hok. cbn [negb].
    destruct (files_par_workers c items' st0 []) as [sw q] eqn:Hw.
    apply files_par_workers_spec in Hw as (_ & O & _ & _ & Q & _). specialize (Q Hq). cbn in Q.
    assert (Hq' : forallb (fun h => match h_print h with POk => true | _ => false end) q = true).
    { subst q. clear - Hc'. induction items' as [|[| |h] rest IH]; cbn in *; auto; try discriminate.
      apply andb_prop in Hc' as [X Y]. destruct (h_res h), (h_print h); try discriminate; cbn; auto. }
    pose proof (print_thread_out q sw Hq') as PO.
    destruct (print_thread q sw) as [s2 pr] eqn:Hp. cbn [fst] in PO.
    assert (pr = POk) as -> by (apply print_thread_flags in Hp as (_ & _ & _ & X); auto).
    cbn [snd]. rewrite PO, O. cbn. subst q. f_equal. unfold blocks.
    clear. induction items' as [|[| |h] rest IH]; cbn; auto. now rewrite IH.
  - unfold files_serial. rewrite Hok, Hcol. cbn [negb].
    destruct (files_loop_out c items st0 Hc Hq) as (s' & L & O). rewrite L. cbn [snd]. exact O.
Qed.

(* ---- sorting ---- *)
Definition with_threads (l : low) (j : option N) : low :=
  {| l_mode := l_mode l; l_patterns_empty := l_patterns_empty l; l_max_count_zero := l_max_count_zero l;
     l_quiet := l_quiet l; l_stats := l_stats l; l_sort := l_sort l; l_threads := j; l_one_file := l_one_file l;
     l_avail := l_avail l |}.

Lemma sorted_threads_one : forall l s, l_sort l = Some s -> low_threads l = 1%N.
Proof. intros l s H. unfold low_threads. rewrite H. apply sort_forces_one_thread_proof. Qed.

Lemma sorted_output_equals_j1_proof : forall l s base items j,
  l_sort l = Some s ->
  run_model ParseOk (with_threads l j) base items = run_model ParseOk (with_threads l (Some 1%N)) base items.
Proof.
  intros l s base items j H. unfold run_model.
  assert (T : forall j', low_threads (with_threads l j') = 1%N).
  { intros j'. apply (sorted_threads_one _ s). exact H. }
  rewrite !T. reflexivity.
Qed.

Lemma sorted_driver_is_serial_proof : forall l s,
  l_sort l = Some s ->
  match choose_driver (l_mode l) (matches_possible (l_patterns_empty l) (l_max_count_zero l)) (low_threads l) with
  | DSearchParallel | DFilesParallel => False
  | _ => True
  end.
Proof.
  intros l s H. rewrite (sorted_threads_one l s H), choose_driver_eq. unfold choose_driver_expected.
  destruct (l_mode l) as [sm| | |];
    destruct (matches_possible (l_patterns_empty l) (l_max_count_zero l)); cbn; auto;
    change (1 =? 1)%N with true; cbn; auto.
Qed.
