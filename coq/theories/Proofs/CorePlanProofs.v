(* Proofs/CorePlanProofs.v — the slice theorems of C14 instantiated with the plan computed by the Core model
   (Model/CorePlan.v): whatever lines Core selects under -A/-B/-C, --passthru, --stop-on-nonmatch, -v, the
   guards of the sink functions keep the byte away from the sink (quit) / behind the notification (convert). *)
From RG Require Import Base.Bytes Model.LineBufferBin Model.BinaryDetect Model.CorePlan
  Proofs.BinaryDetectProofs.
From RG Require Model.SearcherCore.

Lemma core_plan_slice_quit_proof :
  forall (St : Type) (sink : St -> event -> St * bool) (b : byte) (sniff : nat) (slice : bytes)
         (cfg : SearcherCore.config) (M : SearcherCore.matcher) (s0 : St),
    Forall (ev_free b)
      (snd (slice_run sink (BQuit b) sniff slice (fst (core_slice_plan cfg M slice))
                      (snd (core_slice_plan cfg M slice)) (s0, []))).
Proof. intros St sink b sniff slice cfg M s0. apply slice_quit_events_free_proof. reflexivity. Qed.

Lemma core_plan_slice_convert_proof :
  forall (St : Type) (sink : St -> event -> St * bool) (b : byte) (sniff : nat) (slice : bytes)
         (cfg : SearcherCore.config) (M : SearcherCore.matcher) (s0 : St),
    guarded b
      (rev (snd (slice_run sink (BConvert b) sniff slice (fst (core_slice_plan cfg M slice))
                           (snd (core_slice_plan cfg M slice)) (s0, [])))).
Proof. intros St sink b sniff slice cfg M s0. apply slice_convert_guarded_proof. reflexivity. Qed.

