(* Proofs/RegexReaderProofs.v — C01 for the incremental reader (ReadByLine::run, any buffer capacity,
   any failure-free read history) and for the NUL terminator (slow path only), from the candidate
   contract of Proofs/RegexCandProofs.v and the searcher theorems of Proofs/ReaderProofs.v /
   Proofs/SlowPathProofs.v. *)
From RG Require Import Base.Bytes Base.LineTerm Model.Lines Model.SearcherCore Model.Glue Model.ReadByLine
  Spec.GrepSpec Spec.RegexSem Model.RegexBuild Model.RegexLiteral Model.CoreLinePaths
  Proofs.LinesProofs Proofs.SlowPathProofs Proofs.FastPathProofs Proofs.FindSpecProofs Proofs.ReaderProofs
  Proofs.RegexSemProofs Proofs.RegexPassesProofs Proofs.RegexLiteralProofs Proofs.RegexLiteralBytes
  Proofs.RegexCandProofs.

Notation LF := 10%N.

(* lits_ok for the matcher build_many produces *)
Lemma build_lits_ok norm rc tr final acc lt :
  build norm rc tr = inl (final, Some lt) -> leaf_free LF final = true ->
  lits_ok final (fast_line_literals (inner_literals rc acc final)).
Proof.
  intros Hb Hf. unfold lits_ok. destruct (fast_line_literals (inner_literals rc acc final)) as [ls|] eqn:E; [|exact I].
  split.
  - intros l Hin. split; [exact (fast_line_literals_nonempty rc acc final ls E l Hin)|].
    apply not_in_nolf. exact (fast_line_literals_free LF ltac:(lia) rc acc final ls Hf E l Hin).
  - intros buf a b i j Mm Ha Hbb. exact (candidate_never_skips_proof rc acc final ls buf a b i j E Mm Ha Hbb).
Qed.

Theorem c01_reader_eq_ref_proof :
  forall norm, norm_ok norm ->
  forall rc tr final acc span fa cfg,
    build norm rc tr = inl (final, Some (RTByte LF)) ->
    local_looks final = true -> span_ok final span ->
    c_lt cfg = LTByte LF -> c_binary cfg = BNone ->
    forall (cap : nat) (stream : bytes) (hist : list read_step), chunks hist ->
    let M := regex_line_matcher final (Some (RTByte LF)) (fast_line_literals (inner_literals rc acc final)) span fa in
    let gf := g_run cfg (is_match_sem final) (split_lines (lt_byte (c_lt cfg)) stream) in
    exists n, read_by_line_run cfg M (fun _ => Continue) AEager cap stream hist
              = RunOk (EBegin :: rev (g_out gf) ++ [EFinish n None]) /\
              (g_stopped gf = false -> n = length stream) /\ n <= g_off gf.
Proof.
  intros norm Hn rc tr final acc span fa cfg Hb Hloc Hspan Hlt Hbin cap stream hist Hh M gf.
  change (is_match_sem final) with (m_is_match M) in gf.
  apply reader_eq_ref_proof; [exact Hbin| |exact Hh].
  intro buf. apply find_spec_of_cand_proof. apply regex_cand_ok_proof; auto.
  - intros b i j Mm p Hp Hbyte.
    pose proof (build_line_terminator_promise_proof norm Hn rc tr final (RTByte LF) b i j Hb Mm p Hp) as H.
    cbn in H. rewrite Hbyte in H. discriminate.
  - exact (build_lits_ok norm rc tr final acc _ Hb (build_leaf_free norm rc tr final LF Hb)).
Qed.

Theorem c01_reader_eq_ref_crlf_proof :
  forall norm, norm_ok norm ->
  forall rc tr final acc span fa cfg,
    build norm rc tr = inl (final, Some RTCrlf) ->
    local_looks_crlf final = true -> span_ok final span ->
    c_lt cfg = LTCrlf -> c_binary cfg = BNone ->
    forall (cap : nat) (stream : bytes) (hist : list read_step), chunks hist ->
    let M := regex_line_matcher final (Some RTCrlf) (fast_line_literals (inner_literals rc acc final)) span fa in
    let gf := g_run cfg (is_match_sem final) (split_lines (lt_byte (c_lt cfg)) stream) in
    exists n, read_by_line_run cfg M (fun _ => Continue) AEager cap stream hist
              = RunOk (EBegin :: rev (g_out gf) ++ [EFinish n None]) /\
              (g_stopped gf = false -> n = length stream) /\ n <= g_off gf.
Proof.
  intros norm Hn rc tr final acc span fa cfg Hb Hloc Hspan Hlt Hbin cap stream hist Hh M gf.
  change (is_match_sem final) with (m_is_match M) in gf.
  apply reader_eq_ref_proof; [exact Hbin| |exact Hh].
  intro buf. apply find_spec_of_cand_proof. apply regex_cand_ok_crlf_proof; auto.
  - intros b i j Mm p Hp Hbyte.
    pose proof (build_line_terminator_promise_proof norm Hn rc tr final RTCrlf b i j Hb Mm p Hp) as H.
    cbn in H. rewrite Hbyte in H. cbn in H. discriminate.
  - exact (build_lits_ok norm rc tr final acc _ Hb (build_leaf_free_crlf norm rc tr final Hb)).
Qed.

(* ---- the NUL terminator (--null-data): a matcher that advertises NUL is never given the fast
        path, so no locality is needed — every final HIR, both strategies ---- *)
Lemma nul_always_slow final lits span fa cfg c :
  is_line_by_line_fast cfg (regex_line_matcher final (Some (RTByte 0)) lits span fa) c = false.
Proof.
  unfold is_line_by_line_fast. destruct (c_passthru cfg); [reflexivity|].
  destruct (c_stop_on_nonmatch cfg && has_matched c); reflexivity.
Qed.

Theorem c01_nul_slice_proof : forall final lits span fa cfg s,
  c_binary cfg = BNone ->
  slice_by_line_run cfg (regex_line_matcher final (Some (RTByte 0)) lits span fa) (fun _ => Continue) s
  = RunOk (grep_ref cfg (is_match_sem final) s).
Proof.
  intros final lits span fa cfg s Hbin.
  change (is_match_sem final) with (m_is_match (regex_line_matcher final (Some (RTByte 0)) lits span fa)).
  apply slice_slow_eq_ref_proof; [exact Hbin|]. intro c. apply nul_always_slow.
Qed.

Theorem c01_nul_reader_proof : forall final lits span fa cfg,
  c_binary cfg = BNone ->
  forall (cap : nat) (stream : bytes) (hist : list read_step), chunks hist ->
  let M := regex_line_matcher final (Some (RTByte 0)) lits span fa in
  let gf := g_run cfg (is_match_sem final) (split_lines (lt_byte (c_lt cfg)) stream) in
  exists n, read_by_line_run cfg M (fun _ => Continue) AEager cap stream hist
            = RunOk (EBegin :: rev (g_out gf) ++ [EFinish n None]) /\
            (g_stopped gf = false -> n = length stream) /\ n <= g_off gf.
Proof.
  intros final lits span fa cfg Hbin cap stream hist Hh M gf.
  change (is_match_sem final) with (m_is_match M) in gf.
  apply reader_slow_eq_ref_proof; [exact Hbin| |exact Hh]. intro c. apply nul_always_slow.
Qed.
