(* Proofs/GitLinesIndependentProofs.v — the lines of one ignore file are independent in the model: a line that
   add_line rejects (or skips) contributes nothing and takes nothing away, and every line that IS accepted carries
   well-formed tokens (no empty class, ascending ranges) — the one thing that could make the regex of a glob, and
   with it the regex SET of the whole file, fail to compile.  (In the code a failing set build makes
   ignore::dir::create_gitignore fall back to an EMPTY matcher for that file: all its lines would be lost.) *)
From RG Require Import Base.Bytes Model.Glob Model.GlobSet Model.Gitignore Spec.GlobClassSyntax
  Proofs.GlobClassProofs Proofs.GitLineRgProofs.

Lemma add_lines_app ci a b : add_lines ci (a ++ b) = add_lines ci a ++ add_lines ci b.
Proof.
  induction a as [|l a IH]; [reflexivity|]. cbn [app add_lines]. destruct (add_line ci l); rewrite IH; reflexivity.
Qed.

Theorem unparsable_line_skipped_proof ci before bad after :
  (forall g, add_line ci bad <> LGlob g) ->
  add_lines ci (before ++ bad :: after) = add_lines ci (before ++ after).
Proof.
  intro H. rewrite !add_lines_app. cbn [add_lines]. destruct (add_line ci bad) as [|e|g]; try reflexivity.
  now elim (H g).
Qed.

Lemma add_line_wf ci l g : add_line ci l = LGlob g -> toks_wf (g_tokens (ig_glob g)) = true.
Proof.
  rewrite add_line_stages. destruct (is_prefix_of [35%N] l); [discriminate|]. cbv zeta.
  destruct (trim_trailing_spaces l) as [|b0 l0]; [discriminate|].
  destruct (stage1 (b0 :: l0)) as [[w a] l1]. destruct l1 as [|b1 l1']; [discriminate|].
  destruct (stage2 (b1 :: l1')) as [d l2].
  destruct (build _ _) as [[ts|e]|] eqn:E; try discriminate.
  intro H. injection H as <-. cbn [ig_glob g_tokens]. eapply build_tokens_wf_proof. exact E.
Qed.

Theorem accepted_lines_tokens_wf_proof ci lines g :
  In g (add_lines ci lines) -> toks_wf (g_tokens (ig_glob g)) = true.
Proof.
  induction lines as [|l r IH]; [intros []|]. cbn [add_lines]. destruct (add_line ci l) as [|e|g0] eqn:E; try exact IH.
  intros [<-|H]; [eapply add_line_wf; exact E|now apply IH].
Qed.
