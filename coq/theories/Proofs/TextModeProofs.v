(* Proofs/TextModeProofs.v — detection None (what --text / --null-data select) is no detection at all *)
From RG Require Import Base.Bytes Base.BytesFacts Model.LineBufferBin Model.BinaryDetect Spec.BinarySpec
  Proofs.LineBufferBinProofs Proofs.BinaryDetectProofs.

Section TextMode.
  Context {St : Type}.
  Variable sink : St -> event -> St * bool.

  Lemma detect_none buf s e w : detect_binary sink BNone buf s e None w = (false, None, w).
  Proof. reflexivity. Qed.

  Lemma sink_call_none abs buf c w :
    sink_call sink BNone true abs buf c None w = sink_call sink BNone false abs buf c None w.
  Proof. reflexivity. Qed.

  Lemma sink_call_none_cb binary abs buf c w go cb' w' :
    sink_call sink BNone binary abs buf c None w = (go, cb', w') -> cb' = None.
  Proof.
    unfold sink_call, guard. rewrite detect_none.
    destruct binary; destruct (negb (c_matched c) && _); destruct (c_matched c);
      repeat (match goal with
              | |- context [emit_break sink ?c0 ?w0] => destruct (emit_break sink c0 w0) as [? []]
              | |- context [emit sink ?w0 ?e0] => destruct (emit sink w0 e0) as [? ?]
              end; cbn [negb]; rewrite ?detect_none);
      intro H; injection H as _ <- _; reflexivity.
  Qed.

  Lemma run_calls_none abs buf cs : forall w,
    run_calls sink BNone true abs buf cs None w = run_calls sink BNone false abs buf cs None w.
  Proof.
    induction cs as [|c cs IH]; intro w; [reflexivity|]. cbn [run_calls]. rewrite sink_call_none.
    destruct (sink_call sink BNone false abs buf c None w) as [[go cb1] w1] eqn:E.
    apply sink_call_none_cb in E as ->. destruct go; [apply IH|reflexivity].
  Qed.

  Lemma run_calls_none_cb binary abs buf cs : forall w st cb' w',
    run_calls sink BNone binary abs buf cs None w = (st, cb', w') -> cb' = None.
  Proof.
    induction cs as [|c cs IH]; intros w st cb' w' H; cbn [run_calls] in H; [injection H as _ <- _; reflexivity|].
    destruct (sink_call sink BNone binary abs buf c None w) as [[go cb1] w1] eqn:E.
    apply sink_call_none_cb in E as ->. destruct go; [eapply IH; exact H|injection H as _ <- _; reflexivity].
  Qed.

  Lemma slice_none_eq_plain_proof sniff slice plan fp w :
    slice_run sink BNone sniff slice plan fp w = slice_run_plain sink slice plan fp w.
  Proof.
    unfold slice_run, slice_run_plain. destruct (emit sink w EBegin) as [w1 r1]. destruct r1; [|reflexivity].
    rewrite detect_none, run_calls_none.
    destruct (run_calls sink BNone false 0 slice plan None w1) as [[st cb] w2] eqn:E.
    apply run_calls_none_cb in E as ->. reflexivity.
  Qed.

  (* reader: with detection None the line buffer never reports an offset and no binary_data call is made *)
  Section Reader.
    Context {core : Type}.
    Variable c_roll : core -> bytes -> nat * core.
    Variable c_plan : core -> bytes -> list call * bool * core.
    Variable cfg : lb_config.
    Variable mode : bin_mode.
    Hypothesis Hnone : cfg_binary cfg = BNone.

    Notation rbl_state := (@rbl_state St core).
    Definition none_inv (st : rbl_state) : Prop :=
      lb_bin (rs_lb st) = None /\ no_binary_event (snd (rs_w st)).

    Lemma lb_fill_none lb rd r lb' rd' : lb_bin lb = None -> lb_fill cfg lb rd = Some (r, lb', rd') -> lb_bin lb' = None.
    Proof.
      intros Hb H. unfold lb_fill in H. rewrite Hnone in H. cbn [is_quit andb] in H.
      eapply (fill_loop_none cfg Hnone); [|exact H]. unfold lb_roll. destruct (_ =? _); exact Hb.
    Qed.

    Lemma run_calls_false_no_binary abs buf cs : forall cb w st cb' w',
      run_calls sink mode false abs buf cs cb w = (st, cb', w') -> no_binary_event (snd w) -> no_binary_event (snd w').
    Proof.
      intros cb w st cb' w' H Hn.
      eapply (run_calls_pres sink mode 0%N (fun _ w => no_binary_event (snd w))) with (binary := false) (buf := buf);
        [| | |exact H|exact Hn].
      - intros cb0 w0 ev Hi HP. rewrite emit_trace. constructor; [destruct ev; cbn in Hi; tauto|exact HP].
      - discriminate.
      - intros cb0 w0 c _ HP. rewrite emit_trace. constructor; [unfold call_event; destruct (c_matched c); exact I|exact HP].
    Qed.

    Lemma rbl_fill_none st r st' : rbl_fill sink c_roll cfg st = (r, st') -> none_inv st -> none_inv st'.
    Proof.
      unfold rbl_fill. intros H [Hb Hn].
      destruct (c_roll (rs_core st) (lb_buffer (rs_lb st))) as [consumed core'].
      destruct (lb_fill cfg (lb_consume (rs_lb st) consumed) (rs_rd st)) as [[[fr lb2] rd2]|] eqn:Ef;
        [|injection H as _ <-; split; assumption].
      assert (Hb2 : lb_bin lb2 = None) by (eapply lb_fill_none; [|exact Ef]; exact Hb).
      destruct fr as [didread| |]; [|injection H as _ <-; split; assumption|injection H as _ <-; split; assumption].
      rewrite Hb, Hb2 in H. cbn [andb] in H.
      destruct (negb didread || false); [injection H as _ <-; split; assumption|].
      destruct (_ && _); injection H as _ <-; split; assumption.
    Qed.

    Lemma rbl_loop_none fuel : forall st st' o,
      rbl_loop sink mode c_roll c_plan cfg fuel st = (st', o) -> none_inv st -> none_inv st'.
    Proof.
      induction fuel as [|fuel IH]; intros st st' o H Hinv; cbn [rbl_loop] in H; [injection H as <- _; exact Hinv|].
      destruct (rbl_fill sink c_roll cfg st) as [r st1] eqn:Ef.
      pose proof (rbl_fill_none _ _ _ Ef Hinv) as Hinv1.
      destruct r as [[|]| |]; try (injection H as <- _; exact Hinv1).
      destruct (c_plan (rs_core st1) (lb_buffer (rs_lb st1))) as [[calls go_all] core'].
      destruct (run_calls sink mode false (rs_cabs st1) (lb_buffer (rs_lb st1)) calls None (rs_w st1))
        as [[stopped cb'] w'] eqn:Erun.
      destruct Hinv1 as [Hb1 Hn1].
      pose proof (run_calls_false_no_binary _ _ _ _ _ _ _ _ Erun Hn1) as Hn2.
      assert (Hinv2 : none_inv (mk_rs (rs_lb st1) (rs_rd st1) core' (rs_cabs st1) w')) by (split; assumption).
      destruct stopped; [injection H as <- _; exact Hinv2|].
      destruct go_all; [eapply IH; eassumption|injection H as <- _; exact Hinv2].
    Qed.

    Lemma rbl_none_no_binary_proof fuel lb0 rd core0 s0 :
      let res := rbl_run sink mode c_roll c_plan cfg fuel lb0 rd core0 (s0, []) in
      no_binary_event (snd (fst res)) /\
      (snd res = ODone -> exists bc t, snd (fst res) = EFinish bc None :: t).
    Proof.
      unfold rbl_run. destruct (emit sink (s0, []) EBegin) as [w1 r1] eqn:E1.
      assert (Hw1 : no_binary_event (snd w1)).
      { apply emit_fst in E1 as ->. rewrite emit_trace. constructor; [exact I|constructor]. }
      assert (Hinv0 : none_inv (mk_rs (lb_clear lb0) rd core0 0 w1)) by (split; [reflexivity|exact Hw1]).
      match goal with |- context [let (st, o) := ?X in _] => destruct X as [st o] eqn:El end.
      assert (Hinv : none_inv st).
      { destruct r1; [eapply rbl_loop_none; eassumption|injection El as <- _; exact Hinv0]. }
      destruct Hinv as [Hb Hn]. destruct o; cbn [fst snd].
      - rewrite emit_trace. split; [constructor; [exact I|exact Hn]|]. intros _. rewrite Hb. eauto.
      - split; [exact Hn|discriminate].
      - split; [exact Hn|discriminate].
    Qed.
  End Reader.
End TextMode.
