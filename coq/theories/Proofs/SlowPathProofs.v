(* Proofs/SlowPathProofs.v — the slow line path of SliceByLine simulates the grep reference. *)
From RG Require Import Base.Bytes Base.BytesFacts Model.Lines Model.SearcherCore Model.Glue
  Spec.GrepSpec Proofs.LinesProofs Proofs.CoreSinkProofs.

Ltac len := cbn [length] in *; rewrite ?app_length in *; cbn [length] in *; lia.

Lemma skipn_skipn {A} (a b : nat) (l : list A) : skipn a (skipn b l) = skipn (b + a) l.
Proof.
  revert l; induction b as [|b IH]; intro l; [reflexivity|].
  destruct l as [|x l]; [now rewrite !skipn_nil|]. cbn [skipn Nat.add]. apply IH.
Qed.

Lemma sub_length {A} (s : list A) p q : q <= length s -> length (sub s p q) = q - p.
Proof. intro H. unfold sub. rewrite firstn_length, skipn_length. lia. Qed.

Lemma sub_decompose {A} (s : list A) p q : p <= q -> q <= length s ->
  s = firstn p s ++ sub s p q ++ skipn q s.
Proof.
  intros Hpq Hq. unfold sub.
  rewrite <- (firstn_skipn p s) at 1. f_equal.
  rewrite <- (firstn_skipn (q - p) (skipn p s)) at 1. f_equal.
  rewrite skipn_skipn. f_equal. lia.
Qed.

Lemma sub_app_adj {A} (s : list A) p q r : p <= q -> q <= r -> sub s p r = sub s p q ++ sub s q r.
Proof.
  intros Hpq Hqr. unfold sub.
  replace (r - p) with ((q - p) + (r - q)) by lia.
  rewrite <- (firstn_skipn (q - p) (firstn (q - p + (r - q)) (skipn p s))).
  rewrite firstn_firstn. replace (Nat.min (q - p) (q - p + (r - q))) with (q - p) by lia. f_equal.
  rewrite skipn_firstn_comm. replace (q - p + (r - q) - (q - p)) with (r - q) by lia.
  rewrite skipn_skipn. f_equal. f_equal. lia.
Qed.

Lemma firstn_sub {A} (s : list A) p : firstn p s = sub s 0 p.
Proof. unfold sub. now rewrite Nat.sub_0_r. Qed.

Section Sim.
  Variable cfg : config.
  Variable M : matcher.
  Hypothesis Hbin : c_binary cfg = BNone.
  Variable s : bytes.
  (* the buffer [s] is a window of a stream: it starts at absolute offset [A], after [base] line
     terminators; [bflag] is Core.binary (irrelevant under Hbin) *)
  Variable A base : nat.
  Variable bflag : bool.
  Notation ltb := (lt_byte (c_lt cfg)).
  Notation K := (fun _ : nat => Continue).

  (* line_step in terms of sub *)
  Lemma line_step_sub p l en : sub s p (p + length l) = l -> terminated ltb l ->
    p + length l <= en -> p + length l <= length s ->
    line_step ltb s p en = Some (p, p + length l).
  Proof.
    intros Hsub Ht Hen Hs.
    rewrite (sub_decompose s p (p + length l)) by lia. rewrite Hsub.
    assert (Hp : length (firstn p s) = p) by (rewrite firstn_length; lia).
    rewrite <- Hp at 3 4 5. apply line_step_terminated; [exact Ht|lia].
  Qed.

  (* pending lines laid out contiguously from offset p, oldest first *)
  Fixpoint laid (bls : list pend_line) (p : nat) : Prop :=
    match bls with
    | [] => True
    | pl :: r =>
      p_off pl = A + p /\ sub s p (p + length (p_bytes pl)) = p_bytes pl /\ terminated ltb (p_bytes pl) /\
      p + length (p_bytes pl) <= length s /\
      p_lnum pl = 1 + base + count_lt ltb (firstn p s) /\ laid r (p + length (p_bytes pl))
    end.

  Definition plen (bls : list pend_line) : nat := length (concat (map p_bytes bls)).

  Lemma plen_app a b : plen (a ++ b) = plen a + plen b.
  Proof. unfold plen. rewrite map_app, concat_app, app_length. reflexivity. Qed.

  Lemma laid_app a b p : laid (a ++ b) p <-> laid a p /\ laid b (p + plen a).
  Proof.
    revert p; induction a as [|x a IH]; intro p; cbn [app laid].
    - unfold plen. cbn. rewrite Nat.add_0_r. tauto.
    - rewrite IH. unfold plen. cbn [map concat]. rewrite app_length.
      rewrite Nat.add_assoc. tauto.
  Qed.

  Lemma laid_terminated bls p : laid bls p -> Forall (terminated ltb) (map p_bytes bls).
  Proof.
    revert p; induction bls as [|x r IH]; intros p H; cbn [map]; [constructor|].
    destruct H as (_ & _ & Ht & _ & _ & Hr). constructor; [exact Ht|]. eapply IH; exact Hr.
  Qed.

  Lemma laid_sub bls p : laid bls p -> sub s p (p + plen bls) = concat (map p_bytes bls).
  Proof.
    revert p; induction bls as [|x r IH]; intros p H.
    - unfold plen, sub. cbn. replace (p + 0 - p) with 0 by lia. reflexivity.
    - destruct H as (_ & Hs & _ & _ & _ & Hr). cbn [map concat].
      unfold plen. cbn [map concat]. rewrite app_length.
      rewrite (sub_app_adj s p (p + length (p_bytes x))) by lia.
      rewrite Hs. f_equal. specialize (IH _ Hr). unfold plen in IH.
      rewrite Nat.add_assoc. exact IH.
  Qed.

  Lemma laid_bound bls p : laid bls p -> bls <> [] -> p + plen bls <= length s.
  Proof.
    revert p; induction bls as [|x r IH]; intros p H Hne; [congruence|].
    destruct H as (_ & _ & _ & Hb & _ & Hr). unfold plen. cbn [map concat]. rewrite app_length.
    destruct r as [|y r']; [cbn; lia|].
    specialize (IH _ Hr ltac:(discriminate)). unfold plen in IH. lia.
  Qed.

  (* line-number bookkeeping *)
  Definition LN (c : core) : Prop :=
    if c_line_number cfg
    then line_number c = Some (1 + base + count_lt ltb (firstn (last_line_counted c) s))
    else line_number c = None.

  Lemma count_lines_spec c p : LN c -> last_line_counted c <= p ->
    let c1 := count_lines cfg c s p in
    LN c1 /\
    line_number c1 = (if c_line_number cfg then Some (1 + base + count_lt ltb (firstn p s)) else None) /\
    (c_line_number cfg = true -> last_line_counted c1 = p) /\
    (c_line_number cfg = false -> c1 = c) /\
    pos c1 = pos c /\ abs_off c1 = abs_off c /\ bin_off c1 = bin_off c /\
    last_line_visited c1 = last_line_visited c /\ after_context_left c1 = after_context_left c /\
    has_sunk c1 = has_sunk c /\ has_matched c1 = has_matched c /\ log c1 = log c.
  Proof.
    intros Hln Hle. unfold LN in *. unfold count_lines.
    destruct (c_line_number cfg) eqn:El.
    - rewrite Hln.
      destruct (Nat.leb_spec p (last_line_counted c)) as [H|H].
      + assert (p = last_line_counted c) by lia. subst p. cbn. rewrite Hln. repeat split; auto; discriminate.
      + cbn [line_number last_line_counted pos abs_off bin_off last_line_visited after_context_left
             has_sunk has_matched log].
        assert (E : count_lt ltb (firstn p s) =
                    count_lt ltb (firstn (last_line_counted c) s) + count_lt ltb (sub s (last_line_counted c) p)).
        { rewrite !firstn_sub. rewrite (sub_app_adj s 0 (last_line_counted c) p) by lia.
          apply count_lt_app. }
        rewrite E. unfold ltb_. repeat split; auto; try discriminate; try (f_equal; lia).
    - rewrite Hln. repeat split; auto; discriminate.
  Qed.

  Definition ctx_ev (k : ctx_kind) (pl : pend_line) : event :=
    EContext k (p_off pl) (lnum_of cfg (p_lnum pl)) (p_bytes pl).

  Definition same_misc (c c1 : core) : Prop :=
    pos c1 = pos c /\ abs_off c1 = abs_off c /\ bin_off c1 = bin_off c /\
    after_context_left c1 = after_context_left c /\ has_matched c1 = has_matched c.

  Lemma same_misc_refl c : same_misc c c.
  Proof. unfold same_misc; auto. Qed.

  Lemma same_misc_trans a b c : same_misc a b -> same_misc b c -> same_misc a c.
  Proof. unfold same_misc. intuition congruence. Qed.

  Lemma LN_brk c p : LN c -> LN (brk cfg c p).
  Proof. unfold LN, brk. destruct (_ || _ || _); auto. Qed.

  Lemma brk_fields c p :
    pos (brk cfg c p) = pos c /\ abs_off (brk cfg c p) = abs_off c /\ bin_off (brk cfg c p) = bin_off c /\
    last_line_counted (brk cfg c p) = last_line_counted c /\ last_line_visited (brk cfg c p) = last_line_visited c /\
    after_context_left (brk cfg c p) = after_context_left c /\ has_sunk (brk cfg c p) = has_sunk c /\
    has_matched (brk cfg c p) = has_matched c /\ line_number (brk cfg c p) = line_number c.
  Proof. unfold brk. destruct (_ || _ || _); cbn; auto 10. Qed.

  Lemma brk_id c p : p <= last_line_visited c -> brk cfg c p = c.
  Proof.
    intro H. unfold brk. destruct (Nat.ltb_spec (last_line_visited c) p); [lia|].
    cbn [negb]. now rewrite !orb_true_r.
  Qed.

  Lemma before_loop_spec : forall bls p c fuel,
    laid bls p -> length bls < fuel ->
    bin_off c = None -> abs_off c = A -> LN c -> last_line_counted c <= p ->
    exists c1, before_loop cfg K bflag fuel c s p (p + plen bls) = OK true c1 /\
      match bls with
      | [] => c1 = c
      | _ => log c1 = rev (map (ctx_ev CBefore) bls) ++ log (brk cfg c p) /\
             last_line_visited c1 = p + plen bls /\ has_sunk c1 = true /\ LN c1 /\
             last_line_counted c1 <= last_line_visited c1 /\ same_misc c c1
      end.
  Proof.
    induction bls as [|x r IH]; intros p c fuel Hl Hf Hb Ha Hln Hllc.
    - destruct fuel as [|f]; [cbn in Hf; lia|]. cbn [before_loop].
      unfold plen. cbn [map concat length]. rewrite line_step_end by lia. eauto.
    - destruct fuel as [|f]; [cbn in Hf; lia|].
      destruct Hl as (Hoff & Hsub & Ht & Hbound & Hlnum & Hr).
      cbn [before_loop].
      assert (Hpl : plen (x :: r) = length (p_bytes x) + plen r).
      { unfold plen. cbn [map concat]. now rewrite app_length. }
      rewrite (line_step_sub p (p_bytes x)); [|exact Hsub|exact Ht|lia|exact Hbound].
      rewrite sink_break_K. cbn [andthen].
      destruct (brk_fields c p) as (B1 & B2 & B3 & B4 & B5 & B6 & B7 & B8 & B9).
      rewrite (sink_before_K cfg Hbin) by congruence. cbn [andthen].
      set (c2 := post_ctx cfg CBefore (brk cfg c p) s p (p + length (p_bytes x))).
      destruct (count_lines_spec (brk cfg c p) p (LN_brk c p Hln) ltac:(lia))
        as (C1 & C2 & C3 & C4 & C5 & C6 & C7 & C8 & C9 & C10 & C11 & C12).
      assert (Hc2log : log c2 = ctx_ev CBefore x :: log (brk cfg c p)).
      { unfold c2, post_ctx, with_event. cbn [log set_visited set_log]. rewrite C12. f_equal.
        unfold ctx_ev. rewrite C6, B2, Ha, C2, Hsub, Hoff. cbn [Nat.add]. f_equal.
        unfold lnum_of. rewrite Hlnum. reflexivity. }
      assert (Hc2llv : last_line_visited c2 = p + length (p_bytes x)) by reflexivity.
      assert (Hc2bin : bin_off c2 = None).
      { unfold c2, post_ctx, with_event. cbn [bin_off set_visited set_log]. congruence. }
      assert (Hc2abs : abs_off c2 = A).
      { unfold c2, post_ctx, with_event. cbn [abs_off set_visited set_log]. congruence. }
      assert (Hc2ln : LN c2).
      { unfold LN in *. unfold c2, post_ctx, with_event. cbn [line_number last_line_counted set_visited set_log]. exact C1. }
      assert (Hc2llc : last_line_counted c2 <= p + length (p_bytes x)).
      { unfold c2, post_ctx, with_event. cbn [last_line_counted set_visited set_log].
        destruct (c_line_number cfg) eqn:El; [rewrite (C3 eq_refl); lia|rewrite (C4 eq_refl), B4; lia]. }
      assert (Hc2misc : same_misc c c2).
      { unfold same_misc, c2, post_ctx, with_event.
        cbn [pos abs_off bin_off after_context_left has_matched set_visited set_log]. repeat split; congruence. }
      destruct (IH (p + length (p_bytes x)) c2 f Hr ltac:(cbn in Hf; lia) Hc2bin Hc2abs Hc2ln Hc2llc)
        as (c1 & Hrun & Hpost).
      rewrite Hpl, Nat.add_assoc. exists c1. split; [exact Hrun|].
      destruct r as [|y r'].
      + subst c1. cbn [map rev app]. split; [exact Hc2log|]. unfold plen. cbn [map concat length].
        split; [rewrite Hc2llv; lia|]. split; [reflexivity|]. split; [exact Hc2ln|].
        split; [rewrite Hc2llv; exact Hc2llc|exact Hc2misc].
      + destruct Hpost as (P1 & P2 & P3 & P4 & P5 & P6).
        rewrite (brk_id c2) in P1 by lia.
        split.
        { rewrite P1, Hc2log.
          change (map (ctx_ev CBefore) (x :: y :: r')) with (ctx_ev CBefore x :: map (ctx_ev CBefore) (y :: r')).
          remember (map (ctx_ev CBefore) (y :: r')) as L. cbn [rev]. now rewrite <- app_assoc. }
        split; [exact P2|]. split; [exact P3|]. split; [exact P4|]. split; [exact P5|].
        eapply same_misc_trans; eassumption.
  Qed.

  Lemma laid_plen_ge bls p : laid bls p -> length bls <= plen bls.
  Proof.
    revert p; induction bls as [|x r IH]; intros p H; [cbn; lia|].
    destruct H as (_ & _ & Ht & _ & _ & Hr). specialize (IH _ Hr).
    unfold plen in *. cbn [map concat length]. rewrite app_length.
    pose proof (terminated_length ltb _ Ht). lia.
  Qed.

  Lemma before_context_spec c pend upto :
    laid (rev pend) (last_line_visited c) -> last_line_visited c + plen (rev pend) = upto ->
    bin_off c = None -> abs_off c = A -> LN c -> last_line_counted c <= last_line_visited c ->
    let fl := rev (firstn (c_before cfg) pend) in
    exists c1, before_context_by_line cfg K bflag c s upto = OK true c1 /\
      match fl with
      | [] => c1 = c
      | _ => log c1 = rev (map (ctx_ev CBefore) fl) ++ log (brk cfg c (upto - plen fl)) /\
             last_line_visited c1 = upto /\ has_sunk c1 = true /\ LN c1 /\
             last_line_counted c1 <= last_line_visited c1 /\ same_misc c c1
      end.
  Proof.
    intros Hl Hup Hb Ha Hln Hllc fl. unfold before_context_by_line.
    destruct (Nat.eqb_spec (c_before cfg) 0) as [E0|E0].
    { exists c. split; [reflexivity|]. unfold fl. rewrite E0. reflexivity. }
    pose proof (laid_plen_ge _ _ Hl) as Hge.
    destruct (Nat.leb_spec upto (last_line_visited c)) as [Hle|Hgt].
    { exists c. split; [reflexivity|].
      assert (rev pend = []) by (apply length_zero_iff_nil; lia).
      assert (pend = []) by (apply (f_equal (@rev _)) in H; now rewrite rev_involutive in H).
      unfold fl. subst pend. now rewrite firstn_nil. }
    set (n := length (rev pend)). set (B := c_before cfg) in *.
    assert (Hsub : sub s (last_line_visited c) upto = concat (map p_bytes (rev pend))).
    { rewrite <- Hup. apply laid_sub. exact Hl. }
    unfold ltb_. rewrite Hsub. rewrite (preceding_lines ltb _ (B - 1) (laid_terminated _ _ Hl)).
    rewrite map_length. fold n. replace (S (B - 1)) with B by lia.
    rewrite firstn_map. fold (plen (firstn (n - B) (rev pend))).
    assert (Hsplit : rev pend = firstn (n - B) (rev pend) ++ fl).
    { rewrite <- (firstn_skipn (n - B) (rev pend)) at 1. f_equal.
      rewrite skipn_rev. unfold fl, n. rewrite rev_length. f_equal.
      destruct (Nat.le_gt_cases B (length pend)) as [H|H].
      - f_equal. lia.
      - replace (length pend - (length pend - B)) with (length pend) by lia.
        rewrite firstn_all, firstn_all2 by lia. reflexivity. }
    rewrite Hsplit in Hl. apply laid_app in Hl as [Hl1 Hl2].
    set (start := last_line_visited c + plen (firstn (n - B) (rev pend))) in *.
    assert (Hup2 : upto = start + plen fl).
    { rewrite <- Hup. rewrite Hsplit at 1. rewrite plen_app. unfold start. lia. }
    assert (Hfuel : length fl < S (length s)).
    { destruct fl as [|f0 fr] eqn:Ef; [cbn; lia|].
      pose proof (laid_plen_ge _ _ Hl2). pose proof (laid_bound _ _ Hl2 ltac:(discriminate)). lia. }
    destruct (before_loop_spec fl start c (S (length s)) Hl2 Hfuel Hb Ha Hln ltac:(unfold start; lia))
      as (c1 & Hrun & Hpost).
    rewrite Hup2. exists c1. split; [exact Hrun|].
    destruct fl as [|f0 fr]; [exact Hpost|].
    replace (start + plen (f0 :: fr) - plen (f0 :: fr)) with start by lia. exact Hpost.
  Qed.

  Lemma log_brk c p :
    log (brk cfg c p) =
    (if any_ctx cfg && has_sunk c && Nat.ltb (last_line_visited c) p then [EBreak] else []) ++ log c.
  Proof.
    unfold brk. destruct (any_ctx cfg), (has_sunk c), (Nat.ltb (last_line_visited c) p); reflexivity.
  Qed.

  Lemma post_ctx_fields k c rs re : LN c -> last_line_counted c <= rs -> abs_off c = A -> bin_off c = None ->
    let c' := post_ctx cfg k c s rs re in
    pos c' = pos c /\ abs_off c' = A /\ bin_off c' = None /\
    log c' = EContext k (A + rs) (lnum_of cfg (1 + base + count_lt ltb (firstn rs s))) (sub s rs re) :: log c /\
    after_context_left c' = (match k with CAfter => after_context_left c - 1 | _ => after_context_left c end) /\
    has_sunk c' = true /\ has_matched c' = has_matched c /\ last_line_visited c' = re /\
    last_line_counted c' <= rs /\ LN c'.
  Proof.
    intros Hln Hllc Ha Hb.
    destruct (count_lines_spec c rs Hln Hllc) as (C1 & C2 & C3 & C4 & C5 & C6 & C7 & C8 & C9 & C10 & C11 & C12).
    unfold post_ctx, with_event.
    cbn [pos abs_off bin_off log after_context_left has_sunk has_matched last_line_visited last_line_counted
         set_visited set_log].
    repeat split; try congruence.
    - rewrite C12, C6, Ha, C2. cbn [Nat.add]. unfold lnum_of. destruct (c_line_number cfg); reflexivity.
    - destruct k; congruence.
    - destruct (c_line_number cfg) eqn:El; [rewrite (C3 eq_refl); lia|rewrite (C4 eq_refl); lia].
    - unfold LN in *. cbn [line_number last_line_counted set_visited set_log]. exact C1.
  Qed.

  Lemma post_matched_fields c rs re : LN c -> last_line_counted c <= rs -> abs_off c = A -> bin_off c = None ->
    let c' := post_matched cfg c s rs re in
    pos c' = pos c /\ abs_off c' = A /\ bin_off c' = None /\
    log c' = EMatched (A + rs) (lnum_of cfg (1 + base + count_lt ltb (firstn rs s))) (sub s rs re) :: log (brk cfg c rs) /\
    after_context_left c' = c_after cfg /\
    has_sunk c' = true /\ has_matched c' = has_matched c /\ last_line_visited c' = re /\
    last_line_counted c' <= rs /\ LN c'.
  Proof.
    intros Hln Hllc Ha Hb.
    destruct (brk_fields c rs) as (B1 & B2 & B3 & B4 & B5 & B6 & B7 & B8 & B9).
    destruct (count_lines_spec (brk cfg c rs) rs (LN_brk c rs Hln) ltac:(lia))
      as (C1 & C2 & C3 & C4 & C5 & C6 & C7 & C8 & C9 & C10 & C11 & C12).
    unfold post_matched, with_event.
    cbn [pos abs_off bin_off log after_context_left has_sunk has_matched last_line_visited last_line_counted
         set_visited set_log].
    repeat split; try congruence.
    - rewrite C12, C6, B2, Ha, C2. cbn [Nat.add]. unfold lnum_of. destruct (c_line_number cfg); reflexivity.
    - destruct (c_line_number cfg) eqn:El; [rewrite (C3 eq_refl); lia|rewrite (C4 eq_refl); lia].
    - unfold LN in *. cbn [line_number last_line_counted set_visited set_log]. exact C1.
  Qed.

  (* ------------------------------------------------------------------ the simulation relation *)
  Record R0 (c : core) (g : gstate) : Prop := mkR0 {
    R_abs : abs_off c = A;
    R_bin : bin_off c = None;
    R_log : log c = g_out g ++ [EBegin];
    R_after : after_context_left c = g_after g;
    R_sunk : has_sunk c = g_sunk g;
    R_laid : laid (rev (g_pend g)) (last_line_visited c);
    R_llv : A + (last_line_visited c + plen (rev (g_pend g))) = g_off g;
    R_llc : last_line_counted c <= last_line_visited c;
    R_ln : LN c;
    R_lnum : g_lnum g = 1 + base + count_lt ltb (firstn (g_off g - A) s);
    R_after_pend : 1 <= g_after g -> g_pend g = [];
    R_after_le : g_after g <= c_after cfg;
  }.
  (* R0 mentions neither the scan position nor has_matched: the fast path updates them at other
     moments than the slow path *)
  Definition R (c : core) (g : gstate) : Prop :=
    A + pos c = g_off g /\ has_matched c = g_matched g /\ R0 c g.

  Definition Rfin (c : core) (g : gstate) : Prop :=
    A + pos c = g_off g /\ log c = g_out g ++ [EBegin] /\ bin_off c = None.

  Definition next_line (p : nat) (l : bytes) : Prop :=
    sub s p (p + length l) = l /\ p + length l <= length s /\
    (terminated ltb l \/ (partial ltb l /\ p + length l = length s)).

  Lemma line_step_next p l : next_line p l -> line_step ltb s p (length s) = Some (p, p + length l).
  Proof.
    intros (Hsub & Hb & [Ht|[Hp He]]).
    - apply line_step_sub; auto.
    - assert (Hex : exists pre, s = pre ++ l /\ length pre = p).
      { exists (firstn p s). split; [|rewrite firstn_length; lia].
        rewrite (sub_decompose s p (p + length l)) at 1 by lia.
        now rewrite Hsub, He, skipn_all, app_nil_r. }
      destruct Hex as (pre & Hs & Hpre). rewrite <- Hpre. rewrite Hs.
      rewrite <- app_length.
      apply line_step_partial. exact Hp.
  Qed.

  Lemma count_lt_next p l : sub s p (p + length l) = l -> p + length l <= length s -> terminated ltb l ->
    count_lt ltb (firstn (p + length l) s) = count_lt ltb (firstn p s) + 1.
  Proof.
    intros Hsub Hb Ht. rewrite !firstn_sub. rewrite (sub_app_adj s 0 p (p + length l)) by lia.
    rewrite count_lt_app, Hsub, (count_lt_terminated ltb l Ht). reflexivity.
  Qed.

  Lemma before_events_map bl : before_events cfg bl = map (ctx_ev CBefore) (rev bl).
  Proof.
    induction bl as [|x r IH]; [reflexivity|]. cbn [before_events rev]. rewrite map_app, IH. reflexivity.
  Qed.

  Lemma plen_zero_nil bls p : laid bls p -> plen bls = 0 -> bls = [].
  Proof. intros H E. pose proof (laid_plen_ge _ _ H). apply length_zero_iff_nil. lia. Qed.

  Lemma plen_pos bls p : laid bls p -> bls <> [] -> 0 < plen bls.
  Proof.
    intros H Hne. destruct (Nat.eq_dec (plen bls) 0) as [E|E]; [|lia].
    exfalso. apply Hne. eapply plen_zero_nil; eauto.
  Qed.

  Lemma R0_set_pos c g q : R0 c g -> R0 (set_pos c q) g.
  Proof. intros []. constructor; assumption. Qed.
  Lemma R0_set_has_matched c g : R0 c g -> R0 (set_has_matched c) g.
  Proof. intros []. constructor; assumption. Qed.

  Lemma post_matched_set_pos c a b q :
    post_matched cfg (set_pos c q) s a b = set_pos (post_matched cfg c s a b) q.
  Proof.
    unfold post_matched, with_event, brk, count_lines.
    cbn [has_sunk last_line_visited set_pos].
    destruct (negb (any_ctx cfg) || negb (has_sunk c) || negb (last_line_visited c <? a));
      cbn [line_number last_line_counted set_pos set_log];
      (destruct (line_number c); [destruct (Nat.leb a (last_line_counted c))|]); reflexivity.
  Qed.

  (* a matching line: before-context, then the match (shared by the slow and the fast path) *)
  Lemma matched_step c g p l :
    R0 c g -> g_off g = A + p -> g_stopped g = false -> next_line p l ->
    let g' := g_step_s cfg g l true in
    exists c2, before_context_by_line cfg K bflag (set_has_matched c) s p = OK true c2 /\
      bin_off c2 = None /\
      let c3 := post_matched cfg c2 s p (p + length l) in
      pos c3 = pos c /\ log c3 = g_out g' ++ [EBegin] /\ bin_off c3 = None /\ has_matched c3 = true /\
      last_line_visited c3 = p + length l /\
      (terminated ltb l -> R0 c3 g').
  Proof.
    intros HR Hoff Hns Hnl g'.
    destruct HR as [Rabs Rbin Rlog Rafter Rsunk Rlaid Rllv Rllc Rln Rlnum Rap Rale].
    destruct Hnl as (Hsub & Hb & Hshape).
    unfold g', g_step_s. rewrite Hns.
    assert (Hlnum' : terminated ltb l -> S (g_lnum g) = 1 + base + count_lt ltb (firstn (g_off g + length l - A) s)).
    { intro Ht. rewrite Hoff. replace (A + p + length l - A) with (p + length l) by lia.
      rewrite (count_lt_next p l Hsub Hb Ht). rewrite Rlnum, Hoff. replace (A + p - A) with p by lia. lia. }
      set (c1 := set_has_matched c).
      destruct (before_context_spec c1 (g_pend g) p) as (c2 & Hrun & Hpost);
        [exact Rlaid|unfold c1; cbn [last_line_visited set_has_matched]; lia|exact Rbin|exact Rabs|exact Rln|exact Rllc|].
      cbn zeta in Hpost.
      set (bl := firstn (c_before cfg) (g_pend g)) in *.
      assert (Hc2 : bin_off c2 = None /\ abs_off c2 = A /\ LN c2 /\ last_line_counted c2 <= p /\
                    has_matched c2 = true /\ pos c2 = pos c /\
                    last_line_counted c2 <= last_line_visited c2).
      { destruct (rev bl) as [|f0 fr] eqn:Efl.
        - subst c2. cbn. repeat split; auto. cbn in Rllv. lia.
        - destruct Hpost as (_ & P2 & _ & P4 & P5 & (Q1 & Q2 & Q3 & Q4 & Q5)).
          cbn in Q1, Q2, Q3, Q5. repeat split; try congruence; lia. }
      destruct Hc2 as (H2bin & H2abs & H2ln & H2llc & H2m & H2pos & H2llcv).
      destruct (post_matched_fields c2 p (p + length l) H2ln H2llc H2abs H2bin)
        as (F1 & F2 & F3 & F4 & F5 & F6 & F7 & F8 & F9 & F10).
      exists c2. split; [exact Hrun|]. split; [exact H2bin|]. cbn zeta.
      (* the log *)
      assert (Hlog : log (post_matched cfg c2 s p (p + length l)) =
                rev ((if any_context cfg && g_sunk g && Nat.ltb (length bl) (length (g_pend g))
                         && negb (Nat.eqb (length bl) 0) then [EBreak] else [])
                     ++ before_events cfg bl
                     ++ (if any_context cfg && g_sunk g && Nat.eqb (length bl) 0
                            && negb (Nat.eqb (length (g_pend g)) 0) then [EBreak] else [])
                     ++ [EMatched (g_off g) (lnum_of cfg (g_lnum g)) l]) ++ g_out g ++ [EBegin]).
      { rewrite F4, Hsub, log_brk. rewrite Hoff, Rlnum, Hoff. replace (A + p - A) with p by lia.
        rewrite before_events_map.
        destruct (rev bl) as [|f0 fr] eqn:Efl.
        - (* no before-context lines *)
          subst c2.
          assert (Hbl0 : bl = []) by (apply (f_equal (@rev _)) in Efl; now rewrite rev_involutive in Efl).
          rewrite Hbl0. cbn [length Nat.eqb negb andb app map rev].
          rewrite !andb_false_r. cbn [app rev].
          cbn [has_sunk last_line_visited log c1 set_has_matched].
          rewrite Rsunk, Rlog. unfold any_context, any_ctx.
          replace (Nat.ltb (last_line_visited c) p) with (negb (Nat.eqb (length (g_pend g)) 0)).
          2:{ destruct (g_pend g) as [|x r] eqn:Ep.
              - cbn in Rllv. cbn [length Nat.eqb negb]. destruct (Nat.ltb_spec (last_line_visited c) p); [lia|reflexivity].
              - pose proof (plen_pos _ _ Rlaid ltac:(cbn; destruct (rev r); discriminate)).
                cbn [length Nat.eqb negb]. destruct (Nat.ltb_spec (last_line_visited c) p); [reflexivity|lia]. }
          rewrite andb_true_r.
          destruct ((0 <? c_before cfg) || (0 <? c_after cfg)), (g_sunk g), (negb (length (g_pend g) =? 0));
            cbn [andb app rev]; reflexivity.
        - destruct Hpost as (P1 & P2 & P3 & _).
          assert (Hblne : bl <> []) by (intro E; rewrite E in Efl; discriminate).
          assert (Hlen0 : Nat.eqb (length bl) 0 = false)
            by (apply Nat.eqb_neq; destruct bl; [congruence|cbn; lia]).
          rewrite Hlen0. cbn [negb]. rewrite !andb_false_r, !andb_true_r. cbn [app].
          rewrite P2, P3. destruct (Nat.ltb_spec p p); [lia|]. rewrite andb_false_r. cbn [app].
          rewrite P1, log_brk.
          cbn [has_sunk last_line_visited log c1 set_has_matched].
          rewrite Rsunk, Rlog. unfold any_context, any_ctx.
          (* skipped lines <-> gap before the first before-context line *)
          assert (Hgap : Nat.ltb (last_line_visited c) (p - plen (f0 :: fr)) =
                         Nat.ltb (length bl) (length (g_pend g))).
          { assert (Hsp : rev (g_pend g) = rev (skipn (c_before cfg) (g_pend g)) ++ rev bl).
            { rewrite <- rev_app_distr. unfold bl. now rewrite firstn_skipn. }
            rewrite Hsp in Rlaid, Rllv. rewrite plen_app in Rllv. apply laid_app in Rlaid as [Rl1 Rl2].
            rewrite Efl in Rllv.
            assert (Hlens : length (g_pend g) = length bl + length (skipn (c_before cfg) (g_pend g))).
            { unfold bl. rewrite <- (firstn_skipn (c_before cfg) (g_pend g)) at 1. now rewrite app_length. }
            destruct (skipn (c_before cfg) (g_pend g)) as [|y ys] eqn:Esk.
            - change (plen (rev [])) with 0 in Rllv. cbn [length] in Hlens.
              destruct (Nat.ltb_spec (last_line_visited c) (p - plen (f0 :: fr))); [lia|].
              destruct (Nat.ltb_spec (length bl) (length (g_pend g))); [lia|reflexivity].
            - pose proof (plen_pos _ _ Rl1 ltac:(cbn; destruct (rev ys); discriminate)).
              cbn [length] in Hlens.
              destruct (Nat.ltb_spec (last_line_visited c) (p - plen (f0 :: fr))); [|lia].
              destruct (Nat.ltb_spec (length bl) (length (g_pend g))); [reflexivity|lia]. }
          rewrite Hgap.
          rewrite !rev_app_distr. cbn [rev app]. rewrite <- !app_assoc. cbn [app andb rev].
          destruct (((0 <? c_before cfg) || (0 <? c_after cfg)) && g_sunk g && (length bl <? length (g_pend g)));
            cbn [rev app]; rewrite <- ?app_assoc; try reflexivity. }
      split; [rewrite F1; exact H2pos|].
      split; [rewrite Hlog; now rewrite app_assoc|].
      split; [exact F3|].
      split; [congruence|].
      split; [exact F8|].
      intro Ht.
      constructor; cbn [g_off g_out g_after g_sunk g_matched g_pend g_lnum rev]; try assumption.
      + rewrite Hlog. now rewrite app_assoc.
      + exact I.
      + rewrite F8. unfold plen. cbn. rewrite Hoff. lia.
      + rewrite F8. lia.
      + exact (Hlnum' Ht).
      + reflexivity.
      + lia.
  Qed.


  (* ---- one non-matching line: delivered as after-context, as passthru context, or left pending ---- *)
  Definition g_after_step (g : gstate) (l : bytes) (stop : bool) : gstate :=
    {| g_lnum := S (g_lnum g); g_off := g_off g + length l; g_pend := []; g_after := g_after g - 1; g_sunk := true;
       g_matched := g_matched g; g_stopped := stop;
       g_out := EContext CAfter (g_off g) (lnum_of cfg (g_lnum g)) l :: g_out g |}.
  Definition g_other_step (g : gstate) (l : bytes) (stop : bool) : gstate :=
    {| g_lnum := S (g_lnum g); g_off := g_off g + length l; g_pend := []; g_after := 0; g_sunk := true;
       g_matched := g_matched g; g_stopped := stop;
       g_out := EContext COther (g_off g) (lnum_of cfg (g_lnum g)) l :: g_out g |}.
  Definition g_pend_step (g : gstate) (l : bytes) (stop : bool) : gstate :=
    {| g_lnum := S (g_lnum g); g_off := g_off g + length l;
       g_pend := {| p_lnum := g_lnum g; p_off := g_off g; p_bytes := l |} :: g_pend g;
       g_after := 0; g_sunk := g_sunk g; g_matched := g_matched g; g_stopped := stop; g_out := g_out g |}.

  Lemma g_step_nonmatch g l : g_stopped g = false ->
    g_step_s cfg g l false =
    let stop := c_stop_on_nonmatch cfg && g_matched g in
    if Nat.leb 1 (g_after g) then g_after_step g l stop
    else if c_passthru cfg then g_other_step g l stop else g_pend_step g l stop.
  Proof. intro H. unfold g_step_s. rewrite H. cbn [negb andb]. rewrite andb_true_r. reflexivity. Qed.

  Lemma lnum_next g p l : g_lnum g = 1 + base + count_lt ltb (firstn (g_off g - A) s) -> g_off g = A + p ->
    sub s p (p + length l) = l -> p + length l <= length s -> terminated ltb l ->
    S (g_lnum g) = 1 + base + count_lt ltb (firstn (g_off g + length l - A) s).
  Proof.
    intros Hl Hoff Hsub Hb Ht. rewrite Hl, Hoff.
    replace (A + p + length l - A) with (p + length l) by lia. replace (A + p - A) with p by lia.
    rewrite (count_lt_next p l Hsub Hb Ht). lia.
  Qed.

  Lemma ctx_step (k : ctx_kind) c g p l stop :
    R0 c g -> g_off g = A + p -> next_line p l -> (k = CAfter -> 1 <= g_after g) -> (k = COther -> g_after g = 0) ->
    k <> CBefore ->
    let g' := match k with CAfter => g_after_step g l stop | _ => g_other_step g l stop end in
    let c' := post_ctx cfg k c s p (p + length l) in
    pos c' = pos c /\ has_matched c' = has_matched c /\ log c' = g_out g' ++ [EBegin] /\ bin_off c' = None /\
    (terminated ltb l -> R0 c' g').
  Proof.
    intros HR Hoff Hnl Hka Hko Hkb g' c'.
    destruct HR as [Rabs Rbin Rlog Rafter Rsunk Rlaid Rllv Rllc Rln Rlnum Rap Rale].
    destruct Hnl as (Hsub & Hb & Hshape).
    assert (Hllcp : last_line_counted c <= p) by lia.
    destruct (post_ctx_fields k c p (p + length l) Rln Hllcp Rabs Rbin)
      as (F1 & F2 & F3 & F4 & F5 & F6 & F7 & F8 & F9 & F10).
    fold c' in F1, F2, F3, F4, F5, F6, F7, F8, F9, F10.
    assert (Hlog : log c' = g_out g' ++ [EBegin]).
    { unfold g'. destruct k; try congruence; cbn [g_after_step g_other_step g_out];
        rewrite F4, Hsub, Rlog, Rlnum, Hoff; replace (A + p - A) with p by lia; reflexivity. }
    split; [exact F1|]. split; [exact F7|]. split; [exact Hlog|]. split; [exact F3|].
    intro Ht.
    assert (Hln' := lnum_next g p l Rlnum Hoff Hsub Hb Ht).
    unfold g'. destruct k; [congruence| |].
    - constructor; cbn [g_after_step g_off g_out g_after g_sunk g_matched g_pend g_lnum rev]; try assumption.
      + rewrite F5. now rewrite Rafter.
      + exact I.
      + rewrite F8. unfold plen. cbn. rewrite Hoff. lia.
      + rewrite F8. lia.
      + reflexivity.
      + lia.
    - constructor; cbn [g_other_step g_off g_out g_after g_sunk g_matched g_pend g_lnum rev]; try assumption.
      + rewrite F5. rewrite Rafter. apply Hko. reflexivity.
      + exact I.
      + rewrite F8. unfold plen. cbn. rewrite Hoff. lia.
      + rewrite F8. lia.
      + reflexivity.
      + lia.
  Qed.

  Lemma pend_step c g p l stop :
    R0 c g -> g_off g = A + p -> next_line p l -> g_after g = 0 -> terminated ltb l ->
    R0 c (g_pend_step g l stop).
  Proof.
    intros HR Hoff Hnl Ha Ht.
    destruct HR as [Rabs Rbin Rlog Rafter Rsunk Rlaid Rllv Rllc Rln Rlnum Rap Rale].
    destruct Hnl as (Hsub & Hb & Hshape).
    assert (Hln' := lnum_next g p l Rlnum Hoff Hsub Hb Ht).
    constructor; cbn [g_pend_step g_off g_out g_after g_sunk g_matched g_pend g_lnum rev]; try assumption.
    - now rewrite Rafter.
    - apply laid_app. split; [exact Rlaid|]. cbn [laid p_off p_bytes p_lnum].
      assert (Hq : last_line_visited c + plen (rev (g_pend g)) = p) by lia.
      rewrite Hq. repeat split; auto. rewrite Rlnum, Hoff. replace (A + p - A) with p by lia. reflexivity.
    - rewrite plen_app. unfold plen at 2. cbn [map concat p_bytes]. rewrite app_nil_r. lia.
    - lia.
    - lia.
  Qed.

  Notation slow := (slow_loop cfg M K bflag).

  (* what the end-of-input rounds of the reader need: no after-context is owed beyond the last
     delivered line *)
  Definition tailok (c : core) : Prop :=
    last_line_visited c <= pos c /\ (after_context_left c = 0 \/ last_line_visited c = pos c).

  Lemma slow_step fuel c g p l :
    R c g -> g_stopped g = false -> g_off g = A + p -> next_line p l ->
    let g' := g_step cfg (m_is_match M) g l in
    exists c', Rfin c' g' /\ (terminated ltb l -> R c' g') /\ tailok c' /\
      slow (S fuel) c s p = if g_stopped g' then OK false c' else slow fuel c' s (p + length l).
  Proof.
    intros HR Hns Hoff Hnl g'.
    destruct HR as (Rpos & Rmatched & HR0).
    pose proof Hnl as (Hsub & Hb & Hshape).
    cbn [slow_loop]. unfold ltb_. rewrite (line_step_next p l Hnl). rewrite Hsub.
    unfold g', g_step.
    set (matched := m_is_match M (without_terminator (c_lt cfg) l)).
    set (success := negb (Bool.eqb matched (c_invert cfg))).
    set (c0 := set_pos c (p + length l)).
    assert (HR00 : R0 c0 g) by (apply R0_set_pos; exact HR0).
    assert (Hp0 : pos c0 = p + length l) by reflexivity.
    destruct success eqn:Es.
    - (* the line is a match *)
      destruct (matched_step c0 g p l HR00 Hoff Hns Hnl) as (c2 & Hrun & H2bin & Hc3).
      cbn zeta in Hc3. destruct Hc3 as (Hp3 & Hlog3 & Hbin3 & Hm3 & Hllv3 & HR3).
      rewrite Hrun. cbn [andthen].
      rewrite (sink_matched_K cfg Hbin) by exact H2bin. cbn [andthen].
      rewrite andb_false_r. cbn [andb].
      exists (post_matched cfg c2 s p (p + length l)).
      assert (Hst : g_stopped (g_step_s cfg g l true) = false) by (unfold g_step_s; rewrite Hns; reflexivity).
      assert (Hgo : g_off (g_step_s cfg g l true) = A + (p + length l)) by (unfold g_step_s; rewrite Hns, Hoff; cbn [g_off]; lia).
      assert (Hgm : g_matched (g_step_s cfg g l true) = true) by (unfold g_step_s; rewrite Hns; reflexivity).
      rewrite Hst.
      split. { unfold Rfin. rewrite Hgo, Hp3, Hp0. split; [reflexivity|]. split; assumption. }
      split; [|split; [split; [|right]; rewrite Hllv3, Hp3, Hp0; reflexivity|reflexivity]].
      intro Ht. split; [rewrite Hgo, Hp3, Hp0; reflexivity|]. split; [rewrite Hgm; exact Hm3|]. exact (HR3 Ht).
    - (* not a match *)
      rewrite (g_step_nonmatch g l Hns). cbn zeta.
      pose proof HR00 as [Rabs Rbin Rlog Rafter Rsunk Rlaid Rllv Rllc Rln Rlnum Rap Rale].
      cbn [negb andb]. rewrite andb_true_r.
      change (after_context_left c0) with (after_context_left c) in *. rewrite Rafter.
      destruct (Nat.leb 1 (g_after g)) eqn:Eaf.
      + (* after-context *)
        rewrite (sink_after_K cfg Hbin) by exact Rbin. cbn [andthen].
        destruct (ctx_step CAfter c0 g p l (c_stop_on_nonmatch cfg && g_matched g) HR00 Hoff Hnl)
          as (Fp & Fm & Flog & Fbin & FR);
          [intros _; now apply Nat.leb_le|discriminate|discriminate|].
        cbn zeta in Fp, Fm, Flog, Fbin, FR.
        exists (post_ctx cfg CAfter c0 s p (p + length l)).
        cbn [g_after_step g_stopped]. rewrite Fm. change (has_matched c0) with (has_matched c). rewrite Rmatched.
        split. { unfold Rfin. cbn [g_after_step g_off]. rewrite Fp, Hp0, Hoff. split; [lia|auto]. }
        split; [|split; [split; [|right]; rewrite Fp; reflexivity|reflexivity]].
        intro Ht. split; [cbn [g_after_step g_off]; rewrite Fp, Hp0, Hoff; lia|].
        split; [cbn [g_after_step g_matched]; rewrite Fm; exact Rmatched|]. exact (FR Ht).
      + destruct (c_passthru cfg) eqn:Ep.
        * (* passthru *)
          rewrite (sink_other_K cfg Hbin) by exact Rbin. cbn [andthen].
          destruct (ctx_step COther c0 g p l (c_stop_on_nonmatch cfg && g_matched g) HR00 Hoff Hnl)
            as (Fp & Fm & Flog & Fbin & FR);
            [discriminate|intros _; apply Nat.leb_gt in Eaf; lia|discriminate|].
          cbn zeta in Fp, Fm, Flog, Fbin, FR.
          exists (post_ctx cfg COther c0 s p (p + length l)).
          cbn [g_other_step g_stopped]. rewrite Fm. change (has_matched c0) with (has_matched c). rewrite Rmatched.
          split. { unfold Rfin. cbn [g_other_step g_off]. rewrite Fp, Hp0, Hoff. split; [lia|auto]. }
          split; [|split; [split; [|right]; rewrite Fp; reflexivity|reflexivity]].
          intro Ht. split; [cbn [g_other_step g_off]; rewrite Fp, Hp0, Hoff; lia|].
          split; [cbn [g_other_step g_matched]; rewrite Fm; exact Rmatched|]. exact (FR Ht).
        * (* the line stays pending *)
          exists c0. cbn [g_pend_step g_stopped]. change (has_matched c0) with (has_matched c). rewrite Rmatched.
          split. { unfold Rfin. cbn [g_pend_step g_off g_out]. rewrite Hp0, Hoff. split; [lia|auto]. }
          split; [|split; [split; [rewrite Hp0; lia|left; change (after_context_left c0) with (after_context_left c); apply Nat.leb_gt in Eaf; lia]|reflexivity]].
          intro Ht. split; [cbn [g_pend_step g_off]; rewrite Hp0, Hoff; lia|].
          split; [exact Rmatched|].
          apply (pend_step c0 g p l _ HR00 Hoff Hnl); [apply Nat.leb_gt in Eaf; lia|exact Ht].
  Qed.

  (* ------------------------------------------------------------------ runs of non-matching lines
     (how the fast path and the multi-line searcher absorb them: after_context_by_line emits the
     after-context that is still owed, the other lines stay pending) *)
  Fixpoint lines_seq (ls : list bytes) (p : nat) : Prop :=
    match ls with
    | [] => True
    | l :: r => next_line p l /\ (r <> [] -> terminated ltb l) /\ lines_seq r (p + length l)
    end.

  Definition nonsuccess (l : bytes) : Prop :=
    negb (Bool.eqb (m_is_match M (without_terminator (c_lt cfg) l)) (c_invert cfg)) = false.

  Notation gstep := (g_step cfg (m_is_match M)).

  Record run_post (c c' : core) (g gk : gstate) (q : nat) (pre : list bytes) : Prop := {
    rp_pos : pos c' = pos c;
    rp_matched : has_matched c' = has_matched c;
    rp_log : log c' = g_out gk ++ [EBegin];
    rp_bin : bin_off c' = None;
    rp_off : g_off gk = A + q;
    rp_tail : last_line_visited c' <= q /\ (after_context_left c' = 0 \/ last_line_visited c' = q);
    rp_ns : g_stopped gk = false;
    rp_gm : g_matched gk = g_matched g;
    rp_R0 : Forall (terminated ltb) pre -> R0 c' gk;
  }.

  Lemma pend_run : forall pre c g p,
    R0 c g -> g_off g = A + p -> g_stopped g = false -> c_passthru cfg = false ->
    c_stop_on_nonmatch cfg && g_matched g = false -> g_after g = 0 ->
    lines_seq pre p -> Forall nonsuccess pre ->
    run_post c c g (fold_left gstep pre g) (p + length (concat pre)) pre.
  Proof.
    induction pre as [|l r IH]; intros c g p HR Hoff Hns Hpt Hstop Ha Hseq Hnon.
    - cbn [fold_left concat length]. rewrite Nat.add_0_r.
      pose proof HR as []. constructor; auto. split; [lia|left; congruence].
    - destruct Hseq as (Hnl & Hterm & Hrest). inversion Hnon as [|? ? Hl Hr]. 
      cbn [fold_left concat]. rewrite app_length, Nat.add_assoc.
      assert (Hstep : gstep g l = g_pend_step g l false).
      { unfold g_step. unfold nonsuccess in Hl. rewrite Hl. rewrite (g_step_nonmatch g l Hns). cbn zeta.
        rewrite Ha, Hpt, Hstop. reflexivity. }
      rewrite Hstep.
      destruct r as [|l2 r2].
      + cbn [fold_left concat length]. rewrite Nat.add_0_r.
        pose proof HR as [Rabs Rbin Rlog Rafter Rsunk Rlaid Rllv Rllc Rln Rlnum Rap Rale].
        constructor; cbn [g_pend_step g_out g_off g_stopped g_matched]; auto; try lia.
        intro Hall. inversion Hall as [|? ? Ht _].
        apply (pend_step c g p l false); auto.
      + clear Hnon. assert (Ht : terminated ltb l) by (apply Hterm; discriminate).
        pose proof (pend_step c g p l false HR Hoff Hnl Ha Ht) as HR1.
        specialize (IH c (g_pend_step g l false) (p + length l) HR1).
        destruct IH as [I1 I2 I3 I4 I5 I5t I6 I7 I8]; auto.
        { cbn. lia. }
        constructor; auto.
        intro Hall. inversion Hall. auto.
  Qed.

  Lemma line_step_seq p l en : next_line p l -> p + length l <= en -> en <= length s ->
    line_step ltb s p en = Some (p, p + length l).
  Proof.
    intros Hnl Hen Hs. pose proof Hnl as (Hsub & Hb & [Ht|[Hp He]]).
    - apply line_step_sub; auto.
    - assert (en = length s) by lia. subst en. apply line_step_next. exact Hnl.
  Qed.

  Lemma lines_seq_bound : forall pre p, lines_seq pre p -> pre <> [] -> p + length (concat pre) <= length s.
  Proof.
    induction pre as [|l r IH]; intros p H Hne; [congruence|].
    destruct H as ((_ & Hb & _) & _ & Hr). cbn [concat]. rewrite app_length.
    destruct r as [|l2 r2]; [cbn; lia|].
    specialize (IH (p + length l) Hr ltac:(discriminate)). lia.
  Qed.

  Lemma after_loop_run : forall pre fuel c g p,
    R0 c g -> g_off g = A + p -> last_line_visited c = p -> 1 <= g_after g ->
    g_stopped g = false -> c_passthru cfg = false -> c_stop_on_nonmatch cfg && g_matched g = false ->
    lines_seq pre p -> Forall nonsuccess pre -> length pre < fuel ->
    exists c', after_loop cfg K bflag fuel c s p (p + length (concat pre)) = OK true c' /\
               run_post c c' g (fold_left gstep pre g) (p + length (concat pre)) pre.
  Proof.
    induction pre as [|l r IH]; intros fuel c g p HR Hoff Hllv Ha Hns Hpt Hstop Hseq Hnon Hf.
    - destruct fuel as [|f]; [cbn in Hf; lia|]. cbn [after_loop concat length fold_left].
      rewrite Nat.add_0_r. unfold ltb_. rewrite line_step_end by lia.
      exists c. split; [reflexivity|]. pose proof HR as []. constructor; auto. split; [lia|auto].
    - destruct fuel as [|f]; [cbn in Hf; lia|].
      destruct Hseq as (Hnl & Hterm & Hrest). inversion Hnon as [|? ? Hl Hr].
      pose proof (lines_seq_bound (l :: r) p (conj Hnl (conj Hterm Hrest)) ltac:(discriminate)) as Hbound.
      cbn [after_loop concat fold_left] in *. rewrite app_length in *. rewrite Nat.add_assoc.
      unfold ltb_. rewrite (line_step_seq p l) by (auto; lia).
      pose proof HR as [Rabs Rbin Rlog Rafter Rsunk Rlaid Rllv Rllc Rln Rlnum Rap Rale].
      rewrite (sink_after_K cfg Hbin) by exact Rbin. cbn [andthen].
      assert (Hstep : gstep g l = g_after_step g l false).
      { unfold g_step. unfold nonsuccess in Hl. rewrite Hl. rewrite (g_step_nonmatch g l Hns). cbn zeta.
        destruct (Nat.leb_spec 1 (g_after g)); [|lia]. now rewrite Hstop. }
      rewrite Hstep.
      destruct (ctx_step CAfter c g p l false HR Hoff Hnl) as (Fp & Fm & Flog & Fbin & FR);
        [auto|discriminate|discriminate|].
      cbn zeta in Fp, Fm, Flog, Fbin, FR.
      set (c1 := post_ctx cfg CAfter c s p (p + length l)) in *.
      set (g1 := g_after_step g l false) in *.
      assert (Hllv1 : last_line_visited c1 = p + length l) by reflexivity.
      assert (Hacl : after_context_left c1 = g_after g - 1).
      { unfold c1, post_ctx, with_event. cbn [after_context_left set_visited set_log].
        destruct (count_lines_spec c p Rln ltac:(lia)) as (_ & _ & _ & _ & _ & _ & _ & _ & C9 & _).
        rewrite C9, Rafter. reflexivity. }
      destruct r as [|l2 r2].
      + (* last line of the run *)
        cbn [fold_left concat length]. rewrite Nat.add_0_r.
        exists c1. split.
        { destruct (Nat.eqb (after_context_left c1) 0); [reflexivity|].
          destruct f as [|f']; [cbn in Hf; lia|]. cbn [after_loop]. unfold ltb_. rewrite line_step_end by lia. reflexivity. }
        constructor; auto.
        * unfold g1. cbn. lia.
        * intro Hall. inversion Hall. auto.
      + assert (Ht : terminated ltb l) by (apply Hterm; discriminate).
        pose proof (FR Ht) as HR1.
        destruct (Nat.eqb_spec (after_context_left c1) 0) as [E0|E0].
        * (* the credit is used up: the remaining lines stay pending *)
          exists c1. split; [reflexivity|].
          pose proof (pend_run (l2 :: r2) c1 g1 (p + length l) HR1) as P.
          destruct P as [P1 P2 P3 P4 P5 P5t P6 P7 P8]; auto.
          { unfold g1. cbn. lia. } { unfold g1. cbn. lia. }
          constructor; auto; try congruence.
          intro Hall. inversion Hall. auto.
        * destruct (IH f c1 g1 (p + length l) HR1) as (c' & Hrun & P); auto.
          { unfold g1. cbn. lia. } { unfold g1. cbn. lia. } { cbn in Hf |- *. lia. }
          exists c'. split; [exact Hrun|].
          destruct P as [P1 P2 P3 P4 P5 P5t P6 P7 P8].
          constructor; auto; try congruence.
          intro Hall. inversion Hall. auto.
  Qed.

  Lemma lines_seq_count : forall ls p, lines_seq ls p -> length ls <= length (concat ls).
  Proof.
    induction ls as [|x xs IH]; intros p H; [cbn; lia|].
    destruct H as ((Hsub & Hb & Hshape) & _ & Hr). cbn [concat length]. rewrite app_length.
    specialize (IH _ Hr).
    assert (1 <= length x).
    { destruct Hshape as [Ht|[[Hne _] _]]; [now apply (terminated_length ltb)|destruct x; [congruence|cbn; lia]]. }
    lia.
  Qed.

  Lemma nonmatch_run pre c g p :
    R0 c g -> g_off g = A + p -> g_stopped g = false -> c_passthru cfg = false ->
    c_stop_on_nonmatch cfg && g_matched g = false ->
    lines_seq pre p -> Forall nonsuccess pre ->
    exists c', after_context_by_line cfg K bflag c s (p + length (concat pre)) = OK true c' /\
               run_post c c' g (fold_left gstep pre g) (p + length (concat pre)) pre.
  Proof.
    intros HR Hoff Hns Hpt Hstop Hseq Hnon.
    pose proof HR as [Rabs Rbin Rlog Rafter Rsunk Rlaid Rllv Rllc Rln Rlnum Rap Rale].
    unfold after_context_by_line.
    destruct (Nat.eqb_spec (after_context_left c) 0) as [E0|E0].
    - exists c. split; [reflexivity|]. apply pend_run; auto. lia.
    - assert (Ha : 1 <= g_after g) by lia.
      assert (Hllv : last_line_visited c = p).
      { rewrite (Rap Ha) in Rllv. cbn in Rllv. lia. }
      rewrite Hllv.
      apply after_loop_run; auto.
      destruct pre as [|l r]; [cbn; lia|].
      pose proof (lines_seq_bound (l :: r) p Hseq ltac:(discriminate)).
      pose proof (lines_seq_count (l :: r) p Hseq).
      lia.
  Qed.

  (* ------------------------------------------------------------------ the whole loop *)
  Fixpoint lines_at (ls : list bytes) (p : nat) : Prop :=
    match ls with
    | [] => p = length s
    | l :: r => next_line p l /\ (r <> [] -> terminated ltb l) /\ lines_at r (p + length l)
    end.

  Lemma lines_at_shape ls : lines_shape ltb ls -> forall p, p <= length s -> concat ls = skipn p s ->
    lines_at ls p.
  Proof.
    induction 1 as [|l Hp|l ls Ht Hs IH]; intros p Hple Hc.
    - cbn in *. assert (length (skipn p s) = 0) by (rewrite <- Hc; reflexivity).
      rewrite skipn_length in H. lia.
    - cbn in Hc. rewrite app_nil_r in Hc.
      assert (Hlen : length l = length s - p) by (rewrite Hc; apply skipn_length).
      cbn [lines_at]. split; [|split; [congruence|lia]].
      unfold next_line. split; [|split; [lia|right; split; [exact Hp|lia]]].
      unfold sub. rewrite <- Hc. replace (p + length l - p) with (length l) by lia. apply firstn_all.
    - cbn [concat] in Hc.
      assert (Hlen : length l + length (concat ls) = length s - p).
      { rewrite <- app_length, Hc. apply skipn_length. }
      cbn [lines_at]. split; [|split; [intros _; exact Ht|]].
      + unfold next_line. split; [|split; [lia|left; exact Ht]].
        unfold sub. rewrite <- Hc. replace (p + length l - p) with (length l) by lia.
        rewrite firstn_app, firstn_all. replace (length l - length l) with 0 by lia. cbn. apply app_nil_r.
      + apply IH; [lia|].
        rewrite <- (skipn_skipn (length l) p s). rewrite <- Hc.
        rewrite skipn_app, skipn_all. replace (length l - length l) with 0 by lia. reflexivity.
  Qed.

  Lemma fold_stopped ls g : g_stopped g = true -> fold_left (g_step cfg (m_is_match M)) ls g = g.
  Proof.
    intro H. induction ls as [|l r IH]; [reflexivity|]. cbn [fold_left].
    unfold g_step at 2. unfold g_step_s. rewrite H. exact IH.
  Qed.

  Lemma g_step_off g l : g_stopped g = false ->
    g_off (g_step cfg (m_is_match M) g l) = g_off g + length l.
  Proof.
    intro H. unfold g_step, g_step_s. rewrite H.
    destruct (negb _); [reflexivity|]. destruct (Nat.leb 1 (g_after g)); [reflexivity|].
    destruct (c_passthru cfg); reflexivity.
  Qed.

  Lemma R_tailok c g : R c g -> tailok c.
  Proof.
    intros (Hp & _ & [Rabs Rbin Rlog Rafter Rsunk Rlaid Rllv Rllc Rln Rlnum Rap Rale]). unfold tailok.
    split; [lia|].
    destruct (Nat.eq_dec (after_context_left c) 0) as [E|E]; [left; exact E|right].
    assert (Ha : 1 <= g_after g) by lia. rewrite (Rap Ha) in Rllv. cbn in Rllv. lia.
  Qed.

  (* what one call of match_by_line leaves behind, [gf] being the reference state after all the
     lines [ls] of the buffer from the scan position on *)
  Definition mbl_post (ls : list bytes) (b : bool) (c' : core) (gf : gstate) : Prop :=
    Rfin c' gf /\
    (b = true -> g_off gf = A + length s /\ g_stopped gf = false /\ tailok c') /\
    (b = false -> g_stopped gf = true) /\
    (b = true -> Forall (terminated ltb) ls -> R c' gf).

  Lemma mbl_post_weaken ls ls' b c' gf :
    (Forall (terminated ltb) ls' -> Forall (terminated ltb) ls) -> mbl_post ls b c' gf -> mbl_post ls' b c' gf.
  Proof. intros H (H1 & H2 & H3 & H4). unfold mbl_post. auto 6. Qed.

  Lemma slow_loop_lines : forall ls c g p fuel,
    lines_at ls p -> R c g -> g_off g = A + p -> g_stopped g = false -> length ls < fuel ->
    let gf := fold_left (g_step cfg (m_is_match M)) ls g in
    exists b c', slow fuel c s p = OK b c' /\ mbl_post ls b c' gf.
  Proof.
    induction ls as [|l r IH]; intros c g p fuel Hat HR Hoff Hns Hf gf.
    - cbn [lines_at] in Hat. destruct fuel as [|f]; [cbn in Hf; lia|].
      cbn [slow_loop]. unfold ltb_. rewrite line_step_end by lia.
      exists true, c. split; [reflexivity|]. unfold gf. cbn [fold_left].
      pose proof (R_tailok c g HR) as Htl.
      pose proof HR as (Hp0 & Hm0 & []). unfold mbl_post, Rfin.
      split; [auto|]. split; [intros _; split; [lia|auto]|]. split; [discriminate|auto].
    - destruct fuel as [|f]; [cbn in Hf; lia|].
      destruct Hat as (Hnl & Hterm & Hrest).
      destruct (slow_step f c g p l HR Hns Hoff Hnl) as (c' & Hfin & HR' & Htl & Heq).
      cbn zeta in *. unfold gf. cbn [fold_left].
      set (g' := g_step cfg (m_is_match M) g l) in *.
      rewrite Heq.
      destruct (g_stopped g') eqn:Est.
      + exists false, c'. split; [reflexivity|]. rewrite fold_stopped by exact Est.
        unfold mbl_post. split; [exact Hfin|]. split; [discriminate|]. split; [auto|discriminate].
      + destruct r as [|l2 r2].
        * cbn [fold_left]. cbn [lines_at] in Hrest.
          destruct f as [|f']; [cbn in Hf; lia|].
          cbn [slow_loop]. unfold ltb_. rewrite line_step_end by lia.
          exists true, c'. split; [reflexivity|]. unfold mbl_post. split; [exact Hfin|].
          split. { intros _. split; [|auto]. unfold g'. rewrite g_step_off by exact Hns. lia. }
          split; [discriminate|]. intros _ Hall. inversion Hall. auto.
        * destruct (IH c' g' (p + length l) f) as (b & c'' & Hrun & Hfin' & Htrue & Hfalse & HRf); auto.
          -- apply HR'. apply Hterm. discriminate.
          -- unfold g'. rewrite g_step_off by exact Hns. lia.
          -- cbn in Hf |- *. lia.
          -- exists b, c''. split; [exact Hrun|]. unfold mbl_post. split; [exact Hfin'|].
             split; [exact Htrue|]. split; [exact Hfalse|]. intros Hb Hall. inversion Hall. auto.
  Qed.
End Sim.

(* ------------------------------------------------------------------ SliceByLine::run:
   the buffer is the whole input (A = 0, base = 0, Core.binary = true) *)
Section SimSlice.
  Variable cfg : config.
  Variable M : matcher.
  Hypothesis Hbin : c_binary cfg = BNone.
  Variable s : bytes.
  Notation ltb := (lt_byte (c_lt cfg)).
  Notation K := (fun _ : nat => Continue).
  Hypothesis Hslow : forall c, is_line_by_line_fast cfg M c = false.

  Lemma R_init :
    R cfg s 0 0 (set_log (core_new cfg) [EBegin]) g_init.
  Proof.
    split; [reflexivity|]. split; [reflexivity|].
    constructor; cbn; try reflexivity; try exact I; try lia.
    unfold LN. cbn. destruct (c_line_number cfg); reflexivity.
  Qed.

  Theorem slice_slow_eq_ref_proof :
    slice_by_line_run cfg M K s = RunOk (grep_ref cfg (m_is_match M) s).
  Proof.
    unfold slice_by_line_run. rewrite emit_K.
    change (log (core_new cfg)) with (@nil event).
    set (c0 := set_log (core_new cfg) [EBegin]).
    rewrite (detect_binary_K cfg Hbin) by reflexivity.
    pose proof R_init as HR0. fold c0 in HR0.
    pose proof (lines_at_shape cfg s _ (split_lines_shape ltb s) 0 ltac:(lia)
                  ltac:(rewrite split_lines_concat; reflexivity)) as Hat.
    assert (Hfuel : length (split_lines ltb s) < S (length s)).
    { pose proof (lines_count_le _ (shape_lengths ltb _ (split_lines_shape ltb s))) as Hlen.
      rewrite split_lines_concat in Hlen. lia. }
    destruct (slow_loop_lines cfg M Hbin s 0 0 true (split_lines ltb s) c0 g_init 0 (S (length s)) Hat HR0 eq_refl eq_refl Hfuel)
      as (b & c' & Hrun & (Fpos & Flog & Fbin) & Hb & _).
    cbn zeta in *. cbn [Nat.add] in Fpos, Hb.
    unfold grep_ref, g_run.
    set (gf := fold_left (g_step cfg (m_is_match M)) (split_lines ltb s) g_init) in *.
    assert (Hfinish : forall c1, pos c1 = g_off gf -> log c1 = g_out gf ++ [EBegin] -> bin_off c1 = None ->
              finish K c1 (byte_count c1) = RunOk (EBegin :: rev (g_out gf) ++ [EFinish (g_off gf) None])).
    { intros c1 H1 H2 H3. unfold finish, byte_count. rewrite H3, H1, H2.
      cbn [rev]. rewrite rev_app_distr. cbn [rev app]. reflexivity. }
    cbn [slice_loop].
    destruct (Nat.leb_spec (length s) (pos c0)) as [Hle|Hgt].
    - (* empty input *)
      cbn [c0 pos set_log core_new] in Hle.
      assert (Hs0 : s = []) by (destruct s; [reflexivity|cbn in Hle; lia]).
      unfold gf. rewrite Hs0. cbn. reflexivity.
    - unfold match_by_line. rewrite Hslow. unfold match_by_line_slow.
      change (pos c0) with 0. rewrite Hrun.
      destruct b.
      + cbn [slice_loop].
        destruct (Nat.leb_spec (length s) (pos c')) as [_|Hlt]; [|rewrite Fpos, (proj1 (Hb eq_refl)) in Hlt; lia].
        apply Hfinish; auto.
      + apply Hfinish; auto.
  Qed.
End SimSlice.
