(* Proofs/WalkParLive.v — the counter/Quit bookkeeping invariant and progress: in every reachable
   state that is not final some worker, running alone, reaches a step that decreases the measure *)
From Coq Require Import List Arith Bool Lia Permutation.
Import ListNotations.
From RG Require Import Model.WalkPar Spec.WalkParSpec Proofs.WalkParBase Proofs.WalkParVariant Proofs.WalkParSafe.

Definition b2n (b : bool) : nat := if b then 1 else 0.

Lemma count_upd' : forall A (g : A -> bool) (l : list A) i x d, i < length l ->
  count g (upd l i x) + b2n (g (nth i l d)) = count g l + b2n (g x).
Proof. intros. apply count_upd. auto. Qed.

Lemma count_app : forall A (g : A -> bool) a b, count g (a ++ b) = count g a + count g b.
Proof. intros. unfold count. rewrite map_app, list_sum_app. auto. Qed.

Lemma count_perm : forall A (g : A -> bool) a b, Permutation a b -> count g a = count g b.
Proof. intros A g a b P. induction P; rewrite ?count_cons in *; lia. Qed.

Lemma count_repeat : forall A (g : A -> bool) a k, count g (repeat a k) = k * b2n (g a).
Proof. intros. induction k; cbn [repeat]; [reflexivity|]. rewrite count_cons, IHk. unfold b2n. lia. Qed.

(* ---- one own step, locally ---- *)

Lemma own_live : forall resp n w a q p d e, own_step resp n w a q p d = Some e -> b2n (counted p) <= a ->
  (* counter *)
  ((is_exit (e_pc e) = false /\ e_active e + b2n (counted p) = a + b2n (counted (e_pc e)))
   \/ (is_exit (e_pc e) = true /\ e_active e = a /\ counted (e_pc e) = false))
  (* somebody is in charge of termination *)
  /\ b2n (is_sendquit p) + b2n (is_exit p) <= b2n (is_sendquit (e_pc e)) + b2n (is_exit (e_pc e))
  /\ (1 <= a -> 1 <= e_active e \/ is_sendquit (e_pc e) = true)
  (* Quit messages never disappear *)
  /\ count is_quit d + b2n (holds_quit p) + b2n (is_sendquit p)
     <= count is_quit (e_deq e) + b2n (holds_quit (e_pc e)) + b2n (is_sendquit (e_pc e))
  /\ (is_exit (e_pc e) = true -> 1 <= count is_quit (e_deq e))
  /\ is_exit p = false.
Proof.
  intros resp n w a q p d e H Ha.
  destruct p as [c0|c0 vs0|v| | |m|t|ts| |l|]; cbn [own_step] in H.
  - destruct d as [|m d']; inversion H; subst; clear H; cbn [e_pc e_deq e_active].
    + destruct c0; cbn; repeat split; auto; try lia; left; auto.
    + rewrite count_cons. destruct c0, m; cbn; repeat split; auto; try lia; left; auto.
  - destruct vs0 as [|v0 [|v1 vs0]]; inversion H; subst; clear H; cbn [e_pc e_deq e_active];
      destruct c0; cbn; repeat split; auto; try lia; left; auto.
  - inversion H; subst; clear H; cbn [e_pc e_deq e_active].
    destruct q; [destruct v as [[t|]|] | destruct v as [[t|]|]]; cbn; repeat split; auto; try lia; left; auto.
  - inversion H; subst; clear H; cbn [e_pc e_deq e_active]. cbn in Ha.
    destruct (a - 1 =? 0) eqn:E; [apply Nat.eqb_eq in E|apply Nat.eqb_neq in E];
      cbn; repeat split; auto; try lia; try (left; split; auto; lia).
  - inversion H; subst; clear H; cbn; repeat split; auto; try lia; left; auto.
  - inversion H; subst; clear H; cbn [e_pc e_deq e_active].
    destruct m; cbn; repeat split; auto; try lia; left; split; auto; lia.
  - destruct t as [y kids]. inversion H; subst; clear H; cbn [e_pc e_deq e_active].
    destruct (resp y); [destruct kids| |]; cbn; repeat split; auto; try lia; left; auto.
  - destruct ts as [|t [|t2 ts]]; inversion H; subst; clear H; cbn [e_pc e_deq e_active]; rewrite ?count_cons;
      cbn; repeat split; auto; try lia; left; auto.
  - inversion H; subst; clear H; cbn; repeat split; auto; try lia; left; auto.
  - inversion H; subst; clear H; cbn [e_pc e_deq e_active]. rewrite count_cons.
    destruct l; cbn; repeat split; auto; try lia; right; auto.
  - discriminate.
Qed.

Lemma b2n_in_count : forall A (g : A -> bool) l w p, nth_error l w = Some p -> b2n (g p) <= count g l.
Proof.
  intros A g l w p H. destruct (g p) eqn:E; cbn; [|lia].
  eapply count_ge_in; eauto. eapply nth_error_In; eauto.
Qed.

Lemma sum_ge_nth : forall A (g : A -> nat) (l : list A) i d, i < length l -> g (nth i l d) <= list_sum (map g l).
Proof.
  induction l as [|h t IH]; intros [|i] d Hi; cbn [length nth map] in *; try lia;
    change (list_sum (g h :: map g t)) with (g h + list_sum (map g t)); [lia|].
  specialize (IH i d). lia.
Qed.

Lemma counted_in : forall l w p, nth_error l w = Some p -> b2n (counted p) <= count counted l.
Proof. intros. eapply b2n_in_count; eauto. Qed.

Section Preserve.
  Variable resp : nat -> walk_state.
  Variable f : forest.

  Lemma live_own : forall s w s', SafeInv resp f s -> LiveInv s -> step resp s (Own w) = Some s' -> LiveInv s'.
  Proof.
    intros s w s' S I H. apply step_own_inv in H. destruct H as (p & e & Hp & He & ->).
    destruct I as [Icount Ialive Iquits].
    pose proof (nth_error_lt _ _ _ _ Hp) as Hw.
    pose proof (si_len _ _ _ S) as Hlen.
    assert (Hwd : w < length (deq s)) by lia.
    assert (Ha : b2n (counted p) <= active s) by (pose proof (counted_in _ _ _ Hp); lia).
    destruct (own_live _ _ _ _ _ _ _ _ He Ha) as (L1 & L2 & L3 & L4 & L5 & L6).
    pose proof (count_upd' _ counted (pcs s) w (e_pc e) PExit Hw) as C1.
    pose proof (count_upd' _ is_exit (pcs s) w (e_pc e) PExit Hw) as C2.
    pose proof (count_upd' _ is_sendquit (pcs s) w (e_pc e) PExit Hw) as C3.
    pose proof (count_upd' _ holds_quit (pcs s) w (e_pc e) PExit Hw) as C4.
    rewrite (nth_error_nth _ _ _ _ PExit Hp) in C1, C2, C3, C4.
    pose proof (list_sum_upd _ (count is_quit) (deq s) w (e_deq e) [] Hwd) as C5.
    rewrite L6 in C2. cbn [b2n] in C2.
    pose proof (b2n_in_count _ is_sendquit _ _ _ Hp) as B3.
    pose proof (sum_ge_nth _ (count is_quit) (deq s) w [] Hwd) as B5.
    split; cbn [deq pcs active].
    - destruct L1 as [(X1 & X2)|(X1 & X2 & X3)]; rewrite X1 in C2; cbn [b2n] in C2.
      + lia.
      + rewrite X3 in C1. cbn [b2n] in C1. assert (b2n (counted p) <= 1) by (destruct (counted p); cbn; lia). lia.
    - destruct Ialive as [A|A].
      + destruct (L3 A) as [B|B]; [left; auto|]. right. rewrite B in C3. cbn [b2n] in C3. lia.
      + right. lia.
    - intros E'.
      destruct (is_exit (e_pc e)) eqn:X.
      + specialize (L5 eq_refl). lia.
      + cbn [b2n] in C2. assert (E0 : 1 <= count is_exit (pcs s)) by lia. specialize (Iquits E0). lia.
  Qed.

  Lemma live_steal : forall s w mask k s', SafeInv resp f s -> LiveInv s -> step resp s (Steal w mask k) = Some s' ->
    LiveInv s'.
  Proof.
    intros s w mask k s' S I H. apply step_steal_inv in H.
    destruct H as (c & v & vs & taken & kept & m & Hp & Hs & Hm & ->).
    destruct I as [Icount Ialive Iquits].
    pose proof (nth_error_lt _ _ _ _ Hp) as Hw.
    pose proof (si_len _ _ _ S) as Hlen.
    assert (Hwd : w < length (deq s)) by lia.
    assert (Hvw : v <> w). { intros ->. apply (si_vict _ _ _ S w c (w :: vs) Hp). left; auto. }
    assert (Hv : v < length (deq s)).
    { destruct (Nat.lt_ge_cases v (length (deq s))); auto.
      rewrite nth_overflow in Hs by lia. cbn in Hs. inversion Hs; subst. destruct k; discriminate. }
    pose proof (count_upd' _ counted (pcs s) w (after_recv c m) PExit Hw) as C1.
    pose proof (count_upd' _ is_exit (pcs s) w (after_recv c m) PExit Hw) as C2.
    pose proof (count_upd' _ is_sendquit (pcs s) w (after_recv c m) PExit Hw) as C3.
    pose proof (count_upd' _ holds_quit (pcs s) w (after_recv c m) PExit Hw) as C4.
    rewrite (nth_error_nth _ _ _ _ PExit Hp) in C1, C2, C3, C4.
    assert (K1 : counted (after_recv c m) = counted (PSteal c (v :: vs))) by (destruct c; reflexivity).
    assert (K2 : is_exit (after_recv c m) = false) by (destruct c; reflexivity).
    assert (K3 : is_sendquit (after_recv c m) = false) by (destruct c; reflexivity).
    assert (K4 : holds_quit (after_recv c m) = is_quit m) by (destruct c, m; reflexivity).
    rewrite K1 in C1. rewrite K2 in C2. rewrite K3 in C3. rewrite K4 in C4. cbn [is_exit is_sendquit holds_quit b2n] in *.
    pose proof (list_sum_upd _ (count is_quit) (deq s) v kept [] Hv) as C5.
    assert (Hwd1 : w < length (upd (deq s) v kept)) by (rewrite length_upd; auto).
    pose proof (list_sum_upd _ (count is_quit) (upd (deq s) v kept) w
                  (remove_nth k taken ++ nth w (upd (deq s) v kept) []) [] Hwd1) as C6.
    rewrite count_app in C6.
    pose proof (count_perm _ is_quit _ _ (split_mask_perm _ _ _ _ _ Hs)) as P1. rewrite count_app in P1.
    pose proof (count_perm _ is_quit _ _ (remove_nth_perm _ _ _ _ Hm)) as P2. rewrite count_cons in P2.
    split; cbn [deq pcs active]; try lia.
    intros E'. assert (E0 : 1 <= count is_exit (pcs s)) by lia. specialize (Iquits E0). unfold b2n in *. lia.
  Qed.

  Lemma live_step : forall s c s', SafeInv resp f s -> LiveInv s -> step resp s c = Some s' -> LiveInv s'.
  Proof. intros s [w|w mask k] s' S I H; [eapply live_own|eapply live_steal]; eauto. Qed.
End Preserve.

Lemma live_init : forall n f, LiveInv (init n f).
Proof.
  intros n f. unfold init. pose proof (nthreads_pos n). set (k := nthreads n) in *.
  split; cbn [deq pcs active]; rewrite ?count_repeat; cbn [counted is_exit is_sendquit b2n]; lia.
Qed.

Theorem live_reach : forall resp n f s, reach resp (init n f) s -> SafeInv resp f s /\ LiveInv s.
Proof.
  intros resp n f s [cs H]. revert H.
  generalize (live_init n f). generalize (safe_init resp n f). generalize (init n f).
  induction cs as [|c r IH]; intros s0 S I H; cbn in H.
  - inversion H; subst; auto.
  - destruct (step resp s0 c) as [s1|] eqn:E; [|discriminate]. apply (IH s1); auto.
    + eapply safe_step; eauto.
    + eapply live_step; eauto.
Qed.

(* the subtraction in deactivate_worker never underflows *)
Theorem deactivate_safe_proof : forall resp n f s w, reach resp (init n f) s ->
  nth_error (pcs s) w = Some PDeact -> 1 <= active s.
Proof.
  intros resp n f s w R Hp. destruct (live_reach _ _ _ _ R) as [_ L].
  pose proof (counted_in _ _ _ Hp). cbn in H. pose proof (li_count _ L). lia.
Qed.

(* ---- progress ---- *)

Definition with_pc (s : st) (w : nat) (p : pc) : st :=
  mkst (deq s) (upd (pcs s) w p) (active s) (quit_now s) (visited s).

(* the next location of a worker that spins in the wait loop with an empty deque *)
Definition next_wait (n w : nat) (p : pc) : pc :=
  match p with
  | PRecv Wait => PSteal Wait (victims_of w n)
  | PSteal Wait [] => PSleep
  | PSteal Wait (_ :: vs) => steal_next Wait vs
  | PSleep => PRecv Wait
  | _ => p
  end.

Fixpoint iter_wait (n w j : nat) (p : pc) : pc :=
  match j with 0 => p | S j' => iter_wait n w j' (next_wait n w p) end.

Lemma iter_wait_add : forall n w a b p, iter_wait n w (a + b) p = iter_wait n w b (iter_wait n w a p).
Proof. intros n w a. induction a as [|a IH]; intros b p; cbn; auto. Qed.

Lemma next_wait_in_loop : forall n w p, in_wait_loop p = true -> in_wait_loop (next_wait n w p) = true.
Proof.
  intros n w p H. destruct p as [[|]|[|] [|v [|v2 vs]]| | | | | | | | |]; try discriminate; reflexivity.
Qed.

Lemma iter_wait_in_loop : forall n w j p, in_wait_loop p = true -> in_wait_loop (iter_wait n w j p) = true.
Proof. intros n w j. induction j; intros p H; cbn; auto. apply IHj. apply next_wait_in_loop. auto. Qed.

Lemma upd_upd : forall A (l : list A) i x y, upd (upd l i x) i y = upd l i y.
Proof. induction l as [|h t IH]; intros [|i] x y; cbn; auto. f_equal. auto. Qed.

Lemma with_pc_with_pc : forall s w p p', with_pc (with_pc s w p) w p' = with_pc s w p'.
Proof. intros. unfold with_pc. cbn. rewrite upd_upd. auto. Qed.

Lemma with_pc_same : forall s w p, nth_error (pcs s) w = Some p -> with_pc s w p = s.
Proof.
  intros s w p H. unfold with_pc. rewrite <- (nth_error_nth _ _ _ _ PExit H), upd_nth_same. destruct s; auto.
Qed.

Lemma run_app : forall resp a b s s1, run resp s a = Some s1 -> run resp s (a ++ b) = run resp s1 b.
Proof.
  intros resp a. induction a as [|c r IH]; intros b s s1 H; cbn in *.
  - inversion H. auto.
  - destruct (step resp s c); [|discriminate]. auto.
Qed.

(* one idle spin step *)
Lemma idle_step : forall resp s w p, length (deq s) = length (pcs s) -> nth_error (pcs s) w = Some p ->
  in_wait_loop p = true -> nth w (deq s) [] = [] ->
  step resp s (Own w) = Some (with_pc s w (next_wait (length (pcs s)) w p)).
Proof.
  intros resp s w p Hlen Hp Hin Hd. unfold step. rewrite Hp, Hd. unfold with_pc.
  destruct p as [[|]|[|] [|v vs]| | | | | | | | |]; try discriminate; cbn [own_step next_wait];
    cbn [e_deq e_pc e_active e_quit e_visit app]; rewrite <- Hd, upd_nth_same; reflexivity.
Qed.

Lemma idle_run : forall resp j s w p, length (deq s) = length (pcs s) -> nth_error (pcs s) w = Some p ->
  in_wait_loop p = true -> nth w (deq s) [] = [] ->
  run resp s (repeat (Own w) j) = Some (with_pc s w (iter_wait (length (pcs s)) w j p)).
Proof.
  intros resp j. induction j as [|j IH]; intros s w p Hlen Hp Hin Hd; cbn [repeat run iter_wait].
  - rewrite with_pc_same; auto.
  - rewrite (idle_step _ _ _ _ Hlen Hp Hin Hd).
    pose proof (nth_error_lt _ _ _ _ Hp) as Hw.
    set (s1 := with_pc s w (next_wait (length (pcs s)) w p)).
    assert (L1 : length (pcs s1) = length (pcs s)) by (cbn; apply length_upd).
    rewrite (IH s1 w (next_wait (length (pcs s)) w p)).
    + unfold s1. rewrite with_pc_with_pc. cbn [with_pc pcs]. rewrite length_upd. auto.
    + cbn. rewrite length_upd. auto.
    + cbn. apply nth_error_upd_eq. auto.
    + apply next_wait_in_loop. auto.
    + auto.
Qed.

(* from anywhere in the wait loop the spinning worker gets to try any given other worker *)
Lemma reaches_victim_from_list : forall n w pre v rest,
  iter_wait n w (length pre) (PSteal Wait (pre ++ v :: rest)) = PSteal Wait (v :: rest).
Proof.
  intros n w pre. induction pre as [|x pre IH]; intros v rest; cbn [length iter_wait app]; auto.
  cbn [next_wait]. destruct (pre ++ v :: rest) eqn:E; [destruct pre; discriminate|].
  cbn [steal_next]. rewrite <- E. apply IH.
Qed.

Lemma reaches_sleep : forall n w vs, exists j, iter_wait n w j (PSteal Wait vs) = PSleep.
Proof.
  intros n w vs. induction vs as [|x vs IH].
  - exists 1. reflexivity.
  - destruct vs as [|y vs].
    + exists 1. reflexivity.
    + destruct IH as (j & Hj). exists (S j). cbn [iter_wait next_wait steal_next]. auto.
Qed.

Lemma reaches_victim : forall n w v p, in_wait_loop p = true -> In v (victims_of w n) ->
  exists j rest, iter_wait n w j p = PSteal Wait (v :: rest).
Proof.
  intros n w v p Hin Hv.
  destruct (in_split _ _ Hv) as (pre & rest & E).
  assert (FromRecv : exists j, iter_wait n w j (PRecv Wait) = PSteal Wait (v :: rest)).
  { exists (1 + length pre). rewrite iter_wait_add. cbn [iter_wait next_wait]. rewrite E.
    apply reaches_victim_from_list. }
  assert (FromSleep : exists j, iter_wait n w j PSleep = PSteal Wait (v :: rest)).
  { destruct FromRecv as (j & Hj). exists (S j). cbn [iter_wait next_wait]. auto. }
  destruct p as [[|]|[|] vs| | | | | | | | |]; try discriminate.
  - destruct FromRecv as (j & Hj). eauto.
  - destruct (reaches_sleep n w vs) as (j1 & H1). destruct FromSleep as (j2 & H2).
    exists (j1 + j2), rest. rewrite iter_wait_add, H1. auto.
  - destruct FromSleep as (j & Hj). eauto.
Qed.

Lemma mu_with_pc_wait : forall s w p p', nth_error (pcs s) w = Some p ->
  in_wait_loop p = true -> in_wait_loop p' = true -> mu (with_pc s w p') = mu s.
Proof.
  intros s w p p' Hp H1 H2. pose proof (nth_error_lt _ _ _ _ Hp) as Hw.
  unfold mu, with_pc. cbn [pcs deq]. rewrite length_upd.
  pose proof (list_sum_upd _ (rank (length (pcs s))) (pcs s) w p' PExit Hw) as E.
  rewrite (nth_error_nth _ _ _ _ PExit Hp) in E.
  assert (R : forall n q, in_wait_loop q = true -> rank n q = 5).
  { intros n q Hq. destruct q as [[|]|[|] ?| | | | | | | | |]; try discriminate; reflexivity. }
  rewrite (R _ _ H1), (R _ _ H2) in E. lia.
Qed.

Lemma split_mask_nil : forall A (l : list A), split_mask [] l = ([], l).
Proof. intros A [|x l]; reflexivity. Qed.

Lemma own_step_some : forall resp n w a q p d, is_exit p = false -> exists e, own_step resp n w a q p d = Some e.
Proof.
  intros resp n w a q p d H.
  destruct p as [c|c [|v vs]|v| | |m|[x kids]|[|t ts]| |l|]; try discriminate; cbn [own_step];
    try (destruct d); eauto.
Qed.

Lemma not_all_exited : forall l, ~ Forall (fun p => p = PExit) l -> exists w p, nth_error l w = Some p /\ is_exit p = false.
Proof.
  induction l as [|h t IH]; intros H.
  - exfalso. apply H. constructor.
  - destruct (is_exit h) eqn:E.
    + destruct IH as (w & p & Hw & Hp).
      { intros A. apply H. constructor; auto. destruct h; try discriminate; auto. }
      exists (S w), p. auto.
    + exists 0, h. auto.
Qed.

Lemma find_busy : forall l, (exists w p, nth_error l w = Some p /\ is_exit p = false /\ in_wait_loop p = false)
  \/ (forall p, In p l -> is_exit p = true \/ in_wait_loop p = true).
Proof.
  induction l as [|h t IH].
  - right. intros p [].
  - destruct IH as [(w & p & H1 & H2 & H3)|IH].
    + left. exists (S w), p. auto.
    + destruct (is_exit h) eqn:E1; [|destruct (in_wait_loop h) eqn:E2].
      * right. intros p [<-|I]; auto.
      * right. intros p [<-|I]; auto.
      * left. exists 0, h. auto.
Qed.

Theorem progress_proof : forall resp n f s, reach resp (init n f) s -> ~ all_exited s ->
  exists w cs s', Forall (fun c => worker_of c = w) cs /\ run resp s cs = Some s' /\ mu s' < mu s.
Proof.
  intros resp n f s R NA. destruct (live_reach _ _ _ _ R) as [S L].
  pose proof (si_len _ _ _ S) as Hlen.
  destruct (find_busy (pcs s)) as [(w & p & Hp & Hx & Hi)|AllIdle].
  - (* a worker outside the wait loop: its next step decreases the measure *)
    destruct (own_step_some resp (length (pcs s)) w (active s) (quit_now s) p (nth w (deq s) []) Hx) as (e & He).
    assert (St : exists s', step resp s (Own w) = Some s').
    { unfold step. rewrite Hp, He. eauto. }
    destruct St as (s' & St). exists w, [Own w], s'. split; [constructor; auto|]. split.
    + cbn [run]. rewrite St. auto.
    + destruct (variant_proof _ _ _ _ Hlen St) as [V|(_ & V & _)]; auto.
      cbn [worker_of] in V. rewrite (nth_error_nth _ _ _ _ PExit Hp) in V. congruence.
  - (* everybody alive spins in the wait loop: then a Quit message lies in an exited worker's deque *)
    destruct (not_all_exited _ NA) as (w & p & Hp & Hx).
    assert (Hi : in_wait_loop p = true).
    { destruct (AllIdle p (nth_error_In _ _ Hp)); congruence. }
    pose proof (nth_error_lt _ _ _ _ Hp) as Hw.
    assert (Z1 : count counted (pcs s) = 0).
    { apply count_zero_all. intros x Ix. destruct (AllIdle x Ix) as [E|E]; destruct x as [[|]|[|] ?| | | | | | | | |]; try discriminate; reflexivity. }
    assert (Z2 : count is_sendquit (pcs s) = 0).
    { apply count_zero_all. intros x Ix. destruct (AllIdle x Ix) as [E|E]; destruct x as [[|]|[|] ?| | | | | | | | |]; try discriminate; reflexivity. }
    assert (Z3 : count holds_quit (pcs s) = 0).
    { apply count_zero_all. intros x Ix. destruct (AllIdle x Ix) as [E|E]; destruct x as [[|]|[|] ?|[[|]|]| | |[|]| | | | |]; try discriminate; reflexivity. }
    destruct L as [Lc La Lq]. rewrite Z1 in Lc. rewrite Z2 in La.
    assert (E1 : 1 <= count is_exit (pcs s)) by lia.
    specialize (Lq E1). rewrite Z2, Z3 in Lq.
    destruct (list_sum_pos_ex (map (count is_quit) (deq s))) as (v & Hv & Hq); [lia|].
    rewrite map_length in Hv.
    rewrite (nth_indep _ 0 (count is_quit [])) in Hq by (rewrite map_length; auto).
    rewrite map_nth in Hq.
    assert (Hown : nth w (deq s) [] = []).
    { apply (si_empty _ _ _ S w p Hp). destruct p as [[|]|[|] ?| | | | | | | | |]; try discriminate; reflexivity. }
    assert (Hvw : v <> w). { intros ->. rewrite Hown in Hq. cbv in Hq. lia. }
    assert (Hvic : In v (victims_of w (length (pcs s)))) by (apply victims_in; auto; lia).
    destruct (reaches_victim (length (pcs s)) w v p Hi Hvic) as (j & rest & Hj).
    pose proof (idle_run resp j s w p Hlen Hp Hi Hown) as Run1. rewrite Hj in Run1.
    set (s1 := with_pc s w (PSteal Wait (v :: rest))) in *.
    destruct (nth v (deq s) []) as [|m dv] eqn:Dv; [cbv in Hq; lia|].
    assert (St : exists s2, step resp s1 (Steal w [true] 0) = Some s2).
    { unfold step, steal_step, s1. cbn [with_pc pcs deq]. rewrite nth_error_upd_eq by auto.
      rewrite Dv. cbn [split_mask]. rewrite split_mask_nil. cbn. eauto. }
    destruct St as (s2 & St).
    exists w, (repeat (Own w) j ++ [Steal w [true] 0]), s2. split; [|split].
    + apply Forall_app. split; [|constructor; auto]. apply Forall_forall. intros c Hc.
      apply repeat_spec in Hc. subst. auto.
    + rewrite (run_app _ _ _ _ _ Run1). cbn [run]. rewrite St. auto.
    + assert (M1 : mu s1 = mu s) by (apply (mu_with_pc_wait s w p); auto).
      assert (Hlen1 : length (deq s1) = length (pcs s1)) by (unfold s1; cbn; rewrite length_upd; auto).
      destruct (variant_proof _ _ _ _ Hlen1 St) as [V|(_ & _ & V & _)]; [lia|].
      exfalso. apply step_steal_inv in St.
      destruct St as (c & v' & vs' & tk & kp & m' & Hp' & _ & _ & ->).
      cbn [worker_of pcs] in V. rewrite nth_upd_eq in V by (unfold s1; cbn; rewrite length_upd; auto).
      unfold s1 in Hp'. cbn in Hp'. rewrite nth_error_upd_eq in Hp' by auto. inversion Hp'; subst.
      discriminate.
Qed.

(* ---- from every reachable state the walk can still be completed ---- *)

Lemma reach_trans : forall resp s0 s cs s', reach resp s0 s -> run resp s cs = Some s' -> reach resp s0 s'.
Proof.
  intros resp s0 s cs s' [cs0 H0] H. exists (cs0 ++ cs). rewrite (run_app _ _ _ _ _ H0). auto.
Qed.

Lemma all_exited_dec : forall s, all_exited s \/ ~ all_exited s.
Proof.
  intros s. unfold all_exited. induction (pcs s) as [|h t IH].
  - left. constructor.
  - destruct (is_exit h) eqn:E.
    + destruct IH as [IH|IH].
      * left. constructor; auto. destruct h; try discriminate; auto.
      * right. intros A. inversion A; auto.
    + right. intros A. inversion A; subst. discriminate.
Qed.

Theorem can_always_finish_proof : forall resp n f s, reach resp (init n f) s ->
  exists cs s', run resp s cs = Some s' /\ all_exited s'.
Proof.
  intros resp n f s. remember (mu s) as k eqn:Hk. revert s Hk.
  induction k as [k IH] using lt_wf_ind. intros s Hk R.
  destruct (all_exited_dec s) as [A|NA].
  - exists [], s. auto.
  - destruct (progress_proof _ _ _ _ R NA) as (w & cs & s1 & _ & Run & Lt).
    destruct (IH (mu s1) ltac:(lia) s1 eq_refl (reach_trans _ _ _ _ _ R Run)) as (cs2 & s2 & Run2 & A2).
    exists (cs ++ cs2), s2. rewrite (run_app _ _ _ _ _ Run). auto.
Qed.
