(* Proofs/MLGeometry.v — byte positions, lines and line indices.
   For an input s with lines L = split_lines s:
     off k   = byte offset of line k (off n = length s),
     lidx x  = index of the line holding position x = number of terminators before x
               (the end-of-input position belongs to an unterminated last line, else to the
               "virtual" line n).
   lines::locate maps a match (a, b) to the byte range of the lines lidx a .. lidx (max a (b-1)),
   and MultiLineSpec.covers marks exactly those lines. *)
From RG Require Import Base.Bytes Base.BytesFacts Model.Lines Model.SearcherCore Spec.GrepSpec Spec.MultiLineSpec
  Proofs.LinesProofs Proofs.MLGroup.

(* ---- list helpers ---- *)
Lemma firstn_S_nth {A} (d : A) : forall (l : list A) k, k < length l -> firstn (S k) l = firstn k l ++ [nth k l d].
Proof.
  induction l as [|x l IH]; intros k H; [cbn in H; lia|].
  destruct k as [|k]; [reflexivity|]. cbn [length] in H.
  cbn [firstn nth app]. f_equal. apply IH. lia.
Qed.

Lemma firstn_add {A} (l : list A) x i : firstn (x + i) l = firstn x l ++ firstn i (skipn x l).
Proof.
  revert l; induction x as [|x IH]; intro l; [reflexivity|].
  destruct l as [|y l]; [now rewrite !firstn_nil|]. cbn [Nat.add firstn skipn app]. now rewrite IH.
Qed.

Lemma nth_error_firstn_lt {A} (l : list A) : forall z i, i < z -> nth_error (firstn z l) i = nth_error l i.
Proof.
  induction l as [|x l IH]; intros z i H; [now rewrite firstn_nil|].
  destruct z as [|z]; [lia|]. destruct i as [|i]; [reflexivity|]. cbn [firstn nth_error]. apply IH. lia.
Qed.

Lemma firstn_S_snoc {A} (l : list A) x c : nth_error l x = Some c -> firstn (S x) l = firstn x l ++ [c].
Proof.
  revert l; induction x as [|x IH]; intros l H; destruct l as [|y l]; try discriminate.
  - cbn in H. injection H as ->. reflexivity.
  - cbn [nth_error] in H. cbn [firstn app]. f_equal. apply IH. exact H.
Qed.

Lemma nth_error_skipn {A} (l : list A) : forall x i, nth_error (skipn x l) i = nth_error l (x + i).
Proof.
  induction l as [|y l IH]; intros x i; [rewrite skipn_nil; destruct i, x; reflexivity|].
  destruct x as [|x]; [reflexivity|]. cbn [skipn Nat.add nth_error]. apply IH.
Qed.

Section Geo.
  Variable ltb : byte.
  Variable s : bytes.
  Notation L := (split_lines ltb s).
  Notation n := (length (split_lines ltb s)).
  Notation cnt := (count_lt ltb s).

  Definition off (k : nat) : nat := length (concat (firstn k L)).
  Definition lidx (x : nat) : nat := count_lt ltb (firstn x s).

  Lemma L_lines : Forall (fun l : bytes => 1 <= length l) L.
  Proof. apply shape_lengths with (ltb := ltb). apply split_lines_shape. Qed.

  Lemma off_0 : off 0 = 0. Proof. reflexivity. Qed.

  Lemma off_le_len k : off k <= length s.
  Proof. unfold off. pose proof (concat_firstn_le L k) as H. now rewrite split_lines_concat in H. Qed.

  Lemma off_n k : n <= k -> off k = length s.
  Proof. intro H. unfold off. rewrite firstn_all2 by exact H. now rewrite split_lines_concat. Qed.

  Lemma off_S k : k < n -> off (S k) = off k + length (nth k L []).
  Proof. intro H. unfold off. rewrite (firstn_S_nth []) by exact H. rewrite concat_app, app_length. cbn [concat]. now rewrite app_nil_r. Qed.

  Lemma nth_line_pos k : k < n -> 1 <= length (nth k L []).
  Proof.
    intro H. pose proof L_lines as HL. rewrite Forall_forall in HL. apply HL. apply nth_In. exact H.
  Qed.

  Lemma off_mono k k' : k <= k' -> off k <= off k'.
  Proof.
    intro H. unfold off. replace (firstn k L) with (firstn k (firstn k' L)).
    - apply concat_firstn_le.
    - rewrite firstn_firstn. f_equal. lia.
  Qed.

  Lemma off_strict k k' : k < k' -> k' <= n -> off k < off k'.
  Proof.
    intros H1 H2. pose proof (off_mono (S k) k' ltac:(lia)). rewrite off_S in H by lia.
    pose proof (nth_line_pos k ltac:(lia)). lia.
  Qed.

  Lemma off_leb i j : i <= n -> j <= n -> Nat.leb (off i) (off j) = Nat.leb i j.
  Proof.
    intros Hi Hj. destruct (Nat.leb_spec i j) as [H|H].
    - apply Nat.leb_le. apply off_mono. exact H.
    - apply Nat.leb_gt. apply off_strict; lia.
  Qed.

  Lemma firstn_off k : firstn (off k) s = concat (firstn k L).
  Proof.
    assert (E : s = concat (firstn k L) ++ concat (skipn k L)).
    { rewrite <- concat_app, firstn_skipn. symmetry. apply split_lines_concat. }
    unfold off. set (P := concat (firstn k L)) in *. rewrite E. apply firstn_app_exact.
  Qed.

  (* ---- the shape of the lines: all terminated except possibly the last ---- *)
  Lemma partial_not_suffix l : partial ltb l -> lt_is_suffix (LTByte ltb) l = false.
  Proof.
    intros [Hne Hn]. unfold lt_is_suffix. destruct (rev l) as [|b r] eqn:Er; [reflexivity|].
    cbn [lt_byte]. assert (Hin : In b l) by (apply in_rev; rewrite Er; left; reflexivity).
    rewrite forallb_forall in Hn. specialize (Hn b Hin). apply negb_true_iff in Hn.
    now rewrite N.eqb_sym.
  Qed.

  Lemma terminated_suffix l : terminated ltb l -> lt_is_suffix (LTByte ltb) l = true.
  Proof. intros (body & -> & _). unfold lt_is_suffix. rewrite rev_unit. cbn. apply N.eqb_refl. Qed.

  Lemma shape_cnt ls : lines_shape ltb ls ->
    count_lt ltb (concat ls) <= length ls /\ length ls <= S (count_lt ltb (concat ls)) /\
    (forall k, k <= count_lt ltb (concat ls) -> Forall (terminated ltb) (firstn k ls)) /\
    (forall k, k < length ls -> lt_is_suffix (LTByte ltb) (nth k ls []) = Nat.ltb k (count_lt ltb (concat ls))).
  Proof.
    induction 1 as [|l Hp|l ls Ht Hs IH].
    - change (count_lt ltb (concat [])) with 0. cbn [length].
      split; [lia|]. split; [lia|]. split; intros k Hk; [rewrite firstn_nil; constructor|lia].
    - cbn [concat]. rewrite app_nil_r. destruct Hp as [Hne Hn]. rewrite (count_lt_nolt ltb l Hn). cbn [length].
      repeat split; try lia.
      + intros k Hk. replace k with 0 by lia. constructor.
      + intros k Hk. replace k with 0 by lia. cbn [nth]. apply partial_not_suffix. split; assumption.
    - destruct IH as (I1 & I2 & I3 & I4). cbn [concat length].
      rewrite count_lt_app, (count_lt_terminated ltb l Ht).
      repeat split; try lia.
      + intros [|k] Hk; [constructor|]. cbn [firstn]. constructor; [exact Ht|]. apply I3. lia.
      + intros [|k] Hk; cbn [nth].
        * rewrite (terminated_suffix l Ht). reflexivity.
        * rewrite I4 by lia. destruct (Nat.ltb_spec k (count_lt ltb (concat ls)));
            destruct (Nat.ltb_spec (S k) (1 + count_lt ltb (concat ls))); try reflexivity; lia.
  Qed.

  Lemma cnt_le_n : cnt <= n.
  Proof. pose proof (shape_cnt L (split_lines_shape ltb s)) as (H & _). now rewrite split_lines_concat in H. Qed.
  Lemma n_le_Scnt : n <= S cnt.
  Proof. pose proof (shape_cnt L (split_lines_shape ltb s)) as (_ & H & _). now rewrite split_lines_concat in H. Qed.
  Lemma prefix_terminated k : k <= cnt -> Forall (terminated ltb) (firstn k L).
  Proof. pose proof (shape_cnt L (split_lines_shape ltb s)) as (_ & _ & H & _). rewrite split_lines_concat in H. apply H. Qed.
  Lemma line_suffix k : k < n -> lt_is_suffix (LTByte ltb) (nth k L []) = Nat.ltb k cnt.
  Proof. pose proof (shape_cnt L (split_lines_shape ltb s)) as (_ & _ & _ & H). rewrite split_lines_concat in H. apply H. Qed.

  (* ---- lidx ---- *)
  Lemma lidx_mono x y : x <= y -> lidx x <= lidx y.
  Proof.
    intro H. unfold lidx. replace (firstn x s) with (firstn x (firstn y s)).
    - rewrite <- (firstn_skipn x (firstn y s)) at 2. rewrite count_lt_app. lia.
    - rewrite firstn_firstn. f_equal. lia.
  Qed.

  Lemma lidx_le_cnt x : lidx x <= cnt.
  Proof. unfold lidx. rewrite <- (firstn_skipn x s) at 2. rewrite count_lt_app. lia. Qed.

  Lemma lidx_all x : length s <= x -> lidx x = cnt.
  Proof. intro H. unfold lidx. now rewrite firstn_all2. Qed.

  Lemma count_lt_snoc l c : count_lt ltb (l ++ [c]) = count_lt ltb l + (if (ltb =? c)%N then 1 else 0).
  Proof. rewrite count_lt_app. unfold count_lt at 2. cbn [filter]. destruct (ltb =? c)%N; reflexivity. Qed.

  Lemma lidx_S x c : nth_error s x = Some c -> lidx (S x) = lidx x + (if (ltb =? c)%N then 1 else 0).
  Proof. intro H. unfold lidx. rewrite (firstn_S_snoc s x c H). apply count_lt_snoc. Qed.

  Lemma lidx_off k : k <= cnt -> lidx (off k) = k.
  Proof.
    intro H. unfold lidx. rewrite firstn_off. rewrite count_lt_concat by (apply prefix_terminated; exact H).
    rewrite firstn_length. pose proof cnt_le_n. lia.
  Qed.

  Lemma concat_term_snoc ls : Forall (terminated ltb) ls -> ls <> [] -> exists A, concat ls = A ++ [ltb].
  Proof.
    intros H Hne. destruct (exists_last Hne) as (ls' & l & ->).
    apply Forall_app in H as [_ H]. inversion H as [|? ? (body & -> & _) _]; subst.
    exists (concat ls' ++ body). rewrite concat_app. cbn [concat]. now rewrite app_nil_r, app_assoc.
  Qed.

  (* before the start of line k (k >= 1) there are fewer than k terminators *)
  Lemma lidx_lt_off k x : k <= cnt -> x < off k -> lidx x < k.
  Proof.
    intros Hk Hx.
    assert (Hk1 : 1 <= k) by (destruct k; [rewrite off_0 in Hx; lia|lia]).
    pose proof (prefix_terminated k Hk) as Ht.
    assert (Hne : firstn k L <> []).
    { intro E. apply (f_equal (@length _)) in E. rewrite firstn_length in E. cbn in E. pose proof cnt_le_n. lia. }
    destruct (concat_term_snoc _ Ht Hne) as (A & HA).
    assert (Hoff : off k = length A + 1) by (unfold off; rewrite HA, app_length; reflexivity).
    assert (HcA : count_lt ltb A + 1 = k).
    { pose proof (count_lt_concat ltb _ Ht) as Hc. rewrite HA in Hc. rewrite count_lt_snoc, N.eqb_refl in Hc.
      rewrite firstn_length in Hc. pose proof cnt_le_n. lia. }
    unfold lidx. replace (firstn x s) with (firstn x (firstn (off k) s)).
    2:{ rewrite firstn_firstn. f_equal. lia. }
    rewrite firstn_off, HA. rewrite firstn_app. replace (x - length A) with 0 by lia. cbn [firstn]. rewrite app_nil_r.
    rewrite <- (firstn_skipn x A) in HcA. rewrite count_lt_app in HcA. lia.
  Qed.

  Lemma off_le_iff k x : k <= cnt -> (off k <= x <-> k <= lidx x).
  Proof.
    intro Hk. split.
    - intro H. rewrite <- (lidx_off k Hk). apply lidx_mono. exact H.
    - intro H. destruct (Nat.le_gt_cases (off k) x) as [|Hlt]; [assumption|].
      pose proof (lidx_lt_off k x Hk Hlt). lia.
  Qed.

  Lemma lt_off_iff k x : k < n -> x < length s -> (x < off (S k) <-> lidx x <= k).
  Proof.
    intros Hk Hx. pose proof n_le_Scnt as Hn. pose proof (lidx_le_cnt x) as Hl.
    destruct (Nat.le_gt_cases (S k) cnt) as [Hle|Hgt].
    - pose proof (off_le_iff (S k) x Hle). lia.
    - rewrite off_n by lia. lia.
  Qed.

  (* a position right after a terminator is the start of line lidx y *)
  Lemma bnd_off y : 1 <= y -> nth_error s (y - 1) = Some ltb -> off (lidx y) = y.
  Proof.
    intros Hy Hnth.
    assert (Hlen : y - 1 < length s) by (apply nth_error_Some; congruence).
    pose proof (lidx_le_cnt y) as Hk.
    assert (HS : lidx y = lidx (y - 1) + 1).
    { replace y with (S (y - 1)) at 1 by lia. rewrite (lidx_S (y - 1) ltb Hnth). now rewrite N.eqb_refl. }
    destruct (Nat.lt_trichotomy (off (lidx y)) y) as [Hlt|[E|Hgt]]; [|exact E|].
    - (* off (lidx y) < y: then lidx (off ..) <= lidx (y-1) < lidx y *)
      pose proof (lidx_mono (off (lidx y)) (y - 1) ltac:(lia)) as Hm. rewrite lidx_off in Hm by exact Hk. lia.
    - pose proof (lidx_lt_off (lidx y) y Hk Hgt). lia.
  Qed.

  (* ---- locate ---- *)
  Definition lstart (x : nat) : nat := match rfind_byte ltb (firstn x s) with Some i => i + 1 | None => 0 end.
  Definition lend (x : nat) : nat := match find_byte ltb (skipn x s) with Some i => x + i + 1 | None => length s end.

  Lemma rfind_none_inv l : rfind_byte ltb l = None -> no_lt ltb l.
  Proof.
    unfold no_lt. induction l as [|x l IH]; [reflexivity|]. cbn [rfind_byte forallb].
    destruct (rfind_byte ltb l) as [i|]; [discriminate|].
    destruct (N.eqb_spec x ltb) as [->|Hx]; [discriminate|]. intros _.
    rewrite IH by reflexivity. rewrite andb_true_r. apply negb_true_iff, N.eqb_neq. congruence.
  Qed.

  Lemma rfind_some_inv l i : rfind_byte ltb l = Some i ->
    exists A B, l = A ++ ltb :: B /\ length A = i /\ no_lt ltb B.
  Proof.
    revert i; induction l as [|x l IH]; intros i H; [discriminate|]. cbn [rfind_byte] in H.
    destruct (rfind_byte ltb l) as [j|] eqn:E.
    - injection H as <-. destruct (IH j eq_refl) as (A & B & -> & <- & HB).
      exists (x :: A), B. repeat split; auto.
    - destruct (N.eqb_spec x ltb) as [->|Hx]; [|discriminate]. injection H as <-.
      exists [], l. repeat split; auto. apply rfind_none_inv. exact E.
  Qed.

  Lemma lstart_off x : x <= length s -> lstart x = off (lidx x).
  Proof.
    intro Hx. unfold lstart. destruct (rfind_byte ltb (firstn x s)) as [i|] eqn:E.
    - destruct (rfind_some_inv _ _ E) as (A & B & HAB & HA & HB).
      assert (Hlen : length (firstn x s) = x) by (rewrite firstn_length; lia).
      assert (Hix : i + 1 <= x).
      { rewrite <- Hlen, HAB, app_length. cbn [length]. lia. }
      assert (Hnth : nth_error s (i + 1 - 1) = Some ltb).
      { replace (i + 1 - 1) with i by lia. rewrite <- (nth_error_firstn_lt s x i) by lia.
        rewrite HAB. rewrite nth_error_app2 by lia. replace (i - length A) with 0 by lia. reflexivity. }
      assert (Hl : lidx (i + 1) = lidx x).
      { unfold lidx at 1. replace (firstn (i + 1) s) with (firstn (i + 1) (firstn x s)).
        2:{ rewrite firstn_firstn. f_equal. lia. }
        unfold lidx. rewrite HAB.
        replace (A ++ ltb :: B) with ((A ++ [ltb]) ++ B) by (rewrite <- app_assoc; reflexivity).
        rewrite firstn_app. replace (i + 1 - length (A ++ [ltb])) with 0 by (rewrite app_length; cbn; lia).
        cbn [firstn]. rewrite app_nil_r. rewrite firstn_all2 by (rewrite app_length; cbn; lia).
        rewrite (count_lt_app ltb (A ++ [ltb]) B). rewrite (count_lt_nolt ltb B HB). lia. }
      rewrite <- Hl. symmetry. apply bnd_off; [lia|exact Hnth].
    - apply rfind_none_inv in E. unfold lidx. rewrite (count_lt_nolt ltb _ E). reflexivity.
  Qed.

  Lemma lend_off x : x <= length s -> lend x = off (S (lidx x)).
  Proof.
    intro Hx. unfold lend, find_byte, memchr. destruct (find_index (N.eqb ltb) (skipn x s)) as [i|] eqn:E.
    - destruct (find_index_some _ _ _ E) as (Hi & Hpre & c & r & Hsk & Hc).
      apply N.eqb_eq in Hc. subst c.
      rewrite skipn_length in Hi.
      assert (Hnth : nth_error s (x + i) = Some ltb).
      { rewrite <- nth_error_skipn. rewrite <- (firstn_skipn i (skipn x s)). rewrite nth_error_app2 by (rewrite firstn_length; lia).
        rewrite firstn_length, skipn_length. replace (i - Nat.min i (length s - x)) with 0 by lia. rewrite Hsk. reflexivity. }
      assert (Hl : lidx (x + i) = lidx x).
      { unfold lidx. rewrite firstn_add, count_lt_app. rewrite (count_lt_nolt ltb (firstn i (skipn x s))); [lia|].
        exact Hpre. }
      assert (HS : lidx (x + i + 1) = S (lidx x)).
      { replace (x + i + 1) with (S (x + i)) by lia. rewrite (lidx_S (x + i) ltb Hnth), N.eqb_refl. lia. }
      rewrite <- HS. symmetry. apply bnd_off; [lia|]. replace (x + i + 1 - 1) with (x + i) by lia. exact Hnth.
    - apply find_index_none in E.
      assert (Hl : lidx x = cnt).
      { unfold lidx. rewrite <- (firstn_skipn x s) at 2. rewrite count_lt_app.
        rewrite (count_lt_nolt ltb (skipn x s)); [lia|]. exact E. }
      rewrite Hl. symmetry. apply off_n. apply n_le_Scnt.
  Qed.

  (* the line range of a match *)
  Definition iv (m : nat * nat) : nat * nat :=
    let (a, b) := m in (lidx a, Nat.min n (S (lidx (Nat.max a (b - 1))))).

  Lemma off_min k : off (Nat.min n k) = off k.
  Proof. destruct (Nat.le_gt_cases k n); [f_equal; lia|]. rewrite !off_n by lia. reflexivity. Qed.

  Theorem locate_iv a b : a <= b -> b <= length s ->
    locate ltb s a b = (off (fst (iv (a, b))), off (snd (iv (a, b)))).
  Proof.
    intros Hab Hb. unfold locate, iv. cbn [fst snd]. rewrite off_min.
    fold (lstart a). fold (lend b). rewrite (lstart_off a) by lia.
    f_equal.
    pose proof (lstart_off a ltac:(lia)) as Hls.
    destruct (Nat.ltb_spec (off (lidx a)) b) as [Hlt|Hge]; cbn [andb].
    - destruct (nth_error s (b - 1)) as [c|] eqn:Ec.
      + destruct (N.eqb_spec c ltb) as [->|Hc].
        * (* the match ends right after a terminator *)
          assert (Hne : a <> b).
          { intro E. subst b.
            pose proof (bnd_off a ltac:(lia) Ec) as Hb'. lia. }
          replace (Nat.max a (b - 1)) with (b - 1) by lia.
          rewrite <- (bnd_off b ltac:(lia) Ec) at 1. f_equal.
          replace b with (S (b - 1)) at 1 by lia. rewrite (lidx_S (b - 1) ltb Ec), N.eqb_refl. lia.
        * rewrite (lend_off b Hb). do 2 f_equal.
          destruct (Nat.eq_dec a b) as [->|Hne]; [f_equal; lia|].
          replace (Nat.max a (b - 1)) with (b - 1) by lia.
          replace b with (S (b - 1)) at 1 by lia. rewrite (lidx_S (b - 1) c Ec).
          destruct (N.eqb_spec ltb c); [congruence|lia].
      + apply nth_error_None in Ec. pose proof (off_le_len (lidx a)). lia.
    - assert (a = b) by (pose proof (off_le_iff (lidx a) a (lidx_le_cnt a)); lia). subst b.
      rewrite (lend_off a Hb). do 3 f_equal. lia.
  Qed.

  (* ---- covers ---- *)
  Lemma lidx_iv_le a b : a <= b -> lidx a <= lidx (Nat.max a (b - 1)).
  Proof. intro H. apply lidx_mono. lia. Qed.

  Lemma off_S_eq_len k : k < n -> (off (S k) = length s <-> S k = n).
  Proof.
    intro Hk. split; intro H.
    - destruct (Nat.eq_dec (S k) n) as [E|E]; [exact E|].
      pose proof (off_strict (S k) n ltac:(lia) ltac:(lia)) as Hs. rewrite (off_n n) in Hs by lia. lia.
    - apply off_n. lia.
  Qed.

  Lemma pos_in_line_idx k x : k < n -> x <= length s ->
    pos_in_line (length s) (off k) (off (S k)) (lt_is_suffix (LTByte ltb) (nth k L [])) x = Nat.eqb (lidx x) k.
  Proof.
    intros Hk Hx. unfold pos_in_line. rewrite (line_suffix k Hk).
    pose proof n_le_Scnt as Hn. pose proof cnt_le_n as Hc.
    pose proof (off_le_iff k x ltac:(lia)) as H1.
    pose proof (off_le_len (S k)) as H3. pose proof (off_le_len k) as H5.
    destruct (Nat.eq_dec x (length s)) as [->|Hne].
    - rewrite (lidx_all (length s)) by lia. rewrite Nat.eqb_refl. cbn [andb].
      pose proof (off_S_eq_len k Hk) as H4.
      destruct (Nat.leb_spec (off k) (length s)) as [E1|E1]; destruct (Nat.ltb_spec (length s) (off (S k))) as [E2|E2];
        destruct (Nat.eqb_spec (off (S k)) (length s)) as [E3|E3]; destruct (Nat.ltb_spec k cnt) as [E4|E4];
        destruct (Nat.eqb_spec cnt k) as [E5|E5]; cbn [andb orb negb]; try reflexivity; try lia.
    - pose proof (lt_off_iff k x Hk ltac:(lia)) as H2.
      destruct (Nat.eqb_spec x (length s)) as [E0|E0]; [lia|]. cbn [andb orb]. rewrite orb_false_r.
      destruct (Nat.leb_spec (off k) x) as [E1|E1]; destruct (Nat.ltb_spec x (off (S k))) as [E2|E2];
        destruct (Nat.eqb_spec (lidx x) k) as [E3|E3]; cbn [andb]; try reflexivity; lia.
  Qed.

  Theorem covers_iv k a b : k < n -> a <= b -> b <= length s ->
    covers (length s) (off k) (off (S k)) (lt_is_suffix (LTByte ltb) (nth k L [])) (a, b) = in_iv k (iv (a, b)).
  Proof.
    intros Hk Hab Hb. unfold covers. rewrite (pos_in_line_idx k a Hk) by lia.
    unfold in_iv, iv. cbn [fst snd].
    pose proof n_le_Scnt as Hn.
    pose proof (off_le_iff k a ltac:(lia)) as H1.
    pose proof (off_le_iff k (Nat.max a (b - 1)) ltac:(lia)) as H2.
    pose proof (lidx_iv_le a b Hab) as H3.
    destruct (Nat.eqb_spec (lidx a) k) as [E1|E1]; destruct (Nat.ltb_spec a (off k)) as [E2|E2];
      destruct (Nat.leb_spec (off k) (Nat.max a (b - 1))) as [E3|E3]; destruct (Nat.leb_spec (lidx a) k) as [E4|E4];
      destruct (Nat.ltb_spec k (Nat.min n (S (lidx (Nat.max a (b - 1)))))) as [E5|E5]; cbn [andb orb]; try reflexivity; lia.
  Qed.

  Lemma line_spans_gen : forall ls pre,
    line_spans ltb ls (length (concat pre)) =
    map (fun k => (length (concat (firstn k (pre ++ ls))), length (concat (firstn (S k) (pre ++ ls))),
                   lt_is_suffix (LTByte ltb) (nth k (pre ++ ls) [])))
        (seq (length pre) (length ls)).
  Proof.
    induction ls as [|l r IH]; intro pre; [reflexivity|].
    cbn [line_spans length seq map]. f_equal.
    - rewrite (firstn_S_nth []) by (rewrite app_length; cbn [length]; lia).
      rewrite firstn_app, firstn_all, Nat.sub_diag. cbn [firstn]. rewrite app_nil_r.
      rewrite app_nth2 by lia. rewrite Nat.sub_diag. cbn [nth].
      rewrite concat_app, app_length. cbn [concat]. rewrite app_nil_r. reflexivity.
    - specialize (IH (pre ++ [l])). rewrite concat_app, !app_length in IH. cbn [concat length] in IH.
      rewrite app_nil_r in IH. rewrite IH. replace (length pre + 1) with (S (length pre)) by lia.
      apply map_ext. intro k. now rewrite <- app_assoc.
  Qed.

  Lemma line_spans_idx :
    line_spans ltb L 0 = map (fun k => (off k, off (S k), lt_is_suffix (LTByte ltb) (nth k L []))) (seq 0 n).
  Proof. exact (line_spans_gen L []). Qed.

  Definition wf_match (m : nat * nat) : Prop := fst m <= snd m /\ snd m <= length s.

  Lemma existsb_map {A B} (f : B -> bool) (g : A -> B) l : existsb f (map g l) = existsb (fun x => f (g x)) l.
  Proof. induction l as [|x l IH]; [reflexivity|]. cbn [map existsb]. now rewrite IH. Qed.

  Lemma existsb_ext_in {A} (f g : A -> bool) l : (forall x, In x l -> f x = g x) -> existsb f l = existsb g l.
  Proof.
    induction l as [|x l IH]; intro H; [reflexivity|]. cbn [existsb].
    rewrite (H x) by (left; reflexivity). rewrite IH; [reflexivity|]. intros y Hy. apply H. right. exact Hy.
  Qed.

  Lemma spans_flags ms : Forall wf_match ms ->
    map (fun sp : nat * nat * bool => let '(ls, le, t) := sp in existsb (covers (length s) ls le t) ms)
        (line_spans ltb L 0)
    = map (flagf (map iv ms)) (seq 0 n).
  Proof.
    intro Hwf. rewrite line_spans_idx, map_map. apply map_ext_in. intros k Hk. apply in_seq in Hk.
    unfold flagf. rewrite existsb_map. apply existsb_ext_in. intros [a b] Hm.
    rewrite Forall_forall in Hwf. destruct (Hwf _ Hm) as [H1 H2]. cbn [fst snd] in *.
    apply covers_iv; lia.
  Qed.

  (* ---- segments of lines ---- *)
  Lemma firstn_seg k i : k <= i -> firstn i L = firstn k L ++ seg L k i.
  Proof. intro H. unfold seg. replace i with (k + (i - k)) at 1 by lia. apply firstn_add. Qed.

  Lemma off_seg k i : k <= i -> off i = off k + length (concat (seg L k i)).
  Proof. intro H. unfold off. rewrite (firstn_seg k i H), concat_app, app_length. reflexivity. Qed.

  Lemma sub_seg k i : k <= i -> sub s (off k) (off i) = concat (seg L k i).
  Proof.
    intro H. pose proof (firstn_off i) as Hi. rewrite (firstn_seg k i H), concat_app in Hi.
    rewrite (off_seg k i H) in Hi. rewrite firstn_add, firstn_off in Hi. apply app_inv_head in Hi.
    unfold sub. rewrite (off_seg k i H). replace (off k + length (concat (seg L k i)) - off k) with (length (concat (seg L k i))) by lia.
    exact Hi.
  Qed.

  Lemma seg_terminated k i : k <= i -> i <= cnt -> Forall (terminated ltb) (seg L k i).
  Proof.
    intros H Hi. pose proof (prefix_terminated i Hi) as Ht. rewrite (firstn_seg k i H) in Ht.
    apply Forall_app in Ht. tauto.
  Qed.

  Lemma lt_n_le_cnt k : k < n -> k <= cnt.
  Proof. pose proof n_le_Scnt. lia. Qed.

  (* an empty line range: only for an empty match at the very end, after the last terminator *)
  Lemma iv_empty_end a b : a <= b -> b <= length s -> snd (iv (a, b)) <= fst (iv (a, b)) ->
    a = length s /\ b = length s /\ fst (iv (a, b)) = n /\ snd (iv (a, b)) = n.
  Proof.
    intros Hab Hb Hle. unfold iv in *. cbn [fst snd] in *.
    pose proof (lidx_iv_le a b Hab) as H1. pose proof (lidx_le_cnt a) as H2. pose proof cnt_le_n as H3.
    assert (Hi : lidx a = n) by lia.
    pose proof (off_le_iff n a ltac:(lia)) as Hiff. rewrite (off_n n) in Hiff by lia.
    repeat split; lia.
  Qed.
End Geo.

(* ------------------------------------------------------------------ merging of line ranges *)
Fixpoint imerge (last : option (nat * nat)) (ivs : list (nat * nat)) : list (nat * nat) :=
  match ivs with
  | [] => match last with None => [] | Some b => [b] end
  | (i, j) :: r =>
    match last with
    | None => imerge (Some (i, j)) r
    | Some (pi, pj) => if Nat.leb i pj then imerge (Some (pi, j)) r else (pi, pj) :: imerge (Some (i, j)) r
    end
  end.

Section Merge.
  Variable L : list bytes.
  Notation n := (length L).

  (* ranges in the order the matches are found: starts and ends never go back *)
  Fixpoint isorted (pi pj : nat) (ivs : list (nat * nat)) : Prop :=
    match ivs with
    | [] => True
    | (i, j) :: r => pi <= i /\ pj <= j /\ i <= j /\ j <= n /\ isorted i j r
    end.

  Lemma isorted_weaken ivs : forall pi pj pi' pj', pi' <= pi -> pj' <= pj -> isorted pi pj ivs -> isorted pi' pj' ivs.
  Proof. destruct ivs as [|[i j] r]; intros pi pj pi' pj' H1 H2; cbn [isorted]; [auto|]. intros (A & B & C); repeat split; try lia; tauto. Qed.

  Lemma in_iv_merge t pi pj i j : pi <= i -> i <= pj -> pj <= j ->
    in_iv t (pi, j) = in_iv t (pi, pj) || in_iv t (i, j).
  Proof.
    intros H1 H2 H3. unfold in_iv. cbn [fst snd].
    destruct (Nat.leb_spec pi t); destruct (Nat.ltb_spec t j); destruct (Nat.ltb_spec t pj); destruct (Nat.leb_spec i t);
      cbn [andb orb]; try reflexivity; lia.
  Qed.

  Lemma imerge_flagf t : forall ivs pi pj, isorted pi pj ivs -> pi <= pj ->
    flagf (imerge (Some (pi, pj)) ivs) t = in_iv t (pi, pj) || flagf ivs t.
  Proof.
    induction ivs as [|[i j] r IH]; intros pi pj Hs Hp.
    - unfold flagf. cbn [imerge existsb]. reflexivity.
    - destruct Hs as (H1 & H2 & H3 & H4 & H5). cbn [imerge].
      destruct (Nat.leb_spec i pj) as [Hm|Hm].
      + rewrite IH; [|apply (isorted_weaken r i j); auto; lia|lia].
        rewrite (in_iv_merge t pi pj i j) by lia. unfold flagf at 2. cbn [existsb]. now rewrite orb_assoc.
      + unfold flagf at 1. cbn [existsb]. fold (flagf (imerge (Some (i, j)) r) t).
        rewrite IH by auto. unfold flagf at 2. cbn [existsb]. reflexivity.
  Qed.

  Lemma imerge_sepb : forall ivs pi pj lo, isorted pi pj ivs -> lo <= pi -> pi <= pj -> pj <= n ->
    sepb L lo (imerge (Some (pi, pj)) ivs).
  Proof.
    induction ivs as [|[i j] r IH]; intros pi pj lo Hs H1 H2 H3.
    - cbn [imerge sepb]. auto.
    - destruct Hs as (S1 & S2 & S3 & S4 & S5). cbn [imerge].
      destruct (Nat.leb_spec i pj) as [Hm|Hm].
      + apply IH; try lia. apply (isorted_weaken r i j); auto; lia.
      + cbn [sepb]. repeat split; try lia. apply IH; auto; lia.
  Qed.

  Lemma imerge_nonempty : forall ivs pi pj, pi < pj -> Forall (fun b : nat * nat => fst b < snd b) ivs ->
    isorted pi pj ivs -> Forall (fun b : nat * nat => fst b < snd b) (imerge (Some (pi, pj)) ivs).
  Proof.
    induction ivs as [|[i j] r IH]; intros pi pj Hp Hf Hs.
    - cbn [imerge]. constructor; [exact Hp|constructor].
    - inversion Hf as [|? ? Hij Hr]; subst. cbn [fst snd] in Hij. destruct Hs as (S1 & S2 & S3 & S4 & S5).
      cbn [imerge]. destruct (Nat.leb_spec i pj) as [Hm|Hm].
      + apply IH; [lia|exact Hr|apply (isorted_weaken r i j); auto; lia].
      + constructor; [exact Hp|]. apply IH; auto.
  Qed.
End Merge.

(* ------------------------------------------------------------------ the matches of an input *)
Section Matches.
  Variable ltb : byte.
  Variable find_at : bytes -> nat -> option (nat * nat).
  Hypothesis Hfa : forall s p a b, find_at s p = Some (a, b) -> p <= a /\ a <= b /\ b <= length s.
  Variable s : bytes.
  Notation L := (split_lines ltb s).
  Notation n := (length (split_lines ltb s)).

  Fixpoint mchain (lo : nat) (ms : list (nat * nat)) : Prop :=
    match ms with
    | [] => True
    | (a, b) :: r => lo <= a /\ a <= b /\ b <= length s /\ mchain b r
    end.

  Lemma mchain_weaken ms lo lo' : lo' <= lo -> mchain lo ms -> mchain lo' ms.
  Proof. destruct ms as [|[a b] r]; cbn [mchain]; [auto|]. intros H (A & B); split; [lia|exact B]. Qed.

  Lemma matches_chain : forall fuel p, mchain p (ml_matches find_at fuel s p).
  Proof.
    induction fuel as [|f IH]; intro p; [exact I|]. cbn [ml_matches].
    destruct (Nat.leb (length s) p); [exact I|].
    destruct (find_at s p) as [[a b]|] eqn:E; [|exact I].
    destruct (Hfa s p a b E) as (H1 & H2 & H3). cbn [mchain]. repeat split; auto.
    eapply mchain_weaken; [|apply IH]. destruct (_ && _); lia.
  Qed.

  Lemma mchain_wf : forall ms lo, mchain lo ms -> Forall (wf_match s) ms.
  Proof.
    induction ms as [|[a b] r IH]; intros lo H; [constructor|]. destruct H as (H1 & H2 & H3 & H4).
    constructor; [split; assumption|]. eapply IH; exact H4.
  Qed.

  Lemma iv_bounds a b : a <= b -> fst (iv ltb s (a, b)) <= snd (iv ltb s (a, b)) /\ snd (iv ltb s (a, b)) <= n.
  Proof.
    intro H. unfold iv. cbn [fst snd]. pose proof (lidx_iv_le ltb s a b H).
    pose proof (lidx_le_cnt ltb s a). pose proof (cnt_le_n ltb s). lia.
  Qed.

  Lemma mchain_isorted : forall ms a b, a <= b -> mchain b ms ->
    isorted L (fst (iv ltb s (a, b))) (snd (iv ltb s (a, b))) (map (iv ltb s) ms).
  Proof.
    induction ms as [|[a' b'] r IH]; intros a b Hab H; [exact I|].
    destruct H as (H1 & H2 & H3 & H4). cbn [map isorted].
    destruct (iv_bounds a' b' H2) as [B1 B2].
    destruct (iv ltb s (a', b')) as [i' j'] eqn:E'. cbn [fst snd] in *.
    assert (Ei : i' = lidx ltb s a') by (unfold iv in E'; congruence).
    assert (Ej : j' = Nat.min n (S (lidx ltb s (Nat.max a' (b' - 1))))) by (unfold iv in E'; congruence).
    repeat split; auto.
    - unfold iv. cbn [fst]. rewrite Ei. apply lidx_mono. lia.
    - unfold iv. cbn [snd]. rewrite Ej.
      pose proof (lidx_mono ltb s (Nat.max a (b - 1)) (Nat.max a' (b' - 1)) ltac:(lia)). lia.
    - specialize (IH a' b' H2 H4). rewrite E' in IH. exact IH.
  Qed.

  (* the flags of the reference are the indicator of the merged ranges *)
  Theorem flags_merged ms lo : mchain lo ms ->
    map (fun sp : nat * nat * bool => let '(ls, le, t) := sp in existsb (covers (length s) ls le t) ms)
        (line_spans ltb L 0)
    = map (flagf (imerge None (map (iv ltb s) ms))) (seq 0 n) /\
    sepb L 0 (imerge None (map (iv ltb s) ms)).
  Proof.
    intro Hc. rewrite (spans_flags ltb s ms (mchain_wf ms lo Hc)).
    destruct ms as [|[a b] r]; [split; [reflexivity|exact I]|].
    destruct Hc as (H1 & H2 & H3 & H4). cbn [map imerge].
    pose proof (mchain_isorted r a b H2 H4) as Hs. destruct (iv_bounds a b H2) as [B1 B2].
    destruct (iv ltb s (a, b)) as [i j]. cbn [fst snd] in *. split.
    - apply map_ext. intro t. rewrite (imerge_flagf L t) by auto. reflexivity.
    - apply imerge_sepb; auto. lia.
  Qed.
End Matches.

(* ------------------------------------------------------------------ list helpers for flag lists *)
Lemma map_const {A B} (b : B) (l : list A) : map (fun _ => b) l = repeat b (length l).
Proof. induction l as [|x l IH]; [reflexivity|]. cbn [map length repeat]. now rewrite IH. Qed.

Lemma skipn_seq m : forall a len, skipn m (seq a len) = seq (a + m) (len - m).
Proof.
  induction m as [|m IH]; intros a len; [now rewrite Nat.add_0_r, Nat.sub_0_r|].
  destruct len as [|len]; [reflexivity|]. cbn [seq skipn]. rewrite IH. f_equal. lia.
Qed.

Lemma filter_seq_none {B} (f : nat -> B) (P : B -> bool) : forall m a,
  (forall t, a <= t < a + m -> P (f t) = false) -> filter P (map f (seq a m)) = [].
Proof.
  induction m as [|m IH]; intros a H; [reflexivity|].
  cbn [seq map filter]. rewrite (H a) by lia. apply IH. intros t Ht. apply H. lia.
Qed.

Lemma filter_seq_prefix {B} (f : nat -> B) (P : B -> bool) i : forall m a,
  (forall t, a <= t < a + m -> P (f t) = Nat.ltb t i) -> a <= i -> i <= a + m ->
  filter P (map f (seq a m)) = map f (seq a (i - a)).
Proof.
  induction m as [|m IH]; intros a H Ha Hi.
  - replace (i - a) with 0 by lia. reflexivity.
  - destruct (Nat.eq_dec a i) as [->|Hne].
    + rewrite Nat.sub_diag. change (map f (seq i 0)) with (@nil B). apply filter_seq_none.
      intros t Ht. rewrite H by lia. apply Nat.ltb_ge. lia.
    + cbn [seq map filter]. rewrite (H a) by lia. destruct (Nat.ltb_spec a i) as [Hlt|Hge]; [|lia].
      replace (i - a) with (S (i - S a)) by lia. cbn [seq map]. f_equal.
      apply IH; [intros t Ht; apply H; lia|lia|lia].
Qed.


(* ------------------------------------------------------------------ ranges that start later do not reach back *)
Lemma flagf_lower ivs lo t : Forall (fun b : nat * nat => lo <= fst b) ivs -> t < lo -> flagf ivs t = false.
Proof.
  induction 1 as [|[i j] r H _ IH]; intro Ht; [reflexivity|]. unfold flagf. cbn [existsb]. fold (flagf r t).
  rewrite (IH Ht). unfold in_iv. cbn [fst snd] in *. destruct (Nat.leb_spec i t); [lia|reflexivity].
Qed.

