(* Proofs/BinaryOffsetProofs.v — the offset reported for binary data is that of the first occurrence of the
   byte: bookkeeping of LineBuffer.absolute_byte_offset / binary_byte_offset across rolls (reader strategy) and
   of Core.binary_byte_offset (slice strategies). *)
From RG Require Import Base.Bytes Base.BytesFacts Model.LineBufferBin Model.BinaryDetect
  Proofs.LineBufferBinProofs Proofs.BinaryDetectProofs.

Lemma memchr_app b l1 l2 :
  memchr b (l1 ++ l2) =
  match memchr b l1 with Some i => Some i | None => option_map (fun i => length l1 + i) (memchr b l2) end.
Proof.
  unfold memchr. induction l1 as [|x xs IH]; cbn [app find_index length].
  - destruct (find_index (N.eqb b) l2); reflexivity.
  - destruct (N.eqb b x); [reflexivity|]. rewrite IH.
    destruct (find_index (N.eqb b) xs); cbn; [reflexivity|].
    destruct (find_index (N.eqb b) l2); reflexivity.
Qed.

Lemma memchr_firstn b l n off : memchr b (firstn n l) = Some off -> memchr b l = Some off.
Proof. intro H. rewrite <- (firstn_skipn n l), memchr_app, H. reflexivity. Qed.

Lemma memchr_nth b l i : memchr b l = Some i -> nth_error l i = Some b.
Proof.
  intro H. destruct (memchr_some _ _ _ H) as (Hi & _ & Hs). rewrite Hs.
  rewrite nth_error_app2 by (rewrite firstn_length; lia). rewrite firstn_length, Nat.min_l by lia.
  now rewrite Nat.sub_diag.
Qed.

(* ---------- the reader ---------- *)
Lemma rd_read_ok_rest rd free data rd' : rd_read rd free = ReadOk data rd' -> rd_rest rd = data ++ rd_rest rd'.
Proof.
  unfold rd_read, rd_rest. destruct (rd_pre rd) as [|p ps] eqn:P.
  - destruct (rd_hist rd) as [|[k|] h]; intro H; [| |discriminate]; injection H as <- <-; cbn [rd_pre rd_data app];
      now rewrite firstn_skipn.
  - intro H. injection H as <- <-. cbn [rd_pre rd_data]. rewrite app_assoc. now rewrite firstn_skipn.
Qed.

Lemma rd_read_fail_rest rd free rd' : rd_read rd free = ReadFail rd' -> rd_rest rd' = rd_rest rd.
Proof.
  unfold rd_read, rd_rest. destruct (rd_pre rd) as [|p ps] eqn:P; [|discriminate].
  destruct (rd_hist rd) as [|[k|] h]; intro H; try discriminate. injection H as <-. reflexivity.
Qed.

(* ---------- LineBuffer bookkeeping ---------- *)
Definition detected (cfg : lb_config) (lb : line_buffer) : bool :=
  is_quit (cfg_binary cfg) && match lb_bin lb with Some _ => true | None => false end.

(* seen = every byte the reader has delivered since clear *)
Definition off_inv (cfg : lb_config) (b : byte) (lb : line_buffer) (seen : bytes) : Prop :=
  lb_bin lb = memchr b seen /\
  (detected cfg lb = false -> lb_abs lb + (lb_end lb - lb_pos lb) = length seen).

Lemma off_inv_ensure cfg b lb lb1 seen :
  lb_ensure_capacity cfg lb = Some lb1 -> off_inv cfg b lb seen ->
  off_inv cfg b lb1 seen /\ lb_pos lb1 = lb_pos lb /\ detected cfg lb1 = detected cfg lb.
Proof.
  unfold lb_ensure_capacity. intros H Hi. destruct (negb (lb_free_len lb =? 0)); [injection H as <-; tauto|].
  match type of H with match ?a with _ => _ end = _ => destruct a as [add|]; [|discriminate] end.
  injection H as <-. unfold off_inv, detected in *. cbn. tauto.
Qed.

Lemma fill_loop_off cfg b : hides cfg b ->
  forall fuel lb rd r lb' rd' seen,
    off_inv cfg b lb seen -> lb_pos lb = 0 -> detected cfg lb = false ->
    lb_fill_loop fuel cfg lb rd = Some (r, lb', rd') ->
    exists data, rd_rest rd = data ++ rd_rest rd' /\ off_inv cfg b lb' (seen ++ data).
Proof.
  intros Hh. induction fuel as [|fuel IH]; intros lb rd r lb' rd' seen Hinv Hpos Hdet H; [discriminate|].
  cbn [lb_fill_loop] in H.
  destruct (lb_ensure_capacity cfg lb) as [lb1|] eqn:E;
    [|injection H as _ <- <-; exists []; rewrite app_nil_r; tauto].
  destruct (off_inv_ensure _ _ _ _ _ E Hinv) as (Hinv1 & Hp1 & Hd1). rewrite Hpos in Hp1. rewrite Hdet in Hd1.
  clear E Hinv Hdet Hpos lb.
  destruct (rd_read rd (lb_free_len lb1)) as [data rd1|rd1] eqn:R.
  2:{ injection H as _ <- <-. exists []. rewrite app_nil_r. split; [symmetry; eapply rd_read_fail_rest; exact R|exact Hinv1]. }
  apply rd_read_ok_rest in R.
  destruct (Nat.eqb_spec (length data) 0) as [Z|NZ].
  { injection H as _ <- <-. exists data. split; [exact R|]. destruct data; [|discriminate]. rewrite app_nil_r.
    destruct Hinv1 as [Hb Ha]. split; [exact Hb|]. unfold detected in *. cbn [lb_bin lb_abs lb_end lb_pos]. exact Ha. }
  destruct Hinv1 as [Hb Ha]. specialize (Ha Hd1). rewrite Hp1, Nat.sub_0_r in Ha.
  assert (Hlen : length (seen ++ data) = lb_abs lb1 + (lb_end lb1 + length data)) by (rewrite app_length; lia).
  destruct Hh as [Hq|[Hc Hne]].
  - (* quit *)
    assert (Hnone : lb_bin lb1 = None).
    { unfold detected in Hd1. rewrite Hq in Hd1. cbn in Hd1. destruct (lb_bin lb1); [discriminate|reflexivity]. }
    rewrite Hq in H. destruct (memchr b data) as [i|] eqn:M.
    + injection H as _ <- <-. exists data. split; [exact R|]. split.
      * cbn [lb_bin]. rewrite memchr_app, <- Hb, Hnone, M. cbn. f_equal. lia.
      * unfold detected. rewrite Hq. cbn. discriminate.
    + assert (Hb' : lb_bin lb1 = memchr b (seen ++ data)) by (rewrite memchr_app, <- Hb, Hnone, M; reflexivity).
      destruct (memrchr (cfg_lineterm cfg) data) as [j|].
      * injection H as _ <- <-. exists data. split; [exact R|]. split; [exact Hb'|].
        intros _. cbn [lb_abs lb_end lb_pos]. rewrite Hp1. lia.
      * eapply IH in H.
        -- destruct H as (d2 & Hr2 & Hi2). exists (data ++ d2). rewrite <- app_assoc, <- Hr2. split; [exact R|].
           rewrite app_assoc. exact Hi2.
        -- split; [exact Hb'|]. intros _. cbn [lb_abs lb_end lb_pos]. rewrite Hp1. lia.
        -- exact Hp1.
        -- unfold detected. rewrite Hq. cbn. now rewrite Hnone.
  - (* convert *)
    assert (Hdet : forall x, detected cfg x = false) by (intro x; unfold detected; now rewrite Hc).
    rewrite Hc in H. rewrite replace_bytes_spec_proof in H.
    destruct (N.eqb_spec b (cfg_lineterm cfg)) as [X|_]; [contradiction|].
    set (nb := map (subst_byte b (cfg_lineterm cfg)) data) in *.
    assert (Hnl : length nb = length data) by apply map_length.
    set (bin' := match memchr b data with
                 | Some i => match lb_bin lb1 with None => Some (lb_abs lb1 + (lb_end lb1 + i)) | Some o => Some o end
                 | None => lb_bin lb1 end).
    assert (Hb' : bin' = memchr b (seen ++ data)).
    { unfold bin'. rewrite memchr_app, <- Hb. destruct (memchr b data) as [i|]; destruct (lb_bin lb1); cbn; try reflexivity.
      f_equal. lia. }
    assert (H' : match memrchr (cfg_lineterm cfg) nb with
                 | Some i => Some (FillMore true, mk_lb (write_at (lb_buf lb1) (lb_end lb1) nb) (lb_pos lb1)
                                                     (lb_end lb1 + i + 1) (lb_end lb1 + length data) (lb_abs lb1) bin', rd1)
                 | None => lb_fill_loop fuel cfg (mk_lb (write_at (lb_buf lb1) (lb_end lb1) nb) (lb_pos lb1)
                                                     (lb_last_lineterm lb1) (lb_end lb1 + length data) (lb_abs lb1) bin') rd1
                 end = Some (r, lb', rd')).
    { unfold bin'. destruct (memchr b data); exact H. }
    clear H. destruct (memrchr (cfg_lineterm cfg) nb) as [j|].
    + injection H' as _ <- <-. exists data. split; [exact R|]. split; [exact Hb'|].
      intros _. cbn [lb_abs lb_end lb_pos]. rewrite Hp1. lia.
    + eapply IH in H'.
      * destruct H' as (d2 & Hr2 & Hi2). exists (data ++ d2). rewrite <- app_assoc, <- Hr2. split; [exact R|].
        rewrite app_assoc. exact Hi2.
      * split; [exact Hb'|]. intros _. cbn [lb_abs lb_end lb_pos]. rewrite Hp1. lia.
      * exact Hp1.
      * apply Hdet.
Qed.

Lemma fill_off cfg b lb rd r lb' rd' seen :
  hides cfg b -> lb_wf lb -> off_inv cfg b lb seen -> lb_fill cfg lb rd = Some (r, lb', rd') ->
  exists data, rd_rest rd = data ++ rd_rest rd' /\ off_inv cfg b lb' (seen ++ data).
Proof.
  intros Hh (W1 & W2 & W3) Hinv H. unfold lb_fill in H.
  destruct (is_quit (cfg_binary cfg) && match lb_bin lb with Some _ => true | None => false end) eqn:D.
  - injection H as _ <- <-. exists []. rewrite app_nil_r. tauto.
  - eapply (fill_loop_off cfg b Hh) in H; [exact H| | |].
    + destruct Hinv as [Hb Ha]. unfold lb_roll. destruct (Nat.eqb_spec (lb_pos lb) (lb_end lb)) as [E|E].
      * split; [exact Hb|]. intros _. cbn [lb_abs lb_end lb_pos]. specialize (Ha D). lia.
      * split; [exact Hb|]. intros _. cbn [lb_abs lb_end lb_pos]. specialize (Ha D). lia.
    + unfold lb_roll. destruct (_ =? _); reflexivity.
    + unfold lb_roll, detected in *. destruct (_ =? _); exact D.
Qed.

Lemma consume_off cfg b lb amt seen :
  lb_wf lb -> amt <= length (lb_buffer lb) -> off_inv cfg b lb seen -> off_inv cfg b (lb_consume lb amt) seen.
Proof.
  intros Hwf Ha [Hb Hl]. rewrite lb_buffer_length in Ha by exact Hwf. destruct Hwf as (W1 & W2 & W3).
  split; [exact Hb|]. intro D. unfold lb_consume. cbn [lb_abs lb_end lb_pos]. specialize (Hl D). lia.
Qed.

(* reachable states together with what the reader has delivered *)
Inductive lb_reach_s (cfg : lb_config) : line_buffer -> bytes -> Prop :=
| reach_s_clear lb0 : lb_reach_s cfg (lb_clear lb0) []
| reach_s_consume lb amt seen :
    lb_reach_s cfg lb seen -> amt <= length (lb_buffer lb) -> lb_reach_s cfg (lb_consume lb amt) seen
| reach_s_fill lb rd r lb' rd' seen data :
    lb_reach_s cfg lb seen -> lb_fill cfg lb rd = Some (r, lb', rd') -> rd_rest rd = data ++ rd_rest rd' ->
    lb_reach_s cfg lb' (seen ++ data).

Lemma reach_s_reach cfg lb seen : lb_reach_s cfg lb seen -> lb_reach cfg lb.
Proof. induction 1; [apply reach_clear|apply reach_consume; assumption|eapply reach_fill; eassumption]. Qed.

Lemma app_inv_tail_len {A} (a b c : list A) : a ++ c = b ++ c -> a = b.
Proof. apply app_inv_tail. Qed.

Lemma reach_s_off cfg b lb seen : hides cfg b -> lb_reach_s cfg lb seen -> off_inv cfg b lb seen.
Proof.
  intros Hh H. induction H as [lb0|lb amt seen Hr IH Ha|lb rd r lb' rd' seen data Hr IH Hf Hd].
  - split; [reflexivity|]. intros _. reflexivity.
  - apply consume_off; [|exact Ha|exact IH]. apply (reach_inv cfg b); [exact Hh|eapply reach_s_reach; exact Hr].
  - assert (Hwf : lb_wf lb) by (apply (reach_inv cfg b); [exact Hh|eapply reach_s_reach; exact Hr]).
    destruct (fill_off cfg b _ _ _ _ _ _ Hh Hwf IH Hf) as (d2 & Hd2 & Hi2).
    assert (d2 = data) by (rewrite Hd in Hd2; eapply app_inv_tail; symmetry; exact Hd2). subst d2. exact Hi2.
Qed.

Lemma binary_offset_is_first_proof cfg b lb seen :
  hides cfg b -> lb_reach_s cfg lb seen -> lb_bin lb = memchr b seen.
Proof. intros Hh H. apply (reach_s_off cfg b lb seen Hh H). Qed.

(* ---------- reader strategy ---------- *)
Section Reader.
  Context {St core : Type}.
  Variable sink : St -> event -> St * bool.
  Variable mode : bin_mode.
  Variable b : byte.
  Variable c_roll : core -> bytes -> nat * core.
  Variable c_plan : core -> bytes -> list call * bool * core.
  Variable cfg : lb_config.
  Hypothesis Hhides : hides cfg b.
  Hypothesis roll_bound : forall c buf, fst (c_roll c buf) <= length buf.
  Variable stream0 : bytes.

  Definition okev (ev : event) : Prop :=
    match ev with EBinary off => memchr b stream0 = Some off | _ => True end.

  Notation rbl_state := (@rbl_state St core).
  Definition off_state_inv (st : rbl_state) : Prop :=
    (exists seen, lb_reach_s cfg (rs_lb st) seen /\ seen ++ rd_rest (rs_rd st) = stream0) /\
    Forall okev (snd (rs_w st)).

  Lemma prefix_first seen rest off : memchr b seen = Some off -> memchr b (seen ++ rest) = Some off.
  Proof. intro H. now rewrite memchr_app, H. Qed.

  Lemma rbl_fill_off st r st' :
    rbl_fill sink c_roll cfg st = (r, st') -> off_state_inv st -> off_state_inv st'.
  Proof.
    unfold rbl_fill. intros H [(seen & Hr & Hs) Hf].
    destruct (c_roll (rs_core st) (lb_buffer (rs_lb st))) as [consumed core'] eqn:Er.
    assert (Hc : consumed <= length (lb_buffer (rs_lb st))).
    { pose proof (roll_bound (rs_core st) (lb_buffer (rs_lb st))) as X. rewrite Er in X. exact X. }
    pose proof (reach_s_consume cfg _ _ _ Hr Hc) as Hr1.
    destruct (lb_fill cfg (lb_consume (rs_lb st) consumed) (rs_rd st)) as [[[fr lb2] rd2]|] eqn:Ef;
      [|injection H as _ <-; split; [eauto|assumption]].
    assert (Hwf1 : lb_wf (lb_consume (rs_lb st) consumed))
      by (apply (reach_inv cfg b); [exact Hhides|eapply reach_s_reach; exact Hr1]).
    destruct (fill_off cfg b _ _ _ _ _ _ Hhides Hwf1 (reach_s_off cfg b _ _ Hhides Hr1) Ef) as (data & Hd & Hoff).
    pose proof (reach_s_fill cfg _ _ _ _ _ _ _ Hr1 Ef Hd) as Hr2.
    assert (Hs2 : (seen ++ data) ++ rd_rest rd2 = stream0) by (rewrite <- app_assoc, <- Hd; exact Hs).
    assert (Hex : exists seen', lb_reach_s cfg lb2 seen' /\ seen' ++ rd_rest rd2 = stream0) by eauto.
    destruct fr as [didread| |]; [|injection H as _ <-; split; assumption|injection H as _ <-; split; assumption].
    match type of H with (let (w, notified_stop) := ?X in _) = _ => destruct X as [w ns] eqn:Ew end.
    assert (Hw : Forall okev (snd w)).
    { destruct (match lb_bin (rs_lb st) with Some _ => true | None => false end); [injection Ew as <- _; exact Hf|].
      destruct (lb_bin lb2) as [off|] eqn:Eb; [|injection Ew as <- _; exact Hf].
      destruct (BinaryDetect.emit sink (rs_w st) (EBinary off)) as [w1 r1] eqn:Ee. injection Ew as <- _.
      apply emit_fst in Ee as ->. rewrite emit_trace. constructor; [|exact Hf].
      cbn. rewrite <- Hs2. apply prefix_first. destruct Hoff as [Hb _]. now rewrite <- Hb. }
    destruct ns; [injection H as _ <-; split; assumption|].
    destruct (negb didread || _); [injection H as _ <-; split; assumption|].
    destruct (Nat.eqb consumed 0 && Nat.eqb (length (lb_buffer (rs_lb st))) (length (lb_buffer lb2))) eqn:Eq;
      injection H as _ <-; (split; [|exact Hw]); [|exact Hex].
    apply andb_true_iff in Eq as [_ Eq]. apply Nat.eqb_eq in Eq. cbn [rs_lb rs_rd].
    exists (seen ++ data). split; [|exact Hs2]. apply reach_s_consume; [exact Hr2|lia].
  Qed.

  Lemma rbl_loop_off fuel : forall st st' o,
    rbl_loop sink mode c_roll c_plan cfg fuel st = (st', o) -> off_state_inv st -> off_state_inv st'.
  Proof.
    induction fuel as [|fuel IH]; intros st st' o H Hinv; cbn [rbl_loop] in H; [injection H as <- _; exact Hinv|].
    destruct (rbl_fill sink c_roll cfg st) as [r st1] eqn:Ef.
    pose proof (rbl_fill_off _ _ _ Ef Hinv) as Hinv1.
    destruct r as [[|]| |]; try (injection H as <- _; exact Hinv1).
    destruct (c_plan (rs_core st1) (lb_buffer (rs_lb st1))) as [[calls go_all] core'] eqn:Ep.
    destruct (run_calls sink mode false (rs_cabs st1) (lb_buffer (rs_lb st1)) calls None (rs_w st1))
      as [[stopped cb'] w'] eqn:Erun.
    destruct Hinv1 as [Hex Hf1].
    assert (Hw' : Forall okev (snd w')).
    { eapply (run_calls_pres sink mode b (fun _ w => Forall okev (snd w))); [| | |exact Erun|exact Hf1].
      - intros cb w ev Hi HP. rewrite emit_trace. constructor; [destruct ev; cbn in *; tauto|exact HP].
      - discriminate.
      - intros cb w c _ HP. rewrite emit_trace. constructor; [unfold call_event; destruct (c_matched c); exact I|exact HP]. }
    assert (Hinv2 : off_state_inv (mk_rs (rs_lb st1) (rs_rd st1) core' (rs_cabs st1) w')) by (split; assumption).
    destruct stopped; [injection H as <- _; exact Hinv2|].
    destruct go_all; [eapply IH; eassumption|injection H as <- _; exact Hinv2].
  Qed.

  Lemma reader_binary_offset_proof fuel lb0 rd core0 s0 :
    rd_rest rd = stream0 ->
    let res := rbl_run sink mode c_roll c_plan cfg fuel lb0 rd core0 (s0, []) in
    Forall okev (snd (fst res)) /\
    (snd res = ODone -> exists bc bn t, snd (fst res) = EFinish bc bn :: t /\
                                        forall off, bn = Some off -> memchr b stream0 = Some off).
  Proof.
    intro Hrd. unfold rbl_run. destruct (BinaryDetect.emit sink (s0, []) EBegin) as [w1 r1] eqn:E1.
    assert (Hw1 : Forall okev (snd w1)).
    { apply emit_fst in E1 as ->. rewrite emit_trace. constructor; [exact I|constructor]. }
    assert (Hinv0 : off_state_inv (mk_rs (lb_clear lb0) rd core0 0 w1)).
    { split; [|exact Hw1]. exists []. split; [apply reach_s_clear|exact Hrd]. }
    match goal with |- context [let (st, o) := ?X in _] => destruct X as [st o] eqn:El end.
    assert (Hinv : off_state_inv st).
    { destruct r1; [eapply rbl_loop_off; eassumption|injection El as <- _; exact Hinv0]. }
    destruct Hinv as [(seen & Hr & Hs) Hf]. destruct o; cbn [fst snd].
    - rewrite emit_trace. split; [constructor; [exact I|exact Hf]|]. intros _.
      exists (lb_abs (rs_lb st)), (lb_bin (rs_lb st)), (snd (rs_w st)). split; [reflexivity|].
      intros off Hb. rewrite <- Hs. apply prefix_first.
      rewrite <- (binary_offset_is_first_proof cfg b _ _ Hhides Hr). exact Hb.
    - split; [exact Hf|discriminate].
    - split; [exact Hf|discriminate].
  Qed.
End Reader.

(* ---------- slice strategies ---------- *)
Section Slice.
  Context {St : Type}.
  Variable sink : St -> event -> St * bool.
  Variable mode : bin_mode.
  Variable b : byte.
  Hypothesis Hmode : mode_byte mode = Some b.
  Variables (sniff : nat) (slice : bytes).

  Definition sniffed : bytes := firstn (Nat.min (length slice) sniff) slice.

  (* the offset is the first occurrence in the whole slice when the sniffed prefix holds the byte; otherwise
     the prefix is free of it and the offset is an occurrence inside a reported line *)
  Definition okev_slice (ev : event) : Prop :=
    match ev with
    | EBinary off => (memchr b sniffed = Some off /\ memchr b slice = Some off) \/
                     (memchr b sniffed = None /\ nth_error slice off = Some b)
    | _ => True
    end.

  Lemma sub0 {A} (l : list A) n : sub l 0 n = firstn n l.
  Proof. unfold sub. cbn [skipn]. now rewrite Nat.sub_0_r. Qed.

  Lemma nth_firstn_some {A} (l : list A) : forall n i x, nth_error (firstn n l) i = Some x -> nth_error l i = Some x.
  Proof.
    induction l as [|a l IH]; intros n i x H; [rewrite firstn_nil in H; destruct i; discriminate|].
    destruct n; [destruct i; discriminate|]. destruct i; [exact H|]. cbn in *. eapply IH; exact H.
  Qed.

  Lemma nth_skipn_eq {A} (l : list A) : forall s i, nth_error (skipn s l) i = nth_error l (s + i).
  Proof. induction l as [|a l IH]; intros s i; destruct s; cbn; try reflexivity; [destruct i; reflexivity|apply IH]. Qed.

  Lemma nth_sub (l : bytes) s e i : memchr b (sub l s e) = Some i -> nth_error l (s + i) = Some b.
  Proof.
    intro H. apply memchr_nth in H. unfold sub in H. apply nth_firstn_some in H. now rewrite nth_skipn_eq in H.
  Qed.

  Lemma slice_binary_offset_proof plan fp s0 :
    Forall okev_slice (snd (slice_run sink mode sniff slice plan fp (s0, []))).
  Proof.
    unfold slice_run. destruct (BinaryDetect.emit sink (s0, []) EBegin) as [w1 r1] eqn:E1.
    assert (Hw1 : Forall okev_slice (snd w1)).
    { apply emit_fst in E1 as ->. rewrite emit_trace. constructor; [exact I|constructor]. }
    assert (Hfin : forall cb pos w, Forall okev_slice (snd w) ->
              Forall okev_slice (snd (fst (BinaryDetect.emit sink w (EFinish (byte_count cb pos) cb))))).
    { intros cb pos w HP. rewrite emit_trace. constructor; [exact I|exact HP]. }
    destruct r1; [|apply Hfin; exact Hw1].
    destruct (detect_binary sink mode slice 0 (Nat.min (length slice) sniff) None w1) as [[q cb2] w2] eqn:E2.
    destruct (detect_binary_trace sink mode _ _ _ _ _ _ _ _ E2)
      as [(-> & -> & Hnone)|(i & bb & Hbb & Hi & -> & _ & ->)].
    - (* nothing in the sniffed prefix *)
      specialize (Hnone eq_refl b Hmode). rewrite sub0 in Hnone. fold sniffed in Hnone.
      destruct q; [apply Hfin; exact Hw1|].
      destruct (run_calls sink mode true 0 slice plan None w1) as [[st cb3] w3] eqn:E3.
      apply Hfin.
      eapply (run_calls_pres sink mode b (fun _ w => Forall okev_slice (snd w))) with (binary := true) (buf := slice);
        [| | |exact E3|exact Hw1].
      + intros cb w ev Hin HP. rewrite emit_trace. constructor; [destruct ev; cbn in *; tauto|exact HP].
      + intros _ w s e i bb Hbb Hi HP. rewrite emit_trace. constructor; [|exact HP].
        rewrite Hmode in Hbb. injection Hbb as <-. cbn. right. split; [exact Hnone|eapply nth_sub; exact Hi].
      + intros cb w c _ HP. rewrite emit_trace. constructor; [unfold call_event; destruct (c_matched c); exact I|exact HP].
    - (* found by the sniff: first occurrence of the whole slice *)
      rewrite Hmode in Hbb. injection Hbb as <-. rewrite sub0 in Hi. fold sniffed in Hi. cbn [Nat.add] in *.
      assert (Hw2 : Forall okev_slice (snd (fst (emit sink w1 (EBinary i))))).
      { rewrite emit_trace. constructor; [|exact Hw1]. cbn. left. split; [exact Hi|eapply memchr_firstn; exact Hi]. }
      destruct q; [apply Hfin; exact Hw2|].
      destruct (run_calls sink mode true 0 slice plan (Some i) (fst (emit sink w1 (EBinary i)))) as [[st cb3] w3] eqn:E3.
      apply Hfin.
      eapply (run_calls_pres sink mode b (fun cb w => cb <> None /\ Forall okev_slice (snd w))) with (binary := true) (buf := slice)
        in E3; [exact (proj2 E3)| | | |split; [discriminate|exact Hw2]].
      + intros cb w ev Hin [Hc HP]. split; [exact Hc|]. rewrite emit_trace. constructor; [destruct ev; cbn in *; tauto|exact HP].
      + intros _ w s e i' bb' _ _ [Hc _]. contradiction.
      + intros cb w c _ [Hc HP]. split; [exact Hc|]. rewrite emit_trace.
        constructor; [unfold call_event; destruct (c_matched c); exact I|exact HP].
  Qed.
End Slice.
