(* Proofs/WalkParFair.v — every fair execution of Model/WalkPar.v is finite: the measure mu decreases
   again and again along any infinite execution in which every live worker keeps being scheduled and
   steal attempts on non-empty deques fail only finitely often; mu is a natural number. *)
From Coq Require Import List Arith Bool Lia Permutation.
Import ListNotations.
From RG Require Import Model.WalkPar Spec.WalkParSpec Proofs.WalkParBase Proofs.WalkParVariant Proofs.WalkParSafe
  Proofs.WalkParLive.

(* ---- small facts about single steps ---- *)

Lemma step_frame : forall resp s c s' w, step resp s c = Some s' -> w <> worker_of c ->
  nth_error (pcs s') w = nth_error (pcs s) w.
Proof.
  intros resp s [w0|w0 mask k] s' w H Hne; cbn [worker_of] in Hne.
  - apply step_own_inv in H. destruct H as (p & e & _ & _ & ->). cbn. apply nth_error_upd_neq. auto.
  - apply step_steal_inv in H. destruct H as (c & v & vs & t & kp & m & _ & _ & _ & ->). cbn.
    apply nth_error_upd_neq. auto.
Qed.

Lemma step_live : forall resp s c s', step resp s c = Some s' ->
  exists p, nth_error (pcs s) (worker_of c) = Some p /\ is_exit p = false.
Proof.
  intros resp s [w|w mask k] s' H; cbn [worker_of].
  - apply step_own_inv in H. destruct H as (p & e & Hp & He & _). exists p. split; auto.
    destruct p; auto. discriminate.
  - apply step_steal_inv in H. destruct H as (c & v & vs & t & kp & m & Hp & _). eauto.
Qed.

Lemma steal_decreases : forall resp s w mask k s', length (deq s) = length (pcs s) ->
  step resp s (Steal w mask k) = Some s' -> mu s' < mu s.
Proof.
  intros resp s w mask k s' Hlen H.
  destruct (variant_proof _ _ _ _ Hlen H) as [V|(_ & _ & V & _)]; auto.
  exfalso. apply step_steal_inv in H. destruct H as (c & v & vs & t & kp & m & Hp & _ & _ & ->).
  cbn [worker_of pcs] in V. rewrite nth_upd_eq in V by (eapply nth_error_lt; eauto).
  destruct c; discriminate.
Qed.

(* no step enabled at all: every worker has exited *)
Theorem stuck_means_done_proof : forall resp s, (forall c, step resp s c = None) -> all_exited s.
Proof.
  intros resp s H. destruct (all_exited_dec s) as [A|NA]; auto. exfalso.
  destruct (not_all_exited _ NA) as (w & p & Hp & Hx).
  destruct (own_step_some resp (length (pcs s)) w (active s) (quit_now s) p (nth w (deq s) []) Hx) as (e & He).
  specialize (H (Own w)). unfold step in H. rewrite Hp, He in H. discriminate.
Qed.

Definition all_idle (s : st) : Prop := forall q, In q (pcs s) -> is_exit q = true \/ in_wait_loop q = true.

(* when every live worker spins, a message lies in some other (exited) worker's deque *)
Lemma idle_message_somewhere : forall resp n f s w p, reach resp (init n f) s -> all_idle s ->
  nth_error (pcs s) w = Some p -> is_exit p = false ->
  nth w (deq s) [] = [] /\ exists v, In v (victims_of w (length (pcs s))) /\ nth v (deq s) [] <> [].
Proof.
  intros resp n f s w p R AllIdle Hp Hx. destruct (live_reach _ _ _ _ R) as [S L].
  pose proof (si_len _ _ _ S) as Hlen.
  assert (Hi : in_wait_loop p = true).
  { destruct (AllIdle p (nth_error_In _ _ Hp)); congruence. }
  pose proof (nth_error_lt _ _ _ _ Hp) as Hw.
  assert (Z1 : count counted (pcs s) = 0).
  { apply count_zero_all. intros x Ix. destruct (AllIdle x Ix) as [E|E]; destruct x as [[|]|[|] ?| | | | | | | | |]; try discriminate; reflexivity. }
  assert (Z2 : count is_sendquit (pcs s) = 0).
  { apply count_zero_all. intros x Ix. destruct (AllIdle x Ix) as [E|E]; destruct x as [[|]|[|] ?| | | | | | | | |]; try discriminate; reflexivity. }
  assert (Z3 : count holds_quit (pcs s) = 0).
  { apply count_zero_all. intros x Ix. destruct (AllIdle x Ix) as [E|E]; destruct x as [[|]|[|] ?|[[|]|]| | |[|]| | | | |]; try discriminate; reflexivity. }
  destruct L as [Lc La Lq]. rewrite Z1 in Lc. rewrite Z2 in La.
  assert (E1 : 1 <= count is_exit (pcs s)) by lia.
  specialize (Lq E1). rewrite Z2, Z3 in Lq.
  destruct (list_sum_pos_ex (map (count is_quit) (deq s))) as (v & Hv & Hq); [lia|].
  rewrite map_length in Hv.
  rewrite (nth_indep _ 0 (count is_quit [])) in Hq by (rewrite map_length; auto).
  rewrite map_nth in Hq.
  assert (Hown : nth w (deq s) [] = []).
  { apply (si_empty _ _ _ S w p Hp). destruct p as [[|]|[|] ?| | | | | | | | |]; try discriminate; reflexivity. }
  split; auto.
  assert (Hvw : v <> w). { intros ->. rewrite Hown in Hq. cbv in Hq. lia. }
  exists v. split; [apply victims_in; auto; lia|]. intros E. rewrite E in Hq. cbv in Hq. lia.
Qed.

Section Exec.
  Variable resp : nat -> walk_state.
  Variable n0 : nat.
  Variable f : forest.
  Variable sigma : nat -> choice.
  Variable tau : nat -> st.
  Hypothesis Hex : execution resp (init n0 f) sigma tau.
  Hypothesis Hfair : sched_fair sigma tau.

  Lemma exec_reach : forall i, reach resp (init n0 f) (tau i).
  Proof.
    destruct Hex as [H0 Hs]. induction i as [|i IH].
    - rewrite H0. exists []. reflexivity.
    - apply (reach_trans _ _ _ [sigma i] _ IH). cbn [run]. rewrite (Hs i). auto.
  Qed.

  Lemma exec_len : forall i, length (deq (tau i)) = length (pcs (tau i)).
  Proof. intros i. apply (si_len resp f). apply (safe_reach _ n0). apply exec_reach. Qed.

  Lemma exec_step : forall i, step resp (tau i) (sigma i) = Some (tau (S i)).
  Proof. destruct Hex; auto. Qed.

  Lemma exec_mu_step : forall i, mu (tau (S i)) <= mu (tau i).
  Proof.
    intros i. destruct (variant_proof _ _ _ _ (exec_len i) (exec_step i)) as [V|[V _]]; lia.
  Qed.

  Lemma exec_mu_mono : forall d i, mu (tau (i + d)) <= mu (tau i).
  Proof.
    induction d as [|d IH]; intros i.
    - rewrite Nat.add_0_r. lia.
    - replace (i + S d) with (S (i + d)) by lia. pose proof (exec_mu_step (i + d)). specialize (IH i). lia.
  Qed.

  Definition busy_at (k : nat) : Prop := mu (tau (S k)) < mu (tau k).

  (* an idle step freezes everything but the stepping worker's place in the wait loop *)
  Lemma idle_at : forall i, ~ busy_at i ->
    in_wait_loop (nth (worker_of (sigma i)) (pcs (tau (S i))) PExit) = true
    /\ same_but_pc (worker_of (sigma i)) (tau i) (tau (S i)).
  Proof.
    intros i NB. destruct (variant_proof _ _ _ _ (exec_len i) (exec_step i)) as [V|(_ & _ & V1 & V2)]; auto.
    exfalso. apply NB. exact V.
  Qed.

  Lemma busy_dec : forall k, busy_at k \/ ~ busy_at k.
  Proof. intros k. unfold busy_at. destruct (Nat.lt_ge_cases (mu (tau (S k))) (mu (tau k))); [left|right]; lia. Qed.

  Lemma all_idle_next : forall i, all_idle (tau i) -> ~ busy_at i -> all_idle (tau (S i)).
  Proof.
    intros i AI NB q Iq. destruct (idle_at i NB) as (W & _ & _ & _ & _ & Fr).
    destruct (In_nth_error _ _ Iq) as (w & Hw).
    destruct (Nat.eq_dec w (worker_of (sigma i))) as [->|Hne].
    - rewrite (nth_error_nth _ _ _ _ PExit Hw) in W. auto.
    - rewrite (Fr w Hne) in Hw. apply AI. eapply nth_error_In; eauto.
  Qed.

  (* case A: a live worker outside the wait loop makes a non-idle step as soon as it is scheduled *)
  Lemma busy_worker_eventually : forall d i w p,
    worker_of (sigma (i + d)) = w -> nth_error (pcs (tau i)) w = Some p ->
    in_wait_loop p = false -> exists k, i <= k /\ busy_at k.
  Proof.
    induction d as [|d IH]; intros i w p Hs Hp Hi.
    - rewrite Nat.add_0_r in Hs. exists i. split; auto.
      destruct (busy_dec i) as [B|NB]; auto. exfalso.
      destruct (variant_proof _ _ _ _ (exec_len i) (exec_step i)) as [V|(_ & V & _)]; [apply NB; exact V|].
      rewrite Hs, (nth_error_nth _ _ _ _ PExit Hp) in V. congruence.
    - destruct (Nat.eq_dec (worker_of (sigma i)) w) as [E|Hne].
      + exists i. split; auto. destruct (busy_dec i) as [B|NB]; auto. exfalso.
        destruct (variant_proof _ _ _ _ (exec_len i) (exec_step i)) as [V|(_ & V & _)]; [apply NB; exact V|].
        rewrite E, (nth_error_nth _ _ _ _ PExit Hp) in V. congruence.
      + destruct (IH (S i) w p) as (k & Hk & B); auto.
        * replace (S i + d) with (i + S d) by lia. auto.
        * rewrite (step_frame _ _ _ _ w (exec_step i)); auto.
        * exists k. split; auto. lia.
  Qed.

  Variable K : nat.
  Hypothesis Hsteal : forall i, K <= i -> ~ spurious_fail (tau i) (sigma i).

  (* case B: everybody alive spins; worker w is j idle steps of its own away from trying victim v, whose
     deque is not empty; it is scheduled again after d steps *)
  Lemma idle_worker_eventually : forall j d i w p v rest,
    K <= i -> all_idle (tau i) ->
    nth_error (pcs (tau i)) w = Some p -> is_exit p = false ->
    iter_wait (length (pcs (tau i))) w j p = PSteal Wait (v :: rest) ->
    nth v (deq (tau i)) [] <> [] -> nth w (deq (tau i)) [] = [] ->
    worker_of (sigma (i + d)) = w ->
    exists k, i <= k /\ busy_at k.
  Proof.
    induction j as [|j IHj]; induction d as [|d IHd]; intros i w p v rest HK AI Hp Hx Hit Hv Hown Hs;
      (destruct (busy_dec i) as [B|NB]; [exists i; split; auto|]);
      pose proof (idle_at i NB) as (W & Hdq & _ & _ & _ & Fr);
      pose proof (all_idle_next i AI NB) as AI';
      pose proof (step_length_pcs _ _ _ _ (exec_step i)) as HL;
      assert (Hi : in_wait_loop p = true) by (destruct (AI p (nth_error_In _ _ Hp)); congruence).
    - (* at the victim, scheduled now: the attempt cannot fail *)
      exfalso. rewrite Nat.add_0_r in Hs. cbn [iter_wait] in Hit. subst p.
      destruct (sigma i) as [w0|w0 mask k0] eqn:Es; cbn [worker_of] in Hs; subst w0.
      + apply (Hsteal i HK). exists w, Wait, v, rest. rewrite Es. auto.
      + apply NB. unfold busy_at. pose proof (exec_step i) as St. rewrite Es in St.
        apply (steal_decreases _ _ _ _ _ _ (exec_len i) St).
    - (* at the victim, not yet scheduled *)
      destruct (Nat.eq_dec (worker_of (sigma i)) w) as [E|Hne].
      + exfalso. cbn [iter_wait] in Hit. subst p.
        destruct (sigma i) as [w0|w0 mask k0] eqn:Es; cbn [worker_of] in E; subst w0.
        * apply (Hsteal i HK). exists w, Wait, v, rest. rewrite Es. auto.
        * apply NB. unfold busy_at. pose proof (exec_step i) as St. rewrite Es in St.
          apply (steal_decreases _ _ _ _ _ _ (exec_len i) St).
      + 
        assert (A1 : nth_error (pcs (tau (S i))) w = Some p) by (rewrite (Fr w); auto).
        assert (A2 : iter_wait (length (pcs (tau (S i)))) w 0 p = PSteal Wait (v :: rest)) by (rewrite HL; exact Hit).
        assert (A3 : nth v (deq (tau (S i))) [] <> []) by (rewrite Hdq; auto).
        assert (A4 : nth w (deq (tau (S i))) [] = []) by (rewrite Hdq; auto).
        assert (A5 : worker_of (sigma (S i + d)) = w) by (replace (S i + d) with (i + S d) by lia; auto).
        destruct (IHd (S i) w p v rest ltac:(lia) AI' A1 Hx A2 A3 A4 A5) as (k & Hk & B).
        exists k. split; auto. lia.
    - (* j+1 idle steps away, scheduled now: one idle step closer *)
      rewrite Nat.add_0_r in Hs.
      destruct (sigma i) as [w0|w0 mask k0] eqn:Es; cbn [worker_of] in Hs; subst w0.
      + 
        pose proof (idle_step resp (tau i) w p (exec_len i) Hp Hi Hown) as St.
        pose proof (exec_step i) as St'. rewrite Es, St in St'. inversion St' as [E1].
        set (p' := next_wait (length (pcs (tau i))) w p) in *.
        assert (Hp' : nth_error (pcs (tau (S i))) w = Some p').
        { rewrite <- E1. cbn. apply nth_error_upd_eq. eapply nth_error_lt; eauto. }
        assert (Hi' : in_wait_loop p' = true) by (apply next_wait_in_loop; auto).
        assert (Hx' : is_exit p' = false) by (destruct p'; try discriminate; auto).
        destruct (Hfair (S i) w p' Hp' Hx') as (j2 & Hj2 & Hw2).
        assert (A2 : iter_wait (length (pcs (tau (S i)))) w j p' = PSteal Wait (v :: rest))
          by (rewrite HL; cbn [iter_wait] in Hit; exact Hit).
        assert (A3 : nth v (deq (tau (S i))) [] <> []) by (rewrite Hdq; auto).
        assert (A4 : nth w (deq (tau (S i))) [] = []) by (rewrite Hdq; auto).
        assert (A5 : worker_of (sigma (S i + (j2 - S i))) = w) by (replace (S i + (j2 - S i)) with j2 by lia; auto).
        destruct (IHj (j2 - S i) (S i) w p' v rest ltac:(lia) AI' Hp' Hx' A2 A3 A4 A5) as (k & Hk & B).
        exists k. split; auto. lia.
      + 
        exfalso. apply NB. unfold busy_at. pose proof (exec_step i) as St. rewrite Es in St.
        apply (steal_decreases _ _ _ _ _ _ (exec_len i) St).
    - destruct (Nat.eq_dec (worker_of (sigma i)) w) as [E|Hne].
      + destruct (sigma i) as [w0|w0 mask k0] eqn:Es; cbn [worker_of] in E; subst w0.
        * 
        pose proof (idle_step resp (tau i) w p (exec_len i) Hp Hi Hown) as St.
        pose proof (exec_step i) as St'. rewrite Es, St in St'. inversion St' as [E1].
        set (p' := next_wait (length (pcs (tau i))) w p) in *.
        assert (Hp' : nth_error (pcs (tau (S i))) w = Some p').
        { rewrite <- E1. cbn. apply nth_error_upd_eq. eapply nth_error_lt; eauto. }
        assert (Hi' : in_wait_loop p' = true) by (apply next_wait_in_loop; auto).
        assert (Hx' : is_exit p' = false) by (destruct p'; try discriminate; auto).
        destruct (Hfair (S i) w p' Hp' Hx') as (j2 & Hj2 & Hw2).
        assert (A2 : iter_wait (length (pcs (tau (S i)))) w j p' = PSteal Wait (v :: rest))
          by (rewrite HL; cbn [iter_wait] in Hit; exact Hit).
        assert (A3 : nth v (deq (tau (S i))) [] <> []) by (rewrite Hdq; auto).
        assert (A4 : nth w (deq (tau (S i))) [] = []) by (rewrite Hdq; auto).
        assert (A5 : worker_of (sigma (S i + (j2 - S i))) = w) by (replace (S i + (j2 - S i)) with j2 by lia; auto).
        destruct (IHj (j2 - S i) (S i) w p' v rest ltac:(lia) AI' Hp' Hx' A2 A3 A4 A5) as (k & Hk & B).
        exists k. split; auto. lia.
        * 
        exfalso. apply NB. unfold busy_at. pose proof (exec_step i) as St. rewrite Es in St.
        apply (steal_decreases _ _ _ _ _ _ (exec_len i) St).
      + 
        assert (A1 : nth_error (pcs (tau (S i))) w = Some p) by (rewrite (Fr w); auto).
        assert (A2 : iter_wait (length (pcs (tau (S i)))) w (S j) p = PSteal Wait (v :: rest)) by (rewrite HL; exact Hit).
        assert (A3 : nth v (deq (tau (S i))) [] <> []) by (rewrite Hdq; auto).
        assert (A4 : nth w (deq (tau (S i))) [] = []) by (rewrite Hdq; auto).
        assert (A5 : worker_of (sigma (S i + d)) = w) by (replace (S i + d) with (i + S d) by lia; auto).
        destruct (IHd (S i) w p v rest ltac:(lia) AI' A1 Hx A2 A3 A4 A5) as (k & Hk & B).
        exists k. split; auto. lia.
  Qed.

  Lemma eventually_busy : forall i, exists k, i <= k /\ busy_at k.
  Proof.
    intros i0. set (i := Nat.max i0 K).
    assert (exists k, i <= k /\ busy_at k) as (k & Hk & B); [|exists k; split; auto; lia].
    pose proof (exec_reach i) as R.
    destruct (find_busy (pcs (tau i))) as [(w & p & Hp & Hx & Hi)|AllIdle].
    - destruct (Hfair i w p Hp Hx) as (j & Hj & Hw).
      apply (busy_worker_eventually (j - i) i w p); auto. replace (i + (j - i)) with j by lia. auto.
    - destruct (step_live _ _ _ _ (exec_step i)) as (p & Hp & Hx).
      set (w := worker_of (sigma i)) in *.
      destruct (idle_message_somewhere _ _ _ _ _ _ R AllIdle Hp Hx) as (Hown & v & Hvic & Hv).
      assert (Hi : in_wait_loop p = true) by (destruct (AllIdle p (nth_error_In _ _ Hp)); congruence).
      destruct (reaches_victim (length (pcs (tau i))) w v p Hi Hvic) as (j & rest & Hj).
      apply (idle_worker_eventually j 0 i w p v rest); auto; try lia.
      rewrite Nat.add_0_r. auto.
  Qed.

  Lemma no_infinite_fair_execution : False.
  Proof.
    assert (H : forall m i, mu (tau i) = m -> False).
    { induction m as [m IH] using lt_wf_ind. intros i Hm.
      destruct (eventually_busy i) as (k & Hk & B). unfold busy_at in B.
      pose proof (exec_mu_mono (k - i) i) as M. replace (i + (k - i)) with k in M by lia.
      apply (IH (mu (tau (S k))) ltac:(lia) (S k) eq_refl). }
    apply (H _ 0 eq_refl).
  Qed.
End Exec.

Theorem fair_executions_are_finite_proof : forall resp n f sigma tau,
  execution resp (init n f) sigma tau -> sched_fair sigma tau -> steal_fair sigma tau -> False.
Proof.
  intros resp n f sigma tau Hex Hf (K & HK).
  exact (no_infinite_fair_execution resp n f sigma tau Hex Hf K HK).
Qed.
