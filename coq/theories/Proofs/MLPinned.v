(* Proofs/MLPinned.v — the behaviour of MultiLine::sink and MultiLine::sink_matched_inverted BEFORE
   the repairs of two defects, pinned as definitions so that the findings stay documented by
   theorems (Props/C13.v multi_line_eq_ref_pinned_refuted, multi_line_inverted_pinned_refuted).
   1. the "dangling match":
   Pre-repair, MultiLine::sink kept the EMPTY line range of a match at the position right after the
   final line terminator as its pending range; the final flush of MultiLine::run then called
   sink_context for it — delivering before-context lines — and only afterwards sink_matched, which
   refuses an empty range:   printf 'a\nb\nc\n' | rg -U -B1 'a|\z'   printed line 3 as context of
   no match.  The repaired MultiLine::sink (Model/Glue.v ml_sink) drops such a match.
   2. inversion: pre-repair, sink_matched_inverted resumed the search at the END OF THE LAST LINE of
   a match, so a following match starting on that line after the first one's end was never found:
     printf 'a\nbb\nc\n' | rg -U -v 'a\nb|b\nc'   reported line 3, which `rg -U` reports as matching.
   The repaired function keeps looking for matches that start before the end of the excluded
   lines (Model/Glue.v ml_inv_extend); Spec/MultiLineSpec.v inv_flags_pinned describes the old
   flags. *)
From RG Require Import Base.Bytes Model.Lines Model.SearcherCore Model.Glue.

Section Pinned.
  Variable cfg : config.
  Variable M : matcher.
  Variable reply_of : nat -> reply.

  (* MultiLine::sink_matched_inverted() as it was: advance(&line) *)
  Definition ml_sink_matched_inverted_pinned (m : ml) (s : bytes) : ml_outcome :=
    let c := ml_core m in
    let '(rs, re, c) :=
      match ml_find M c s with
      | None => (pos c, length s, set_pos c (length s))
      | Some (a, b) =>
        let (ls, le) := locate (lt_byte (c_lt cfg)) s a b in
        (pos c, ls, ml_advance c s ls le)
      end in
    if Nat.leb re rs then MOK true {| ml_core := c; ml_last := ml_last m |} else
    ml_lift (ml_sink_context cfg reply_of c s rs) (ml_last m)
            (fun c => ml_inv_loop cfg reply_of (ml_last m) (S (length s)) c s rs re).

  (* MultiLine::sink() as it was: no test for an empty line range *)
  Definition ml_sink_pinned (m : ml) (s : bytes) : ml_outcome :=
    if c_invert cfg then ml_sink_matched_inverted_pinned m s else
    let c := ml_core m in
    match ml_find M c s with
    | None => MOK true {| ml_core := set_pos c (length s); ml_last := ml_last m |}
    | Some (a, b) =>
      let c := ml_advance c s a b in
      let (ls, le) := locate (lt_byte (c_lt cfg)) s a b in
      match ml_last m with
      | None => MOK true {| ml_core := c; ml_last := Some (ls, le) |}
      | Some (pls, ple) =>
        if Nat.leb ls ple then MOK true {| ml_core := c; ml_last := Some (pls, le) |}
        else
          ml_lift (ml_sink_context cfg reply_of c s pls) (Some (ls, le)) (fun c =>
          match ml_sink_matched cfg reply_of c s pls ple with
          | OK b c => MOK b {| ml_core := c; ml_last := Some (ls, le) |}
          | ERR c => MERR c
          | FUEL => MFUEL
          end)
      end
    end.

  Fixpoint ml_loop_pinned (fuel : nat) (m : ml) (s : bytes) : ml_outcome :=
    match fuel with
    | 0 => MFUEL
    | S fuel' =>
      if Nat.leb (length s) (pos (ml_core m)) then MOK true m else
      match ml_sink_pinned m s with
      | MOK true m' => ml_loop_pinned fuel' m' s
      | o => o
      end
    end.

  (* MultiLine::run around the pinned sink: the rest is Model/Glue.v multi_line_run verbatim *)
  Definition multi_line_run_pinned (s : bytes) : run_result :=
    let c0 := core_new cfg in
    match emit reply_of c0 EBegin with
    | ERR c => RunErr (rev (log c))
    | FUEL => RunFuel
    | OK false c => finish reply_of c (byte_count c)
    | OK true c =>
      match detect_binary cfg reply_of c s 0 (Nat.min (length s) default_buffer_capacity) with
      | ERR c => RunErr (rev (log c))
      | FUEL => RunFuel
      | OK true c => finish reply_of c (byte_count c)
      | OK false c =>
        match ml_loop_pinned (S (S (length s))) {| ml_core := c; ml_last := None |} s with
        | MERR c => RunErr (rev (log c))
        | MFUEL => RunFuel
        | MOK false m => finish reply_of (ml_core m) (byte_count (ml_core m))
        | MOK true m =>
          let flushed : outcome :=
            match ml_last m with
            | None => OK true (ml_core m)
            | Some (pls, ple) =>
              andthen (ml_sink_context cfg reply_of (ml_core m) s pls) (fun c => ml_sink_matched cfg reply_of c s pls ple)
            end in
          match flushed with
          | ERR c => RunErr (rev (log c))
          | FUEL => RunFuel
          | OK false c => finish reply_of c (byte_count c)
          | OK true c =>
            let tail :=
              if c_passthru cfg then other_context_by_line cfg reply_of true c s (length s)
              else after_context_by_line cfg reply_of true c s (length s) in
            match tail with
            | ERR c => RunErr (rev (log c))
            | FUEL => RunFuel
            | OK _ c => finish reply_of c (byte_count c)
            end
          end
        end
      end
    end.
End Pinned.
