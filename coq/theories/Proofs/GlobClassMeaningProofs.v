(* Proofs/GlobClassMeaningProofs.v — the glob consisting of one documented bracket expression, parsed by the model,
   matches exactly the one-character paths the documentation says the class stands for *)
From RG Require Import Base.Bytes Model.Glob Spec.GlobSyntax Spec.GlobSem Spec.GlobClassSyntax Proofs.GlobClassProofs.

Lemma class_token_meaning o d b :
  case_insensitive o = false -> tmatch o [dclass_token d] [b] = dclass_admits d b.
Proof.
  intro Hci. unfold dclass_token, dclass_admits, tmatch. cbn [tmk tok_k one_k is_nil]. rewrite andb_true_r.
  unfold class_match, in_ranges. rewrite Hci. reflexivity.
Qed.

Theorem class_glob_meaning_proof o d b :
  backslash_escape o = true -> case_insensitive o = false -> dclass_ok d = true ->
  exists ts, build o (render_dclass d) = Some (Ok ts) /\ tmatch o ts [b] = dclass_admits d b.
Proof.
  intros Hb Hci Hok. exists [dclass_token d]. split; [|now apply class_token_meaning].
  replace (render_dclass d) with (render_xglob [XPComp [XClass d]])
    by (cbn [render_xglob render_xpiece render_xcomp flat_map render_xitem]; apply app_nil_r).
  change [dclass_token d] with (xglob_tokens [XPComp [XClass d]]).
  apply xbuild_render_proof; [exact Hb|].
  unfold xglob_ok, xpiece_ok. cbn [forallb xitem_ok no_adjacent_xstar no_adjacent_dstar_x negb andb]. now rewrite Hok.
Qed.
