(* Proofs/MLInvExt.v — the inner loop of MultiLine::sink_matched_inverted (Model/Glue.v
   ml_inv_extend) only moves the scan position: it is a function of the position. *)
From RG Require Import Base.Bytes Model.Lines Model.SearcherCore Model.Glue.

Section Ext.
  Variable cfg : config.
  Variable M : matcher.
  Variable s : bytes.

  (* the position after advance(range) *)
  Definition adv_pos (rs re : nat) : nat := if Nat.leb re rs && Nat.ltb re (length s) then re + 1 else re.

  Lemma ml_advance_eq c rs re : ml_advance c s rs re = set_pos c (adv_pos rs re).
  Proof. unfold ml_advance, adv_pos. cbn [pos set_pos]. destruct (Nat.leb re rs && Nat.ltb re (length s)); reflexivity. Qed.

  Fixpoint ml_ext_pos (fuel : nat) (p le : nat) : option (nat * nat) :=
    match fuel with
    | 0 => None
    | S fuel' =>
      if Nat.ltb p le then
        match m_find_at M s p with
        | Some (a, b) =>
          if Nat.ltb a le then
            let (nls, nle) := locate (lt_byte (c_lt cfg)) s a b in
            ml_ext_pos fuel' (adv_pos a b) (if Nat.ltb le nle then nle else le)
          else Some (p, le)
        | None => Some (p, le)
        end
      else Some (p, le)
    end.

  Lemma ml_inv_extend_eq : forall fuel c le,
    ml_inv_extend cfg M fuel c s le =
    match ml_ext_pos fuel (pos c) le with Some (q, le') => Some (set_pos c q, le') | None => None end.
  Proof.
    induction fuel as [|f IH]; intros c le; [reflexivity|]. cbn [ml_inv_extend ml_ext_pos]. unfold ml_find.
    assert (Hid : forall le0 : nat, Some (c, le0) = Some (set_pos c (pos c), le0)) by (intro; destruct c; reflexivity).
    destruct (Nat.ltb (pos c) le); [|apply Hid].
    destruct (m_find_at M s (pos c)) as [[a b]|]; [|apply Hid].
    destruct (Nat.ltb a le); [|apply Hid].
    destruct (locate (lt_byte (c_lt cfg)) s a b) as [nls nle].
    rewrite IH, ml_advance_eq. cbn [pos set_pos].
    destruct (ml_ext_pos f (adv_pos a b) (if Nat.ltb le nle then nle else le)) as [[q le']|]; reflexivity.
  Qed.
End Ext.
