(* Proofs/ReplaceGlueProofs.v — the standard printer's call of the Replacer (Model/ReplaceGlue.v)
   = the specification's replace-all of the range in the context of the buffer *)
From RG Require Import Base.Bytes Base.BytesFacts Model.Interpolate Model.MatchIter Model.Replace
  Model.ReplaceGlue Spec.TemplateSpec Spec.ReplaceSpec Proofs.InterpolateProofs Proofs.ReplaceProofs.

Section G.
  Variable captures_at : bytes -> nat -> option caps.
  Variable n2i : bytes -> option N.

  (* the last-match position after the fold is bounded by what bounds the replaced matches *)
  Lemma fold_last_bound hay re template bound : forall l dst last ms,
    last <= bound ->
    (forall c, In c l -> fst (cap_span c) < re -> snd (cap_span c) <= bound) ->
    r_last (fold_until (replace_cb n2i hay re template) l
              {| r_dst := dst; r_last := last; r_matches := ms; r_fail := false |}) <= bound.
  Proof.
    induction l as [|c l IH]; intros dst last ms Hlast Hall; cbn [fold_until].
    - exact Hlast.
    - rewrite replace_cb_eq. pose proof (Hall c (or_introl eq_refl)) as Hc.
      destruct (cap_span c) as [s e]. cbn [fst snd] in Hc.
      destruct (Nat.leb_spec re s); [exact Hlast|].
      apply IH; [apply Hc; lia|]. intros c' Hin. apply Hall. now right.
  Qed.

  Lemma replace_on_eq_spec hay rs re template l :
    rs <= Nat.min (length hay) re ->
    (forall c, In c l -> fst (cap_span c) < re -> snd (cap_span c) <= Nat.min (length hay) re) ->
    all_matches (captures_at hay) cap_span (length hay) rs = Some l ->
    replace_on captures_at n2i hay rs re template
      = Some (assemble n2i hay template re rs l, assemble_spans n2i hay template re 0 rs l).
  Proof.
    intros Hrs Hcov Hl. unfold replace_on, iter_at. unfold all_matches in Hl.
    rewrite (iter_loop_fold _ _ _ _ _ _ _ _ l Hl).
    destruct (fold_replace_spec n2i hay re template l [] rs []) as (H1 & H2 & H3).
    pose proof (fold_last_bound hay re template (Nat.min (length hay) re) l [] rs [] Hrs Hcov) as Hb.
    cbv zeta in H1, H2, H3. rewrite H1. cbv zeta.
    destruct (Nat.ltb_spec (Nat.min (length hay) re)
               (r_last (fold_until (replace_cb n2i hay re template) l
                  {| r_dst := []; r_last := rs; r_matches := []; r_fail := false |}))); [lia|].
    rewrite H2, H3. reflexivity.
  Qed.

  Theorem standard_replacement_eq_spec_window_proof ml lt buf rs re template l :
    let hay := replace_haystack ml lt buf re in
    rs <= Nat.min (length hay) re ->
    (forall c, In c l -> fst (cap_span c) < re -> snd (cap_span c) <= Nat.min (length hay) re) ->
    all_matches (captures_at hay) cap_span (length hay) rs = Some l ->
    standard_matched_replace captures_at n2i ml lt buf (rs, re) template
      = Some (assemble n2i hay template re rs l, assemble_spans n2i hay template re 0 rs l).
  Proof.
    intros hay Hrs Hcov Hl. unfold standard_matched_replace, replace_all_ctx. cbn [fst snd]. fold hay.
    now apply replace_on_eq_spec.
  Qed.

  Lemma replace_haystack_whole lt buf re :
    length buf - re < MAX_LOOK_AHEAD -> replace_haystack true lt buf re = buf.
  Proof.
    intros H. unfold replace_haystack. destruct (Nat.leb_spec MAX_LOOK_AHEAD (length buf - re)); [lia|reflexivity].
  Qed.

  Theorem standard_replacement_eq_spec_partial_proof lt buf rs re template l :
    length buf - re < MAX_LOOK_AHEAD ->
    rs <= re <= length buf ->
    (forall c, In c l -> fst (cap_span c) < re -> snd (cap_span c) <= re) ->
    all_matches (captures_at buf) cap_span (length buf) rs = Some l ->
    standard_matched_replace captures_at n2i true lt buf (rs, re) template
      = Some (assemble n2i buf template re rs l, assemble_spans n2i buf template re 0 rs l).
  Proof.
    intros Hlen Hrs Hcov Hl.
    pose proof (standard_replacement_eq_spec_window_proof true lt buf rs re template l) as H.
    cbv zeta in H. rewrite (replace_haystack_whole lt buf re Hlen) in H.
    rewrite Nat.min_r in H by lia. apply H; [lia|exact Hcov|exact Hl].
  Qed.

  (* line search: the haystack ends with the line's content, so every match ends inside it *)
  Theorem standard_replacement_line_mode_proof lt buf rs re template l :
    let hay := firstn (trim_line_terminator lt buf 0 re) buf in
    rs <= length hay -> length hay <= re ->
    matcher_ok (captures_at hay) cap_span (length hay) ->
    all_matches (captures_at hay) cap_span (length hay) rs = Some l ->
    standard_matched_replace captures_at n2i false lt buf (rs, re) template
      = Some (assemble n2i hay template re rs l, assemble_spans n2i hay template re 0 rs l).
  Proof.
    intros hay Hrs Hre Hok Hl.
    apply (standard_replacement_eq_spec_window_proof false lt buf rs re template l).
    - cbn [replace_haystack]. fold hay. lia.
    - cbn [replace_haystack]. fold hay. intros c Hin _.
      destruct (matches_from_in _ _ _ _ _ _ _ c Hl Hin) as [p Hp].
      destruct (Hok p c Hp) as (H1 & H2 & H3). lia.
    - exact Hl.
  Qed.
End G.

(* ---- the MAX_LOOK_AHEAD window: the statement without "fewer than 128 bytes follow the range"
   is false.  Witness: the matcher of  `b\n(?s:.{128})\z|a`  on  "ab\n" + 128 x 'x' + "y":
   in the whole buffer only "a" matches (the line range is 0..3); in the window of 131 bytes the
   second alternative matches 1..131 — it starts inside the range and ends after it, and
   `&bytes[last_match..end]` panics. *)
Definition win_matcher (hay : bytes) (p : nat) : option caps :=
  if Nat.eqb p 0 && Nat.ltb 0 (length hay) && (hd 0%N hay =? 97)%N then Some [Some (0, 1)]
  else if Nat.leb p 1 && Nat.eqb (length hay) 131 then Some [Some (1, 131)]
  else None.
Definition win_buf : bytes := [97; 98; 10]%N ++ repeat 120%N 128 ++ [121]%N.

Lemma win_matcher_ok hay : matcher_ok (win_matcher hay) cap_span (length hay).
Proof.
  intros p c H. unfold win_matcher in H.
  destruct (Nat.eqb_spec p 0) as [Hp|Hp]; destruct (Nat.ltb_spec 0 (length hay)) as [Hn|Hn];
    destruct (N.eqb_spec (hd 0%N hay) 97) as [Hb|Hb]; cbn [andb] in H;
    try (injection H as <-; cbn [cap_span fst snd]; lia);
    (destruct (Nat.leb_spec p 1); cbn [andb] in H; [|discriminate];
     destruct (Nat.eqb_spec (length hay) 131) as [Hl|Hl]; [|discriminate];
     injection H as <-; cbn [cap_span fst snd]; lia).
Qed.

Theorem standard_replacement_eq_spec_refuted_proof :
  exists (captures_at : bytes -> nat -> option caps) buf rs re template l,
    (forall hay, matcher_ok (captures_at hay) cap_span (length hay)) /\
    rs <= re <= length buf /\
    all_matches (captures_at buf) cap_span (length buf) rs = Some l /\
    (forall c, In c l -> fst (cap_span c) < re -> snd (cap_span c) <= re) /\
    standard_matched_replace captures_at (fun _ => None) true (LTByte 10) buf (rs, re) template = None.
Proof.
  exists win_matcher, win_buf, 0, 3, [88]%N, [[Some (0, 1)]].
  split; [exact win_matcher_ok|].
  split; [vm_compute; lia|].
  split; [vm_compute; reflexivity|].
  split; [|vm_compute; reflexivity].
  intros c [<-|[]] _. cbn [cap_span snd]. lia.
Qed.
