(* Proofs/PreZipProofs.v — the flag state machine equals the documented "last flag that speaks about it decides". *)
From Coq Require Import List Bool.
From RG Require Import Base.Bytes Model.PreZipFlags Spec.PreZipSpec.
Import ListNotations.
Local Open Scope bool_scope.

Lemma final_state_snoc : forall l e, final_state (l ++ [e]) = upd (final_state l) e.
Proof. intros l e. unfold final_state. rewrite fold_left_app. reflexivity. Qed.

Lemma last_such_snoc : forall f l e,
  last_such f (l ++ [e]) = if f e then Some e else last_such f l.
Proof. intros f l e. unfold last_such. rewrite rev_app_distr. reflexivity. Qed.

Lemma final_state_spec : forall l,
  final_state l = {| pz_pre := spec_pre l; pz_zip := spec_zip l |}.
Proof.
  intros l. induction l as [|e l IH] using rev_ind.
  - reflexivity.
  - rewrite final_state_snoc, IH. unfold spec_pre, spec_zip. rewrite !last_such_snoc.
    destruct e as [p| | |]; cbn [upd about_pre about_zip pz_pre pz_zip].
    + destruct p as [|b p]; cbn [path_is_empty nonempty]; reflexivity.
    + reflexivity.
    + reflexivity.
    + reflexivity.
Qed.

Lemma pre_zip_exclusive_proof : forall l p,
  pz_pre (final_state l) = Some p -> pz_zip (final_state l) = false.
Proof.
  intros l. induction l as [|e l IH] using rev_ind; intros p Hp.
  - discriminate Hp.
  - rewrite final_state_snoc in *. destruct e as [q| | |]; cbn [upd pz_pre pz_zip] in *.
    + destruct (path_is_empty q); [discriminate Hp | reflexivity].
    + discriminate Hp.
    + discriminate Hp.
    + reflexivity.
Qed.

Lemma pre_never_empty_proof : forall l, pz_pre (final_state l) <> Some [].
Proof.
  intros l. induction l as [|e l IH] using rev_ind.
  - discriminate.
  - rewrite final_state_snoc. destruct e as [q| | |]; cbn [upd pz_pre].
    + destruct q; cbn [path_is_empty]; discriminate.
    + discriminate.
    + discriminate.
    + exact IH.
Qed.

(* cancelling a preprocessor (empty value or --no-pre) leaves the decompression setting alone *)
Lemma cancel_pre_keeps_zip_proof : forall l,
  pz_zip (final_state (l ++ [EPre []])) = pz_zip (final_state l) /\
  pz_zip (final_state (l ++ [ENoPre])) = pz_zip (final_state l) /\
  final_state (l ++ [EPre []]) = final_state (l ++ [ENoPre]).
Proof. intros l. rewrite !final_state_snoc. repeat split. Qed.

Lemma loose_zip_refuted_proof :
  exists l, pz_zip (final_state l) <> loose_zip l.
Proof. exists [EZip; EPre [120%N]; ENoPre]. vm_compute. discriminate. Qed.

(* ---- the rules regenerated from defs.rs are the hand-written ones ---- *)
From RG Require Import Model.CliTypes Model.CliExpected Gen.DecisionsCli Model.PreZipGen.

Lemma gen_upd_eq : forall s e, gen_upd s e = upd s e.
Proof.
  intros [pre z] e. destruct e as [p| | |]; cbn [gen_upd].
  - unfold pre_update_value. destruct p as [|b p]; reflexivity.
  - reflexivity.
  - reflexivity.
  - reflexivity.
Qed.

Lemma gen_final_state_eq : forall l, gen_final_state l = final_state l.
Proof.
  intros l. unfold gen_final_state, final_state. generalize pz_init.
  induction l as [|e l IH]; intros s; cbn [fold_left].
  - reflexivity.
  - rewrite gen_upd_eq. apply IH.
Qed.

Lemma gen_final_state_spec : forall l,
  gen_final_state l = {| pz_pre := spec_pre l; pz_zip := spec_zip l |}.
Proof. intros l. rewrite gen_final_state_eq. apply final_state_spec. Qed.
