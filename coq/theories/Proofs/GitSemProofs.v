(* Proofs/GitSemProofs.v — ripgrep's rewritten glob against git's component semantics (Spec/GitSem.v).
   Proved here: the slash-free literal pattern class (`name` => `**/name`, the BasenameLiteral shape);
   the other classes of the documented grammar are compared by extraction and testing only. *)
From RG Require Import Base.Bytes Base.BytesFacts Model.Glob Model.GlobSet Spec.GlobSem Spec.GlobSetSem
  Model.Gitignore Spec.GitSem Proofs.GlobSemProofs Proofs.GlobPathProofs Proofs.GlobStrategyProofs.

Lemma after_last_slash_noslash y : has 47 y = false -> after_last_slash y = y.
Proof. intro H. unfold after_last_slash. apply rfind_none in H. now rewrite H. Qed.

Lemma after_last_slash_app_slash x y : after_last_slash (x ++ 47%N :: y) = after_last_slash y.
Proof.
  induction x as [|b x IH]; cbn [app]; rewrite after_last_slash_cons.
  - destruct (has 47 y) eqn:E; [reflexivity|]. rewrite N.eqb_refl. symmetry. now apply after_last_slash_noslash.
  - rewrite has_app, has_cons, N.eqb_refl, orb_true_r. exact IH.
Qed.

Lemma join_cons2 c c2 r : join (c :: c2 :: r) = c ++ 47%N :: join (c2 :: r).
Proof. reflexivity. Qed.

Definition comp_ok (c : bytes) : Prop := has 47 c = false.

Lemma basename_of_join comps :
  comps <> [] -> Forall comp_ok comps -> after_last_slash (join comps) = last comps [].
Proof.
  induction comps as [|c r IH]; intros Hne Hok; [congruence|]. inversion Hok as [|? ? Hc Hr]; subst.
  destruct r as [|c2 r].
  - cbn [join flat_map last]. rewrite app_nil_r. now apply after_last_slash_noslash.
  - rewrite join_cons2, after_last_slash_app_slash. rewrite IH by (try assumption; discriminate). reflexivity.
Qed.

Lemma wmatch_lits l : forall c, wmatch false (map WLit l) c = bytes_eqb l c.
Proof.
  induction l as [|c0 l IH]; intros c; destruct c as [|b c]; cbn [map wmatch bytes_eqb w1]; try reflexivity.
  now rewrite IH.
Qed.

Lemma cmatch_basename ws comps :
  cmatch false [CDStar; CSimple ws] comps =
  match comps with [] => false | _ => wmatch false ws (last comps []) end.
Proof.
  cbn [cmatch]. induction comps as [|c r IH]; [reflexivity|].
  destruct r as [|c2 r].
  - cbn [last]. destruct (wmatch false ws c); reflexivity.
  - rewrite IH. cbn [last]. now rewrite andb_false_r.
Qed.

(* `name` in an ignore file: ripgrep's glob `**/name` (literal_separator on) on the joined path answers as
   git's "match the last component at any depth", for every path of separator-free components *)
Theorem basename_pattern_eq_git_proof (o : gopts) (l : bytes) (comps : list bytes) :
  case_insensitive o = false -> l <> [] -> has 47 l = false ->
  comps <> [] -> Forall comp_ok comps ->
  tmatch o (TRecPrefix :: map TLit l) (join comps) = cmatch false [CDStar; CSimple (map WLit l)] comps.
Proof.
  intros Hci Hl Hs Hne Hok. rewrite cmatch_basename, wmatch_lits.
  destruct comps as [|c0 r]; [congruence|]. set (comps := c0 :: r) in *.
  destruct l as [|a l]; [congruence|]. cbn [map]. rewrite tmatch_len2, tmk_recprefix, map_TLit_cons.
  rewrite (rec_prefix_k_ext _ (bytes_eqb (a :: l))) by (intro q; apply (tmk_lits_nil o (a :: l) q Hci)).
  rewrite rec_prefix_k_simpl, basename_lit_eq by assumption. now rewrite basename_of_join.
Qed.
