(* Proofs/GitTreeGrammarProofs.v — the file- and tree-level theorems stated over the documented grammar *)
From RG Require Import Base.Bytes Model.Glob Model.GlobSet Spec.GlobSem Spec.GlobSetSem Model.Gitignore Spec.GitSem
  Spec.GitGrammar Spec.GitLineClass Spec.GitLineSyntax
  Proofs.GitSemProofs Proofs.GitLineProofs Proofs.GitGrammarClassProofs.

Definition grammar_lines (lines : list bytes) : Prop := Forall grammar_line lines.
Definition grammar_igs (igs : list (list bytes * list bytes)) : Prop := Forall (fun dl => grammar_lines (snd dl)) igs.

Lemma grammar_lines_class ci lines : grammar_lines lines -> lines_in_class ci lines.
Proof. intro H. eapply Forall_impl; [|exact H]. intros l Hl. now apply grammar_line_in_class. Qed.

Lemma grammar_igs_class ci igs : grammar_igs igs -> igs_in_class ci igs.
Proof. intro H. eapply Forall_impl; [|exact H]. intros dl Hdl. now apply grammar_lines_class. Qed.

Theorem grammar_line_eq_git_proof ci line rel is_dir :
  grammar_line line -> rel <> [] -> Forall comp_ok rel ->
  rg_line re_spec ci line rel is_dir = git_line ci line rel is_dir.
Proof. intros H. apply line_class_sound_proof. now apply grammar_line_in_class. Qed.

Theorem grammar_file_eq_git_proof ci lines rel is_dir :
  grammar_lines lines -> rel <> [] -> Forall comp_ok rel ->
  verdict_opt (matched_stripped re_spec (add_lines ci lines) (join rel) is_dir) = file_verdict ci lines rel is_dir.
Proof. intro H. apply file_eq_git_proof. now apply grammar_lines_class. Qed.

Theorem grammar_tree_eq_git_proof ci igs path is_dir :
  grammar_igs igs -> Forall comp_ok path ->
  visited re_spec (parse_igs ci igs) path is_dir = git_visited ci igs path is_dir.
Proof. intro H. apply tree_rg_eq_git_proof. now apply grammar_igs_class. Qed.

Theorem grammar_listing_eq_git_proof ci igs (entries : list (list bytes * bool)) :
  grammar_igs igs -> Forall (fun e => Forall comp_ok (fst e)) entries ->
  filter (fun e => visited re_spec (parse_igs ci igs) (fst e) (snd e)) entries =
  filter (fun e => git_visited ci igs (fst e) (snd e)) entries.
Proof. intro H. apply tree_listing_eq_git_proof. now apply grammar_igs_class. Qed.
