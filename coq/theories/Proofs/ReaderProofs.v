(* Proofs/ReaderProofs.v — ReadByLine::run (the incremental reader strategy over the roll buffer)
   delivers the events of the grep reference, for every input, configuration, matcher, buffer
   capacity and failure-free read history: the simulation of Proofs/SlowPathProofs.v and
   Proofs/FastPathProofs.v, carried across Core::roll / LineBuffer::{consume, fill}.
     1. geq: the reference state with its oldest pending lines forgotten behaves the same
     2. lists of lines and windows of the stream
     3. lines::preceding on a buffer that ends with whole lines
     4. Core::roll re-bases the simulation relation
     5. one round of ReadByLine::fill
     6. the loop, the theorem *)
From RG Require Import Base.Bytes Base.BytesFacts Model.Lines Model.SearcherCore Model.Glue Model.ReadByLine
  Spec.GrepSpec Proofs.LinesProofs Proofs.CoreSinkProofs Proofs.FuelProofs Proofs.SlowPathProofs
  Proofs.PrefixLaw Proofs.PrefixCore Proofs.FastPathProofs Proofs.LineBufferProofs.

Ltac len := cbn [length] in *; rewrite ?app_length in *; cbn [length] in *; lia.

(* ------------------------------------------------------------------------------------------ 1 *)
Ltac geq_fields := split; [|split; [|split; [|split; [|split; [|split; [|split]]]]]]; auto; try congruence.

Section Geq.
  Variable cfg : config.
  Variable is_match : bytes -> bool.

  (* g' is g with some of its oldest pending lines dropped; when lines were dropped, more than
     c_before lines are kept (or no context is configured at all) *)
  Definition geq (g' g : gstate) : Prop :=
    g_lnum g' = g_lnum g /\ g_off g' = g_off g /\ g_after g' = g_after g /\ g_sunk g' = g_sunk g /\
    g_matched g' = g_matched g /\ g_stopped g' = g_stopped g /\ g_out g' = g_out g /\
    exists dropped, g_pend g = g_pend g' ++ dropped /\
      (dropped <> [] -> any_context cfg = true -> c_before cfg < length (g_pend g')).

  Lemma geq_refl g : geq g g.
  Proof. unfold geq. geq_fields. exists []. rewrite app_nil_r. split; [reflexivity|congruence]. Qed.

  Lemma geq_trans a b c : geq a b -> geq b c -> geq a c.
  Proof.
    intros (A1 & A2 & A3 & A4 & A5 & A6 & A7 & d1 & A8 & A9) (B1 & B2 & B3 & B4 & B5 & B6 & B7 & d2 & B8 & B9).
    unfold geq. geq_fields; try congruence.
    exists (d1 ++ d2). split; [rewrite B8, A8; now rewrite app_assoc|].
    intros Hne Hctx. destruct d1 as [|x d1].
    - cbn [app] in *. rewrite app_nil_r in A8. rewrite <- A8. apply B9; assumption.
    - apply A9; [discriminate|exact Hctx].
  Qed.

  Lemma no_context_before : any_context cfg = false -> c_before cfg = 0.
  Proof.
    unfold any_context. intro H. apply orb_false_iff in H as [H _].
    destruct (Nat.ltb_spec 0 (c_before cfg)); [discriminate|lia].
  Qed.

  Lemma geq_step_s g' g l b : geq g' g -> geq (g_step_s cfg g' l b) (g_step_s cfg g l b).
  Proof.
    intros (A1 & A2 & A3 & A4 & A5 & A6 & A7 & d & A8 & A9).
    unfold g_step_s. rewrite A6. destruct (g_stopped g) eqn:Est.
    { unfold geq. geq_fields. exists d. auto. }
    rewrite A1, A2, A3, A4, A5, A7.
    destruct b.
    - (* a result line: the break decisions and the before-context only see the newest lines *)
      assert (Hev :
        (if any_context cfg && g_sunk g && (length (firstn (c_before cfg) (g_pend g')) <? length (g_pend g'))
            && negb (length (firstn (c_before cfg) (g_pend g')) =? 0) then [EBreak] else []) ++
        before_events cfg (firstn (c_before cfg) (g_pend g')) ++
        (if any_context cfg && g_sunk g && (length (firstn (c_before cfg) (g_pend g')) =? 0)
            && negb (length (g_pend g') =? 0) then [EBreak] else []) ++
        [EMatched (g_off g) (lnum_of cfg (g_lnum g)) l]
        =
        (if any_context cfg && g_sunk g && (length (firstn (c_before cfg) (g_pend g)) <? length (g_pend g))
            && negb (length (firstn (c_before cfg) (g_pend g)) =? 0) then [EBreak] else []) ++
        before_events cfg (firstn (c_before cfg) (g_pend g)) ++
        (if any_context cfg && g_sunk g && (length (firstn (c_before cfg) (g_pend g)) =? 0)
            && negb (length (g_pend g) =? 0) then [EBreak] else []) ++
        [EMatched (g_off g) (lnum_of cfg (g_lnum g)) l]).
      { destruct d as [|x d]; [rewrite app_nil_r in A8; now rewrite A8|].
        destruct (any_context cfg) eqn:Ectx.
        - specialize (A9 ltac:(discriminate) eq_refl).
          assert (Hf : firstn (c_before cfg) (g_pend g) = firstn (c_before cfg) (g_pend g')).
          { rewrite A8, firstn_app. replace (c_before cfg - length (g_pend g')) with 0 by lia.
            cbn [firstn]. apply app_nil_r. }
          rewrite Hf. rewrite firstn_length.
          replace (Nat.min (c_before cfg) (length (g_pend g'))) with (c_before cfg) by lia.
          assert (Hl : length (g_pend g) = length (g_pend g') + S (length d)) by (rewrite A8, app_length; reflexivity).
          destruct (Nat.ltb_spec (c_before cfg) (length (g_pend g'))); [|lia].
          destruct (Nat.ltb_spec (c_before cfg) (length (g_pend g))); [|lia].
          destruct (Nat.eqb_spec (length (g_pend g')) 0); [lia|].
          destruct (Nat.eqb_spec (length (g_pend g)) 0); [lia|]. reflexivity.
        - rewrite (no_context_before Ectx). cbn [firstn andb]. reflexivity. }
      rewrite Hev. unfold geq. cbn [g_lnum g_off g_after g_sunk g_matched g_stopped g_out g_pend].
      geq_fields. exists []. split; [reflexivity|congruence].
    - destruct (Nat.leb 1 (g_after g)).
      + unfold geq. cbn [g_lnum g_off g_after g_sunk g_matched g_stopped g_out g_pend].
        geq_fields. exists []. split; [reflexivity|congruence].
      + destruct (c_passthru cfg).
        * unfold geq. cbn [g_lnum g_off g_after g_sunk g_matched g_stopped g_out g_pend].
          geq_fields. exists []. split; [reflexivity|congruence].
        * unfold geq. cbn [g_lnum g_off g_after g_sunk g_matched g_stopped g_out g_pend].
          geq_fields. exists d. split; [rewrite A8; reflexivity|].
          intros Hne Hctx. specialize (A9 Hne Hctx). cbn [length]. lia.
  Qed.

  Lemma geq_step g' g l : geq g' g -> geq (g_step cfg is_match g' l) (g_step cfg is_match g l).
  Proof. intro H. unfold g_step. apply geq_step_s. exact H. Qed.

  Lemma geq_fold ls : forall g' g, geq g' g ->
    geq (fold_left (g_step cfg is_match) ls g') (fold_left (g_step cfg is_match) ls g).
  Proof.
    induction ls as [|l r IH]; intros g' g H; [exact H|]. cbn [fold_left]. apply IH. apply geq_step. exact H.
  Qed.
End Geq.

(* ------------------------------------------------------------------------------------------ 2 *)
Section Lists.
  Variable ltb : byte.
  Notation terminated := (terminated ltb).
  Notation lines_shape := (lines_shape ltb).

  Lemma nolt_nth l i : no_lt ltb l -> nth_error l i = Some ltb -> False.
  Proof.
    unfold no_lt. intros H Hn. apply nth_error_In in Hn. rewrite forallb_forall in H.
    specialize (H _ Hn). rewrite N.eqb_refl in H. discriminate.
  Qed.

  Lemma terminated_shape a : Forall terminated a -> lines_shape a.
  Proof. induction 1; constructor; assumption. Qed.

  Lemma lines_shape_app_r a b : lines_shape (a ++ b) -> lines_shape b.
  Proof.
    induction a as [|x a IH]; intro H; [exact H|]. cbn [app] in H.
    inversion H as [|l Hp E|l ls Ht Hs E]; subst.
    - destruct a; [|discriminate]. cbn [app] in *. subst b. constructor.
    - apply IH. exact Hs.
  Qed.

  Lemma lines_shape_app_l a b : lines_shape (a ++ b) -> b <> [] -> Forall terminated a.
  Proof.
    induction a as [|x a IH]; intros H Hb; [constructor|]. cbn [app] in H.
    inversion H as [|l Hp E|l ls Ht Hs E]; subst.
    - destruct a; [|discriminate]. cbn [app] in *. congruence.
    - constructor; [exact Ht|]. apply IH; assumption.
  Qed.

  Lemma lines_shape_prefix a b : lines_shape (a ++ b) -> lines_shape a.
  Proof.
    intro H. destruct b as [|y b]; [now rewrite app_nil_r in H|].
    apply terminated_shape. apply (lines_shape_app_l a (y :: b) H). discriminate.
  Qed.

  Lemma shape_concat_nil ls : lines_shape ls -> concat ls = [] -> ls = [].
  Proof.
    intros H E. pose proof (lines_count_le _ (shape_lengths ltb _ H)) as Hl. rewrite E in Hl.
    destruct ls; [reflexivity|cbn in Hl; lia].
  Qed.

  (* a prefix of the text of a list of lines that ends after a terminator (or is everything) is a
     prefix of the list of lines *)
  Lemma prefix_lines : forall rest, lines_shape rest -> forall m,
    m = 0 \/ m = length (concat rest) \/
      (1 <= m /\ m <= length (concat rest) /\ nth_error (concat rest) (m - 1) = Some ltb) ->
    exists newl rest', rest = newl ++ rest' /\ firstn m (concat rest) = concat newl /\
                       (Forall terminated newl \/ rest' = []).
  Proof.
    induction 1 as [|l Hp|l ls Ht Hs IH]; intros m Hm.
    - exists [], []. cbn [concat length] in *. split; [reflexivity|]. split; [now rewrite firstn_nil|]. left. constructor.
    - cbn [concat] in *. rewrite app_nil_r in *.
      destruct Hm as [-> | [-> | (H1 & H2 & H3)]].
      + exists [], [l]. split; [reflexivity|]. split; [reflexivity|]. left. constructor.
      + exists [l], []. split; [reflexivity|]. split; [cbn [concat]; now rewrite firstn_all, app_nil_r|]. right. reflexivity.
      + exfalso. destruct Hp as [_ Hn]. exact (nolt_nth l (m - 1) Hn H3).
    - destruct (Nat.eq_dec m 0) as [->|Hm0].
      { exists [], (l :: ls). split; [reflexivity|]. split; [reflexivity|]. left. constructor. }
      cbn [concat] in *. rewrite app_length in Hm.
      assert (Hge : length l <= m).
      { destruct (Nat.le_gt_cases (length l) m) as [Hle|Hlt]; [exact Hle|exfalso].
        destruct Hm as [-> | [-> | (H1 & H2 & H3)]]; [lia|lia|].
        destruct Ht as (body & -> & Hbody). rewrite app_length in Hlt. cbn [length] in Hlt.
        rewrite <- app_assoc in H3. rewrite nth_error_app1 in H3 by lia.
        exact (nolt_nth body (m - 1) Hbody H3). }
      destruct (IH (m - length l)) as (newl & rest' & E1 & E2 & E3).
      { destruct Hm as [-> | [-> | (H1 & H2 & H3)]]; [lia|right; left; lia|].
        destruct (Nat.eq_dec (m - length l) 0) as [E0|E0]; [left; exact E0|right; right].
        split; [lia|]. split; [lia|].
        rewrite nth_error_app2 in H3 by lia. rewrite <- H3. f_equal. lia. }
      exists (l :: newl), rest'. split; [cbn [app]; now rewrite E1|].
      split.
      + rewrite firstn_app. rewrite firstn_all2 by lia. cbn [concat]. now rewrite E2.
      + destruct E3 as [E3|E3]; [left; constructor; assumption|right; exact E3].
  Qed.
End Lists.

Section Windows.
  Context {T : Type}.
  Implicit Types S l : list T.

  Lemma skipn_sub S a b k : skipn k (sub S a b) = sub S (a + k) b.
  Proof.
    unfold sub. rewrite skipn_firstn_comm. rewrite skipn_skipn. f_equal. lia.
  Qed.

  Lemma firstn_of_sub S a b k : a + k <= b -> firstn k (sub S a b) = sub S a (a + k).
  Proof.
    intro H. unfold sub. rewrite firstn_firstn. f_equal. lia.
  Qed.

  Lemma sub_full S : sub S 0 (length S) = S.
  Proof. unfold sub. cbn [skipn]. rewrite Nat.sub_0_r. apply firstn_all. Qed.

  Lemma sub_empty S a : sub S a a = [].
  Proof. unfold sub. now rewrite Nat.sub_diag. Qed.

  Lemma sub_skipn S a : sub S a (length S) = skipn a S.
  Proof. unfold sub. apply firstn_all2. rewrite skipn_length. lia. Qed.

  Lemma sub_app_l S rest a b : b <= length S -> sub (S ++ rest) a b = sub S a b.
  Proof.
    intro H. unfold sub. rewrite skipn_app, firstn_app. rewrite skipn_length.
    replace (b - a - (length S - a)) with 0 by lia. cbn [firstn]. apply app_nil_r.
  Qed.
End Windows.

Section LBWindow.
  Variable S : bytes.
  Variable ltb : byte.
  Variable pol : alloc_policy.

  Lemma wf_lengths lb r : lb_wf S lb r ->
    length S = (lb_abs lb - lb_pos lb) + length (lb_data lb) + length (r_rest r).
  Proof.
    intros [H1 H2 H3 H4 H5 H6]. pose proof (f_equal (@length _) H4) as HL.
    rewrite !app_length, firstn_length in HL. lia.
  Qed.

  Lemma wf_buffer lb r : lb_wf S lb r ->
    lb_buffer lb = sub S (lb_abs lb) (lb_abs lb + (lb_llt lb - lb_pos lb)) /\
    lb_abs lb + (lb_llt lb - lb_pos lb) <= length S /\
    length (lb_buffer lb) = lb_llt lb - lb_pos lb.
  Proof.
    intro Hwf. pose proof (wf_lengths lb r Hwf) as HL. destruct Hwf as [H1 H2 H3 H4 H5 H6].
    set (W := lb_abs lb - lb_pos lb) in *.
    assert (HW : length (firstn W S) = W) by (rewrite firstn_length; lia).
    split; [|split; [lia|unfold lb_buffer; rewrite sub_length by lia; reflexivity]].
    unfold lb_buffer, sub. replace (lb_abs lb + (lb_llt lb - lb_pos lb) - lb_abs lb) with (lb_llt lb - lb_pos lb) by lia.
    rewrite H4 at 1. replace (lb_abs lb) with (length (firstn W S) + lb_pos lb) at 1 by lia.
    rewrite <- skipn_skipn. rewrite skipn_app, skipn_all, HW. replace (W - W) with 0 by lia. cbn [skipn app].
    rewrite skipn_app. rewrite firstn_app. rewrite skipn_length.
    replace (lb_llt lb - lb_pos lb - (length (lb_data lb) - lb_pos lb)) with 0 by lia. cbn [firstn]. now rewrite app_nil_r.
  Qed.

  Lemma wf_nth lb r i x : lb_wf S lb r -> nth_error (lb_data lb) i = Some x ->
    nth_error S (lb_abs lb - lb_pos lb + i) = Some x.
  Proof.
    intros [H1 H2 H3 H4 H5 H6] Hn.
    set (W := lb_abs lb - lb_pos lb) in *.
    assert (HW : length (firstn W S) = W) by (rewrite firstn_length; lia).
    assert (Hi : i < length (lb_data lb)) by (apply nth_error_Some; congruence).
    rewrite H4. rewrite nth_error_app2 by lia. rewrite HW. replace (W + i - W) with i by lia.
    rewrite nth_error_app1 by lia. exact Hn.
  Qed.

  (* LineBuffer::consume(consumed) then LineBuffer::fill, in stream coordinates: the new buffer
     starts [consumed] bytes later, reaches at least as far as the old one, and ends after a
     terminator unless it reaches the end of the stream *)
  Lemma fill_round lb r consumed :
    lb_wf S lb r -> consumed <= length (lb_buffer lb) ->
    match lb_fill ltb pol (lb_consume lb consumed) r with
    | FillOk d lb2 r2 =>
        lb_wf S lb2 r2 /\ lb_abs lb2 = lb_abs lb + consumed /\
        let E := lb_abs lb + length (lb_buffer lb) in
        let E2 := lb_abs lb2 + length (lb_buffer lb2) in
        E <= E2 /\ E2 <= length S /\ lb_buffer lb2 = sub S (lb_abs lb2) E2 /\
        (d = false -> E2 = lb_abs lb2 /\ E2 = length S) /\
        (E2 = length S \/ (E < E2 /\ nth_error S (E2 - 1) = Some ltb))
    | FillFuel => False
    | FillIoErr | FillAllocErr => True
    end.
  Proof.
    intros Hwf Hc.
    destruct (wf_buffer lb r Hwf) as (Hb1 & Hb2 & Hb3).
    pose proof Hwf as [H1 H2 H3 H4 H5 H6].
    assert (Hwf1 : lb_wf S (lb_consume lb consumed) r) by (apply consume_wf; [exact Hwf|lia]).
    pose proof (lb_fill_spec S ltb pol (lb_consume lb consumed) r Hwf1) as Hf.
    destruct (lb_fill ltb pol (lb_consume lb consumed) r) as [d lb2 r2| | |]; auto.
    destruct Hf as ((Hwf2 & Fa & Fp & (more & Fd) & Fdid & Flast) & Habs & Hpos).
    cbn [lb_consume lb_abs] in Habs.
    destruct (wf_buffer lb2 r2 Hwf2) as (Hc1 & Hc2 & Hc3).
    pose proof (wf_lengths lb2 r2 Hwf2) as HL2.
    rewrite Hpos in *. rewrite Nat.sub_0_r in *.
    set (lb1 := lb_consume lb consumed) in *.
    assert (Hrl : length (lb_data (lb_roll lb1)) = length (lb_data lb) - lb_pos lb - consumed).
    { unfold lb_roll. cbn [lb1 lb_consume lb_pos lb_data].
      destruct (Nat.eqb_spec (lb_pos lb + consumed) (length (lb_data lb))) as [E|E]; cbn [lb_data length].
      - lia.
      - rewrite skipn_length. lia. }
    assert (Hd2 : length (lb_data lb2) = length (lb_data (lb_roll lb1)) + length more) by (rewrite Fd; apply app_length).
    split; [exact Hwf2|]. split; [exact Habs|]. cbn zeta. rewrite Hb3, Hc3.
    assert (Hge : lb_abs lb + (lb_llt lb - lb_pos lb) <= lb_abs lb2 + lb_llt lb2).
    { destruct Flast as [(F1 & F2)|(F1 & F2 & F3 & F4)]; lia. }
    split; [exact Hge|]. split; [exact Hc2|]. split; [exact Hc1|].
    split.
    - intros ->. destruct Fdid as [Fdid|Fdid]; [|discriminate].
      symmetry in Fdid. apply Nat.ltb_ge in Fdid.
      destruct Flast as [(F1 & F2)|(F1 & F2 & F3 & F4)]; [|lia].
      rewrite F1 in HL2. cbn [length] in HL2. lia.
    - destruct Flast as [(F1 & F2)|(F1 & F2 & F3 & F4)].
      + left. rewrite F1 in HL2. cbn [length] in HL2. lia.
      + right. split; [lia|].
        pose proof (wf_nth lb2 r2 (lb_llt lb2 - 1) ltb Hwf2 F2) as Hn. rewrite Hpos, Nat.sub_0_r in Hn.
        rewrite <- Hn. f_equal. lia.
  Qed.
End LBWindow.

(* ------------------------------------------------------------------------------------------ 3 *)
Section Preceding.
  Variable ltb : byte.
  Notation terminated := (terminated ltb).

  Lemma rfind_app_nolt' a b : no_lt ltb b -> rfind_byte ltb (a ++ b) = rfind_byte ltb a.
  Proof.
    intro Hb. induction a as [|x a IH]; cbn [app rfind_byte].
    - apply rfind_nolt. exact Hb.
    - rewrite IH. reflexivity.
  Qed.

  Lemma preceding_loop_le : forall count buf pos, preceding_loop ltb buf pos count <= pos.
  Proof.
    induction count as [|c IH]; intros buf pos; cbn [preceding_loop].
    - destruct (rfind_byte ltb (firstn pos buf)) as [i|] eqn:E; [|lia].
      apply rfind_lt in E. rewrite firstn_length in E. lia.
    - destruct (rfind_byte ltb (firstn pos buf)) as [i|] eqn:E; [|lia].
      apply rfind_lt in E. rewrite firstn_length in E.
      destruct (Nat.eqb i 0); [lia|]. specialize (IH buf i). lia.
  Qed.

  Lemma preceding_le buf count : preceding ltb buf count <= length buf.
  Proof.
    unfold preceding, preceding_by_pos. destruct (Nat.eqb (length buf) 0); [lia|].
    match goal with |- preceding_loop _ _ ?p _ <= _ => pose proof (preceding_loop_le count buf p) as H end.
    destruct (match nth_error buf (length buf - 1) with Some b => (b =? ltb)%N | None => false end); lia.
  Qed.

  (* the loop of preceding_by_pos on  pre ++ (whole lines) ++ (a line body) ++ rest, from the end of
     the body: either it stays within the lines, or it ends up in [pre] *)
  Lemma preceding_loop_pre : forall count ls pre body rest,
    Forall terminated ls -> no_lt ltb body ->
    let r := preceding_loop ltb (pre ++ concat ls ++ body ++ rest) (length pre + length (concat ls) + length body) count in
    (count < length ls -> r = length pre + length (concat (firstn (length ls - count) ls))) /\
    (length ls <= count -> r <= length pre).
  Proof.
    induction count as [|c IH]; intros ls pre body rest Hls Hb r.
    - destruct (rev ls) as [|l rl] eqn:Er.
      + apply (f_equal (@rev _)) in Er. rewrite rev_involutive in Er. subst ls. cbn [rev] in *.
        split; [cbn [length]; lia|]. intros _. unfold r. cbn [rev concat app length]. rewrite Nat.add_0_r.
        cbn [preceding_loop].
        replace (length pre + length body) with (length (pre ++ body)) by len.
        rewrite app_assoc, firstn_app_exact. rewrite rfind_app_nolt' by exact Hb.
        destruct (rfind_byte ltb pre) as [i|] eqn:E; [|lia]. apply rfind_lt in E. lia.
      + apply (f_equal (@rev _)) in Er. rewrite rev_involutive in Er. cbn [rev] in Er. subst ls.
        apply Forall_app_inv in Hls as [Hls' Hl]. inversion Hl as [|? ? Ht _]; subst.
        destruct Ht as (bl & -> & Hbl).
        split; [|rewrite app_length; cbn [length]; lia]. intros _.
        rewrite Nat.sub_0_r, firstn_all. unfold r.
        cbn [preceding_loop].
        replace (length pre + length (concat (rev rl ++ [bl ++ [ltb]])) + length body)
          with (length (pre ++ concat (rev rl ++ [bl ++ [ltb]]) ++ body)) by len.
        assert (Hbuf : pre ++ concat (rev rl ++ [bl ++ [ltb]]) ++ body ++ rest =
                       (pre ++ concat (rev rl ++ [bl ++ [ltb]]) ++ body) ++ rest) by now rewrite <- !app_assoc.
        rewrite Hbuf. rewrite firstn_app_exact.
        assert (Hsplit : pre ++ concat (rev rl ++ [bl ++ [ltb]]) ++ body = (pre ++ concat (rev rl) ++ bl) ++ ltb :: body).
        { rewrite concat_app. cbn [concat]. rewrite app_nil_r. rewrite <- !app_assoc. reflexivity. }
        rewrite Hsplit. rewrite rfind_app_term by exact Hb.
        rewrite concat_app. cbn [concat]. len.
    - destruct (rev ls) as [|l rl] eqn:Er.
      + apply (f_equal (@rev _)) in Er. rewrite rev_involutive in Er. subst ls. cbn [rev] in *.
        split; [cbn [length]; lia|]. intros _. unfold r. cbn [rev concat app length]. rewrite Nat.add_0_r.
        cbn [preceding_loop].
        replace (length pre + length body) with (length (pre ++ body)) by len.
        rewrite app_assoc, firstn_app_exact. rewrite rfind_app_nolt' by exact Hb.
        destruct (rfind_byte ltb pre) as [i|] eqn:E; [|lia]. apply rfind_lt in E.
        destruct (Nat.eqb i 0); [lia|].
        pose proof (preceding_loop_le c ((pre ++ body) ++ rest) i). lia.
      + apply (f_equal (@rev _)) in Er. rewrite rev_involutive in Er. cbn [rev] in Er. subst ls.
        apply Forall_app_inv in Hls as [Hls' Hl]. inversion Hl as [|? ? Ht _]; subst.
        destruct Ht as (bl & -> & Hbl).
        unfold r. cbn [preceding_loop].
        replace (length pre + length (concat (rev rl ++ [bl ++ [ltb]])) + length body)
          with (length (pre ++ concat (rev rl ++ [bl ++ [ltb]]) ++ body)) by len.
        assert (Hbuf : pre ++ concat (rev rl ++ [bl ++ [ltb]]) ++ body ++ rest =
                       (pre ++ concat (rev rl ++ [bl ++ [ltb]]) ++ body) ++ rest) by now rewrite <- !app_assoc.
        rewrite Hbuf. rewrite firstn_app_exact. rewrite <- Hbuf.
        assert (Hsplit : pre ++ concat (rev rl ++ [bl ++ [ltb]]) ++ body = (pre ++ concat (rev rl) ++ bl) ++ ltb :: body).
        { rewrite concat_app. cbn [concat]. rewrite app_nil_r. rewrite <- !app_assoc. reflexivity. }
        rewrite Hsplit. rewrite rfind_app_term by exact Hb.
        assert (Hbuf2 : pre ++ concat (rev rl ++ [bl ++ [ltb]]) ++ body ++ rest =
                        pre ++ concat (rev rl) ++ bl ++ (ltb :: body ++ rest)).
        { rewrite concat_app. cbn [concat]. rewrite app_nil_r. rewrite <- !app_assoc. reflexivity. }
        rewrite Hbuf2.
        replace (length (pre ++ concat (rev rl) ++ bl)) with (length pre + length (concat (rev rl)) + length bl) by len.
        destruct (IH (rev rl) pre bl (ltb :: body ++ rest) Hls' Hbl) as [I1 I2]. cbn zeta in I1, I2.
        rewrite app_length. cbn [length].
        destruct (Nat.eqb_spec (length pre + length (concat (rev rl)) + length bl) 0) as [E0|E0].
        * (* the only line is a bare terminator at the very start *)
          assert (Hrl : rev rl = []).
          { destruct (rev rl) as [|y ys] eqn:Ey; [reflexivity|exfalso].
            inversion Hls' as [|? ? Hy _]; subst. apply terminated_length in Hy.
            cbn [concat] in E0. rewrite app_length in E0. lia. }
          rewrite Hrl. cbn [length]. split; [lia|lia].
        * split.
          -- intro Hlt. rewrite I1 by lia.
             replace (length (rev rl) + 1 - S c) with (length (rev rl) - c) by lia.
             rewrite firstn_app. replace (length (rev rl) - c - length (rev rl)) with 0 by lia.
             cbn [firstn]. now rewrite app_nil_r.
          -- intro Hle. apply I2. lia.
  Qed.

  (* lines::preceding on  pre ++ (whole lines): the start of the last count+1 lines, or a position
     within [pre] when there are no more than count+1 lines *)
  Lemma preceding_window ls pre count : Forall terminated ls ->
    let r := preceding ltb (pre ++ concat ls) count in
    (count + 2 <= length ls -> r = length pre + length (concat (firstn (length ls - S count) ls))) /\
    (length ls <= count + 1 -> r <= length pre).
  Proof.
    intros Hls r.
    destruct (rev ls) as [|l rl] eqn:Er.
    - apply (f_equal (@rev _)) in Er. rewrite rev_involutive in Er. subst ls. cbn [rev] in *.
      split; [cbn [length]; lia|]. intros _. unfold r. cbn [concat]. rewrite app_nil_r. apply preceding_le.
    - apply (f_equal (@rev _)) in Er. rewrite rev_involutive in Er. cbn [rev] in Er. subst ls.
      apply Forall_app_inv in Hls as [Hls' Hl]. inversion Hl as [|? ? Ht _]; subst.
      destruct Ht as (bl & -> & Hbl).
      unfold r, preceding, preceding_by_pos.
      rewrite concat_app. cbn [concat]. rewrite app_nil_r.
      set (buf := pre ++ concat (rev rl) ++ bl ++ [ltb]).
      assert (Hlen : length buf = length pre + length (concat (rev rl)) + length bl + 1) by (unfold buf; len).
      destruct (Nat.eqb_spec (length buf) 0) as [E|E]; [lia|].
      assert (Hnth : nth_error buf (length buf - 1) = Some ltb).
      { unfold buf. rewrite !app_assoc. rewrite nth_error_app2 by len.
        match goal with |- nth_error _ ?k = _ => replace k with 0 by len end. reflexivity. }
      rewrite Hnth, N.eqb_refl.
      replace (length buf - 1) with (length pre + length (concat (rev rl)) + length bl) by lia.
      destruct (preceding_loop_pre count (rev rl) pre bl [ltb] Hls' Hbl) as [I1 I2]. cbn zeta in I1, I2.
      fold buf in I1, I2. rewrite app_length. cbn [length].
      split.
      + intro H. rewrite I1 by lia.
        replace (length (rev rl) + 1 - S count) with (length (rev rl) - count) by lia.
        rewrite firstn_app. replace (length (rev rl) - count - length (rev rl)) with 0 by lia.
        cbn [firstn]. now rewrite app_nil_r.
      + intro H. apply I2. lia.
  Qed.
End Preceding.

(* ------------------------------------------------------------------------------------------ 4 *)
Definition set_pend (g : gstate) (p : list pend_line) : gstate :=
  {| g_lnum := g_lnum g; g_off := g_off g; g_pend := p; g_after := g_after g; g_sunk := g_sunk g;
     g_matched := g_matched g; g_stopped := g_stopped g; g_out := g_out g |}.

Section Roll.
  Variable cfg : config.
  Notation ltb := (lt_byte (c_lt cfg)).
  Variable s : bytes.
  Variable A base : nat.
  Variable more : bytes.

  Lemma sub_of_skipn {T} (l : list T) k a b : sub (skipn k l) a b = sub l (k + a) (k + b).
  Proof. unfold sub. rewrite skipn_skipn. f_equal. lia. Qed.

  Lemma firstn_plus {T} (l : list T) a b : firstn (a + b) l = firstn a l ++ firstn b (skipn a l).
  Proof.
    rewrite (firstn_sub l (a + b)), (firstn_sub l a). rewrite (sub_app_adj l 0 a (a + b)) by lia.
    f_equal. unfold sub. f_equal. lia.
  Qed.

  (* pending lines laid out in [s] from [consumed + p] are laid out in the rolled buffer from [p] *)
  Lemma laid_shift consumed : consumed <= length s ->
    forall bls p, laid cfg s A base bls (consumed + p) ->
      laid cfg (skipn consumed s ++ more) (A + consumed) (base + count_lt ltb (firstn consumed s)) bls p.
  Proof.
    intro Hc. induction bls as [|x r IH]; intros p H; [exact I|].
    destruct H as (Hoff & Hsub & Ht & Hb & Hln & Hr). cbn [laid].
    assert (Hlen : length (skipn consumed s) = length s - consumed) by apply skipn_length.
    split; [lia|]. split.
    { rewrite sub_app_l by lia. rewrite sub_of_skipn. rewrite Nat.add_assoc. exact Hsub. }
    split; [exact Ht|]. split; [rewrite app_length; lia|]. split.
    { rewrite Hln. rewrite firstn_plus. rewrite count_lt_app.
      rewrite (firstn_app p). replace (p - length (skipn consumed s)) with 0 by lia. cbn [firstn].
      rewrite app_nil_r. lia. }
    apply IH. rewrite Nat.add_assoc. exact Hr.
  Qed.

  Lemma max_context_0 : max_context cfg = 0 -> any_context cfg = false.
  Proof.
    unfold max_context, any_context. intro H.
    destruct (Nat.ltb_spec 0 (c_before cfg)); [lia|]. destruct (Nat.ltb_spec 0 (c_after cfg)); [lia|]. reflexivity.
  Qed.

  (* Core::roll after a completed search of the buffer: the relation holds again for the rolled
     buffer (whatever is appended to it), for the reference state with the pending lines that
     left the buffer forgotten *)
  Lemma roll_sim c g :
    R cfg s A base c g -> pos c = length s ->
    let consumed := fst (roll cfg c s) in
    let c1 := snd (roll cfg c s) in
    consumed <= length s /\
    exists g1, geq cfg g1 g /\
      R cfg (skipn consumed s ++ more) (A + consumed) (base + count_lt ltb (firstn consumed s)) c1 g1.
  Proof.
    intros (Rpos & Rm & HR0) Hpos.
    pose proof HR0 as [Rabs Rbin Rlog Rafter Rsunk Rlaid Rllv Rllc Rln Rlnum Rap Rale].
    set (P := rev (g_pend g)) in *.
    set (n := length (g_pend g)).
    assert (HnP : length P = n) by (unfold P; apply rev_length).
    set (llv := last_line_visited c) in *.
    assert (Hend : llv + plen P = length s) by lia.
    assert (Hllv : llv <= length s) by lia.
    assert (Hterm : Forall (terminated ltb) (map p_bytes P)) by exact (laid_terminated cfg s A base P llv Rlaid).
    assert (Hs : s = firstn llv s ++ concat (map p_bytes P)).
    { rewrite <- (laid_sub cfg s A base P llv Rlaid). rewrite Hend. rewrite sub_skipn. symmetry. apply firstn_skipn. }
    assert (Hprelen : length (firstn llv s) = llv) by (rewrite firstn_length; lia).
    (* how many of the oldest pending lines leave the buffer *)
    assert (Hk : exists k, fst (roll cfg c s) = llv + plen (firstn k P) /\ k <= n /\
                           (0 < k -> any_context cfg = true -> c_before cfg < n - k)).
    { unfold roll, ltb_. cbn [fst]. fold llv.
      destruct (Nat.eqb_spec (max_context cfg) 0) as [E0|E0].
      - exists n. rewrite <- HnP, firstn_all. split; [lia|]. split; [lia|].
        intros _ Hctx. rewrite (max_context_0 E0) in Hctx. discriminate.
      - destruct (preceding_window ltb (map p_bytes P) (firstn llv s) (max_context cfg) Hterm) as [W1 W2].
        cbn zeta in W1, W2. rewrite <- Hs in W1, W2. rewrite map_length, HnP, Hprelen in W1, W2.
        destruct (Nat.le_gt_cases (max_context cfg + 2) n) as [Hbig|Hsmall].
        + exists (n - S (max_context cfg)). rewrite (W1 Hbig). rewrite firstn_map. fold (plen (firstn (n - S (max_context cfg)) P)).
          fold llv. split; [lia|]. split; [lia|]. intros _ _. assert (c_before cfg <= max_context cfg) by (unfold max_context; lia). lia.
        + exists 0. cbn [firstn]. change (plen []) with 0. fold llv. specialize (W2 ltac:(lia)). split; [lia|]. split; lia. }
    destruct Hk as (k & Hcons & Hkn & Hkeep).
    cbn zeta.
    set (consumed := fst (roll cfg c s)) in *.
    assert (HP : P = firstn k P ++ skipn k P) by (symmetry; apply firstn_skipn).
    assert (Hpl : plen P = plen (firstn k P) + plen (skipn k P)) by (rewrite HP at 1; apply plen_app).
    assert (Hcle : consumed <= length s) by lia.
    split; [exact Hcle|].
    exists (set_pend g (firstn (n - k) (g_pend g))).
    assert (Hrev : rev (firstn (n - k) (g_pend g)) = skipn k P) by (unfold P, n; now rewrite skipn_rev).
    split.
    { unfold geq. cbn [set_pend g_lnum g_off g_after g_sunk g_matched g_stopped g_out g_pend]. geq_fields.
      exists (skipn (n - k) (g_pend g)). split; [symmetry; apply firstn_skipn|].
      intros Hne Hctx. rewrite firstn_length. fold n.
      assert (0 < k).
      { destruct (Nat.eq_dec k 0) as [->|]; [|lia]. exfalso. apply Hne. apply skipn_all2. unfold n. lia. }
      specialize (Hkeep H Hctx). lia. }
    (* the rolled core *)
    destruct (count_lines_spec cfg s base c consumed Rln ltac:(fold llv in Rllc; lia))
      as (C1 & C2 & C3 & C4 & C5 & C6 & C7 & C8 & C9 & C10 & C11 & C12).
    unfold roll. cbn [snd]. unfold ltb_.
    replace (if Nat.eqb (max_context cfg) 0 then length s
             else Nat.max (preceding ltb s (max_context cfg)) (last_line_visited c)) with consumed
      by (unfold consumed, roll, ltb_; reflexivity).
    set (c' := count_lines cfg c s consumed) in *.
    split; [cbn [pos set_pend g_off]; lia|]. split; [cbn [has_matched set_pend g_matched]; congruence|].
    constructor; cbn [abs_off bin_off log after_context_left has_sunk last_line_visited last_line_counted
                      set_pend g_off g_out g_after g_sunk g_pend g_lnum].
    - lia.
    - congruence.
    - congruence.
    - congruence.
    - congruence.
    - rewrite Hrev. apply laid_shift; [exact Hcle|]. rewrite Nat.add_0_r.
      rewrite HP in Rlaid. apply laid_app in Rlaid as [_ Rl2]. rewrite Hcons. exact Rl2.
    - rewrite Hrev. lia.
    - lia.
    - unfold LN in *. cbn [line_number last_line_counted firstn]. rewrite C2.
      destruct (c_line_number cfg); [|reflexivity]. f_equal. change (count_lt ltb []) with 0. lia.
    - rewrite Rlnum. replace (g_off g - A) with (length s) by lia.
      replace (g_off g - (A + consumed)) with (length s - consumed) by lia.
      rewrite firstn_all. rewrite <- (skipn_length consumed s). rewrite firstn_app_exact.
      rewrite <- (firstn_skipn consumed s) at 1. rewrite count_lt_app. lia.
    - intro Ha. rewrite (Rap Ha). now rewrite firstn_nil.
    - exact Rale.
  Qed.
End Roll.

(* ------------------------------------------------------------------------------------------ 5 *)
(* a read history in which no read fails *)
Definition chunks (h : list read_step) : Prop := Forall (fun x => exists n, x = RChunk n) h.

Section FillHist.
  Variable ltb : byte.
  Variable pol : alloc_policy.

  Lemma ensure_none lb : lb_ensure_capacity pol lb = None -> exists limit, pol = AError limit.
  Proof.
    unfold lb_ensure_capacity. destruct (Nat.ltb _ _); [discriminate|].
    destruct pol as [|limit]; [discriminate|]. intros _. eauto.
  Qed.

  Lemma fill_loop_hist : forall fuel lb r, chunks (r_hist r) ->
    match lb_fill_loop fuel ltb pol lb r with
    | FillOk _ _ r2 => chunks (r_hist r2)
    | FillIoErr => False
    | FillAllocErr => exists limit, pol = AError limit
    | FillFuel => True
    end.
  Proof.
    induction fuel as [|f IH]; intros lb r Hh; [exact I|]. cbn [lb_fill_loop].
    destruct (lb_ensure_capacity pol lb) as [lb1|] eqn:Ee; [|exact (ensure_none lb Ee)].
    set (free := lb_cap lb1 - length (lb_data lb1)).
    assert (Hstep : exists n hist', (match r_hist r with [] => (RChunk free, []) | x :: h => (x, h) end) = (RChunk n, hist')
                                    /\ chunks hist').
    { destruct (r_hist r) as [|x h]; [exists free, []; split; [reflexivity|constructor]|].
      inversion Hh as [|? ? (n & ->) Hh']; subst. exists n, h. split; [reflexivity|exact Hh']. }
    destruct Hstep as (n & hist' & -> & Hh').
    destruct (Nat.eqb _ 0); [exact Hh'|].
    destruct (rfind_byte ltb _); [exact Hh'|].
    apply IH. exact Hh'.
  Qed.
End FillHist.

Section Reader.
  Variable cfg : config.
  Variable M : matcher.
  Hypothesis Hbin : c_binary cfg = BNone.
  (* the contract of find_by_line_fast, on every buffer — only needed if the fast path can be taken *)
  Hypothesis Hfind : forall buf, (exists c, is_line_by_line_fast cfg M c = true) -> find_spec cfg M buf.
  Variable pol : alloc_policy.
  Variable S : bytes.                     (* the whole stream *)
  Notation ltb := (lt_byte (c_lt cfg)).
  Notation K := (fun _ : nat => Continue).
  Notation gstep := (g_step cfg (m_is_match M)).
  Notation gfin := (fold_left gstep (split_lines ltb S) g_init).

  (* the end of the buffer in stream coordinates *)
  Definition E_of (lb : linebuf) : nat := lb_abs lb + length (lb_buffer lb).

  Lemma wf_E lb r : lb_wf S lb r -> E_of lb <= length S /\ lb_buffer lb = sub S (lb_abs lb) (E_of lb).
  Proof.
    intro H. destruct (wf_buffer S lb r H) as (H1 & H2 & H3). unfold E_of. rewrite H3. auto.
  Qed.

  (* ReadByLine::fill, in stream coordinates *)
  Lemma rbl_fill_shape c lb r :
    lb_wf S lb r -> chunks (r_hist r) -> fst (roll cfg c (lb_buffer lb)) <= length (lb_buffer lb) ->
    let consumed := fst (roll cfg c (lb_buffer lb)) in
    let c1 := snd (roll cfg c (lb_buffer lb)) in
    match rbl_fill cfg pol c lb r with
    | RFErr _ => exists limit, pol = AError limit
    | RFFuel => False
    | RF go c' lb2 r2 =>
      c' = c1 /\ chunks (r_hist r2) /\
      if go then
        lb_wf S lb2 r2 /\ lb_abs lb2 = lb_abs lb + consumed /\
        E_of lb <= E_of lb2 /\ E_of lb2 <= length S /\
        (E_of lb2 = length S \/ (E_of lb < E_of lb2 /\ nth_error S (E_of lb2 - 1) = Some ltb)) /\
        0 < consumed + (E_of lb2 - E_of lb)
      else lb_abs lb2 = length S /\ E_of lb = length S
    end.
  Proof.
    intros Hwf Hh Hc. cbn zeta. unfold rbl_fill.
    destruct (roll cfg c (lb_buffer lb)) as [consumed c1] eqn:Er. cbn [fst snd] in *.
    pose proof (fill_round S ltb pol lb r consumed Hwf Hc) as Hf.
    pose proof (fill_loop_hist ltb pol (Datatypes.S (Datatypes.S (length (r_rest r)))) (lb_roll (lb_consume lb consumed)) r Hh) as Hhist.
    unfold lb_fill in *.
    destruct (lb_fill_loop _ ltb pol (lb_roll (lb_consume lb consumed)) r) as [d lb2 r2| | |];
      [|contradiction|exact Hhist|contradiction].
    destruct Hf as (Hwf2 & Habs & HE1 & HE2 & Hbuf & Hd & Hlast). fold (E_of lb) (E_of lb2) in *.
    destruct d; cbn [negb].
    - destruct (Nat.eqb_spec consumed 0) as [E0|E0]; cbn [andb].
      + destruct (Nat.eqb_spec (length (lb_buffer lb)) (length (lb_buffer lb2))) as [El|El].
        * split; [reflexivity|]. split; [exact Hhist|]. cbn [lb_consume lb_abs].
          assert (E_of lb2 = E_of lb) by (unfold E_of; lia).
          destruct Hlast as [Hl|[Hl _]]; [|lia]. unfold E_of in *. lia.
        * split; [reflexivity|]. split; [exact Hhist|]. split; [exact Hwf2|]. split; [exact Habs|].
          split; [exact HE1|]. split; [exact HE2|]. split; [exact Hlast|]. unfold E_of in *. lia.
      + split; [reflexivity|]. split; [exact Hhist|]. split; [exact Hwf2|]. split; [exact Habs|].
        split; [exact HE1|]. split; [exact HE2|]. split; [exact Hlast|]. lia.
    - split; [reflexivity|]. split; [exact Hhist|]. destruct (Hd eq_refl) as [Hd1 Hd2].
      split; [lia|]. unfold E_of in *. lia.
  Qed.

  (* ---- the end-of-input rounds: everything has been searched, nothing more may be delivered ---- *)
  Lemma acl_count_lines c buf u : after_context_left (count_lines cfg c buf u) = after_context_left c.
  Proof. unfold count_lines. destruct (line_number c); [destruct (Nat.leb _ _)|]; reflexivity. Qed.

  Lemma roll_tail c s : pos c = length s -> tailok c ->
    let consumed := fst (roll cfg c s) in
    let c1 := snd (roll cfg c s) in
    consumed <= length s /\ pos c1 = length s - consumed /\ tailok c1 /\ log c1 = log c /\ bin_off c1 = bin_off c.
  Proof.
    intros Hpos (Hl1 & Hl2). unfold roll. cbn [fst snd]. unfold ltb_.
    set (consumed := if Nat.eqb (max_context cfg) 0 then length s
                     else Nat.max (preceding ltb s (max_context cfg)) (last_line_visited c)).
    assert (Hc : consumed <= length s).
    { unfold consumed. destruct (Nat.eqb (max_context cfg) 0); [lia|].
      pose proof (preceding_le ltb s (max_context cfg)). lia. }
    split; [exact Hc|]. split; [reflexivity|].
    split; [|split; [cbn [log]; apply log_count_lines|cbn [bin_off]; apply count_lines_bin]].
    unfold tailok. cbn [last_line_visited pos after_context_left]. rewrite acl_count_lines.
    split; [lia|]. destruct Hl2 as [Hl2|Hl2]; [left; exact Hl2|right].
    assert (consumed = length s); [|lia].
    unfold consumed. destruct (Nat.eqb (max_context cfg) 0); [reflexivity|].
    pose proof (preceding_le ltb s (max_context cfg)). lia.
  Qed.

  Lemma mbl_tail c s : pos c = length s -> tailok c ->
    exists c', match_by_line cfg M K false c s = OK true c' /\ log c' = log c /\ bin_off c' = bin_off c /\
               pos c' = length s /\ tailok c'.
  Proof.
    intros Hpos (Hl1 & Hl2).
    assert (Hafter : after_context_by_line cfg K false c s (length s) = OK true c).
    { unfold after_context_by_line. destruct (Nat.eqb_spec (after_context_left c) 0) as [E0|E0]; [reflexivity|].
      destruct Hl2 as [Hl2|Hl2]; [contradiction|].
      cbn [after_loop]. unfold ltb_. rewrite line_step_end by lia. reflexivity. }
    unfold match_by_line. destruct (is_line_by_line_fast cfg M c).
    - unfold match_by_line_fast. cbn [fast_loop]. rewrite Hpos, Nat.leb_refl. rewrite Hafter. cbn [lift_stop].
      exists (set_pos c (length s)). split; [reflexivity|]. split; [reflexivity|]. split; [reflexivity|].
      split; [reflexivity|]. unfold tailok. cbn [last_line_visited pos after_context_left set_pos]. split; [lia|].
      destruct Hl2; [left; assumption|right; lia].
    - unfold match_by_line_slow. cbn [slow_loop]. unfold ltb_. rewrite line_step_end by lia.
      exists c. split; [reflexivity|]. split; [reflexivity|]. split; [reflexivity|]. split; [exact Hpos|].
      split; assumption.
  Qed.

  (* ---- the invariants of the loop of ReadByLine::run ---- *)
  (* the buffer holds whole lines; the lines [done] of the stream up to its end have been searched *)
  Definition MainInv (c : core) (lb : linebuf) : Prop :=
    exists base done rest g1,
      split_lines ltb S = done ++ rest /\ Forall (terminated ltb) done /\
      E_of lb = length (concat done) /\
      R cfg (lb_buffer lb) (lb_abs lb) base c g1 /\
      geq cfg g1 (fold_left gstep done g_init) /\
      g_stopped (fold_left gstep done g_init) = false /\
      pos c = length (lb_buffer lb).

  (* every line of the stream has been searched, the last one being unterminated *)
  Definition TailInv (c : core) (lb : linebuf) : Prop :=
    E_of lb = length S /\ pos c = length (lb_buffer lb) /\ tailok c /\
    log c = g_out gfin ++ [EBegin] /\ bin_off c = None /\ g_stopped gfin = false.

  Lemma done_last_byte done X : Forall (terminated ltb) done -> done <> [] ->
    nth_error (concat done ++ X) (length (concat done) - 1) = Some ltb.
  Proof.
    intros Hd Hne. destruct (rev done) as [|l rl] eqn:Er.
    { apply (f_equal (@rev _)) in Er. rewrite rev_involutive in Er. cbn [rev] in Er. congruence. }
    apply (f_equal (@rev _)) in Er. rewrite rev_involutive in Er. cbn [rev] in Er. subst done.
    apply Forall_app in Hd as [_ Hl]. inversion Hl as [|? ? Ht _]; subst.
    destruct Ht as (body & -> & _).
    rewrite concat_app. cbn [concat]. rewrite app_nil_r.
    rewrite (app_assoc _ body). set (Y := concat (rev rl) ++ body).
    rewrite <- app_assoc. rewrite nth_error_app2 by len.
    replace (length (Y ++ [ltb]) - 1 - length Y) with 0 by len. reflexivity.
  Qed.

  Lemma main_roll_le c lb : MainInv c lb -> fst (roll cfg c (lb_buffer lb)) <= length (lb_buffer lb).
  Proof.
    intros (base & done & rest & g1 & HL & Hdone & HE & HR & Hgeq & Hns & Hpos).
    exact (proj1 (roll_sim cfg (lb_buffer lb) (lb_abs lb) base [] c g1 HR Hpos)).
  Qed.

  Lemma tail_roll_le c lb : TailInv c lb -> fst (roll cfg c (lb_buffer lb)) <= length (lb_buffer lb).
  Proof. intros (HE & Hpos & Htl & _). exact (proj1 (roll_tail c (lb_buffer lb) Hpos Htl)). Qed.

  (* one round in the main mode: roll, refill, search the new lines *)
  Lemma main_step c lb r lb2 r2 :
    MainInv c lb -> lb_wf S lb r -> lb_wf S lb2 r2 ->
    let consumed := fst (roll cfg c (lb_buffer lb)) in
    let c1 := snd (roll cfg c (lb_buffer lb)) in
    lb_abs lb2 = lb_abs lb + consumed -> E_of lb <= E_of lb2 -> E_of lb2 <= length S ->
    (E_of lb2 = length S \/ (E_of lb < E_of lb2 /\ nth_error S (E_of lb2 - 1) = Some ltb)) ->
    exists b c', match_by_line cfg M K false c1 (lb_buffer lb2) = OK b c' /\
      ((b = false /\ log c' = g_out gfin ++ [EBegin] /\ bin_off c' = None /\ g_stopped gfin = true /\
        lb_abs lb2 <= g_off gfin) \/
       (b = true /\ (MainInv c' lb2 \/ TailInv c' lb2))).
  Proof.
    intros (base & done & rest & g1 & HL & Hdone & HE & HR & Hgeq & Hns & Hpos) Hwf Hwf2.
    cbn zeta. intros Habs HE1 HE2 Hlast.
    destruct (wf_E lb r Hwf) as (HEle & Hbuf). destruct (wf_E lb2 r2 Hwf2) as (_ & Hbuf2).
    remember (lb_buffer lb) as s eqn:Es. remember (lb_abs lb) as A eqn:EA.
    remember (E_of lb) as E eqn:EE. remember (E_of lb2) as E2 eqn:EE2.
    assert (Hlen : length s = E - A) by (subst E; unfold E_of; rewrite <- Es, <- EA; lia).
    assert (HAE : A <= E) by (subst E; unfold E_of; lia).
    destruct (roll_sim cfg s A base (sub S E E2) c g1 HR Hpos) as (Hcle & g1' & Hgeq' & HR').
    remember (fst (roll cfg c s)) as consumed eqn:Econs. remember (snd (roll cfg c s)) as c1 eqn:Ec1.
    (* the new buffer *)
    assert (Hs1 : lb_buffer lb2 = skipn consumed s ++ sub S E E2).
    { rewrite Hbuf2, Habs. rewrite (sub_app_adj S (A + consumed) E E2) by lia. f_equal.
      rewrite Hbuf. now rewrite skipn_sub. }
    rewrite <- Hs1, <- Habs in HR'.
    remember (lb_buffer lb2) as s1 eqn:Es1.
    remember (base + count_lt ltb (firstn consumed s)) as base1 eqn:Eb1.
    assert (Hlen1 : length s1 = E2 - (A + consumed)).
    { rewrite Hs1, app_length, skipn_length, sub_length by lia. lia. }
    (* the scan position *)
    pose proof HR as (Rpos & _ & _). pose proof HR' as (Rpos' & _ & _).
    pose proof Hgeq' as (_ & Goff' & _ & _ & _ & Gst' & _).
    pose proof Hgeq as (_ & _ & _ & _ & _ & Gst & _).
    assert (Hpos1 : pos c1 = length s - consumed) by lia.
    (* the lines of the stream *)
    assert (HS : S = concat done ++ concat rest).
    { rewrite <- concat_app, <- HL. symmetry. apply split_lines_concat. }
    assert (Hrest : concat rest = skipn E S).
    { rewrite HS at 1. rewrite HE. rewrite skipn_app, skipn_all, Nat.sub_diag. reflexivity. }
    assert (Hrestlen : length (concat rest) = length S - E) by (rewrite Hrest; apply skipn_length).
    assert (Hshape : lines_shape ltb rest).
    { apply (lines_shape_app_r ltb done). rewrite <- HL. apply split_lines_shape. }
    destruct (prefix_lines ltb rest Hshape (E2 - E)) as (newl & rest' & Hrest' & Hnew & Hterm).
    { destruct Hlast as [Hl|[Hl1 Hl2]]; [right; left; lia|right; right].
      split; [lia|]. split; [lia|]. rewrite Hrest, nth_error_skipn. rewrite <- Hl2. f_equal. lia. }
    assert (Hmore : sub S E E2 = concat newl) by (rewrite <- Hnew, Hrest; reflexivity).
    assert (Hnewlen : length (concat newl) = E2 - E) by (rewrite <- Hmore; apply sub_length; lia).
    assert (Hshape' : lines_shape ltb newl) by (apply (lines_shape_prefix ltb newl rest'); now rewrite <- Hrest').
    assert (Hat : lines_at cfg s1 newl (pos c1)).
    { apply lines_at_shape; [exact Hshape'|lia|].
      rewrite Hs1, Hpos1, skipn_app, skipn_length. rewrite skipn_all2 by (rewrite skipn_length; lia).
      replace (length s - consumed - (length s - consumed)) with 0 by lia. cbn [skipn app]. symmetry. exact Hmore. }
    assert (Hbnd : newl <> [] -> bnd cfg s1 (pos c1)).
    { intros _. destruct (Nat.eq_dec (pos c1) 0) as [E0|E0]; [left; exact E0|right].
      assert (Hdne : done <> []).
      { intro Ed. rewrite Ed in HE. cbn [concat length] in HE. lia. }
      pose proof (done_last_byte done (concat rest) Hdone Hdne) as Hlb. rewrite <- HS, <- HE in Hlb.
      rewrite Hs1. rewrite nth_error_app1 by (rewrite skipn_length; lia).
      rewrite nth_error_skipn. rewrite Hbuf. rewrite nth_error_sub by lia. rewrite <- Hlb. f_equal. lia. }
    assert (Hns1 : g_stopped g1' = false) by congruence.
    destruct (match_by_line_sim cfg M Hbin s1 (lb_abs lb2) base1 false (Hfind s1) c1 g1' newl HR' Hns1 Hat Hbnd)
      as (b & c' & Hrun & Hfin & Htrue & Hfalse & HRf).
    exists b, c'. split; [exact Hrun|].
    (* the reference states *)
    set (G := fold_left gstep newl g1') in *.
    set (Gt := fold_left gstep (done ++ newl) g_init).
    assert (HG : geq cfg G Gt).
    { unfold G, Gt. rewrite fold_left_app. apply geq_fold. exact (geq_trans cfg _ _ _ Hgeq' Hgeq). }
    assert (Hgfin : gfin = fold_left gstep rest' Gt).
    { unfold Gt. rewrite HL, Hrest', app_assoc. apply fold_left_app. }
    pose proof HG as (_ & GGoff & _ & _ & _ & GGst & GGout & _).
    destruct Hfin as (Fpos & Flog & Fbin).
    destruct b.
    - right. split; [reflexivity|]. destruct (Htrue eq_refl) as (T1 & T2 & T3).
      assert (Hpos' : pos c' = length s1) by lia.
      destruct Hterm as [Hall|Hr0].
      + left. exists base1, (done ++ newl), rest', G.
        split; [rewrite HL, Hrest'; now rewrite app_assoc|].
        split; [apply Forall_app; split; assumption|].
        split; [rewrite <- EE2, concat_app, app_length; lia|].
        split; [rewrite <- Es1; exact (HRf eq_refl Hall)|].
        split; [exact HG|]. split; [fold Gt; congruence|]. rewrite <- Es1. exact Hpos'.
      + right. subst rest'. rewrite app_nil_r in Hrest'. subst newl.
        unfold TailInv. rewrite <- EE2, <- Es1.
        split; [lia|]. split; [exact Hpos'|]. split; [exact T3|].
        cbn [fold_left] in Hgfin. rewrite Hgfin.
        split; [rewrite Flog, GGout; reflexivity|]. split; [exact Fbin|]. congruence.
    - left. split; [reflexivity|]. pose proof (Hfalse eq_refl) as Hst.
      assert (Hgt : g_stopped Gt = true) by congruence.
      rewrite Hgfin. rewrite (fold_stopped cfg M rest' Gt Hgt).
      split; [rewrite Flog, GGout; reflexivity|]. split; [exact Fbin|]. split; [exact Hgt|]. lia.
  Qed.

  (* one round in the tail mode *)
  Lemma tail_step c lb r lb2 r2 :
    TailInv c lb -> lb_wf S lb r -> lb_wf S lb2 r2 ->
    let consumed := fst (roll cfg c (lb_buffer lb)) in
    let c1 := snd (roll cfg c (lb_buffer lb)) in
    lb_abs lb2 = lb_abs lb + consumed -> E_of lb <= E_of lb2 -> E_of lb2 <= length S ->
    exists c', match_by_line cfg M K false c1 (lb_buffer lb2) = OK true c' /\ TailInv c' lb2.
  Proof.
    intros (HE & Hpos & Htl & Hlog & Hbin0 & Hnst) Hwf Hwf2. cbn zeta. intros Habs HE1 HE2.
    destruct (roll_tail c (lb_buffer lb) Hpos Htl) as (Hc & Hp1 & Htl1 & Hlog1 & Hbin1).
    assert (HE2' : E_of lb2 = length S) by lia.
    assert (Hp1' : pos (snd (roll cfg c (lb_buffer lb))) = length (lb_buffer lb2)).
    { rewrite Hp1. unfold E_of in *. lia. }
    destruct (mbl_tail _ (lb_buffer lb2) Hp1' Htl1) as (c' & Hrun & Hlog' & Hbin' & Hpos' & Htl').
    exists c'. split; [exact Hrun|]. unfold TailInv.
    split; [exact HE2'|]. split; [exact Hpos'|]. split; [exact Htl'|]. split; [congruence|]. split; [congruence|exact Hnst].
  Qed.

  Lemma log_roll c s : log (snd (roll cfg c s)) = log c.
  Proof. unfold roll. cbn [snd log]. apply log_count_lines. Qed.
  Lemma bin_roll c s : bin_off (snd (roll cfg c s)) = bin_off c.
  Proof. unfold roll. cbn [snd bin_off]. apply count_lines_bin. Qed.

  (* when the buffer reaches the end of the stream in the main mode, every line has been searched *)
  Lemma main_end c lb r : MainInv c lb -> lb_wf S lb r -> E_of lb = length S ->
    log c = g_out gfin ++ [EBegin] /\ bin_off c = None /\ g_stopped gfin = false.
  Proof.
    intros (base & done & rest & g1 & HL & Hdone & HE & HR & Hgeq & Hns & Hpos) Hwf HEnd.
    assert (Hshape : lines_shape ltb rest).
    { apply (lines_shape_app_r ltb done). rewrite <- HL. apply split_lines_shape. }
    assert (Hrest : rest = []).
    { apply (shape_concat_nil ltb rest Hshape).
      pose proof (split_lines_concat ltb S) as Hc. rewrite HL, concat_app in Hc.
      pose proof (f_equal (@length _) Hc) as Hlen. rewrite app_length in Hlen.
      destruct (concat rest); [reflexivity|cbn [length] in Hlen; lia]. }
    rewrite Hrest, app_nil_r in HL. rewrite HL.
    destruct HR as (_ & _ & [Rabs Rbin Rlog Rafter Rsunk Rlaid Rllv Rllc Rln Rlnum Rap Rale]).
    destruct Hgeq as (_ & _ & _ & _ & _ & _ & Gout & _).
    split; [congruence|]. split; [exact Rbin|exact Hns].
  Qed.

  (* ---- the loop ---- *)
  Definition mu (lb : linebuf) : nat := (length S - lb_abs lb) + (length S - E_of lb).

  Definition end_ok (res : outcome * linebuf) : Prop :=
    (exists b c, fst res = OK b c /\ log c = g_out gfin ++ [EBegin] /\ bin_off c = None /\
                 (g_stopped gfin = false -> lb_abs (snd res) = length S) /\ lb_abs (snd res) <= g_off gfin) \/
    ((exists limit, pol = AError limit) /\ exists c, fst res = ERR c).

  Lemma fold_not_stopped : forall ls g, g_stopped (fold_left gstep ls g) = false ->
    g_stopped g = false /\ g_off (fold_left gstep ls g) = g_off g + length (concat ls).
  Proof.
    induction ls as [|l r IH]; intros g H; [cbn in *; split; [exact H|lia]|].
    cbn [fold_left concat] in *. destruct (IH _ H) as (H1 & H2).
    destruct (g_stopped g) eqn:Eg.
    - exfalso. unfold g_step, g_step_s in H1. rewrite Eg in H1. congruence.
    - split; [reflexivity|]. rewrite H2, (g_step_off cfg M g l Eg), app_length. lia.
  Qed.

  Lemma gfin_off : g_stopped gfin = false -> g_off gfin = length S.
  Proof.
    intro H. destruct (fold_not_stopped _ _ H) as (_ & Ho). rewrite Ho, split_lines_concat. reflexivity.
  Qed.

  Lemma rbl_loop_ok : forall fuel c lb r,
    lb_wf S lb r -> chunks (r_hist r) -> MainInv c lb \/ TailInv c lb -> mu lb < fuel ->
    end_ok (rbl_loop cfg M K pol fuel c lb r).
  Proof.
    induction fuel as [|f IH]; intros c lb r Hwf Hh Hmode Hmu; [lia|].
    cbn [rbl_loop].
    assert (Hcle : fst (roll cfg c (lb_buffer lb)) <= length (lb_buffer lb)).
    { destruct Hmode as [Hm|Ht]; [exact (main_roll_le c lb Hm)|exact (tail_roll_le c lb Ht)]. }
    pose proof (rbl_fill_shape c lb r Hwf Hh Hcle) as Hshape. cbn zeta in Hshape.
    destruct (rbl_fill cfg pol c lb r) as [go c1 lb2 r2|c1|].
    - destruct Hshape as (-> & Hh2 & Hgo). destruct go.
      + destruct Hgo as (Hwf2 & Habs & HE1 & HE2 & Hlast & Hprog).
        assert (Hmu2 : mu lb2 < f).
        { assert (lb_abs lb + fst (roll cfg c (lb_buffer lb)) <= E_of lb) by (unfold E_of; lia).
          unfold mu in *. rewrite Habs. lia. }
        destruct Hmode as [Hm|Ht].
        * destruct (main_step c lb r lb2 r2 Hm Hwf Hwf2 Habs HE1 HE2 Hlast) as (b & c' & Hrun & Hcase).
          rewrite Hrun. destruct Hcase as [(-> & Hlog & Hbin' & Hst & Hle)|(-> & Hinv)].
          -- left. exists false, c'. cbn [fst snd]. split; [reflexivity|]. split; [exact Hlog|].
             split; [exact Hbin'|]. split; [intro Hns; congruence|exact Hle].
          -- apply IH; assumption.
        * destruct (tail_step c lb r lb2 r2 Ht Hwf Hwf2 Habs HE1 HE2) as (c' & Hrun & Hinv).
          rewrite Hrun. apply IH; auto.
      + destruct Hgo as (Habs & HEnd). left. exists false, (snd (roll cfg c (lb_buffer lb))). cbn [fst snd].
        split; [reflexivity|]. rewrite log_roll, bin_roll.
        assert (Hfacts : log c = g_out gfin ++ [EBegin] /\ bin_off c = None /\ g_stopped gfin = false).
        { destruct Hmode as [Hm|Ht]; [exact (main_end c lb r Hm Hwf HEnd)|].
          destruct Ht as (_ & _ & _ & Hl & Hb & Hn). auto. }
        destruct Hfacts as (Hl & Hb & Hn). split; [exact Hl|]. split; [exact Hb|].
        split; [intros _; exact Habs|]. rewrite (gfin_off Hn). lia.
    - right. split; [exact Hshape|]. exists c1. reflexivity.
    - contradiction.
  Qed.

  Lemma main_init cap : MainInv (set_log (core_new cfg) [EBegin]) (lb_new cap).
  Proof.
    exists 0, [], (split_lines ltb S), g_init.
    split; [reflexivity|]. split; [constructor|]. split; [reflexivity|].
    split; [exact (R_init cfg [])|]. split; [apply geq_refl|]. split; reflexivity.
  Qed.

  (* ReadByLine::run *)
  Theorem reader_run_proof cap hist : chunks hist ->
    (exists n, read_by_line_run cfg M K pol cap S hist = RunOk (EBegin :: rev (g_out gfin) ++ [EFinish n None]) /\
               (g_stopped gfin = false -> n = length S) /\ n <= g_off gfin) \/
    ((exists limit, pol = AError limit) /\ exists evs, read_by_line_run cfg M K pol cap S hist = RunErr evs).
  Proof.
    intro Hh. unfold read_by_line_run. rewrite emit_K.
    change (log (core_new cfg)) with (@nil event).
    pose proof (rbl_loop_ok (2 * length S + 4) (set_log (core_new cfg) [EBegin]) (lb_new cap)
                  {| r_rest := S; r_hist := hist |} (wf_init S cap hist) Hh (or_introl (main_init cap))) as Hloop.
    destruct (rbl_loop cfg M K pol (2 * length S + 4) (set_log (core_new cfg) [EBegin]) (lb_new cap)
                {| r_rest := S; r_hist := hist |}) as [o lb].
    destruct Hloop as [(b & c & Ho & Hlog & Hb & Hn & Hle)|(Hpol & c & Ho)].
    { unfold mu, E_of. cbn. lia. }
    - cbn [fst snd] in *. subst o. left. exists (lb_abs lb). split; [|split; [exact Hn|exact Hle]].
      unfold finish. rewrite Hb, Hlog. cbn [rev]. rewrite rev_app_distr. reflexivity.
    - cbn [fst] in Ho. subst o. right. split; [exact Hpol|]. eauto.
  Qed.
End Reader.

(* ------------------------------------------------------------------------------------------ 6 *)
Lemma no_stop_config cfg im : c_stop_on_nonmatch cfg = false ->
  forall ls g, g_stopped g = false -> g_stopped (fold_left (g_step cfg im) ls g) = false.
Proof.
  intro Hc. induction ls as [|l r IH]; intros g Hg; [exact Hg|]. cbn [fold_left]. apply IH.
  unfold g_step, g_step_s. rewrite Hg, Hc. cbn [andb].
  destruct (negb _); [reflexivity|]. destruct (Nat.leb 1 (g_after g)); [reflexivity|].
  destruct (c_passthru cfg); reflexivity.
Qed.

(* the reader strategy with the growing buffer (the allocation never fails) *)
Theorem reader_eq_ref_proof :
  forall (cfg : config) (M : matcher), c_binary cfg = BNone -> (forall buf, find_spec cfg M buf) ->
  forall (cap : nat) (stream : bytes) (hist : list read_step), chunks hist ->
  let gf := g_run cfg (m_is_match M) (split_lines (lt_byte (c_lt cfg)) stream) in
  exists n, read_by_line_run cfg M (fun _ => Continue) AEager cap stream hist
            = RunOk (EBegin :: rev (g_out gf) ++ [EFinish n None]) /\
            (g_stopped gf = false -> n = length stream) /\ n <= g_off gf.
Proof.
  intros cfg M Hbin Hfind cap stream hist Hh gf.
  destruct (reader_run_proof cfg M Hbin (fun b _ => Hfind b) AEager stream cap hist Hh) as [H|((limit & Hl) & _)];
    [exact H|discriminate].
Qed.

(* any allocation policy: the same, or the run ends with the allocation error *)
Theorem reader_eq_ref_any_policy_proof :
  forall (cfg : config) (M : matcher), c_binary cfg = BNone -> (forall buf, find_spec cfg M buf) ->
  forall (pol : alloc_policy) (cap : nat) (stream : bytes) (hist : list read_step), chunks hist ->
  let gf := g_run cfg (m_is_match M) (split_lines (lt_byte (c_lt cfg)) stream) in
  (exists n, read_by_line_run cfg M (fun _ => Continue) pol cap stream hist
             = RunOk (EBegin :: rev (g_out gf) ++ [EFinish n None]) /\
             (g_stopped gf = false -> n = length stream) /\ n <= g_off gf) \/
  ((exists limit, pol = AError limit) /\
   exists evs, read_by_line_run cfg M (fun _ => Continue) pol cap stream hist = RunErr evs).
Proof.
  intros cfg M Hbin Hfind pol cap stream hist Hh gf.
  exact (reader_run_proof cfg M Hbin (fun b _ => Hfind b) pol stream cap hist Hh).
Qed.

(* a search that is not cut short by stop-on-nonmatch: the reference itself, byte count included *)
Theorem reader_complete_eq_ref_proof :
  forall (cfg : config) (M : matcher), c_binary cfg = BNone -> (forall buf, find_spec cfg M buf) ->
  forall (cap : nat) (stream : bytes) (hist : list read_step), chunks hist ->
  g_stopped (g_run cfg (m_is_match M) (split_lines (lt_byte (c_lt cfg)) stream)) = false ->
  read_by_line_run cfg M (fun _ => Continue) AEager cap stream hist = RunOk (grep_ref cfg (m_is_match M) stream).
Proof.
  intros cfg M Hbin Hfind cap stream hist Hh Hns.
  destruct (reader_eq_ref_proof cfg M Hbin Hfind cap stream hist Hh) as (n & Hrun & Hn & _).
  rewrite Hrun. unfold grep_ref. rewrite (Hn Hns).
  unfold g_run in *. rewrite (gfin_off cfg M stream Hns). reflexivity.
Qed.

(* reader strategy = slice strategy *)
Theorem reader_eq_slice_proof :
  forall (cfg : config) (M : matcher), c_binary cfg = BNone -> (forall buf, find_spec cfg M buf) ->
  forall (cap : nat) (stream : bytes) (hist : list read_step), chunks hist ->
  exists evs n m,
    read_by_line_run cfg M (fun _ => Continue) AEager cap stream hist = RunOk (evs ++ [EFinish n None]) /\
    slice_by_line_run cfg M (fun _ => Continue) stream = RunOk (evs ++ [EFinish m None]) /\
    n <= m /\
    (g_stopped (g_run cfg (m_is_match M) (split_lines (lt_byte (c_lt cfg)) stream)) = false -> n = m).
Proof.
  intros cfg M Hbin Hfind cap stream hist Hh.
  destruct (reader_eq_ref_proof cfg M Hbin Hfind cap stream hist Hh) as (n & Hrun & Hn & Hle).
  set (gf := g_run cfg (m_is_match M) (split_lines (lt_byte (c_lt cfg)) stream)) in *.
  exists (EBegin :: rev (g_out gf)), n, (g_off gf).
  split; [exact Hrun|]. split; [exact (slice_eq_ref_proof cfg M Hbin stream (Hfind stream))|].
  split; [exact Hle|]. intro Hns. rewrite (Hn Hns). unfold gf, g_run in *. now rewrite (gfin_off cfg M stream Hns).
Qed.

Theorem reader_eq_slice_complete_proof :
  forall (cfg : config) (M : matcher), c_binary cfg = BNone -> (forall buf, find_spec cfg M buf) ->
  c_stop_on_nonmatch cfg = false ->
  forall (cap : nat) (stream : bytes) (hist : list read_step), chunks hist ->
  read_by_line_run cfg M (fun _ => Continue) AEager cap stream hist
  = slice_by_line_run cfg M (fun _ => Continue) stream.
Proof.
  intros cfg M Hbin Hfind Hstop cap stream hist Hh.
  rewrite (slice_eq_ref_proof cfg M Hbin stream (Hfind stream)).
  apply reader_complete_eq_ref_proof; auto.
  unfold g_run. apply no_stop_config; [exact Hstop|reflexivity].
Qed.

(* the slow line path (passthru, or a matcher that does not advertise the line terminator): every
   matcher, no contract needed *)
Theorem reader_slow_eq_ref_proof :
  forall (cfg : config) (M : matcher), c_binary cfg = BNone ->
  (forall c, is_line_by_line_fast cfg M c = false) ->
  forall (cap : nat) (stream : bytes) (hist : list read_step), chunks hist ->
  let gf := g_run cfg (m_is_match M) (split_lines (lt_byte (c_lt cfg)) stream) in
  exists n, read_by_line_run cfg M (fun _ => Continue) AEager cap stream hist
            = RunOk (EBegin :: rev (g_out gf) ++ [EFinish n None]) /\
            (g_stopped gf = false -> n = length stream) /\ n <= g_off gf.
Proof.
  intros cfg M Hbin Hslow cap stream hist Hh gf.
  assert (Hfind : forall buf, (exists c, is_line_by_line_fast cfg M c = true) -> find_spec cfg M buf).
  { intros buf (c & Hc). rewrite Hslow in Hc. discriminate. }
  destruct (reader_run_proof cfg M Hbin Hfind AEager stream cap hist Hh) as [H|((limit & Hl) & _)];
    [exact H|discriminate].
Qed.
