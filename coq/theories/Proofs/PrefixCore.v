(* Proofs/PrefixCore.v — the prefix law (Proofs/PrefixLaw.v) for the functions of
   Model/SearcherCore.v that return `outcome`, and for SliceByLine::run on the slow path. *)
From RG Require Import Base.Bytes Model.Lines Model.SearcherCore Model.Glue Proofs.PrefixLaw.

Lemma good_emit_dep (e : core -> event) (u : core -> core) :
  (forall c, log (u c) = log c) -> Good (fun r c => emit r (u c) (e (u c))).
Proof.
  intros Hu r c. unfold emit at 1. cbn. rewrite Hu. split; [exists [e (u c)]; reflexivity|]. split.
  - intro Q. unfold emit. rewrite Hu. rewrite (Q (length (log c))) by (cbn; lia). reflexivity.
  - intros k Hk Q Hr. assert (k = length (log c)) by (cbn in Hk; lia). subst k.
    unfold cut_result, emit. rewrite Hu.
    exists (set_log (u c) (e (u c) :: log c)). cbn [log set_log length].
    replace (S (length (log c)) - S (length (log c))) with 0 by lia. cbn [skipn]. split; [reflexivity|].
    destruct (r (length (log c))); [congruence|reflexivity|reflexivity].
Qed.

Section PC.
  Variable cfg : config.
  Variable M : matcher.
  Variable binary : bool.

  Lemma log_set_pos c p : log (set_pos c p) = log c. Proof. reflexivity. Qed.
  Lemma log_set_has_matched c : log (set_has_matched c) = log c. Proof. reflexivity. Qed.
  Lemma log_set_bin_off c o : log (set_bin_off c o) = log c. Proof. reflexivity. Qed.
  Lemma log_set_visited c e a : log (set_visited c e a) = log c. Proof. reflexivity. Qed.
  Lemma log_count_lines c buf u : log (count_lines cfg c buf u) = log c.
  Proof. unfold count_lines. destruct (line_number c); [|reflexivity]. destruct (Nat.leb _ _); reflexivity. Qed.

  (* binary_guard, whatever the detection mode *)
  Lemma binary_guard_eq r b c buf rs re k :
    binary_guard cfg r b c buf rs re k =
    if b then
      match bin_off c with
      | Some _ => if (match quit_byte (c_binary cfg) with Some _ => true | None => false end) then OK false c else k c
      | None =>
        match c_binary cfg with
        | BNone => k c
        | BQuit x | BConvert x =>
          match find_byte x (sub buf rs re) with
          | Some i =>
            andthen (emit r (set_bin_off c (rs + i)) (EBinary (rs + i)))
                    (fun c' => if (match quit_byte (c_binary cfg) with Some _ => true | None => false end)
                               then OK false c' else k c')
          | None => k c
          end
        end
      end
    else k c.
  Proof.
    unfold binary_guard, detect_binary. destruct b; [|reflexivity].
    destruct (bin_off c); [destruct (quit_byte (c_binary cfg)); reflexivity|].
    destruct (c_binary cfg) as [|x|x]; [reflexivity| |];
      (destruct (find_byte x (sub buf rs re)); [|reflexivity]);
      unfold emit; destruct (r _); cbn; reflexivity.
  Qed.

  Lemma good_guard b buf rs re (k : action) :
    Good k -> Good (fun r c => binary_guard cfg r b c buf rs re (k r)).
  Proof.
    intro Gk.
    apply (good_ext (fun r c =>
      if b then
        match bin_off c with
        | Some _ => if (match quit_byte (c_binary cfg) with Some _ => true | None => false end) then OK false c else k r c
        | None =>
          match c_binary cfg with
          | BNone => k r c
          | BQuit x | BConvert x =>
            match find_byte x (sub buf rs re) with
            | Some i =>
              andthen (emit r (set_bin_off c (rs + i)) (EBinary (rs + i)))
                      (fun c' => if (match quit_byte (c_binary cfg) with Some _ => true | None => false end)
                                 then OK false c' else k r c')
            | None => k r c
            end
          end
        end
      else k r c)).
    { intros r c. symmetry. apply binary_guard_eq. }
    destruct b; [|exact Gk].
    intros r c. 
    destruct (bin_off c) eqn:Eb.
    - destruct (quit_byte (c_binary cfg)).
      + pose proof (good_ret (fun _ => false) (fun c => c) (fun _ => eq_refl) r c) as H. exact H.
      + apply Gk.
    - destruct (c_binary cfg) as [|x|x]; [apply Gk| |];
        (destruct (find_byte x (sub buf rs re)) as [i|]; [|apply Gk]);
        (destruct (quit_byte _);
         [exact (good_andthen (fun r c => emit r (set_bin_off c (rs + i)) (EBinary (rs + i)))
                              (fun _ c' => OK false c')
                              (good_emit_dep (fun _ => EBinary (rs + i)) (fun c => set_bin_off c (rs + i)) (fun _ => eq_refl))
                              (good_ret (fun _ => false) (fun c => c) (fun _ => eq_refl)) r c)
         |exact (good_andthen (fun r c => emit r (set_bin_off c (rs + i)) (EBinary (rs + i))) k
                              (good_emit_dep (fun _ => EBinary (rs + i)) (fun c => set_bin_off c (rs + i)) (fun _ => eq_refl))
                              Gk r c)]).
  Qed.

  Lemma good_break p : Good (fun r c => sink_break_context cfg r c p).
  Proof.
    unfold sink_break_context.
    apply (good_if (fun c => negb (Nat.ltb 0 (c_before cfg) || Nat.ltb 0 (c_after cfg)) || negb (has_sunk c)
                             || negb (Nat.ltb (last_line_visited c) p))
                   (fun _ c => OK true c) (fun r c => emit r c EBreak)).
    - exact (good_ret (fun _ => true) (fun c => c) (fun _ => eq_refl)).
    - apply good_emit.
  Qed.

  Lemma good_sink_matched buf rs re : Good (fun r c => sink_matched cfg r binary c buf rs re).
  Proof.
    unfold sink_matched. apply good_guard.
    apply (good_andthen (fun r c => sink_break_context cfg r c rs)); [apply good_break|].
    apply (good_andthen
             (fun r c => emit r (count_lines cfg c buf rs)
                              (EMatched (abs_off (count_lines cfg c buf rs) + rs)
                                        (line_number (count_lines cfg c buf rs)) (sub buf rs re)))
             (fun _ c => OK true (set_visited c re (c_after cfg)))).
    - exact (good_emit_dep (fun c => EMatched (abs_off c + rs) (line_number c) (sub buf rs re))
                           (fun c => count_lines cfg c buf rs) (fun c => log_count_lines c buf rs)).
    - exact (good_ret (fun _ => true) (fun c => set_visited c re (c_after cfg)) (fun _ => eq_refl)).
  Qed.

  Lemma good_sink_ctx (k : ctx_kind) (acl : core -> nat) buf rs re :
    Good (fun r c => binary_guard cfg r binary c buf rs re (fun c =>
                       let c := count_lines cfg c buf rs in
                       andthen (emit r c (EContext k (abs_off c + rs) (line_number c) (sub buf rs re)))
                               (fun c => OK true (set_visited c re (acl c))))).
  Proof.
    apply (good_guard binary buf rs re
             (fun r c => andthen (emit r (count_lines cfg c buf rs)
                                       (EContext k (abs_off (count_lines cfg c buf rs) + rs)
                                                 (line_number (count_lines cfg c buf rs)) (sub buf rs re)))
                                 (fun c => OK true (set_visited c re (acl c))))).
    apply (good_andthen
             (fun r c => emit r (count_lines cfg c buf rs)
                              (EContext k (abs_off (count_lines cfg c buf rs) + rs)
                                        (line_number (count_lines cfg c buf rs)) (sub buf rs re)))
             (fun _ c => OK true (set_visited c re (acl c)))).
    - exact (good_emit_dep (fun c => EContext k (abs_off c + rs) (line_number c) (sub buf rs re))
                           (fun c => count_lines cfg c buf rs) (fun c => log_count_lines c buf rs)).
    - exact (good_ret (fun _ => true) (fun c => set_visited c re (acl c)) (fun _ => eq_refl)).
  Qed.

  Lemma good_sink_before buf rs re : Good (fun r c => sink_before_context cfg r binary c buf rs re).
  Proof. exact (good_sink_ctx CBefore (fun c => after_context_left c) buf rs re). Qed.
  Lemma good_sink_after buf rs re : Good (fun r c => sink_after_context cfg r binary c buf rs re).
  Proof. exact (good_sink_ctx CAfter (fun c => after_context_left c - 1) buf rs re). Qed.
  Lemma good_sink_other buf rs re : Good (fun r c => sink_other_context cfg r binary c buf rs re).
  Proof. exact (good_sink_ctx COther (fun c => after_context_left c) buf rs re). Qed.

  Lemma good_before_loop buf en : forall fuel p, Good (fun r c => before_loop cfg r binary fuel c buf p en).
  Proof.
    induction fuel as [|f IH]; intro p; [apply good_fuel|].
    cbn [before_loop]. destruct (line_step (ltb_ cfg) buf p en) as [[s e]|].
    - apply (good_andthen (fun r c => sink_break_context cfg r c s)); [apply good_break|].
      apply (good_andthen (fun r c => sink_before_context cfg r binary c buf s e)); [apply good_sink_before|].
      apply IH.
    - exact (good_ret (fun _ => true) (fun c => c) (fun _ => eq_refl)).
  Qed.

  Lemma good_before_context buf upto : Good (fun r c => before_context_by_line cfg r binary c buf upto).
  Proof.
    unfold before_context_by_line. destruct (Nat.eqb (c_before cfg) 0).
    - exact (good_ret (fun _ => true) (fun c => c) (fun _ => eq_refl)).
    - intros r c. destruct (Nat.leb upto (last_line_visited c)) eqn:E.
      + pose proof (good_ret (fun _ => true) (fun c => c) (fun _ => eq_refl) r c) as H.
        cbn beta zeta in H |- *. rewrite ?E in H |- *. exact H.
      + pose proof (good_before_loop buf upto (S (length buf))
                      (last_line_visited c + preceding (ltb_ cfg) (sub buf (last_line_visited c) upto) (c_before cfg - 1))
                      r c) as H.
        cbn beta zeta in H |- *. rewrite ?E in H |- *. exact H.
  Qed.

  Lemma good_after_loop buf en : forall fuel p, Good (fun r c => after_loop cfg r binary fuel c buf p en).
  Proof.
    induction fuel as [|f IH]; intro p; [apply good_fuel|].
    cbn [after_loop]. destruct (line_step (ltb_ cfg) buf p en) as [[s e]|].
    - apply (good_andthen (fun r c => sink_after_context cfg r binary c buf s e)); [apply good_sink_after|].
      apply (good_if (fun c => Nat.eqb (after_context_left c) 0) (fun _ c => OK true c)).
      + exact (good_ret (fun _ => true) (fun c => c) (fun _ => eq_refl)).
      + apply IH.
    - exact (good_ret (fun _ => true) (fun c => c) (fun _ => eq_refl)).
  Qed.

  Lemma good_after_context buf upto : Good (fun r c => after_context_by_line cfg r binary c buf upto).
  Proof.
    unfold after_context_by_line. intros r c.
    destruct (Nat.eqb (after_context_left c) 0) eqn:E.
    - pose proof (good_ret (fun _ => true) (fun c => c) (fun _ => eq_refl) r c) as H.
      cbn beta zeta in H |- *. rewrite ?E in H |- *. exact H.
    - pose proof (good_after_loop buf upto (S (length buf)) (last_line_visited c) r c) as H.
      cbn beta zeta in H |- *. rewrite ?E in H |- *. exact H.
  Qed.

  Lemma good_other_loop buf en : forall fuel p, Good (fun r c => other_loop cfg r binary fuel c buf p en).
  Proof.
    induction fuel as [|f IH]; intro p; [apply good_fuel|].
    cbn [other_loop]. destruct (line_step (ltb_ cfg) buf p en) as [[s e]|].
    - apply (good_andthen (fun r c => sink_other_context cfg r binary c buf s e)); [apply good_sink_other|]. apply IH.
    - exact (good_ret (fun _ => true) (fun c => c) (fun _ => eq_refl)).
  Qed.

  Lemma good_other_context buf upto : Good (fun r c => other_context_by_line cfg r binary c buf upto).
  Proof.
    unfold other_context_by_line. intros r c.
    exact (good_other_loop buf upto (S (length buf)) (last_line_visited c) r c).
  Qed.

  Lemma good_matched_loop buf en : forall fuel p, Good (fun r c => matched_loop cfg r binary fuel c buf p en).
  Proof.
    induction fuel as [|f IH]; intro p; [apply good_fuel|].
    cbn [matched_loop]. destruct (line_step (ltb_ cfg) buf p en) as [[s e]|].
    - apply (good_andthen (fun r c => sink_matched cfg r binary c buf s e)); [apply good_sink_matched|]. apply IH.
    - exact (good_ret (fun _ => true) (fun c => c) (fun _ => eq_refl)).
  Qed.

  Lemma good_slow_loop buf : forall fuel p, Good (fun r c => slow_loop cfg M r binary fuel c buf p).
  Proof.
    induction fuel as [|f IH]; intro p; [apply good_fuel|].
    cbn [slow_loop]. destruct (line_step (ltb_ cfg) buf p (length buf)) as [[s e]|].
    2:{ exact (good_ret (fun _ => true) (fun c => c) (fun _ => eq_refl)). }
    set (matched := m_is_match M (without_terminator (c_lt cfg) (sub buf s e))).
    set (success := negb (Bool.eqb matched (c_invert cfg))).
    assert (Gafter : Good (fun r c => if c_stop_on_nonmatch cfg && negb success && has_matched c
                                      then OK false c else slow_loop cfg M r binary f c buf e)).
    { apply (good_if (fun c => c_stop_on_nonmatch cfg && negb success && has_matched c) (fun _ c => OK false c)).
      - exact (good_ret (fun _ => false) (fun c => c) (fun _ => eq_refl)).
      - apply IH. }
    apply (good_pre (fun c => set_pos c e)
             (fun r c =>
                if success
                then andthen (before_context_by_line cfg r binary (set_has_matched c) buf s)
                       (fun c0 => andthen (sink_matched cfg r binary c0 buf s e)
                          (fun c1 => if c_stop_on_nonmatch cfg && negb success && has_matched c1
                                     then OK false c1 else slow_loop cfg M r binary f c1 buf e))
                else if Nat.leb 1 (after_context_left c)
                then andthen (sink_after_context cfg r binary c buf s e)
                       (fun c1 => if c_stop_on_nonmatch cfg && negb success && has_matched c1
                                  then OK false c1 else slow_loop cfg M r binary f c1 buf e)
                else if c_passthru cfg
                then andthen (sink_other_context cfg r binary c buf s e)
                       (fun c1 => if c_stop_on_nonmatch cfg && negb success && has_matched c1
                                  then OK false c1 else slow_loop cfg M r binary f c1 buf e)
                else if c_stop_on_nonmatch cfg && negb success && has_matched c
                then OK false c else slow_loop cfg M r binary f c buf e)
             (fun c => log_set_pos c e)).
    destruct success.
    - apply (good_pre set_has_matched
               (fun r c => andthen (before_context_by_line cfg r binary c buf s)
                  (fun c0 => andthen (sink_matched cfg r binary c0 buf s e)
                     (fun c1 => if c_stop_on_nonmatch cfg && negb true && has_matched c1
                                then OK false c1 else slow_loop cfg M r binary f c1 buf e)))
               log_set_has_matched).
      apply (good_andthen (fun r c => before_context_by_line cfg r binary c buf s)); [apply good_before_context|].
      apply (good_andthen (fun r c => sink_matched cfg r binary c buf s e)); [apply good_sink_matched|].
      exact Gafter.
    - apply (good_if (fun c => Nat.leb 1 (after_context_left c))).
      + apply (good_andthen (fun r c => sink_after_context cfg r binary c buf s e)); [apply good_sink_after|exact Gafter].
      + destruct (c_passthru cfg).
        * apply (good_andthen (fun r c => sink_other_context cfg r binary c buf s e)); [apply good_sink_other|exact Gafter].
        * exact Gafter.
  Qed.

  Lemma good_match_by_line_slow buf : Good (fun r c => match_by_line_slow cfg M r binary c buf).
  Proof. intros r c. exact (good_slow_loop buf (S (length buf)) (pos c) r c). Qed.
End PC.

(* ------------------------------------------------------------------ the fast line path *)
Section Fast.
  Variable cfg : config.
  Variable M : matcher.
  Variable binary : bool.

  (* fast_outcome read as an outcome, with a continuation for SwitchToSlow *)
  Definition conv (k : core -> outcome) (fo : fast_outcome) : outcome :=
    match fo with
    | FOK FContinue c => OK true c
    | FOK FStop c => OK false c
    | FOK FSwitchToSlow c => k c
    | FERR c => ERR c
    | FFUEL => FUEL
    end.

  Lemma conv_lift k o g : conv k (lift_stop o g) = andthen o (fun c => conv k (g c)).
  Proof. destruct o as [[|] c| |]; reflexivity. Qed.

  (* match_by_line_fast_invert as an action *)
  Lemma good_fast_invert buf : Good (fun r c => match_by_line_fast_invert cfg M r binary c buf).
  Proof.
    intros r c. unfold match_by_line_fast_invert.
    destruct (find_by_line_fast cfg M c buf) as [res|]; [|exact I].
    set (t := match res with
              | Some (ls, le) =>
                (pos c, ls, if c_stop_on_nonmatch cfg && negb (Nat.leb ls (pos c)) then set_pos c ls else set_pos c le)
              | None => (pos c, length buf, set_pos c (length buf))
              end).
    destruct t as [[rs re] c1] eqn:Et.
    assert (Hlog1 : log c1 = log c).
    { unfold t in Et. destruct res as [[ls le]|]; [|injection Et as _ _ <-; reflexivity].
      injection Et as _ _ <-. destruct (_ && _); reflexivity. }
    destruct (Nat.leb re rs).
    - pose proof (good_ret (fun _ => true) (fun _ => c1) ) as H.
      (* a constant state: stated directly *)
      cbn. rewrite Hlog1. split; [exists []; reflexivity|]. split; [reflexivity|]. intros k Hk. lia.
    - pose proof (good_pre (fun _ => set_has_matched c1)
                    (fun r c => andthen (after_context_by_line cfg r binary c buf rs)
                       (fun c => andthen (before_context_by_line cfg r binary c buf rs)
                          (fun c => matched_loop cfg r binary (S (length buf)) c buf rs re)))) as H.
      (* good_pre needs log preservation for every c; use it pointwise instead *)
      clear H.
      pose proof (good_andthen (fun r c => after_context_by_line cfg r binary c buf rs)
                    (fun r c => andthen (before_context_by_line cfg r binary c buf rs)
                       (fun c => matched_loop cfg r binary (S (length buf)) c buf rs re))
                    (good_after_context cfg binary buf rs)
                    (good_andthen (fun r c => before_context_by_line cfg r binary c buf rs)
                       (fun r c => matched_loop cfg r binary (S (length buf)) c buf rs re)
                       (good_before_context cfg binary buf rs)
                       (good_matched_loop cfg binary buf re (S (length buf)) rs))
                    r (set_has_matched c1)) as H.
      cbn beta in H. change (log (set_has_matched c1)) with (log c1) in H. rewrite Hlog1 in H. exact H.
  Qed.

  (* the fast loop with SwitchToSlow handled by a continuation *)
  Fixpoint fast_then (r : nat -> reply) (k : core -> outcome) (fuel : nat) (c : core) (buf : bytes) : outcome :=
    let finish (c : core) : outcome :=
      andthen (after_context_by_line cfg r binary c buf (length buf)) (fun c => OK true (set_pos c (length buf))) in
    match fuel with
    | 0 => FUEL
    | S fuel' =>
      if Nat.leb (length buf) (pos c) then finish c else
      if c_stop_on_nonmatch cfg && has_matched c then k c else
      if c_invert cfg then
        andthen (match_by_line_fast_invert cfg M r binary c buf) (fun c => fast_then r k fuel' c buf)
      else
        match find_by_line_fast cfg M c buf with
        | None => FUEL
        | Some None => finish c
        | Some (Some (ls, le)) =>
          let c := set_has_matched c in
          let kk (c : core) : outcome :=
            let c := set_pos c le in
            andthen (sink_matched cfg r binary c buf ls le) (fun c => fast_then r k fuel' c buf) in
          if Nat.ltb 0 (max_context cfg) then
            andthen (after_context_by_line cfg r binary c buf ls) (fun c =>
            andthen (before_context_by_line cfg r binary c buf ls) kk)
          else kk c
        end
    end.

  Lemma andthen_ext o g1 g2 : (forall c, g1 c = g2 c) -> andthen o g1 = andthen o g2.
  Proof. intro H. destruct o as [[|] c| |]; cbn; auto. Qed.

  Lemma conv_fast_loop r k buf : forall fuel c,
    conv k (fast_loop cfg M r binary fuel c buf) = fast_then r k fuel c buf.
  Proof.
    induction fuel as [|f IH]; intro c; [reflexivity|].
    cbn [fast_loop fast_then].
    destruct (Nat.leb (length buf) (pos c)).
    { rewrite conv_lift. reflexivity. }
    destruct (c_stop_on_nonmatch cfg && has_matched c); [reflexivity|].
    destruct (c_invert cfg).
    { rewrite conv_lift. apply andthen_ext. intro c'. apply IH. }
    destruct (find_by_line_fast cfg M c buf) as [[[ls le]|]|]; [| |reflexivity].
    - assert (Hkk : forall c0, conv k (lift_stop (sink_matched cfg r binary (set_pos c0 le) buf ls le)
                                          (fun c1 => fast_loop cfg M r binary f c1 buf))
                        = andthen (sink_matched cfg r binary (set_pos c0 le) buf ls le)
                                  (fun c1 => fast_then r k f c1 buf)).
      { intro c0. rewrite conv_lift. apply andthen_ext. intro c'. apply IH. }
      destruct (Nat.ltb 0 (max_context cfg)).
      + rewrite conv_lift. apply andthen_ext. intro c1.
        rewrite conv_lift. apply andthen_ext. intro c2. apply Hkk.
      + apply Hkk.
    - rewrite conv_lift. reflexivity.
  Qed.

  Lemma good_fast_then (k : action) buf : Good k ->
    forall fuel, Good (fun r c => fast_then r (k r) fuel c buf).
  Proof.
    intros Gk. induction fuel as [|f IH]; [apply good_fuel|].
    cbn [fast_then].
    assert (Gfin : Good (fun r c => andthen (after_context_by_line cfg r binary c buf (length buf))
                                            (fun c => OK true (set_pos c (length buf))))).
    { apply (good_andthen (fun r c => after_context_by_line cfg r binary c buf (length buf))
                          (fun _ c => OK true (set_pos c (length buf)))); [apply good_after_context|].
      exact (good_ret (fun _ => true) (fun c => set_pos c (length buf)) (fun _ => eq_refl)). }
    apply (good_if (fun c => Nat.leb (length buf) (pos c))); [exact Gfin|].
    apply (good_if (fun c => c_stop_on_nonmatch cfg && has_matched c)); [exact Gk|].
    destruct (c_invert cfg).
    { apply (good_andthen (fun r c => match_by_line_fast_invert cfg M r binary c buf)); [apply good_fast_invert|exact IH]. }
    intros r c.
    destruct (find_by_line_fast cfg M c buf) as [[[ls le]|]|] eqn:Ef.
    - assert (Gkk : Good (fun r c => andthen (sink_matched cfg r binary (set_pos c le) buf ls le)
                                             (fun c => fast_then r (k r) f c buf))).
      { apply (good_pre (fun c => set_pos c le)
                 (fun r c => andthen (sink_matched cfg r binary c buf ls le) (fun c => fast_then r (k r) f c buf))
                 (fun _ => eq_refl)).
        apply (good_andthen (fun r c => sink_matched cfg r binary c buf ls le)); [apply good_sink_matched|exact IH]. }
      destruct (Nat.ltb 0 (max_context cfg)) eqn:Emc.
      + pose proof (good_pre set_has_matched
                      (fun r c => andthen (after_context_by_line cfg r binary c buf ls)
                         (fun c => andthen (before_context_by_line cfg r binary c buf ls)
                            (fun c => andthen (sink_matched cfg r binary (set_pos c le) buf ls le)
                                              (fun c => fast_then r (k r) f c buf))))
                      (fun _ => eq_refl)
                      (good_andthen (fun r c => after_context_by_line cfg r binary c buf ls) _
                         (good_after_context cfg binary buf ls)
                         (good_andthen (fun r c => before_context_by_line cfg r binary c buf ls) _
                            (good_before_context cfg binary buf ls) Gkk)) r c) as H.
        cbn beta in H |- *. rewrite ?Ef in H |- *. exact H.
      + pose proof (good_pre set_has_matched _ (fun _ => eq_refl) Gkk r c) as H.
        cbn beta in H |- *. rewrite ?Ef in H |- *. exact H.
    - pose proof (Gfin r c) as H. cbn beta in H |- *. rewrite ?Ef in H |- *. exact H.
    - cbn beta. rewrite ?Ef. exact I.
  Qed.

  Lemma good_match_by_line buf : Good (fun r c => match_by_line cfg M r binary c buf).
  Proof.
    apply (good_ext (fun r c => if is_line_by_line_fast cfg M c
                                then fast_then r (fun c => match_by_line_slow cfg M r binary c buf) (S (S (length buf))) c buf
                                else match_by_line_slow cfg M r binary c buf)).
    - intros r c. unfold match_by_line. destruct (is_line_by_line_fast cfg M c); [|reflexivity].
      unfold match_by_line_fast. rewrite <- conv_fast_loop.
      destruct (fast_loop cfg M r binary (S (S (length buf))) c buf) as [[| |] c'|c'|]; reflexivity.
    - apply (good_if (fun c => is_line_by_line_fast cfg M c)).
      + apply (good_fast_then (fun r c => match_by_line_slow cfg M r binary c buf)). apply good_match_by_line_slow.
      + apply good_match_by_line_slow.
  Qed.
End Fast.

(* ------------------------------------------------------------------ SliceByLine::run *)
Section SliceRun.
  Variable cfg : config.
  Variable M : matcher.
  Lemma good_slice_loop s : forall fuel, Good (fun r c => slice_loop cfg M r fuel c s).
  Proof.
    induction fuel as [|f IH]; [apply good_fuel|].
    cbn [slice_loop].
    apply (good_if (fun c => Nat.leb (length s) (pos c)) (fun _ c => OK true c)).
    - exact (good_ret (fun _ => true) (fun c => c) (fun _ => eq_refl)).
    - apply (good_ext (fun r c => andthen (match_by_line cfg M r true c s)
                                          (fun c' => slice_loop cfg M r f c' s))).
      + intros r c. destruct (match_by_line cfg M r true c s) as [[|] c'| |]; reflexivity.
      + apply (good_andthen (fun r c => match_by_line cfg M r true c s)); [apply good_match_by_line|exact IH].
  Qed.

  Definition slice_body (s : bytes) : action := fun r c =>
    andthen (emit r c EBegin)
      (fun c => binary_guard cfg r true c s 0 (Nat.min (length s) default_buffer_capacity)
                  (fun c => slice_loop cfg M r (S (S (length s))) c s)).

  Lemma good_slice_body s : Good (slice_body s).
  Proof.
    unfold slice_body.
    apply (good_andthen (fun r c => emit r c EBegin)); [apply good_emit|].
    apply (good_guard cfg true s 0 (Nat.min (length s) default_buffer_capacity)
             (fun r c => slice_loop cfg M r (S (S (length s))) c s)).
    apply good_slice_loop.
  Qed.

  Lemma slice_run_eq_body r s :
    slice_by_line_run cfg M r s =
    match slice_body s r (core_new cfg) with
    | ERR c => RunErr (rev (log c))
    | FUEL => RunFuel
    | OK _ c => finish r c (byte_count c)
    end.
  Proof.
    unfold slice_by_line_run, slice_body.
    destruct (emit r (core_new cfg) EBegin) as [[|] c| |]; cbn [andthen]; try reflexivity.
    unfold binary_guard.
    destruct (detect_binary cfg r c s 0 (Nat.min (length s) default_buffer_capacity)) as [[|] c'| |]; try reflexivity.
    all: try (destruct (slice_loop cfg M r (S (S (length s))) c' s) as [b c''| |]; reflexivity).
  Qed.

  (* the full statement of the prefix law for a whole run *)
  Theorem stop_is_prefix_slice_proof : forall (r : nat -> reply) (s : bytes) (evs : list event),
    slice_by_line_run cfg M K s = RunOk evs ->
    (* (a) a sink that never refuses within the run gets exactly the same run *)
    (quiet r 0 (length evs) -> slice_by_line_run cfg M r s = RunOk evs) /\
    (* (b) first refusal at sink call k, before the finish call *)
    (forall k, S k < length evs -> quiet r 0 k -> r k <> Continue ->
       match r k with
       | Stop => exists n b, slice_by_line_run cfg M r s =
                   (match r (S k) with Fail => RunErr | _ => RunOk end) (firstn (S k) evs ++ [EFinish n b])
       | _ => slice_by_line_run cfg M r s = RunErr (firstn (S k) evs)
       end).
  Proof.
    intros r s evs HK.
    pose proof (good_slice_body s r (core_new cfg)) as G.
    rewrite slice_run_eq_body in HK.
    destruct (slice_body s K (core_new cfg)) as [b cK| |] eqn:EK; [|contradiction|discriminate].
    destruct G as ((ext & Hext) & Gq & Gcut).
    change (log (core_new cfg)) with (@nil event) in *. cbn [length] in *.
    unfold finish in HK. cbn beta in HK. injection HK as HK.
    assert (Hlen : length evs = S (length (log cK))).
    { rewrite <- HK. cbn [rev]. rewrite app_length, rev_length. cbn. lia. }
    split.
    - intro Q. rewrite slice_run_eq_body.
      rewrite Gq by (intros i Hi; apply Q; lia).
      unfold finish. rewrite (Q (length (log cK))) by lia. rewrite <- HK. reflexivity.
    - intros k Hk Q Hr. rewrite slice_run_eq_body.
      destruct (Gcut k ltac:(lia) Q Hr) as (c' & Hlog & Hres).
      assert (Hlenc : length (log c') = S k).
      { rewrite Hlog, skipn_length. lia. }
      assert (Hfirst : rev (log c') = firstn (S k) evs).
      { rewrite <- HK. cbn [rev]. rewrite firstn_app, rev_length.
        replace (S k - length (log cK)) with 0 by lia. rewrite firstn_O, app_nil_r.
        rewrite firstn_rev. now rewrite Hlog. }
      destruct (r k) eqn:Erk; [contradiction| |].
      + rewrite Hres. unfold finish. rewrite Hlenc.
        exists (byte_count c'), (bin_off c'). cbn [rev]. rewrite Hfirst.
        destruct (r (S k)); reflexivity.
      + rewrite Hres. now rewrite Hfirst.
  Qed.
End SliceRun.
