(* Proofs/PrefixLaw.v — the prefix law of the sink protocol (property C16):
   a model function run with an arbitrary reply function behaves like the run with the
   always-continuing sink up to the first call whose reply is not Continue; that call is still
   logged; nothing is logged after it; the result is "stop" (OK false) for Stop and an error for
   Fail.  The law is closed under sequential composition, conditionals and fuelled loops, so it
   is proved function by function following the structure of the model. *)
From RG Require Import Base.Bytes Model.Lines Model.SearcherCore.

Notation K := (fun _ : nat => Continue).

Definition quiet (r : nat -> reply) (a b : nat) : Prop := forall i, a <= i < b -> r i = Continue.

Definition action := (nat -> reply) -> core -> outcome.

(* the truncated result demanded when the first non-Continue reply is at sink call k *)
Definition cut_result (r : nat -> reply) (k : nat) (full_log : list event) (o : outcome) : Prop :=
  exists c', log c' = skipn (length full_log - S k) full_log /\
             match r k with
             | Stop => o = OK false c'
             | Fail => o = ERR c'
             | Continue => False
             end.

Definition Good (f : action) : Prop :=
  forall r c,
    match f K c with
    | FUEL => True
    | ERR _ => False
    | OK b cK =>
      (exists ext, log cK = ext ++ log c) /\
      (quiet r (length (log c)) (length (log cK)) -> f r c = OK b cK) /\
      (forall k, length (log c) <= k < length (log cK) -> quiet r (length (log c)) k ->
                 r k <> Continue -> cut_result r k (log cK) (f r c))
    end.

Lemma quiet_split r a b c : a <= b <= c -> quiet r a c -> quiet r a b /\ quiet r b c.
Proof. intros H Q. split; intros i Hi; apply Q; lia. Qed.

Lemma quiet_join r a b c : quiet r a b -> quiet r b c -> quiet r a c.
Proof. intros Q1 Q2 i Hi. destruct (Nat.lt_ge_cases i b); [apply Q1|apply Q2]; lia. Qed.

Lemma good_emit e : Good (fun r c => emit r c e).
Proof.
  intros r c. cbn. split; [exists [e]; reflexivity|]. split.
  - intro Q. unfold emit. rewrite (Q (length (log c))) by (cbn; lia). reflexivity.
  - intros k Hk Q Hr. assert (k = length (log c)) by (cbn in Hk; lia). subst k.
    unfold cut_result, emit.
    exists (set_log c (e :: log c)). cbn [log set_log length].
    replace (S (length (log c)) - S (length (log c))) with 0 by lia. cbn [skipn]. split; [reflexivity|].
    destruct (r (length (log c))); [congruence|reflexivity|reflexivity].
Qed.

(* a step that does not talk to the sink *)
Lemma good_ret (b : core -> bool) (g : core -> core) :
  (forall c, log (g c) = log c) -> Good (fun _ c => OK (b c) (g c)).
Proof.
  intros Hg r c. cbn. rewrite Hg. split; [exists []; reflexivity|]. split; [reflexivity|].
  intros k Hk. lia.
Qed.

Lemma good_andthen (f g : action) :
  Good f -> Good g -> Good (fun r c => andthen (f r c) (g r)).
Proof.
  intros Gf Gg r c. specialize (Gf r c).
  destruct (f K c) as [bf c1| |] eqn:EfK; cbn [andthen]; [|exact Gf|exact I].
  destruct Gf as ((ext1 & Hext1) & Gq & Gcut).
  assert (Hlen1 : length (log c) <= length (log c1)) by (rewrite Hext1, app_length; lia).
  destruct bf.
  - (* f continues: g runs *)
    specialize (Gg r c1).
    destruct (g K c1) as [bg c2| |] eqn:EgK; [|exact Gg|exact I].
    destruct Gg as ((ext2 & Hext2) & Gq2 & Gcut2).
    assert (Hlen2 : length (log c1) <= length (log c2)) by (rewrite Hext2, app_length; lia).
    split; [exists (ext2 ++ ext1); now rewrite Hext2, Hext1, app_assoc|]. split.
    + intro Q. apply (quiet_split r _ (length (log c1))) in Q as [Q1 Q2]; [|lia].
      rewrite (Gq Q1). cbn [andthen]. exact (Gq2 Q2).
    + intros k Hk Q Hr.
      destruct (Nat.lt_ge_cases k (length (log c1))) as [Hlt|Hge].
      * destruct (Gcut k ltac:(lia) Q Hr) as (c' & Hlog & Hres).
        exists c'. split.
        -- rewrite Hlog, Hext2. rewrite skipn_app.
           rewrite app_length.
           replace (length ext2 + length (log c1) - S k - length ext2) with (length (log c1) - S k) by lia.
           assert (E : skipn (length ext2 + length (log c1) - S k) ext2 = []) by (apply skipn_all2; lia). rewrite E. reflexivity.
        -- destruct (r k); [exact Hres| |]; rewrite Hres; reflexivity.
      * apply (quiet_split r _ (length (log c1))) in Q as [Q1 Q2]; [|lia].
        rewrite (Gq Q1). cbn [andthen]. exact (Gcut2 k ltac:(lia) Q2 Hr).
  - (* f itself decided to stop *)
    split; [eauto|]. split.
    + intro Q. rewrite (Gq Q). reflexivity.
    + intros k Hk Q Hr. destruct (Gcut k Hk Q Hr) as (c' & Hlog & Hres).
      exists c'. split; [exact Hlog|]. destruct (r k); [exact Hres| |]; rewrite Hres; reflexivity.
Qed.

Lemma good_if (b : core -> bool) (f g : action) :
  Good f -> Good g -> Good (fun r c => if b c then f r c else g r c).
Proof. intros Gf Gg r c. destruct (b c); [apply Gf|apply Gg]. Qed.

Lemma good_pre (u : core -> core) (f : action) :
  (forall c, log (u c) = log c) -> Good f -> Good (fun r c => f r (u c)).
Proof. intros Hu Gf r c. specialize (Gf r (u c)). rewrite Hu in Gf. exact Gf. Qed.

Lemma good_ext (f g : action) : (forall r c, f r c = g r c) -> Good f -> Good g.
Proof. intros H Gf r c. specialize (Gf r c). rewrite !H in Gf. exact Gf. Qed.

Lemma good_fuel : Good (fun _ _ => FUEL).
Proof. intros r c. exact I. Qed.
