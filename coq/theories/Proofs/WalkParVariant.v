(* Proofs/WalkParVariant.v — step inversion and the termination measure of Model/WalkPar.v *)
From Coq Require Import List Arith Bool Lia Permutation.
Import ListNotations.
From RG Require Import Model.WalkPar Spec.WalkParSpec Proofs.WalkParBase.

(* ---- inversion of the two kinds of steps ---- *)

Lemma step_own_inv : forall resp s w s', step resp s (Own w) = Some s' ->
  exists p e, nth_error (pcs s) w = Some p
    /\ own_step resp (length (pcs s)) w (active s) (quit_now s) p (nth w (deq s) []) = Some e
    /\ s' = mkst (upd (deq s) w (e_deq e)) (upd (pcs s) w (e_pc e)) (e_active e) (e_quit e)
                 (e_visit e ++ visited s).
Proof.
  intros resp s w s' H. unfold step in H.
  destruct (nth_error (pcs s) w) as [p|] eqn:Hp; [|discriminate].
  destruct (own_step resp (length (pcs s)) w (active s) (quit_now s) p (nth w (deq s) [])) as [e|] eqn:He;
    [|discriminate].
  inversion H. exists p, e. auto.
Qed.

Lemma step_steal_inv : forall resp s w mask k s', step resp s (Steal w mask k) = Some s' ->
  exists c v vs taken kept m,
    nth_error (pcs s) w = Some (PSteal c (v :: vs))
    /\ split_mask mask (nth v (deq s) []) = (taken, kept)
    /\ nth_error taken k = Some m
    /\ s' = mkst (upd (upd (deq s) v kept) w (remove_nth k taken ++ nth w (upd (deq s) v kept) []))
                 (upd (pcs s) w (after_recv c m)) (active s) (quit_now s) (visited s).
Proof.
  intros resp s w mask k s' H. unfold step, steal_step in H.
  destruct (nth_error (pcs s) w) as [p|] eqn:Hp; [|discriminate].
  destruct p; try discriminate. destruct vs as [|v vs]; [discriminate|].
  destruct (split_mask mask (nth v (deq s) [])) as [taken kept] eqn:Hs.
  destruct (nth_error taken k) as [m|] eqn:Hm; [|discriminate].
  inversion H. exists c, v, vs, taken, kept, m. auto.
Qed.

Lemma step_length_pcs : forall resp s c s', step resp s c = Some s' -> length (pcs s') = length (pcs s).
Proof.
  intros resp s [w|w mask k] s' H.
  - apply step_own_inv in H. destruct H as (p & e & _ & _ & ->). cbn. apply length_upd.
  - apply step_steal_inv in H. destruct H as (c & v & vs & t & kp & m & _ & _ & _ & ->). cbn. apply length_upd.
Qed.

Lemma step_length_deq : forall resp s c s', step resp s c = Some s' -> length (deq s') = length (deq s).
Proof.
  intros resp s [w|w mask k] s' H.
  - apply step_own_inv in H. destruct H as (p & e & _ & _ & ->). cbn. apply length_upd.
  - apply step_steal_inv in H. destruct H as (c & v & vs & t & kp & m & _ & _ & _ & ->). cbn.
    rewrite !length_upd. auto.
Qed.

Lemma upd_nth_same : forall A (l : list A) i d, upd l i (nth i l d) = l.
Proof. induction l as [|h t IH]; intros [|i] d; cbn; auto. f_equal. apply IH. Qed.

(* ---- the measure, locally ---- *)

Lemma deq_wt_cons : forall n m d, deq_wt n (m :: d) = msg_wt n m + deq_wt n d.
Proof. reflexivity. Qed.

Lemma deq_wt_app : forall n a b, deq_wt n (a ++ b) = deq_wt n a + deq_wt n b.
Proof. intros. unfold deq_wt. rewrite map_app, list_sum_app. auto. Qed.

Lemma deq_wt_perm : forall n a b, Permutation a b -> deq_wt n a = deq_wt n b.
Proof. intros n a b P. induction P; rewrite ?deq_wt_cons in *; lia. Qed.

Lemma kids_sum_cons : forall n t ts,
  list_sum (map (fun k => S (tree_wt n k)) (t :: ts)) = S (tree_wt n t) + list_sum (map (fun k => S (tree_wt n k)) ts).
Proof. reflexivity. Qed.

Lemma tree_wt_unfold : forall n x kids,
  tree_wt n (Node x kids) = n + 12 + list_sum (map (fun k => S (tree_wt n k)) kids).
Proof. reflexivity. Qed.

Lemma rank_after_push : forall n ts,
  rank n (after_push ts) <= n + 11 + list_sum (map (fun k => S (tree_wt n k)) ts).
Proof. intros n [|t ts]; cbn [after_push rank map list_sum]; lia. Qed.

Lemma rank_steal_next_top : forall n vs, rank n (steal_next Top vs) <= length vs + 8.
Proof. intros n [|v vs]; cbn; lia. Qed.

Lemma rank_steal_next_wait : forall n vs, rank n (steal_next Wait vs) = 5.
Proof. intros n [|v vs]; cbn; lia. Qed.

Lemma in_wait_steal_next : forall vs, in_wait_loop (steal_next Wait vs) = true.
Proof. intros [|v vs]; reflexivity. Qed.

Definition local_idle (p : pc) (d : list msg) (a : nat) (q : bool) (e : eff) : Prop :=
  in_wait_loop p = true /\ in_wait_loop (e_pc e) = true /\ e_deq e = d /\ e_active e = a /\ e_quit e = q
  /\ e_visit e = [].

Ltac smp := cbn [rank e_pc e_deq e_active e_quit e_visit after_recv recv_none steal_next after_push msg_wt
                 length in_wait_loop].

Lemma own_step_measure : forall resp n w a q p d e,
  own_step resp n w a q p d = Some e -> w < n ->
  rank n (e_pc e) + deq_wt n (e_deq e) < rank n p + deq_wt n d
  \/ (rank n (e_pc e) + deq_wt n (e_deq e) = rank n p + deq_wt n d /\ local_idle p d a q e).
Proof.
  intros resp n w a q p d e H Hw. unfold local_idle.
  destruct p as [c|c vs|v| | |m|t|ts| |l|]; cbn [own_step] in H.
  - (* PRecv *)
    destruct d as [|m d'].
    + inversion H; subst; clear H. smp.
      destruct c.
      * left. smp. rewrite victims_length by auto. lia.
      * right. smp. auto 10.
    + inversion H; subst; clear H. smp. rewrite deq_wt_cons. left.
      destruct c; smp; lia.
  - (* PSteal *)
    destruct vs as [|v vs]; inversion H; subst; clear H; smp.
    + destruct c; smp; [left; lia | right; auto 10].
    + destruct c.
      * left. pose proof (rank_steal_next_top n vs). smp. lia.
      * right. rewrite rank_steal_next_wait, in_wait_steal_next. smp. auto 10.
  - (* PCheck *)
    inversion H; subst; clear H. smp. left.
    destruct q; [destruct v as [[t|]|]; smp; lia|].
    destruct v as [[t|]|]; smp; lia.
  - (* PDeact *)
    inversion H; subst; clear H. smp. left. destruct (a - 1 =? 0); smp; lia.
  - (* PSleep *)
    inversion H; subst; clear H. right. smp. auto 10.
  - (* PAct *)
    inversion H; subst; clear H. left. smp. lia.
  - (* PVisit *)
    destruct t as [x kids]. inversion H; subst; clear H. smp. left.
    pose proof (rank_after_push n kids). rewrite tree_wt_unfold.
    destruct (resp x); smp; lia.
  - (* PPush *)
    destruct ts as [|t ts]; inversion H; subst; clear H; smp; left.
    + lia.
    + pose proof (rank_after_push n ts). rewrite deq_wt_cons. smp. rewrite kids_sum_cons. lia.
  - (* PSetQuit *)
    inversion H; subst; clear H. left. smp. lia.
  - (* PSendQuit *)
    inversion H; subst; clear H. left. smp. rewrite deq_wt_cons. smp. lia.
  - discriminate.
Qed.

(* ---- the measure, globally ---- *)

Definition same_but_pc (w : nat) (s s' : st) : Prop :=
  deq s' = deq s /\ active s' = active s /\ quit_now s' = quit_now s /\ visited s' = visited s
  /\ (forall w', w' <> w -> nth_error (pcs s') w' = nth_error (pcs s) w').

Theorem variant_proof : forall resp s c s', length (deq s) = length (pcs s) -> step resp s c = Some s' ->
  mu s' < mu s
  \/ (mu s' = mu s
      /\ in_wait_loop (nth (worker_of c) (pcs s) PExit) = true
      /\ in_wait_loop (nth (worker_of c) (pcs s') PExit) = true
      /\ same_but_pc (worker_of c) s s').
Proof.
  intros resp s c s' Hlen H.
  destruct c as [w|w mask k]; cbn [worker_of].
  - apply step_own_inv in H. destruct H as (p & e & Hp & He & ->).
    pose proof (nth_error_lt _ _ _ _ Hp) as Hw.
    pose proof (own_step_measure _ _ _ _ _ _ _ _ He Hw) as HM.
    unfold mu. cbn [pcs deq]. rewrite length_upd. set (n := length (pcs s)) in *.
    pose proof (list_sum_upd _ (rank n) (pcs s) w (e_pc e) PExit Hw) as E1.
    rewrite (nth_error_nth _ _ _ _ PExit Hp) in E1.
    assert (Hd : w < length (deq s)) by lia.
    pose proof (list_sum_upd _ (deq_wt n) (deq s) w (e_deq e) [] Hd) as E2.
    destruct HM as [HM|[HM HI]]; [left; lia|].
    right. split; [lia|]. destruct HI as (I1 & I2 & I3 & I4 & I5 & I6).
    rewrite (nth_error_nth _ _ _ _ PExit Hp), nth_upd_eq by auto.
    repeat split; auto; cbn.
    + rewrite I3. apply upd_nth_same.
    + rewrite I6. auto.
    + intros w' Hne. apply nth_error_upd_neq. auto.
  - left. apply step_steal_inv in H. destruct H as (c & v & vs & taken & kept & m & Hp & Hs & Hm & ->).
    pose proof (nth_error_lt _ _ _ _ Hp) as Hw.
    unfold mu. cbn [pcs deq]. rewrite length_upd. set (n := length (pcs s)) in *.
    pose proof (list_sum_upd _ (rank n) (pcs s) w (after_recv c m) PExit Hw) as E1.
    rewrite (nth_error_nth _ _ _ _ PExit Hp) in E1.
    assert (Hv : v < length (deq s)).
    { destruct (Nat.lt_ge_cases v (length (deq s))); auto.
      rewrite nth_overflow in Hs by lia. cbn in Hs. inversion Hs; subst. destruct k; discriminate. }
    pose proof (split_mask_perm _ _ _ _ _ Hs) as P1.
    pose proof (remove_nth_perm _ _ _ _ Hm) as P2.
    pose proof (deq_wt_perm n _ _ P1) as W1. rewrite deq_wt_app in W1.
    pose proof (deq_wt_perm n _ _ P2) as W2. rewrite deq_wt_cons in W2.
    pose proof (list_sum_upd _ (deq_wt n) (deq s) v kept [] Hv) as E2.
    set (d1 := upd (deq s) v kept) in *.
    assert (Hd : w < length d1) by (unfold d1; rewrite length_upd; lia).
    pose proof (list_sum_upd _ (deq_wt n) d1 w (remove_nth k taken ++ nth w d1 []) [] Hd) as E3.
    rewrite deq_wt_app in E3. destruct c; cbn [after_recv rank length] in *; lia.
Qed.

Lemma step_len_inv : forall resp s c s', length (deq s) = length (pcs s) -> step resp s c = Some s' ->
  length (deq s') = length (pcs s').
Proof. intros. rewrite (step_length_deq _ _ _ _ H0), (step_length_pcs _ _ _ _ H0). auto. Qed.

(* the number of non-idle steps of any run is bounded by the measure *)
Lemma busy_bound : forall resp cs s s', length (deq s) = length (pcs s) ->
  run resp s cs = Some s' -> busy_steps resp s cs + mu s' <= mu s.
Proof.
  intros resp cs. induction cs as [|c r IH]; intros s s' Hlen H; cbn [run busy_steps] in *.
  - inversion H. lia.
  - destruct (step resp s c) as [s1|] eqn:E; [|discriminate].
    specialize (IH _ _ (step_len_inv _ _ _ _ Hlen E) H). pose proof (variant_proof _ _ _ _ Hlen E) as V.
    destruct (mu s1 <? mu s) eqn:L.
    + apply Nat.ltb_lt in L. lia.
    + apply Nat.ltb_ge in L. destruct V as [V|[V _]]; lia.
Qed.
