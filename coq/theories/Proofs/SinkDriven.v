(* Proofs/SinkDriven.v — property C16 for a STATEFUL sink.  The searcher model is driven by a reply
   function indexed by the sink call number; a real sink is a state machine that answers according
   to what it has been shown.  This file shows that nothing is lost: for every deterministic sink
   there is a reply function that agrees with the sink on exactly the calls the run delivers, and the
   run under it is the uninterrupted run cut at the sink's first refusal. *)
From RG Require Import Base.Bytes Model.Lines Model.SearcherCore Model.Glue Proofs.PrefixLaw Proofs.PrefixCore
  Model.ReadByLine Proofs.MLPrefix Proofs.RBLPrefix.

(* the prefix law of a whole run, including the reply to the finish call of an uninterrupted run *)
Definition PLaw (run : (nat -> reply) -> run_result) (evs : list event) : Prop :=
  (forall r, quiet r 0 (length evs - 1) ->
     run r = match r (length evs - 1) with Fail => RunErr evs | _ => RunOk evs end) /\
  (forall r k, S k < length evs -> quiet r 0 k -> r k <> Continue ->
     match r k with
     | Stop => exists n b, run r =
                 (match r (S k) with Fail => RunErr | _ => RunOk end) (firstn (S k) evs ++ [EFinish n b])
     | _ => run r = RunErr (firstn (S k) evs)
     end).

(* from a Good body (as in MLPrefix.RunLaw) *)
Section FromGood.
  Variable body : action.
  Variable c0 : core.
  Variable run : (nat -> reply) -> run_result.
  Hypothesis Hc0 : log c0 = [].
  Hypothesis Gbody : Good body.
  Hypothesis Hrun : forall r, run r =
    match body r c0 with
    | ERR c => RunErr (rev (log c))
    | FUEL => RunFuel
    | OK _ c => finish r c (byte_count c)
    end.

  Lemma nonempty_of_good evs : run K = RunOk evs -> evs <> [].
  Proof.
    intro HK. rewrite Hrun in HK. destruct (body K c0) as [b cK| |]; try discriminate.
    unfold finish in HK. cbn beta in HK. injection HK as <-. cbn [rev]. intro E.
    apply (f_equal (@length _)) in E. rewrite app_length in E. cbn in E. lia.
  Qed.

  Lemma plaw_of_good evs : run K = RunOk evs -> PLaw run evs.
  Proof.
    intro HK. split.
    - intros r Q.
      pose proof (Gbody r c0) as G. rewrite Hrun in HK.
      destruct (body K c0) as [b cK| |] eqn:EK; [|contradiction|discriminate].
      destruct G as (_ & Gq & _). rewrite Hc0 in *. cbn [length] in *.
      unfold finish in HK. cbn beta in HK. injection HK as HK.
      assert (Hlen : length evs = S (length (log cK))).
      { rewrite <- HK. cbn [rev]. rewrite app_length, rev_length. cbn. lia. }
      rewrite Hrun, Gq by (intros i Hi; apply Q; lia).
      unfold finish. replace (length evs - 1) with (length (log cK)) by lia.
      rewrite <- HK. destruct (r (length (log cK))); reflexivity.
    - intros r k. apply (run_prefix_law body c0 run Hc0 Gbody Hrun r evs HK).
  Qed.
End FromGood.

Section Sink.
  Variable St : Type.
  Variable step : St -> event -> St * reply.
  Variable s0 : St.
  (* the reply to finish does not depend on the numbers reported (it can still fail or not) *)
  Hypothesis finish_blind : forall st n b n' b', snd (step st (EFinish n b)) = snd (step st (EFinish n' b')).

  Definition feed (evs : list event) : St := fold_left (fun st e => fst (step st e)) evs s0.
  Definition answer (seen : list event) (e : event) : reply := snd (step (feed seen) e).

  Definition delivered (rr : run_result) : list event :=
    match rr with RunOk e => e | RunErr e => e | RunFuel => [] end.

  (* r answers every delivered call as the sink does, having seen the calls before it *)
  Definition consistent (r : nat -> reply) (del : list event) : Prop :=
    forall k e, nth_error del k = Some e -> r k = answer (firstn k del) e.

  Definition r0 (evs : list event) (k : nat) : reply :=
    match nth_error evs k with Some e => answer (firstn k evs) e | None => Continue end.

  (* first index below n at which r does not answer Continue *)
  Fixpoint first_dev (r : nat -> reply) (n : nat) : option nat :=
    match n with
    | 0 => None
    | S m => match first_dev r m with
             | Some k => Some k
             | None => match r m with Continue => None | _ => Some m end
             end
    end.

  Lemma first_dev_none r n : first_dev r n = None -> quiet r 0 n.
  Proof.
    induction n as [|m IH]; intros H i Hi; [lia|]. cbn in H.
    destruct (first_dev r m) eqn:E; [discriminate|].
    destruct (r m) eqn:Em; try discriminate.
    destruct (Nat.eq_dec i m) as [->|]; [exact Em|]. apply (IH eq_refl). lia.
  Qed.

  Lemma first_dev_some r n k : first_dev r n = Some k -> k < n /\ quiet r 0 k /\ r k <> Continue.
  Proof.
    induction n as [|m IH]; intro H; [discriminate|]. cbn in H.
    destruct (first_dev r m) eqn:E.
    - injection H as ->. destruct (IH eq_refl) as (A & B & C). repeat split; auto.
    - destruct (r m) eqn:Em; try discriminate; injection H as <-.
      + split; [lia|]. split; [apply first_dev_none; exact E|]. congruence.
      + split; [lia|]. split; [apply first_dev_none; exact E|]. congruence.
  Qed.

  Lemma nth_error_firstn_lt {A} (l : list A) k n : k < n -> nth_error (firstn n l) k = nth_error l k.
  Proof.
    revert k n; induction l as [|x l IH]; intros k n H; [destruct n, k; reflexivity|].
    destruct n; [lia|]. destruct k; [reflexivity|]. cbn. apply IH. lia.
  Qed.

  Lemma firstn_firstn_le {A} (l : list A) k n : k <= n -> firstn k (firstn n l) = firstn k l.
  Proof. intro H. rewrite firstn_firstn. f_equal. lia. Qed.

  Definition SinkRunSpec (run : (nat -> reply) -> run_result) (evs : list event) : Prop :=
    exists r, consistent r (delivered (run r)) /\
      match first_dev (r0 evs) (length evs - 1) with
      | None => run r = match r0 evs (length evs - 1) with Fail => RunErr evs | _ => RunOk evs end
      | Some k =>
        match r0 evs k with
        | Stop => exists n b, run r =
                    (match answer (firstn (S k) evs) (EFinish n b) with Fail => RunErr | _ => RunOk end)
                      (firstn (S k) evs ++ [EFinish n b])
        | _ => run r = RunErr (firstn (S k) evs)
        end
      end.

  Theorem sink_driven_run (run : (nat -> reply) -> run_result) (evs : list event) :
    PLaw run evs -> evs <> [] ->
    exists r, consistent r (delivered (run r)) /\
      match first_dev (r0 evs) (length evs - 1) with
      | None =>
        (* the sink accepts every call before finish: the whole run; only finish can still fail *)
        run r = match r0 evs (length evs - 1) with Fail => RunErr evs | _ => RunOk evs end
      | Some k =>
        (* first refusal at call k *)
        match r0 evs k with
        | Stop => exists n b, run r =
                    (match answer (firstn (S k) evs) (EFinish n b) with Fail => RunErr | _ => RunOk end)
                      (firstn (S k) evs ++ [EFinish n b])
        | _ => run r = RunErr (firstn (S k) evs)
        end
      end.
  Proof.
    intros (L1 & L2) Hne.
    assert (Hlen : 1 <= length evs) by (destruct evs; [congruence|cbn; lia]).
    destruct (first_dev (r0 evs) (length evs - 1)) as [k|] eqn:Efd.
    - destruct (first_dev_some _ _ _ Efd) as (Hk & Q & Hr).
      destruct (r0 evs k) eqn:Erk; [congruence| |].
      + (* Stop *)
        set (fin := answer (firstn (S k) evs) (EFinish 0 None)).
        set (r := fun i => if Nat.eqb i (S k) then fin else r0 evs i).
        assert (Hag : forall i, i <= k -> r i = r0 evs i).
        { intros i Hi. unfold r. destruct (Nat.eqb_spec i (S k)); [lia|reflexivity]. }
        assert (Qr : quiet r 0 k) by (intros i Hi; rewrite Hag by lia; apply Q; lia).
        assert (Hrk : r k = Stop) by (rewrite Hag by lia; exact Erk).
        pose proof (L2 r k ltac:(lia) Qr ltac:(rewrite Hrk; discriminate)) as H. rewrite Hrk in H.
        destruct H as (n & b & Hrun).
        assert (Hfin : r (S k) = answer (firstn (S k) evs) (EFinish n b)).
        { unfold r. rewrite Nat.eqb_refl. unfold fin, answer. apply finish_blind. }
        exists r. split.
        * rewrite Hrun.
          assert (Hdel : delivered ((match r (S k) with Fail => RunErr | _ => RunOk end) (firstn (S k) evs ++ [EFinish n b]))
                         = firstn (S k) evs ++ [EFinish n b]) by (destruct (r (S k)); reflexivity).
          rewrite Hdel. intros i e Hnth.
          assert (Hl : length (firstn (S k) evs) = S k) by (rewrite firstn_length; lia).
          destruct (Nat.lt_ge_cases i (S k)) as [Hi|Hi].
          -- rewrite nth_error_app1 in Hnth by (rewrite Hl; lia). rewrite nth_error_firstn_lt in Hnth by lia.
             rewrite Hag by lia. unfold r0. rewrite Hnth.
             rewrite firstn_app. replace (i - length (firstn (S k) evs)) with 0 by lia. rewrite firstn_O, app_nil_r.
             rewrite firstn_firstn_le by lia. reflexivity.
          -- rewrite nth_error_app2 in Hnth by (rewrite Hl; lia). rewrite Hl in Hnth.
             destruct (i - S k) as [|j] eqn:Ej; [|destruct j; discriminate].
             injection Hnth as <-. assert (i = S k) by lia. subst i.
             rewrite Hfin. rewrite firstn_app, Hl. replace (S k - S k) with 0 by lia.
             rewrite firstn_O, app_nil_r. rewrite firstn_firstn_le by lia. reflexivity.
        * exists n, b. rewrite Hrun, Hfin. reflexivity.
      + (* Fail *)
        exists (r0 evs). pose proof (L2 (r0 evs) k ltac:(lia) Q ltac:(rewrite Erk; discriminate)) as H.
        rewrite Erk in H. split; [|exact H].
        rewrite H. cbn [delivered]. intros i e Hnth.
        assert (Hi : i < S k).
        { assert (Hs : nth_error (firstn (S k) evs) i <> None) by congruence.
          apply nth_error_Some in Hs. rewrite firstn_length in Hs. lia. }
        rewrite nth_error_firstn_lt in Hnth by lia. unfold r0. rewrite Hnth.
        rewrite firstn_firstn_le by lia. reflexivity.
    - pose proof (first_dev_none _ _ Efd) as Q.
      exists (r0 evs). rewrite (L1 (r0 evs) Q). split; [|reflexivity].
      assert (Hdel : delivered (match r0 evs (length evs - 1) with Fail => RunErr evs | _ => RunOk evs end) = evs)
        by (destruct (r0 evs (length evs - 1)); reflexivity).
      rewrite Hdel. intros i e Hnth. unfold r0. rewrite Hnth. reflexivity.
  Qed.
End Sink.

(* from a Good2 body whose finish count may live outside the core (the reader) *)
Section FromGood2.
  Variable body : action.
  Variable c0 : core.
  Variable cnt : (nat -> reply) -> nat.
  Variable run : (nat -> reply) -> run_result.
  Hypothesis Hc0 : log c0 = [].
  Hypothesis Gbody : Good2 body.
  Hypothesis Hrun : forall r, run r =
    match body r c0 with
    | ERR c => RunErr (rev (log c))
    | FUEL => RunFuel
    | OK _ c => finish r c (cnt r)
    end.
  Hypothesis Hcnt : forall r cK, fin_core (body K c0) = Some cK -> quiet r 0 (length (log cK)) -> cnt r = cnt K.

  Lemma nonempty_of_good2 evs : run K = RunOk evs -> evs <> [].
  Proof.
    intro HK. rewrite Hrun in HK. destruct (body K c0) as [b cK|cK|]; try discriminate.
    unfold finish in HK. cbn beta in HK. injection HK as <-. cbn [rev]. intro E.
    apply (f_equal (@length _)) in E. rewrite app_length in E. cbn in E. lia.
  Qed.

  Lemma plaw_of_good2 evs : run K = RunOk evs -> PLaw run evs.
  Proof.
    intro HK. split.
    - intros r Q.
      pose proof (Gbody r c0) as G. pose proof (Hcnt r) as Hc. rewrite Hrun in HK.
      destruct (body K c0) as [b cK|cK|] eqn:EK; [|discriminate|discriminate].
      cbn [fin_core] in G. destruct G as (_ & Gq & _). rewrite Hc0 in *. cbn [length] in *.
      unfold finish in HK. cbn beta in HK. injection HK as HK.
      assert (Hlen : length evs = S (length (log cK))).
      { rewrite <- HK. cbn [rev]. rewrite app_length, rev_length. cbn. lia. }
      assert (Q' : quiet r 0 (length (log cK))) by (intros i Hi; apply Q; lia).
      rewrite Hrun, (Gq Q'). rewrite (Hc cK eq_refl Q').
      unfold finish. replace (length evs - 1) with (length (log cK)) by lia.
      rewrite <- HK. destruct (r (length (log cK))); reflexivity.
    - intros r k. destruct (run_prefix_law2 body c0 cnt run Hc0 Gbody Hrun Hcnt r evs) as (H1 & _).
      apply (H1 HK).
  Qed.
End FromGood2.

(* the three strategies *)
Section Strategies.
  Variable cfg : config.
  Variable M : matcher.

  Lemma slice_plaw s evs : slice_by_line_run cfg M K s = RunOk evs -> PLaw (fun r => slice_by_line_run cfg M r s) evs.
  Proof.
    apply (plaw_of_good (slice_body cfg M s) (core_new cfg) (fun r => slice_by_line_run cfg M r s)).
    - reflexivity.
    - apply good_slice_body.
    - intro r. apply slice_run_eq_body.
  Qed.

  Lemma multi_line_plaw s evs : multi_line_run cfg M K s = RunOk evs -> PLaw (fun r => multi_line_run cfg M r s) evs.
  Proof.
    apply (plaw_of_good (ml_body cfg M s) (core_new cfg) (fun r => multi_line_run cfg M r s)).
    - reflexivity.
    - apply good_ml_body.
    - intro r. apply ml_run_eq_body.
  Qed.

  Lemma reader_plaw pol cap stream hist evs :
    read_by_line_run cfg M K pol cap stream hist = RunOk evs ->
    PLaw (fun r => read_by_line_run cfg M r pol cap stream hist) evs.
  Proof.
    apply (plaw_of_good2 (rbl_body cfg M pol cap stream hist) (core_new cfg) (rbl_cnt cfg M pol cap stream hist)
             (fun r => read_by_line_run cfg M r pol cap stream hist)).
    - reflexivity.
    - apply good2_rbl_body.
    - intro r. apply rbl_run_eq_body.
    - intros r cK. apply rbl_cnt_quiet.
  Qed.

  Variable St : Type.
  Variable step : St -> event -> St * reply.
  Variable s0 : St.
  Hypothesis finish_blind : forall st n b n' b', snd (step st (EFinish n b)) = snd (step st (EFinish n' b')).

  Theorem slice_sink_driven s evs :
    slice_by_line_run cfg M K s = RunOk evs -> SinkRunSpec St step s0 (fun r => slice_by_line_run cfg M r s) evs.
  Proof.
    intro HK. apply (sink_driven_run St step s0 finish_blind); [apply slice_plaw; exact HK|].
    apply (nonempty_of_good (slice_body cfg M s) (core_new cfg) (fun r => slice_by_line_run cfg M r s));
      [intro r; apply slice_run_eq_body|exact HK].
  Qed.

  Theorem multi_line_sink_driven s evs :
    multi_line_run cfg M K s = RunOk evs -> SinkRunSpec St step s0 (fun r => multi_line_run cfg M r s) evs.
  Proof.
    intro HK. apply (sink_driven_run St step s0 finish_blind); [apply multi_line_plaw; exact HK|].
    apply (nonempty_of_good (ml_body cfg M s) (core_new cfg) (fun r => multi_line_run cfg M r s));
      [intro r; apply ml_run_eq_body|exact HK].
  Qed.

  Theorem reader_sink_driven pol cap stream hist evs :
    read_by_line_run cfg M K pol cap stream hist = RunOk evs ->
    SinkRunSpec St step s0 (fun r => read_by_line_run cfg M r pol cap stream hist) evs.
  Proof.
    intro HK. apply (sink_driven_run St step s0 finish_blind); [apply reader_plaw; exact HK|].
    apply (nonempty_of_good2 (rbl_body cfg M pol cap stream hist) (core_new cfg) (rbl_cnt cfg M pol cap stream hist)
             (fun r => read_by_line_run cfg M r pol cap stream hist));
      [intro r; apply rbl_run_eq_body|intros r cK; apply rbl_cnt_quiet|exact HK].
  Qed.
End Strategies.
