(* Proofs/GlobSetIsMatchProofs.v — GlobSet::is_match (the per-strategy is_match functions, a different code
   path from matches_into) answers true exactly when some member glob matches *)
From RG Require Import Base.Bytes Base.BytesFacts Model.Glob Model.GlobSet Spec.GlobSem Spec.GlobSetSem
  Proofs.GlobSemProofs Proofs.GlobPathProofs Proofs.GlobStrategyProofs Proofs.SortDedupProofs Proofs.GlobSetProofs.

Definition hm_ok {V} (m : hmap V) : Prop := forall k v, hm_get m k = Some v -> v <> [].

Lemma hm_get_push {V} (m : hmap V) k x key :
  hm_get (hm_push m k x) key =
  if bytes_eqb k key then Some (hits m key ++ [x]) else hm_get m key.
Proof.
  unfold hits. induction m as [|[k' v] r IH]; cbn [hm_push hm_get].
  - destruct (bytes_eqb k key); reflexivity.
  - destruct (bytes_eqb k' k) eqn:E; cbn [hm_get].
    + rewrite <- (bytes_eqb_trans_l _ _ key E). destruct (bytes_eqb k' key); reflexivity.
    + destruct (bytes_eqb k' key) eqn:E2.
      * assert (bytes_eqb k key = false) as ->; [|reflexivity].
        destruct (bytes_eqb k key) eqn:E3; [|reflexivity]. apply bytes_eqb_eq in E2, E3. subst.
        now rewrite bytes_eqb_refl in E.
      * exact IH.
Qed.

Lemma hm_push_ok {V} (m : hmap V) k x : hm_ok m -> hm_ok (hm_push m k x).
Proof.
  intros H key v Hg. rewrite hm_get_push in Hg. destruct (bytes_eqb k key).
  - injection Hg as <-. destruct (hits m key); discriminate.
  - eapply H; eassumption.
Qed.

Lemma hm_has_iff {V} (m : hmap V) key : hm_ok m -> hm_has m key = true <-> exists x, In x (hits m key).
Proof.
  intro H. unfold hm_has, hits. destruct (hm_get m key) as [v|] eqn:E; split.
  - intros _. specialize (H _ _ E). destruct v as [|x v]; [congruence|]. exists x. now left.
  - reflexivity.
  - discriminate.
  - intros (x & []).
Qed.

Lemma existsb_flat_map {A B} (f : A -> bool) (g : A -> B) (l : list A) :
  existsb f l = true <-> exists y, In y (flat_map (fun a => if f a then [g a] else []) l).
Proof.
  induction l as [|a l IH]; cbn [existsb flat_map].
  - split; [discriminate|intros (y & [])].
  - rewrite orb_true_iff, IH. split.
    + intros [H|(y & Hy)]; [exists (g a); rewrite H; now left|exists y; apply in_or_app; now right].
    + intros (y & Hy). apply in_app_or in Hy as [Hy|Hy]; [|right; eauto].
      destruct (f a); [now left|destruct Hy].
Qed.

Section IsMatch.
Variable re : glob -> bytes -> bool.
Variable p : bytes.
Let c := candidate_new p.

Definition set_ok2 (s : globset) : Prop := hm_ok (gs_lits s) /\ hm_ok (gs_base_lits s) /\ hm_ok (gs_exts s).

Lemma add_glob_ok2 s i g : set_ok2 s -> set_ok2 (add_glob s i g).
Proof.
  intros (H1 & H2 & H3). unfold add_glob, set_ok2.
  destruct (strategy_new (g_opts g) (g_tokens g)) as [lit|lit|e|pre|suf comp|e|];
    cbn [gs_lits gs_base_lits gs_exts]; repeat split; try assumption; try (apply hm_push_ok; assumption).
  destruct comp; [apply hm_push_ok|]; assumption.
Qed.

Lemma add_globs_ok2 gs : forall s i, set_ok2 s -> set_ok2 (add_globs s i gs).
Proof. induction gs as [|g gs IH]; intros s i H; cbn [add_globs]; [assumption|]. apply IH. now apply add_glob_ok2. Qed.

Lemma empty_ok2 : set_ok2 empty_set.
Proof. unfold set_ok2, hm_ok, empty_set. cbn. repeat split; intros; discriminate. Qed.

Lemma lits_iff s : set_ok2 s -> lits_is_match s c = true <-> exists x, In x (lits_matches s c).
Proof. intros (H & _). unfold lits_is_match, lits_matches. fold (hits (gs_lits s) (c_path c)). now apply hm_has_iff. Qed.

Lemma base_lits_iff s : set_ok2 s -> base_lits_is_match s c = true <-> exists x, In x (base_lits_matches s c).
Proof.
  intros (_ & H & _). unfold base_lits_is_match, base_lits_matches. destruct (c_basename c) as [|b r].
  - split; [discriminate|intros (x & [])].
  - fold (hits (gs_base_lits s) (b :: r)). now apply hm_has_iff.
Qed.

Lemma exts_iff s : set_ok2 s -> exts_is_match s c = true <-> exists x, In x (exts_matches s c).
Proof.
  intros (_ & _ & H). unfold exts_is_match, exts_matches. destruct (c_ext c) as [|b r].
  - split; [discriminate|intros (x & [])].
  - fold (hits (gs_exts s) (b :: r)). now apply hm_has_iff.
Qed.

Lemma prefix_iff s : prefix_is_match s c = true <-> exists x, In x (prefix_matches s c).
Proof.
  unfold prefix_is_match, prefix_matches.
  set (l := ac_overlapping _ _). set (mp := m_map (gs_prefixes s)). clearbody l mp.
  induction l as [|[[pat st] en] l IH]; cbn [existsb flat_map].
  - split; [discriminate|intros (y & [])].
  - rewrite orb_true_iff, IH. split.
    + intros [H|(y & Hy)]; [rewrite H; eexists; now left|exists y; apply in_or_app; now right].
    + intros (y & Hy). apply in_app_or in Hy as [Hy|Hy]; [|right; eauto].
      destruct (Nat.eqb st 0); [now left|destruct Hy].
Qed.

Lemma suffix_iff s : suffix_is_match s c = true <-> exists x, In x (suffix_matches s c).
Proof.
  unfold suffix_is_match, suffix_matches.
  set (q := path_suffix c (m_longest (gs_suffixes s))).
  set (l := ac_overlapping _ _). set (mp := m_map (gs_suffixes s)). clearbody l mp.
  induction l as [|[[pat st] en] l IH]; cbn [existsb flat_map].
  - split; [discriminate|intros (y & [])].
  - rewrite orb_true_iff, IH. split.
    + intros [H|(y & Hy)]; [rewrite H; eexists; now left|exists y; apply in_or_app; now right].
    + intros (y & Hy). apply in_app_or in Hy as [Hy|Hy]; [|right; eauto].
      destruct (Nat.eqb en (length q)); [now left|destruct Hy].
Qed.

Lemma required_iff s : required_exts_is_match re s c = true <-> exists x, In x (required_exts_matches re s c).
Proof.
  unfold required_exts_is_match, required_exts_matches. destruct (c_ext c) as [|b r].
  - split; [discriminate|intros (x & [])].
  - destruct (hm_get (gs_required_exts s) (b :: r)) as [regexes|].
    + apply (existsb_flat_map (fun ig : nat * glob => re (snd ig) (c_path c)) fst).
    + split; [discriminate|intros (x & [])].
Qed.

Lemma existsb_enum {A} (f : A -> bool) (l : list A) : forall n,
  existsb (fun jg : nat * A => f (snd jg)) (enum_from n l) = existsb f l.
Proof. induction l as [|a l IH]; intro n; [reflexivity|]. cbn [existsb enum_from snd]. now rewrite IH. Qed.

Lemma regexes_iff s : regexes_is_match re s c = true <-> exists x, In x (regexes_matches re s c).
Proof.
  unfold regexes_is_match, regexes_matches. set (mp := m_map (gs_regexes s)).
  rewrite <- (existsb_flat_map (fun jg : nat * glob => re (snd jg) (c_path c)) (fun jg => nth (fst jg) mp 0)).
  now rewrite (existsb_enum (fun g => re g (c_path c))).
Qed.

Lemma is_match_candidate_iff s :
  set_ok2 s -> gs_len s <> 0 ->
  set_is_match_candidate re s c = true <-> exists x, In x (all_hits re p s).
Proof.
  intros Hok Hlen. unfold set_is_match_candidate. destruct (Nat.eqb (gs_len s) 0) eqn:E; [apply Nat.eqb_eq in E; congruence|].
  rewrite !orb_true_iff, exts_iff, base_lits_iff, lits_iff, suffix_iff, prefix_iff, required_iff, regexes_iff by assumption.
  split.
  - intros H. repeat destruct H as [H|H]; destruct H as (x & H); exists x; apply all_hits_in; tauto.
  - intros (x & H). apply all_hits_in in H. repeat destruct H as [H|H]; eauto 10.
Qed.

Theorem set_is_match_spec gs :
  set_is_match re gs p =
  existsb (fun g => strategy_match (strategy_new (g_opts g) (g_tokens g)) c (re g)) gs.
Proof.
  unfold set_is_match, build_set. destruct gs as [|g0 gs']; [reflexivity|]. set (gs := g0 :: gs').
  set (s := add_globs empty_set 0 gs).
  assert (Hok : set_ok2 s) by (apply add_globs_ok2, empty_ok2).
  apply bool_eq_iff.
  match goal with |- set_is_match_candidate re ?S _ = true <-> _ => set (s' := S) end.
  assert (Hs' : set_is_match_candidate re s' (candidate_new p) = true <-> exists x, In x (all_hits re p s)).
  { assert (E : all_hits re p s' = all_hits re p s) by reflexivity. rewrite <- E.
    apply is_match_candidate_iff; [exact Hok|discriminate]. }
  rewrite Hs', existsb_exists. split.
  - intros (x & Hx). destruct (add_globs_spec re p gs empty_set 0 x (empty_ok)) as [_ H]. fold s in H.
    apply H in Hx as [F|(d & g & Hn & _ & Hs)]; [now apply all_hits_empty in F|].
    exists g. split; [eapply nth_error_In; eassumption|exact Hs].
  - intros (g & Hin & Hs). apply In_nth_error in Hin as (d & Hn). exists (0 + d).
    destruct (add_globs_spec re p gs empty_set 0 (0 + d) (empty_ok)) as [_ H]. fold s in H. apply H.
    right. exists d, g. auto.
Qed.
End IsMatch.

Theorem set_is_match_eq_exists_proof gs p :
  set_is_match re_spec gs p = existsb (fun g => tmatch (g_opts g) (g_tokens g) p) gs.
Proof.
  rewrite set_is_match_spec. induction gs as [|g gs IH]; [reflexivity|]. cbn [existsb]. rewrite IH. f_equal.
  apply strategy_eq_regex_proof.
Qed.
