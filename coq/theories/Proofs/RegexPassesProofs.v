(* Proofs/RegexPassesProofs.v — top-level statements about Model/RegexBuild.v:
   strip_from_match (byte and CRLF), its errors, non_matching_bytes, wrapping, build. *)
From RG Require Import Base.Bytes Base.BytesFacts Spec.RegexSem Model.RegexBuild
  Proofs.RegexSemProofs Proofs.RegexBuildProofs Proofs.Utf8Proofs.

(* no byte of s[i..j) is a terminator byte *)
Definition term_free (lt : rterm) (s : bytes) (i j : nat) : Prop :=
  forall p, i <= p < j -> is_term_byte lt (byte_at s p) = false.

Lemma term_free_byte b s i j : term_free (RTByte b) s i j <-> clean b s i j.
Proof.
  unfold term_free, clean, is_term_byte. split; intros H p Hp; specialize (H p Hp).
  - now apply N.eqb_neq.
  - now apply N.eqb_neq.
Qed.

Lemma term_free_crlf s i j : term_free RTCrlf s i j <-> clean 13 s i j /\ clean 10 s i j.
Proof.
  unfold term_free, clean, is_term_byte. split.
  - intro H. split; intros p Hp; specialize (H p Hp); apply orb_false_iff in H as [H1 H2];
      now apply N.eqb_neq.
  - intros [H1 H2] p Hp. apply orb_false_iff. split; apply N.eqb_neq; auto.
Qed.

Definition norm_ok (norm : hir -> hir) : Prop :=
  forall h s i j, Matches (norm h) s i j <-> Matches h s i j.

Theorem strip_rejects_not_alters_proof : forall norm, norm_ok norm -> forall h lt h' s i j,
  strip_from_match norm h lt = inl h' ->
  (Matches h' s i j <-> Matches h s i j /\ term_free lt s i j).
Proof.
  intros norm Hn h lt h' s i j. unfold strip_from_match, strip_from_match_ascii. destruct lt as [b|].
  - destruct (127 <? b)%N eqn:E; [discriminate|]. apply N.ltb_ge in E. intro H.
    rewrite term_free_byte. now apply strip_ascii_iff.
  - cbn [N.ltb]. change (127 <? 13)%N with false. change (127 <? 10)%N with false.
    destruct (strip_ascii 13 h) as [h1|e] eqn:E1; [|discriminate]. intro E2.
    rewrite term_free_crlf.
    rewrite (strip_ascii_iff 10 ltac:(lia) (norm h1) h' s i j E2).
    rewrite (Hn h1 s i j).
    rewrite (strip_ascii_iff 13 ltac:(lia) h h1 s i j E1). tauto.
Qed.

Theorem strip_sound_proof : forall norm, norm_ok norm -> forall h lt h' s i j,
  strip_from_match norm h lt = inl h' -> Matches h' s i j ->
  forall p, i <= p < j -> is_term_byte lt (byte_at s p) = false.
Proof.
  intros norm Hn h lt h' s i j H M. apply (strip_rejects_not_alters_proof norm Hn _ _ _ s i j H) in M. apply M.
Qed.

(* ---- when strip rejects ---- *)
Definition is_nil {A} (l : list A) : bool := match l with [] => true | _ => false end.

(* a leaf that can only match text containing b: a literal containing b, or a non-empty class
   with no member other than b *)
Fixpoint forced_leaf (b : N) (h : hir) : bool :=
  match h with
  | HLit lit => existsb (N.eqb b) lit
  | HClassB rs | HClassU rs => negb (is_nil rs) && is_nil (remove_point rs b)
  | HRep _ _ _ sub | HCap sub => forced_leaf b sub
  | HConcat xs | HAlt xs =>
    (fix go (l : list hir) : bool := match l with [] => false | x :: t => forced_leaf b x || go t end) xs
  | _ => false
  end.

Lemma forced_class b rs x :
  negb (is_nil rs) && is_nil (remove_point rs b) = true -> in_ranges rs x = true -> x = b.
Proof.
  intros H Hx. apply andb_true_iff in H as [_ H].
  pose proof (in_ranges_remove_point rs b x) as E. destruct (remove_point rs b); [|discriminate].
  cbn in E. rewrite Hx in E. cbn in E. symmetry in E. apply negb_false_iff, N.eqb_eq in E. exact E.
Qed.

Theorem strip_ascii_error : forall byte h e,
  strip_ascii byte h = inr e -> e = ENotAllowed byte /\ forced_leaf byte h = true.
Proof.
  intros byte h. induction h as [|lit|rs|rs|l|mn mx g h IH|h IH|hs IH|hs IH] using hir_ind2;
    intros e Hs; cbn [strip_ascii forced_leaf] in *; try discriminate.
  - destruct (existsb (N.eqb byte) lit); [injection Hs as <-; auto|discriminate].
  - destruct rs as [|r rs]; [discriminate|]. destruct (remove_point (r :: rs) byte); [injection Hs as <-; auto|discriminate].
  - destruct rs as [|r rs]; [discriminate|]. destruct (remove_point (r :: rs) byte); [injection Hs as <-; auto|discriminate].
  - destruct (strip_ascii byte h) as [h1|e1]; [discriminate|]. injection Hs as <-. now apply IH.
  - destruct (strip_ascii byte h) as [h1|e1]; [discriminate|]. injection Hs as <-. now apply IH.
  - match type of Hs with match ?g with _ => _ end = _ => destruct g as [ys|e1] eqn:G end; [discriminate|].
    injection Hs as <-. clear -IH G. revert e1 G. induction IH as [|x xs Hx Hxs IHl]; intros e1 G; [discriminate|].
    destruct (strip_ascii byte x) as [y|e2] eqn:E.
    + match type of G with match ?g with _ => _ end = _ => destruct g as [ys|e3] eqn:G' end; [discriminate|].
      injection G as <-. destruct (IHl _ eq_refl) as [-> F]. split; [reflexivity|]. rewrite F. apply orb_true_r.
    + injection G as <-. destruct (Hx _ eq_refl) as [-> F]. split; [reflexivity|]. now rewrite F.
  - match type of Hs with match ?g with _ => _ end = _ => destruct g as [ys|e1] eqn:G end; [discriminate|].
    injection Hs as <-. clear -IH G. revert e1 G. induction IH as [|x xs Hx Hxs IHl]; intros e1 G; [discriminate|].
    destruct (strip_ascii byte x) as [y|e2] eqn:E.
    + match type of G with match ?g with _ => _ end = _ => destruct g as [ys|e3] eqn:G' end; [discriminate|].
      injection G as <-. destruct (IHl _ eq_refl) as [-> F]. split; [reflexivity|]. rewrite F. apply orb_true_r.
    + injection G as <-. destruct (Hx _ eq_refl) as [-> F]. split; [reflexivity|]. now rewrite F.
Qed.

Theorem strip_error_witness_proof : forall norm h lt e,
  strip_from_match norm h lt = inr e ->
  (exists b, lt = RTByte b /\ (127 < b)%N /\ e = EInvalidLineTerminator b) \/
  (exists b, is_term_byte lt b = true /\ e = ENotAllowed b /\
             (forced_leaf b h = true \/
              exists h1, lt = RTCrlf /\ strip_ascii 13 h = inl h1 /\ forced_leaf 10 (norm h1) = true)).
Proof.
  intros norm h lt e. unfold strip_from_match, strip_from_match_ascii. destruct lt as [b|].
  - destruct (127 <? b)%N eqn:E.
    + intro H; injection H as <-. left. exists b. apply N.ltb_lt in E. auto.
    + intro H. apply strip_ascii_error in H as [-> F]. right. exists b. cbn. rewrite N.eqb_refl. auto.
  - change (127 <? 13)%N with false. change (127 <? 10)%N with false. cbn iota.
    destruct (strip_ascii 13 h) as [h1|e1] eqn:E1.
    + intro H. apply strip_ascii_error in H as [-> F]. right. exists 10%N. cbn. split; [reflexivity|].
      split; [reflexivity|]. right. exists h1. auto.
    + intro H; injection H as <-. apply strip_ascii_error in E1 as [-> F]. right. exists 13%N. cbn. auto.
Qed.

(* what a forced leaf means: the leaf itself cannot match without the byte *)
Lemma forced_lit_sem b lit s i j :
  existsb (N.eqb b) lit = true -> Matches (HLit lit) s i j -> ~ clean b s i j.
Proof.
  intros E M C. apply matches_lit_iff in M as (-> & Hi & Hp).
  apply (lit_clean b lit s i Hi Hp) in C. congruence.
Qed.
Lemma forced_classb_sem b rs s i j :
  negb (is_nil rs) && is_nil (remove_point rs b) = true -> Matches (HClassB rs) s i j -> ~ clean b s i j.
Proof.
  intros E M C. apply matches_classb_iff in M as (-> & x & Hx & Hr).
  apply (forced_class b rs x E) in Hr. subst x. apply (C i); [lia|]. now apply nth_error_byte_at.
Qed.
Lemma forced_classu_sem b rs s i j :
  (b <= 127)%N -> negb (is_nil rs) && is_nil (remove_point rs b) = true ->
  Matches (HClassU rs) s i j -> ~ clean b s i j.
Proof.
  intros Hb E M C. apply matches_classu_iff in M as (Hi & cp & n & -> & Hd & Hr).
  apply (forced_class b rs cp E) in Hr. subst cp.
  now apply (utf8_ascii_clean b s i b n Hb Hd) in C.
Qed.

(* ---- non_matching_bytes ---- *)
Lemma fold_remove_lit lit set x :
  fold_left (fun s b => bs_remove b s) lit set x = true -> set x = true /\ existsb (N.eqb x) lit = false.
Proof.
  revert set; induction lit as [|b t IH]; intros set H; cbn in *; [auto|].
  apply IH in H as [H1 H2]. unfold bs_remove in H1. destruct (x =? b)%N eqn:E; [discriminate|].
  rewrite H2. auto.
Qed.

Lemma fold_remove_all rs set x :
  fold_left (fun s r => bs_remove_all (fst r) (snd r) s) rs set x = true ->
  set x = true /\ in_ranges rs x = false.
Proof.
  revert set; induction rs as [|r t IH]; intros set H; cbn in *; [auto|].
  apply IH in H as [H1 H2]. unfold bs_remove_all in H1. unfold in_range.
  destruct ((fst r <=? x)%N && (x <=? snd r)%N); [discriminate|]. auto.
Qed.

Lemma fold_remove_utf8 rs set x :
  fold_left (fun s r => bs_remove_utf8 (fst r) (snd r) s) rs set x = true ->
  set x = true /\ forall r, In r rs -> utf8_range_hits (fst r) (snd r) x = false.
Proof.
  revert set; induction rs as [|r t IH]; intros set H; cbn in *; [split; [auto|intros ? []]|].
  apply IH in H as [H1 H2]. unfold bs_remove_utf8 in H1.
  destruct (utf8_range_hits (fst r) (snd r) x) eqn:E; [discriminate|].
  split; [exact H1|]. intros r' [<-|Hr]; auto.
Qed.

Lemma look_removes_mono l set x : look_removes l set x = true -> set x = true.
Proof.
  destruct l; cbn; unfold bs_remove; auto; repeat (destruct (x =? _)%N; try discriminate); auto.
Qed.

Lemma in_ranges_true rs x : in_ranges rs x = true -> exists r, In r rs /\ in_range r x = true.
Proof. unfold in_ranges. intro H. apply existsb_exists in H. exact H. Qed.

Lemma nth_In_firstn (t : bytes) n p : p < n -> n <= length t -> In (byte_at t p) (firstn n t).
Proof.
  unfold byte_at. revert n p; induction t as [|x xs IH]; intros [|n] [|p] Hp Hn; cbn in *; try lia; auto.
  right. apply IH; lia.
Qed.

Theorem remove_matching_bytes_sound : forall h set x,
  remove_matching_bytes h set x = true ->
  set x = true /\ forall s i j, Matches h s i j -> clean x s i j.
Proof.
  intros h. induction h as [|lit|rs|rs|l|mn mx g h IH|h IH|hs IH|hs IH] using hir_ind2;
    intros set x H; cbn [remove_matching_bytes] in H.
  - split; [exact H|]. intros s i j M. apply matches_empty_iff in M as [-> _]. apply clean_empty.
  - apply fold_remove_lit in H as [H1 H2]. split; [exact H1|]. intros s i j M.
    apply matches_lit_iff in M as (-> & Hi & Hp). now apply lit_clean.
  - apply fold_remove_all in H as [H1 H2]. split; [exact H1|]. intros s i j M.
    apply matches_classb_iff in M as (-> & y & Hy & Hr). intros p Hp. assert (p = i) by lia. subst p.
    rewrite (nth_error_byte_at _ _ _ Hy). intros ->. congruence.
  - apply fold_remove_utf8 in H as [H1 H2]. split; [exact H1|]. intros s i j M.
    apply matches_classu_iff in M as (Hi & cp & n & -> & Hd & Hr).
    apply in_ranges_true in Hr as (r & Hin & Hr). specialize (H2 r Hin).
    destruct (utf8_decode_encode _ _ _ Hd) as (Hs & Henc & Hn).
    pose proof (utf8_decode_len _ _ _ Hd) as Hlen.
    intros p Hp E.
    assert (Hx : In x (utf8_encode cp)).
    { rewrite <- Henc, <- E. replace p with (i + (p - i)) by lia. rewrite <- byte_at_skipn.
      apply nth_In_firstn; lia. }
    unfold in_range in Hr. apply andb_true_iff in Hr as [R1 R2]. apply N.leb_le in R1, R2.
    rewrite (utf8_range_hits_sound (fst r) (snd r) cp x) in H2; [discriminate|lia|exact Hs|exact Hx].
  - split; [now apply look_removes_mono in H|]. intros s i j M.
    apply matches_look_iff in M as (-> & _). apply clean_empty.
  - apply IH in H as [H1 H2]. split; [exact H1|]. intros s i j M. apply matches_rep_iff in M.
    induction M as [mx i Hi|mn mx i k j Hmx HP HR IHR]; [apply clean_empty|].
    pose proof (matches_bounds _ _ _ _ HP).
    assert (k <= j <= length s) by (eapply RepM_bounds; [apply matches_bounds|exact HR]).
    apply (clean_split x s i k j); [lia|]. split; [now apply H2|exact IHR].
  - apply IH in H as [H1 H2]. split; [exact H1|]. intros s i j M. rewrite matches_cap_iff in M. now apply H2.
  - revert set H. induction IH as [|y ys Hy Hys IHl]; intros set H.
    + split; [exact H|]. intros s i j M. apply matches_concat_nil_iff in M as [-> _]. apply clean_empty.
    + apply IHl in H as [H1 H2]. apply Hy in H1 as [H0 H3]. split; [exact H0|].
      intros s i j M. apply matches_concat_cons_iff in M as (k & M1 & M2).
      pose proof (matches_bounds _ _ _ _ M1). pose proof (matches_bounds _ _ _ _ M2).
      apply (clean_split x s i k j); [lia|]. split; [now apply H3|now apply H2].
  - revert set H. induction IH as [|y ys Hy Hys IHl]; intros set H.
    + split; [exact H|]. intros s i j M. now apply matches_alt_nil_iff in M.
    + apply IHl in H as [H1 H2]. apply Hy in H1 as [H0 H3]. split; [exact H0|].
      intros s i j M. apply matches_alt_cons_iff in M as [M|M]; [now apply H3|now apply H2].
Qed.

Theorem non_matching_sound_proof : forall h b s i j,
  non_matching_bytes h b = true -> Matches h s i j -> forall p, i <= p < j -> byte_at s p <> b.
Proof.
  intros h b s i j H M. apply remove_matching_bytes_sound in H as [_ H]. exact (H s i j M).
Qed.

(* ---- wrapping and the advertised terminator ---- *)
Lemma matches_wrap3 l1 h l2 s i j :
  Matches (HConcat [HLook l1; h; HLook l2]) s i j <->
  Matches h s i j /\ look_matches l1 s i = true /\ look_matches l2 s j = true.
Proof.
  split.
  - intro M. apply matches_concat_cons_iff in M as (k1 & M1 & M).
    apply matches_concat_cons_iff in M as (k2 & M2 & M).
    apply matches_concat_cons_iff in M as (k3 & M3 & M).
    apply matches_concat_nil_iff in M as [-> _].
    apply matches_look_iff in M1 as (-> & _ & L1). apply matches_look_iff in M3 as (-> & _ & L3). auto.
  - intros (M & L1 & L3). pose proof (matches_bounds _ _ _ _ M).
    apply matches_concat_cons_iff. exists i. split; [apply matches_look_iff; repeat split; [lia|exact L1]|].
    apply matches_concat_cons_iff. exists j. split; [exact M|].
    apply matches_concat_cons_iff. exists j. split; [apply matches_look_iff; repeat split; [lia|exact L3]|].
    apply matches_concat_nil_iff. split; [reflexivity|lia].
Qed.

Lemma wrap_iff c h s i j :
  Matches (wrap c h) s i j <->
  Matches h s i j /\
  (if c_whole_line c then look_matches (line_anchor_start c) s i = true /\ look_matches (line_anchor_end c) s j = true
   else if c_word c then
     look_matches (if c_unicode c then LWordStartHalfUnicode else LWordStartHalfAscii) s i = true /\
     look_matches (if c_unicode c then LWordEndHalfUnicode else LWordEndHalfAscii) s j = true
   else True).
Proof.
  unfold wrap, into_whole_line, into_word.
  destruct (c_whole_line c); [apply matches_wrap3|destruct (c_word c); [apply matches_wrap3|tauto]].
Qed.

Lemma wrap_inner c h s i j : Matches (wrap c h) s i j -> Matches h s i j.
Proof. intro M. now apply wrap_iff in M. Qed.

Theorem terminator_withheld_proof : forall norm c tr f adv,
  build norm c tr = inl (f, adv) ->
  (contains_anchor_haystack f = true -> adv = None) /\
  (contains_anchor_haystack f = false -> adv = c_line_terminator c).
Proof.
  intros norm c tr f adv. unfold build. destruct (configure norm c tr) as [h|e]; [|discriminate].
  intro H; injection H as <- <-. unfold advertised_terminator.
  destruct (contains_anchor_haystack (wrap c h)); split; congruence.
Qed.

(* the promise the matcher makes when it advertises a line terminator *)
Theorem build_line_terminator_promise_proof : forall norm, norm_ok norm -> forall c tr f lt s i j,
  build norm c tr = inl (f, Some lt) -> Matches f s i j ->
  forall p, i <= p < j -> is_term_byte lt (byte_at s p) = false.
Proof.
  intros norm Hn c tr f lt s i j. unfold build. destruct (configure norm c tr) as [h|e] eqn:E; [|discriminate].
  intro H; injection H as <- Ha. unfold advertised_terminator in Ha.
  destruct (contains_anchor_haystack (wrap c h)); [discriminate|].
  unfold configure in E. destruct (match c_ban c with Some b => ban_check b tr | None => None end); [discriminate|].
  rewrite Ha in E. intro M. apply wrap_inner in M.
  exact (strip_sound_proof norm Hn _ _ _ _ _ _ E M).
Qed.

(* ---- the fixed-strings shortcut keeps the promise without stripping ---- *)
Lemma fixed_no_term ic sm fx lt pats :
  is_fixed_strings ic sm fx (Some lt) pats = true -> forall p, In p pats -> has_line_terminator lt p = false.
Proof.
  unfold is_fixed_strings. destruct (ic || sm); [discriminate|]. destruct fx.
  - intros H p Hin. apply negb_true_iff in H. destruct (has_line_terminator lt p) eqn:E; [|reflexivity].
    assert (existsb (has_line_terminator lt) pats = true) by (apply existsb_exists; eauto). congruence.
  - intros H p Hin. rewrite forallb_forall in H. specialize (H p Hin). apply andb_true_iff in H as [_ H].
    now apply negb_true_iff in H.
Qed.

Theorem fixed_strings_shortcut_sound_proof : forall ic sm fx lt pats s i j,
  is_fixed_strings ic sm fx (Some lt) pats = true -> Matches (fixed_hir pats) s i j ->
  forall p, i <= p < j -> is_term_byte lt (byte_at s p) = false.
Proof.
  intros ic sm fx lt pats s i j Hf M q Hq. unfold fixed_hir in M. apply matches_alt_iff in M as (h & Hin & M).
  apply in_map_iff in Hin as (pat & <- & Hp). apply matches_lit_iff in M as (-> & Hi & Hpre).
  pose proof (fixed_no_term ic sm fx lt pats Hf pat Hp) as Hno. unfold has_line_terminator in Hno.
  replace q with (i + (q - i)) by lia. rewrite <- byte_at_skipn, (prefix_bytes _ _ _ Hpre) by lia.
  destruct (is_term_byte lt (nth (q - i) pat 0%N)) eqn:E; [|reflexivity].
  assert (existsb (is_term_byte lt) pat = true).
  { apply existsb_exists. exists (nth (q - i) pat 0%N). split; [apply nth_In; lia|exact E]. }
  congruence.
Qed.
