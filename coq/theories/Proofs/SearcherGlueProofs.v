(* Proofs/SearcherGlueProofs.v — a reused Searcher leaks no state from one search into the next
   (Model/SearcherGlue.v): LineBufferReader::new clears the roll buffer, the multi-line buffer is
   cleared before it is filled; and the strategies the Searcher picks for a slice, a reader and a
   file deliver the same events. *)
From RG Require Import Base.Bytes Base.BytesFacts Model.Lines Model.SearcherCore Model.Glue Model.ReadByLine
  Model.SearcherGlue Spec.GrepSpec Proofs.LinesProofs Proofs.CoreSinkProofs Proofs.SlowPathProofs
  Proofs.FastPathProofs Proofs.LineBufferProofs Proofs.ReaderProofs.

(* an empty roll buffer, whatever its (grown) capacity *)
Definition lb_empty (lb : linebuf) : Prop :=
  lb_data lb = [] /\ lb_pos lb = 0 /\ lb_llt lb = 0 /\ lb_abs lb = 0.

Lemma lb_clear_empty lb : lb_empty (lb_clear lb).
Proof. repeat split. Qed.

Lemma lb_new_empty cap : lb_empty (lb_new cap).
Proof. repeat split. Qed.

Lemma read_by_line_run_from_new cfg M reply_of pol cap stream hist :
  fst (read_by_line_run_from cfg M reply_of pol (lb_new cap) stream hist)
  = read_by_line_run cfg M reply_of pol cap stream hist.
Proof.
  unfold read_by_line_run_from, read_by_line_run.
  destruct (emit reply_of (core_new cfg) EBegin) as [b c|c|]; [|reflexivity|reflexivity].
  destruct b.
  - destruct (rbl_loop cfg M reply_of pol (2 * length stream + 4) c (lb_new cap) {| r_rest := stream; r_hist := hist |}) as [o lb].
    destruct o; reflexivity.
  - reflexivity.
Qed.

Lemma wf_empty S lb hist : lb_empty lb -> lb_wf S lb {| r_rest := S; r_hist := hist |}.
Proof.
  intros (Hd & Hp & Hl & Ha). constructor; rewrite ?Hd, ?Hp, ?Hl, ?Ha; cbn; try lia. reflexivity.
Qed.

Section From.
  Variable cfg : config.
  Variable M : matcher.
  Hypothesis Hbin : c_binary cfg = BNone.
  Hypothesis Hfind : forall buf, (exists c, is_line_by_line_fast cfg M c = true) -> find_spec cfg M buf.
  Notation ltb := (lt_byte (c_lt cfg)).
  Notation K := (fun _ : nat => Continue).
  Notation gfin S := (fold_left (g_step cfg (m_is_match M)) (split_lines ltb S) g_init).

  Lemma main_init_empty S lb : lb_empty lb -> MainInv cfg M S (set_log (core_new cfg) [EBegin]) lb.
  Proof.
    intros (Hd & Hp & Hl & Ha).
    assert (Hb : lb_buffer lb = []) by (unfold lb_buffer; rewrite Hd, Hp, Hl; reflexivity).
    exists 0, [], (split_lines ltb S), g_init. unfold E_of. rewrite Hb, Ha.
    split; [reflexivity|]. split; [constructor|]. split; [reflexivity|].
    split; [exact (R_init cfg [])|]. split; [apply geq_refl|]. split; reflexivity.
  Qed.

  (* ReadByLine::run from any empty roll buffer *)
  Theorem reader_from_run_proof pol lb0 S hist : lb_empty lb0 -> chunks hist ->
    (exists n, fst (read_by_line_run_from cfg M K pol lb0 S hist)
               = RunOk (EBegin :: rev (g_out (gfin S)) ++ [EFinish n None]) /\
               (g_stopped (gfin S) = false -> n = length S) /\ n <= g_off (gfin S)) \/
    ((exists limit, pol = AError limit) /\
     exists evs, fst (read_by_line_run_from cfg M K pol lb0 S hist) = RunErr evs).
  Proof.
    intros He Hh. unfold read_by_line_run_from. rewrite emit_K.
    change (log (core_new cfg)) with (@nil event).
    pose proof (rbl_loop_ok cfg M Hbin Hfind pol S (2 * length S + 4) (set_log (core_new cfg) [EBegin]) lb0
                  {| r_rest := S; r_hist := hist |} (wf_empty S lb0 hist He) Hh
                  (or_introl (main_init_empty S lb0 He))) as Hloop.
    destruct (rbl_loop cfg M K pol (2 * length S + 4) (set_log (core_new cfg) [EBegin]) lb0
                {| r_rest := S; r_hist := hist |}) as [o lb].
    destruct Hloop as [(b & c & Ho & Hlog & Hb & Hn & Hle)|(Hpol & c & Ho)].
    { destruct He as (Hd & Hp & Hl & Ha). unfold mu, E_of, lb_buffer. rewrite Hd, Hp, Hl, Ha. cbn. lia. }
    - cbn [fst snd] in *. subst o. left. exists (lb_abs lb). split; [|split; [exact Hn|exact Hle]].
      unfold finish. rewrite Hb, Hlog. cbn [rev]. rewrite rev_app_distr. reflexivity.
    - cbn [fst] in Ho. subst o. right. split; [exact Hpol|]. cbn [fst]. eauto.
  Qed.
End From.

(* two results with the same events; only the byte count of `finish` may differ *)
Definition res_sim (r1 r2 : run_result) : Prop :=
  r1 = r2 \/ exists evs n m, r1 = RunOk (evs ++ [EFinish n None]) /\ r2 = RunOk (evs ++ [EFinish m None]).

Lemma res_sim_refl r : res_sim r r.
Proof. left. reflexivity. Qed.

Section GlueProofs.
  Variable cfg : config.
  Variable M : matcher.
  Hypothesis Hbin : c_binary cfg = BNone.
  Hypothesis Hfind : forall buf, find_spec cfg M buf.
  Variable enc_set bom_sniffing : bool.
  Variable decode : bytes -> bytes.
  Notation ltb := (lt_byte (c_lt cfg)).
  Notation K := (fun _ : nat => Continue).
  Notation gfin S := (g_run cfg (m_is_match M) (split_lines ltb S)).
  Notation search := (search cfg M enc_set bom_sniffing decode).
  Notation needs := (needs_transcoding enc_set bom_sniffing).

  (* the bytes a source is searched as *)
  Definition src_input (src : source) : bytes :=
    match src with SrcSlice s | SrcReader s _ | SrcFile _ s _ => s end.
  Definition src_hist (src : source) : list read_step :=
    match src with SrcSlice _ => [] | SrcReader _ h | SrcFile _ _ h => h end.
  Definition searched (src : source) : bytes :=
    match src with
    | SrcSlice s | SrcFile true s _ => if needs s then decode s else s
    | SrcReader s _ | SrcFile false s _ => decode s
    end.
  Definition src_ok (src : source) : Prop := chunks (src_hist src).

  Lemma chunks_nil : chunks [].
  Proof. constructor. Qed.

  (* the multi-line strategy: MultiLine::run on the searched bytes, whichever way they came *)
  Lemma search_ml reply_of st src : multi_line_with_matcher cfg M = true -> check_config cfg M = true ->
    fst (search reply_of st src) = multi_line_run cfg M reply_of (searched src).
  Proof.
    intros Hml Hcc.
    destruct src as [s|s h|[|] s h]; cbn [search searched];
      unfold search_file_m, search_slice_m, search_reader_m; rewrite ?Hcc, ?Hml; cbn [negb];
      try (destruct (needs s)); rewrite ?Hcc, ?Hml; reflexivity.
  Qed.

  (* the line-oriented strategies *)
  Lemma search_lines st src : multi_line_with_matcher cfg M = false -> check_config cfg M = true -> src_ok src ->
    exists n, fst (search K st src) = RunOk (EBegin :: rev (g_out (gfin (searched src))) ++ [EFinish n None]) /\
              (g_stopped (gfin (searched src)) = false -> n = length (searched src)) /\
              n <= g_off (gfin (searched src)).
  Proof.
    intros Hml Hcc Hok.
    assert (Hrd : forall s h, chunks h ->
              exists n, fst (search_reader_m cfg M decode K st s h)
                        = RunOk (EBegin :: rev (g_out (gfin (decode s))) ++ [EFinish n None]) /\
                        (g_stopped (gfin (decode s)) = false -> n = length (decode s)) /\
                        n <= g_off (gfin (decode s))).
    { intros s h Hh. unfold search_reader_m. rewrite Hcc, Hml. cbn [negb].
      destruct (reader_from_run_proof cfg M Hbin (fun b _ => Hfind b) AEager (lb_clear (ss_lb st)) (decode s) h
                  (lb_clear_empty _) Hh) as [H|((limit & Hl) & _)]; [|discriminate].
      destruct (read_by_line_run_from cfg M K AEager (lb_clear (ss_lb st)) (decode s) h) as [r lb].
      exact H. }
    assert (Hsl : forall s, needs s = false ->
              exists n, slice_by_line_run cfg M K s = RunOk (EBegin :: rev (g_out (gfin s)) ++ [EFinish n None]) /\
                        (g_stopped (gfin s) = false -> n = length s) /\ n <= g_off (gfin s)).
    { intros s _. exists (g_off (gfin s)). split; [exact (slice_eq_ref_proof cfg M Hbin s (Hfind s))|].
      split; [|lia]. intro Hns. exact (gfin_off cfg M s Hns). }
    destruct src as [s|s h|[|] s h]; cbn [search searched src_ok src_hist] in *.
    - unfold search_slice_m. rewrite Hcc, Hml. cbn [negb].
      destruct (needs s) eqn:En; [exact (Hrd s [] chunks_nil)|exact (Hsl s En)].
    - exact (Hrd s h Hok).
    - unfold search_file_m, search_slice_m. rewrite Hcc, Hml. cbn [negb].
      destruct (needs s) eqn:En; [exact (Hrd s [] chunks_nil)|exact (Hsl s En)].
    - unfold search_file_m. rewrite Hml. exact (Hrd s h Hok).
  Qed.

  (* a configuration error is returned by every entry point before anything is touched *)
  Lemma search_cfgerr reply_of st src : check_config cfg M = false ->
    search reply_of st src = (RunErr [], st).
  Proof.
    intro Hcc.
    destruct src as [s|s h|[|] s h]; cbn [search];
      unfold search_file_m, search_slice_m, search_reader_m; rewrite ?Hcc; cbn [negb]; try reflexivity.
    destruct (multi_line_with_matcher cfg M); reflexivity.
  Qed.

  Lemma search_cfgerr_state_free reply_of st1 st2 src : check_config cfg M = false ->
    fst (search reply_of st1 src) = fst (search reply_of st2 src).
  Proof. intro Hcc. now rewrite !search_cfgerr by exact Hcc. Qed.

  (* (b) no state leaks: whatever state earlier searches left the Searcher in, the next search
     delivers the same events; the very same result when it is not cut short *)
  Theorem search_state_independent_proof st1 st2 src : src_ok src ->
    res_sim (fst (search K st1 src)) (fst (search K st2 src)) /\
    (g_stopped (gfin (searched src)) = false -> fst (search K st1 src) = fst (search K st2 src)).
  Proof.
    intro Hok.
    destruct (check_config cfg M) eqn:Hcc.
    2:{ rewrite (search_cfgerr_state_free K st1 st2 src Hcc). split; [apply res_sim_refl|reflexivity]. }
    destruct (multi_line_with_matcher cfg M) eqn:Hml.
    - rewrite !(search_ml K _ src Hml Hcc). split; [apply res_sim_refl|reflexivity].
    - destruct (search_lines st1 src Hml Hcc Hok) as (n1 & H1 & N1 & _).
      destruct (search_lines st2 src Hml Hcc Hok) as (n2 & H2 & N2 & _).
      rewrite H1, H2. split.
      + right. exists (EBegin :: rev (g_out (gfin (searched src)))), n1, n2. split; reflexivity.
      + intro Hns. rewrite (N1 Hns), (N2 Hns). reflexivity.
  Qed.

  Lemma not_cut_short s : c_stop_on_nonmatch cfg = false -> g_stopped (gfin s) = false.
  Proof. intro H. unfold g_run. apply no_stop_config; [exact H|reflexivity]. Qed.

  (* the same for a whole sequence of searches by one Searcher, against a fresh Searcher per source *)
  Notation search_seq := (search_seq cfg M enc_set bom_sniffing decode).

  Theorem search_history_independent_proof cap : forall (srcs : list source) (st : searcher_state),
    Forall src_ok srcs ->
    let results := fst (search_seq st (map (fun src => (src, K)) srcs)) in
    let fresh := map (fun src => fst (search K (ss_new cap) src)) srcs in
    Forall2 res_sim results fresh /\ (c_stop_on_nonmatch cfg = false -> results = fresh).
  Proof.
    induction srcs as [|src rest IH]; intros st Hok; cbn zeta.
    - cbn. split; [constructor|reflexivity].
    - inversion Hok as [|? ? Hs Hr]; subst. cbn [map search_seq].
      destruct (search K st src) as [r st1] eqn:Es.
      specialize (IH st1 Hr). cbn zeta in IH.
      destruct (search_seq st1 (map (fun src0 => (src0, K)) rest)) as [rs st2]. cbn [fst] in *.
      destruct (search_state_independent_proof st (ss_new cap) src Hs) as (H1 & H2). rewrite Es in H1, H2. cbn [fst] in *.
      destruct IH as (I1 & I2). split.
      + constructor; assumption.
      + intro Hc. rewrite (H2 (not_cut_short _ Hc)), (I2 Hc). reflexivity.
  Qed.

  (* and for every state the Searcher can reach *)
  Theorem search_reachable_independent_proof cap st src :
    reachable cfg M enc_set bom_sniffing decode cap st -> src_ok src ->
    res_sim (fst (search K st src)) (fst (search K (ss_new cap) src)) /\
    (g_stopped (gfin (searched src)) = false -> fst (search K st src) = fst (search K (ss_new cap) src)).
  Proof. intros _ Hok. exact (search_state_independent_proof st (ss_new cap) src Hok). Qed.

  (* (c) slice, reader and file (memory-mapped or not) of the same input: the same events (the same
     configuration error, if any), provided the transcoder leaves alone what search_slice searches
     untranscoded *)
  Lemma searched_decode src : (needs (src_input src) = false -> decode (src_input src) = src_input src) ->
    searched src = decode (src_input src).
  Proof.
    intro H. destruct src as [s|s h|[|] s h]; cbn [searched src_input] in *; try reflexivity;
      (destruct (needs s); [reflexivity|symmetry; apply H; reflexivity]).
  Qed.

  Theorem strategy_independent_events_proof st1 st2 src1 src2 :
    src_input src1 = src_input src2 -> src_ok src1 -> src_ok src2 ->
    (needs (src_input src1) = false -> decode (src_input src1) = src_input src1) ->
    res_sim (fst (search K st1 src1)) (fst (search K st2 src2)) /\
    (g_stopped (gfin (decode (src_input src1))) = false -> fst (search K st1 src1) = fst (search K st2 src2)).
  Proof.
    intros Hin Hok1 Hok2 Hdec.
    destruct (check_config cfg M) eqn:Hcc.
    2:{ rewrite !search_cfgerr by exact Hcc. split; [apply res_sim_refl|reflexivity]. }
    pose proof (searched_decode src1 Hdec) as E1.
    assert (E2 : searched src2 = decode (src_input src1)).
    { rewrite Hin. apply searched_decode. rewrite <- Hin. exact Hdec. }
    destruct (multi_line_with_matcher cfg M) eqn:Hml.
    - rewrite (search_ml K st1 src1 Hml Hcc), (search_ml K st2 src2 Hml Hcc), E1, E2.
      split; [apply res_sim_refl|reflexivity].
    - destruct (search_lines st1 src1 Hml Hcc Hok1) as (n1 & H1 & N1 & _).
      destruct (search_lines st2 src2 Hml Hcc Hok2) as (n2 & H2 & N2 & _).
      rewrite E1 in *. rewrite E2 in *. rewrite H1, H2. split.
      + right. exists (EBegin :: rev (g_out (gfin (decode (src_input src1))))), n1, n2. split; reflexivity.
      + intro Hns. rewrite (N1 Hns), (N2 Hns). reflexivity.
  Qed.
End GlueProofs.
