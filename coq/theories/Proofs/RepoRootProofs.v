(* Proofs/RepoRootProofs.v — the repository-root test of Ignore::add_parents and of Ignore::add_child_path
   agree, for every kind of `.git` entry (absent / directory / gitfile). *)
From RG Require Import Base.Bytes Model.IgnoreDir Spec.FilterSpec Proofs.FilterProofs.

(* the tests themselves, whatever the options *)
Lemma dotgit_tests_eq_marker_proof (k : dotgit) :
  child_dotgit_test k = repo_marker k /\ parent_dotgit_test k = repo_marker k.
Proof. destruct k; split; reflexivity. Qed.

(* library level: any option record in which git_exclude is not on without git_ignore *)
Lemma repo_root_test_uniform_lib_proof (sh : shared) (d : dirinfo) :
  (o_git_exclude (sh_opts sh) = true -> o_git_ignore (sh_opts sh) = true) ->
  nd_has_git (parent_node sh d) = nd_has_git (child_node sh d).
Proof.
  intros Himp. unfold parent_node, child_node, git_type_seen. cbn [nd_has_git].
  destruct (sh_opts sh) as [oh oi op ogg ogi oge orq]. cbn [o_require_git o_git_ignore o_git_exclude] in *.
  destruct (di_dotgit d), orq, ogi, oge; cbn; try reflexivity; specialize (Himp eq_refl); discriminate.
Qed.

(* command-line level: every flag set, every command line, every directory *)
Lemma repo_root_test_uniform_proof (f : lowflags) (c : cmdline) (d : dirinfo) :
  let sh := ig_sh (build_root (walk_builder_opts f) (walk_builder_env f c)) in
  nd_has_git (parent_node sh d) = nd_has_git (child_node sh d)
  /\ nd_has_git (child_node sh d) = (negb (f_no_require_git f) && negb (f_no_ignore_vcs f) && repo_marker (di_dotgit d)).
Proof.
  destruct f as [fh fd fe ff fg fp fv fr].
  unfold parent_node, child_node, git_type_seen, build_root, walk_builder_opts. cbn.
  destruct (di_dotgit d), fr, fv, fe; split; reflexivity.
Qed.

(* without the side condition the two tests differ (library level only: the command line cannot
   switch git_ignore off and leave git_exclude on) *)
Definition rr_opts : opts :=
  {| o_hidden := true; o_ignore := true; o_parents := true; o_git_global := true;
     o_git_ignore := false; o_git_exclude := true; o_require_git := true |}.
Definition rr_sh : shared :=
  {| sh_overrides := {| ov_is_empty := true; ov_gi := g_empty; ov_has_whitelist := false |};
     sh_types := {| ty_is_empty := true; ty_set_is_empty := true; ty_has_selected := false; ty_last := fun _ => None |};
     sh_explicit := []; sh_custom_names_empty := true; sh_global := g_empty; sh_opts := rr_opts |}.
Definition rr_dir (k : dotgit) : dirinfo :=
  {| di_path := [114]%N; di_custom := g_empty; di_dotignore := g_empty; di_gitignore := g_empty;
     di_exclude := g_empty; di_dotgit := k |}.
Lemma repo_root_test_all_opts_refuted_proof :
  exists (sh : shared) (d : dirinfo), nd_has_git (parent_node sh d) <> nd_has_git (child_node sh d).
Proof. exists rr_sh, (rr_dir GitFile). vm_compute. discriminate. Qed.

(* the default command line's shared part, for the non-vacuity example *)
Definition ex_sh_default : shared :=
  {| sh_overrides := sh_overrides rr_sh; sh_types := sh_types rr_sh; sh_explicit := []; sh_custom_names_empty := false;
     sh_global := g_empty; sh_opts := walk_builder_opts flags_default |}.

(* ---------------------------------------------------------------- known finding GitlinkExcludeNoRequire *)
(* `rg --no-require-git` from a linked worktree r (r/.git is a gitfile) whose repository's info/exclude names `a`:
   the documented fold ignores r/a, the code (and the model) do not *)
Definition gx_name_a : gmatcher := fun p _ => if bytes_eqb (skipn (after_last_slash p) p) [97]%N then MIgnore else MNone.
Definition gx_flags : lowflags :=
  {| f_hidden := false; f_no_ignore_dot := false; f_no_ignore_exclude := false; f_no_ignore_files := false;
     f_no_ignore_global := false; f_no_ignore_parent := false; f_no_ignore_vcs := false; f_no_require_git := true |}.
Definition gx_world (k : dotgit) : world :=
  {| w_cmd := {| c_globs := sh_overrides rr_sh; c_types := sh_types rr_sh; c_ignore_files := []; c_global := g_empty |};
     w_canon := None; w_above := [];
     w_below := [ {| di_path := [114]%N; di_custom := g_empty; di_dotignore := g_empty; di_gitignore := g_empty;
                     di_exclude := gx_name_a; di_dotgit := k |} ] |}.
Lemma decide_eq_world_all_refuted_proof :
  exists (f : lowflags) (w : world) (path : bytes) (is_dir : bool),
    w_below w <> [] /\ decide f w path is_dir = MNone /\ decide_world f w path is_dir = MIgnore.
Proof. exists gx_flags, (gx_world GitFile), [114; 47; 97]%N, false. split; [discriminate|]. vm_compute. split; reflexivity. Qed.

(* the same worktree root with a .git directory, or without --no-require-git, is outside the class *)
Lemma gx_outside_class : ~ GitlinkExcludeNoRequire gx_flags (gx_world GitDir)
                         /\ ~ GitlinkExcludeNoRequire flags_default (gx_world GitFile).
Proof.
  split; intros [H1 (d & Hd & Hk)].
  - cbn in Hd. destruct Hd as [<-|[]]. discriminate.
  - discriminate.
Qed.
