(* Proofs/RepoRootProofs.v — the repository-root test of Ignore::add_parents and of Ignore::add_child_path
   agree, for every kind of `.git` entry (absent / directory / gitfile). *)
From RG Require Import Base.Bytes Model.IgnoreDir Spec.FilterSpec Proofs.FilterProofs.

(* the tests themselves, whatever the options *)
Lemma dotgit_tests_eq_marker_proof (k : dotgit) :
  child_dotgit_test k = repo_marker k /\ parent_dotgit_test k = repo_marker k.
Proof. destruct k; split; reflexivity. Qed.

(* library level: any option record in which git_exclude is not on without git_ignore *)
Lemma repo_root_test_uniform_lib_proof (sh : shared) (d : dirinfo) :
  (o_git_exclude (sh_opts sh) = true -> o_git_ignore (sh_opts sh) = true) ->
  nd_has_git (parent_node sh d) = nd_has_git (child_node sh d).
Proof.
  intros Himp. unfold parent_node, child_node, git_type_seen. cbn [nd_has_git].
  destruct (sh_opts sh) as [oh oi op ogg ogi oge orq]. cbn [o_require_git o_git_ignore o_git_exclude] in *.
  destruct (di_dotgit d), orq, ogi, oge; cbn; try reflexivity; specialize (Himp eq_refl); discriminate.
Qed.

(* command-line level: every flag set, every command line, every directory *)
Lemma repo_root_test_uniform_proof (f : lowflags) (c : cmdline) (d : dirinfo) :
  let sh := ig_sh (build_root (walk_builder_opts f) (walk_builder_env f c)) in
  nd_has_git (parent_node sh d) = nd_has_git (child_node sh d)
  /\ nd_has_git (child_node sh d) = (negb (f_no_require_git f) && negb (f_no_ignore_vcs f) && repo_marker (di_dotgit d)).
Proof.
  destruct f as [fh fd fe ff fg fp fv fr].
  unfold parent_node, child_node, git_type_seen, build_root, walk_builder_opts. cbn.
  destruct (di_dotgit d), fr, fv, fe; split; reflexivity.
Qed.

(* without the side condition the two tests differ (library level only: the command line cannot
   switch git_ignore off and leave git_exclude on) *)
Definition rr_opts : opts :=
  {| o_hidden := true; o_ignore := true; o_parents := true; o_git_global := true;
     o_git_ignore := false; o_git_exclude := true; o_require_git := true |}.
Definition rr_sh : shared :=
  {| sh_overrides := {| ov_is_empty := true; ov_gi := g_empty; ov_has_whitelist := false |};
     sh_types := {| ty_is_empty := true; ty_set_is_empty := true; ty_has_selected := false; ty_last := fun _ => None |};
     sh_explicit := []; sh_custom_names_empty := true; sh_global := g_empty; sh_opts := rr_opts |}.
Definition rr_dir (k : dotgit) : dirinfo :=
  {| di_path := [114]%N; di_custom := g_empty; di_dotignore := g_empty; di_gitignore := g_empty;
     di_exclude := g_empty; di_dotgit := k |}.
Lemma repo_root_test_all_opts_refuted_proof :
  exists (sh : shared) (d : dirinfo), nd_has_git (parent_node sh d) <> nd_has_git (child_node sh d).
Proof. exists rr_sh, (rr_dir GitFile). vm_compute. discriminate. Qed.

(* the default command line's shared part, for the non-vacuity example *)
Definition ex_sh_default : shared :=
  {| sh_overrides := sh_overrides rr_sh; sh_types := sh_types rr_sh; sh_explicit := []; sh_custom_names_empty := false;
     sh_global := g_empty; sh_opts := walk_builder_opts flags_default |}.

(* ---------------------------------------------------------------- repaired defect GitlinkExcludeNoRequire *)
(* `rg --no-require-git` from a linked worktree r (r/.git is a gitfile) whose repository's info/exclude names `a`:
   on the pinned tree git_type was computed only under require_git, and the exclude file was not read *)
Definition gx_name_a : gmatcher := fun p _ => if bytes_eqb (skipn (after_last_slash p) p) [97]%N then MIgnore else MNone.
Definition gx_flags : lowflags :=
  {| f_hidden := false; f_no_ignore_dot := false; f_no_ignore_exclude := false; f_no_ignore_files := false;
     f_no_ignore_global := false; f_no_ignore_parent := false; f_no_ignore_vcs := false; f_no_require_git := true |}.
Definition gx_dir (k : dotgit) : dirinfo :=
  {| di_path := [114]%N; di_custom := g_empty; di_dotignore := g_empty; di_gitignore := g_empty;
     di_exclude := gx_name_a; di_dotgit := k |}.
Definition gx_world (k : dotgit) : world :=
  {| w_cmd := {| c_globs := sh_overrides rr_sh; c_types := sh_types rr_sh; c_ignore_files := []; c_global := g_empty |};
     w_canon := None; w_above := []; w_below := [gx_dir k] |}.

(* with the code as repaired the exclude file is read whenever exclude rules are on *)
Lemma exclude_as_read_eq_proof (o : opts) (d : dirinfo) :
  o_git_exclude o = true -> exclude_as_read o d = di_exclude d.
Proof.
  intro H. unfold exclude_as_read, exclude_as_read_with, git_type_seen. rewrite H, orb_true_r.
  destruct (di_dotgit d); reflexivity.
Qed.
(* ... and on the pinned text it was not *)
Lemma exclude_as_read_pinned_refuted_proof :
  exists (o : opts) (d : dirinfo) (p : bytes) (is_dir : bool),
    o_git_exclude o = true /\ exclude_as_read_with git_type_seen_pinned o d p is_dir = MNone /\ di_exclude d p is_dir = MIgnore.
Proof. exists (walk_builder_opts gx_flags), (gx_dir GitFile), [114; 47; 97]%N, false. vm_compute. repeat split; reflexivity. Qed.
(* the former witness now follows the documentation *)
Lemma gx_witness_now_ignored :
  decide gx_flags (gx_world GitFile) [114; 47; 97]%N false = MIgnore
  /\ decide_world gx_flags (gx_world GitFile) [114; 47; 97]%N false = MIgnore.
Proof. vm_compute. split; reflexivity. Qed.

