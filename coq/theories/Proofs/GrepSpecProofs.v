(* Proofs/GrepSpecProofs.v — what the grep reference (Spec/GrepSpec.v, grep_ref / g_run) delivers,
   read declaratively: which lines are delivered as what, with which coordinates.  This connects
   the one-pass reference to the wording of property C03.  (stop-on-nonmatch off; with it on the
   output is the corresponding prefix, see g_step.) *)
From RG Require Import Base.Bytes Base.BytesFacts Model.Lines Model.SearcherCore Spec.GrepSpec.

Ltac len := cbn [length] in *; rewrite ?app_length in *; cbn [length] in *; lia.

Section G.
  Variable cfg : config.
  Variable is_match : bytes -> bool.
  Hypothesis Hnostop : c_stop_on_nonmatch cfg = false.

  Notation A := (c_after cfg).
  Notation B := (c_before cfg).
  Notation gs := (g_step cfg is_match).
  Definition run (ls : list bytes) : gstate := fold_left gs ls g_init.

  (* is this line a result (a match, or a non-match under inversion)? *)
  Definition sc (l : bytes) : bool := negb (Bool.eqb (is_match (without_terminator (c_lt cfg) l)) (c_invert cfg)).

  (* after-context credit after the lines r (newest first) *)
  Fixpoint credit (r : list bytes) : nat :=
    match r with
    | [] => 0
    | l :: r' => if sc l then A else if Nat.leb 1 (credit r') then credit r' - 1 else 0
    end.

  Definition ev_matched (pre : list bytes) (l : bytes) : event :=
    EMatched (length (concat pre)) (lnum_of cfg (S (length pre))) l.
  Definition ev_ctx (k : ctx_kind) (pre : list bytes) (l : bytes) : event :=
    EContext k (length (concat pre)) (lnum_of cfg (S (length pre))) l.

  Lemma gs_unfold g l : g_stopped g = false ->
    gs g l = g_step_s cfg g l (sc l).
  Proof. reflexivity. Qed.

  Lemma run_snoc pre l : run (pre ++ [l]) = gs (run pre) l.
  Proof. unfold run. rewrite fold_left_app. reflexivity. Qed.

  (* --- state after a prefix --- *)
  Lemma st_basic : forall pre, let g := run pre in
    g_stopped g = false /\ g_off g = length (concat pre) /\ g_lnum g = S (length pre) /\ g_after g = credit (rev pre).
  Proof.
    induction pre as [|l pre IH] using rev_ind; [cbn; auto|]. cbv zeta in IH.
    destruct IH as (I1 & I2 & I3 & I4). cbv zeta. rewrite run_snoc.
    rewrite rev_app_distr. cbn [rev app credit]. rewrite concat_app, !app_length. cbn [concat length]. rewrite app_nil_r.
    unfold g_step, g_step_s. rewrite I1. fold (sc l). rewrite Hnostop. cbn [andb].
    destruct (sc l).
    - cbn. repeat split; auto; lia.
    - rewrite <- I4. destruct (Nat.leb 1 (g_after (run pre))).
      + cbn. repeat split; auto; lia.
      + destruct (c_passthru cfg); cbn; repeat split; auto; lia.
  Qed.

  (* the output only grows *)
  Lemma out_mono : forall ls g, exists new, g_out (fold_left gs ls g) = new ++ g_out g.
  Proof.
    induction ls as [|l ls IH]; intro g; [exists []; reflexivity|].
    cbn [fold_left]. destruct (IH (gs g l)) as [new Hn].
    assert (exists n1, g_out (gs g l) = n1 ++ g_out g) as [n1 H1].
    { unfold g_step, g_step_s. destruct (g_stopped g); [exists []; reflexivity|].
      destruct (negb _); [eexists; reflexivity|]. destruct (Nat.leb 1 _); [exists [EContext CAfter (g_off g) (lnum_of cfg (g_lnum g)) l]; reflexivity|].
      destruct (c_passthru cfg); [exists [EContext COther (g_off g) (lnum_of cfg (g_lnum g)) l]; reflexivity|exists []; reflexivity]. }
    exists (new ++ n1). rewrite Hn, H1. now rewrite app_assoc.
  Qed.

  Lemma in_out_mono ls g e : In e (g_out g) -> In e (g_out (fold_left gs ls g)).
  Proof. intro H. destruct (out_mono ls g) as [new ->]. apply in_or_app. now right. Qed.

  (* --- completeness: what must be delivered is delivered --- *)
  Theorem matched_delivered pre l post : sc l = true ->
    In (ev_matched pre l) (g_out (run (pre ++ l :: post))).
  Proof.
    intro Hs. unfold run. rewrite fold_left_app. cbn [fold_left]. apply in_out_mono. fold (run pre).
    destruct (st_basic pre) as (I1 & I2 & I3 & I4). cbv zeta in *.
    unfold g_step, g_step_s. rewrite I1. fold (sc l). rewrite Hs. cbn [g_out].
    apply in_or_app. left. rewrite !rev_app_distr. cbn [rev app]. left.
    unfold ev_matched. now rewrite I2, I3.
  Qed.

  Theorem after_delivered pre l post : sc l = false -> 1 <= credit (rev pre) ->
    In (ev_ctx CAfter pre l) (g_out (run (pre ++ l :: post))).
  Proof.
    intros Hs Hc. unfold run. rewrite fold_left_app. cbn [fold_left]. apply in_out_mono. fold (run pre).
    destruct (st_basic pre) as (I1 & I2 & I3 & I4). cbv zeta in *.
    unfold g_step, g_step_s. rewrite I1. fold (sc l). rewrite Hs. rewrite I4.
    destruct (Nat.leb_spec 1 (credit (rev pre))); [|lia]. cbn [g_out]. left.
    unfold ev_ctx. now rewrite I2, I3.
  Qed.

  Theorem passthru_delivers_every_line pre l post : c_passthru cfg = true ->
    exists e, In e (g_out (run (pre ++ l :: post))) /\
      match e with
      | EMatched o n b | EContext _ o n b => o = length (concat pre) /\ n = lnum_of cfg (S (length pre)) /\ b = l
      | _ => False
      end.
  Proof.
    intro Hp. destruct (sc l) eqn:Hs.
    - exists (ev_matched pre l). split; [now apply matched_delivered|cbn; auto].
    - destruct (Nat.leb_spec 1 (credit (rev pre))).
      + exists (ev_ctx CAfter pre l). split; [now apply after_delivered|cbn; auto].
      + exists (ev_ctx COther pre l). split; [|cbn; auto].
        unfold run. rewrite fold_left_app. cbn [fold_left]. apply in_out_mono. fold (run pre).
        destruct (st_basic pre) as (I1 & I2 & I3 & I4). cbv zeta in *.
        unfold g_step, g_step_s. rewrite I1. fold (sc l). rewrite Hs, I4, Hp.
        destruct (Nat.leb_spec 1 (credit (rev pre))); [lia|]. cbn [g_out]. left.
        unfold ev_ctx. now rewrite I2, I3.
  Qed.

  (* the credit after a run of non-results following a result *)
  Lemma credit_run mid l r' : sc l = true -> Forall (fun x => sc x = false) mid ->
    credit (mid ++ l :: r') = A - length mid.
  Proof.
    intros Hl Hm. induction mid as [|y mid IHm]; cbn [app credit length].
    - rewrite Hl. lia.
    - inversion Hm as [|? ? Hy Hm']; subst. rewrite Hy. rewrite IHm by auto.
      destruct (Nat.leb_spec 1 (A - length mid)); lia.
  Qed.

  (* every list splits at its newest result *)
  Lemma split_at_result : forall r, (Forall (fun x => sc x = false) r) \/
    exists mid l r', r = mid ++ l :: r' /\ sc l = true /\ Forall (fun x => sc x = false) mid.
  Proof.
    induction r as [|x r IH]; [left; constructor|].
    destruct (sc x) eqn:Hx.
    - right. exists [], x, r. split; [reflexivity|]. split; [exact Hx|constructor].
    - destruct IH as [IH|(mid & l & r' & -> & Hl & Hm)].
      + left. constructor; assumption.
      + right. exists (x :: mid), l, r'. split; [reflexivity|]. split; [exact Hl|constructor; assumption].
  Qed.

  Lemma credit_none r : Forall (fun x => sc x = false) r -> credit r = 0.
  Proof.
    induction 1 as [|x r Hx Hr IH]; [reflexivity|]. cbn [credit]. rewrite Hx, IH. reflexivity.
  Qed.

  (* the credit is positive exactly when the nearest result before lies within A lines *)
  Lemma credit_pos r : 1 <= credit r <->
    exists mid l r', r = mid ++ l :: r' /\ sc l = true /\ Forall (fun x => sc x = false) mid /\ length mid < A.
  Proof.
    split.
    - intro H. destruct (split_at_result r) as [Hn|(mid & l & r' & -> & Hl & Hm)].
      + rewrite credit_none in H by exact Hn. lia.
      + rewrite (credit_run mid l r' Hl Hm) in H. exists mid, l, r'. repeat split; auto. lia.
    - intros (mid & l & r' & -> & Hl & Hm & Hlen). rewrite (credit_run mid l r' Hl Hm). lia.
  Qed.

  (* --- the pending (undelivered) lines --- *)
  Definition coords_ok (pre0 : list bytes) (pl : pend_line) : Prop :=
    p_off pl = length (concat pre0) /\ p_lnum pl = S (length pre0).

  (* the newest pending entry is the last line processed, and so on backwards *)
  Fixpoint pend_inv (pre : list bytes) (pend : list pend_line) : Prop :=
    match pend with
    | [] => True
    | pl :: older =>
      exists pre0, pre = pre0 ++ [p_bytes pl] /\ coords_ok pre0 pl /\ sc (p_bytes pl) = false /\
                   credit (rev pre0) = 0 /\ c_passthru cfg = false /\ pend_inv pre0 older
    end.

  Lemma pend_inv_run : forall pre, pend_inv pre (g_pend (run pre)).
  Proof.
    induction pre as [|l pre IH] using rev_ind; [exact I|].
    destruct (st_basic pre) as (I1 & I2 & I3 & I4). cbv zeta in *.
    rewrite run_snoc. unfold g_step, g_step_s. rewrite I1. fold (sc l). rewrite Hnostop. cbn [andb].
    destruct (sc l) eqn:Hs; [exact I|].
    rewrite I4. destruct (Nat.leb_spec 1 (credit (rev pre))); [exact I|].
    destruct (c_passthru cfg) eqn:Hp; [exact I|].
    cbn [g_pend pend_inv p_bytes]. exists pre. split; [reflexivity|]. split; [split; cbn; auto|].
    split; [exact Hs|]. split; [lia|]. split; [exact Hp|exact IH].
  Qed.

  (* the i-th pending entry (newest first) is a non-result line followed by exactly i non-result lines *)
  Lemma pend_inv_nth : forall pend pre i pl, pend_inv pre pend -> nth_error pend i = Some pl ->
    exists pre0 mid, pre = pre0 ++ p_bytes pl :: mid /\ length mid = i /\ Forall (fun x => sc x = false) mid /\
                     coords_ok pre0 pl /\ sc (p_bytes pl) = false /\ credit (rev pre0) = 0 /\ c_passthru cfg = false.
  Proof.
    induction pend as [|q older IH]; intros pre i pl Hinv Hn; [destruct i; discriminate|].
    destruct Hinv as (pre0 & -> & Hc & Hs & Hcr & Hp & Hold).
    destruct i as [|i].
    - injection Hn as <-. exists pre0, []. repeat split; auto; apply Hc.
    - cbn [nth_error] in Hn. destruct (IH pre0 i pl Hold Hn) as (pre1 & mid & -> & Hl & Hm & Hc1 & Hs1 & Hcr1 & Hp1).
      exists pre1, (mid ++ [p_bytes q]). rewrite <- app_assoc. cbn [app]. split; [reflexivity|].
      split; [rewrite app_length; cbn; lia|]. split; [apply Forall_app; split; [exact Hm|constructor; [exact Hs|constructor]]|].
      repeat split; auto; apply Hc1.
  Qed.

  Lemma in_before_events bl pl : In pl bl ->
    In (EContext CBefore (p_off pl) (lnum_of cfg (p_lnum pl)) (p_bytes pl)) (before_events cfg bl).
  Proof.
    induction bl as [|x r IH]; intro H; [destruct H|]. cbn [before_events].
    apply in_or_app. destruct H as [->|H]; [right; left; reflexivity|left; apply IH; exact H].
  Qed.

  Lemma before_events_in bl e : In e (before_events cfg bl) ->
    exists pl, In pl bl /\ e = EContext CBefore (p_off pl) (lnum_of cfg (p_lnum pl)) (p_bytes pl).
  Proof.
    induction bl as [|x r IH]; intro H; [destruct H|]. cbn [before_events] in H.
    apply in_app_or in H as [H|[<-|[]]].
    - destruct (IH H) as (pl & Hin & ->). exists pl. split; [right; exact Hin|reflexivity].
    - exists x. split; [left; reflexivity|reflexivity].
  Qed.

  (* completeness of before-context *)
  Theorem before_delivered pre k mid j post :
    sc k = false -> credit (rev pre) = 0 -> c_passthru cfg = false ->
    Forall (fun x => sc x = false) mid -> length mid < B -> sc j = true ->
    In (ev_ctx CBefore pre k) (g_out (run (pre ++ k :: mid ++ j :: post))).
  Proof.
    intros Hk Hc Hp Hmid Hlen Hj.
    replace (pre ++ k :: mid ++ j :: post) with ((pre ++ k :: mid) ++ j :: post) by (rewrite <- app_assoc; reflexivity).
    unfold run. rewrite fold_left_app. cbn [fold_left]. apply in_out_mono. fold (run (pre ++ k :: mid)).
    destruct (st_basic (pre ++ k :: mid)) as (I1 & I2 & I3 & I4). cbv zeta in *.
    pose proof (pend_inv_run (pre ++ k :: mid)) as Hinv.
    (* all the lines k :: mid are pending *)
    assert (Hpend : exists pl, nth_error (g_pend (run (pre ++ k :: mid))) (length mid) = Some pl /\
                               p_bytes pl = k /\ coords_ok pre pl).
    { clear I1 I2 I3 I4 Hj post j Hlen.
      induction mid as [|m mid IHm] using rev_ind.
      - cbn [length]. destruct (st_basic pre) as (J1 & J2 & J3 & J4). cbv zeta in *.
        change (pre ++ [k]) with (pre ++ [k]) in *. rewrite run_snoc in *.
        unfold g_step, g_step_s in *. rewrite J1 in *. fold (sc k) in *. rewrite Hk, Hnostop, J4, Hc, Hp in *.
        cbn [Nat.leb andb g_pend nth_error]. eexists. split; [reflexivity|]. split; [reflexivity|split; cbn; auto].
      - apply Forall_app in Hmid as [Hmid' Hm]. inversion Hm as [|? ? Hm1 _]; subst.
        replace (pre ++ k :: mid ++ [m]) with ((pre ++ k :: mid) ++ [m]) in * by (rewrite <- app_assoc; reflexivity).
        destruct (IHm Hmid' (pend_inv_run _)) as (pl & Hn & Hb & Hco).
        destruct (st_basic (pre ++ k :: mid)) as (J1 & J2 & J3 & J4). cbv zeta in *.
        rewrite run_snoc. unfold g_step, g_step_s. rewrite J1. fold (sc m). rewrite Hm1, Hnostop.
        assert (Hcr : credit (rev (pre ++ k :: mid)) = 0).
        { rewrite rev_app_distr. cbn [rev]. rewrite <- app_assoc. cbn [app].
          clear -Hmid' Hk Hc. induction mid as [|x mid IH] using rev_ind; cbn [rev app credit].
          - rewrite Hk, Hc. reflexivity.
          - apply Forall_app in Hmid' as [H1 H2]. inversion H2; subst. rewrite rev_app_distr. cbn [rev app credit].
            rewrite H3. rewrite (IH H1). reflexivity. }
        rewrite J4, Hcr, Hp. cbn [Nat.leb andb g_pend]. rewrite app_length. cbn [length].
        replace (length mid + 1) with (S (length mid)) by lia. cbn [nth_error]. exists pl. auto. }
    destruct Hpend as (pl & Hn & Hb & Hoff & Hlnum).
    unfold g_step, g_step_s. rewrite I1. fold (sc j). rewrite Hj. cbn [g_out].
    apply in_or_app. left. rewrite <- in_rev.
    apply in_or_app. right. apply in_or_app. left.
    assert (Hin : In pl (firstn B (g_pend (run (pre ++ k :: mid))))).
    { clear -Hn Hlen. revert Hn Hlen. generalize (g_pend (run (pre ++ k :: mid))) as P. generalize (length mid) as i. generalize B as b.
      induction b as [|b IH]; intros i P Hn Hlen; [lia|].
      destruct P as [|x P]; [destruct i; discriminate|]. destruct i as [|i]; cbn in *.
      - injection Hn as ->. now left.
      - right. apply (IH i); [exact Hn|lia]. }
    pose proof (in_before_events _ _ Hin) as He. unfold ev_ctx. rewrite Hoff, Hlnum, Hb in He. exact He.
  Qed.

  (* --- soundness: every delivered event is one the property allows --- *)
  Definition justified (ls : list bytes) (e : event) : Prop :=
    match e with
    | EMatched o n b => exists pre post, ls = pre ++ b :: post /\ e = ev_matched pre b /\ sc b = true
    | EContext CAfter o n b => exists pre post, ls = pre ++ b :: post /\ e = ev_ctx CAfter pre b /\ sc b = false /\
                                 1 <= credit (rev pre)
    | EContext COther o n b => exists pre post, ls = pre ++ b :: post /\ e = ev_ctx COther pre b /\ sc b = false /\
                                 credit (rev pre) = 0 /\ c_passthru cfg = true
    | EContext CBefore o n b => exists pre mid j post, ls = pre ++ b :: mid ++ j :: post /\ e = ev_ctx CBefore pre b /\
                                 sc b = false /\ credit (rev pre) = 0 /\ c_passthru cfg = false /\
                                 Forall (fun x => sc x = false) mid /\ length mid < B /\ sc j = true
    | EBreak => True
    | _ => False
    end.

  Lemma justified_snoc ls l e : justified ls e -> justified (ls ++ [l]) e.
  Proof.
    destruct e as [|o n b|k o n b| | |]; cbn [justified]; auto.
    - intros (pre & post & -> & H). exists pre, (post ++ [l]). rewrite <- app_assoc. cbn [app]. auto.
    - destruct k.
      + intros (pre & mid & j & post & -> & H). exists pre, mid, j, (post ++ [l]).
        rewrite <- app_assoc. cbn [app]. rewrite <- app_assoc. cbn [app]. auto.
      + intros (pre & post & -> & H). exists pre, (post ++ [l]). rewrite <- app_assoc. cbn [app]. auto.
      + intros (pre & post & -> & H). exists pre, (post ++ [l]). rewrite <- app_assoc. cbn [app]. auto.
  Qed.

  Theorem every_event_justified : forall ls e, In e (g_out (run ls)) -> justified ls e.
  Proof.
    induction ls as [|l pre IH] using rev_ind; intros e Hin; [destruct Hin|].
    destruct (st_basic pre) as (I1 & I2 & I3 & I4). cbv zeta in *.
    pose proof (pend_inv_run pre) as Hinv.
    rewrite run_snoc in Hin. unfold g_step, g_step_s in Hin. rewrite I1 in Hin. fold (sc l) in Hin.
    rewrite Hnostop in Hin. cbn [andb] in Hin.
    destruct (sc l) eqn:Hs.
    - cbn [g_out] in Hin. apply in_app_or in Hin as [Hin|Hin]; [|apply justified_snoc, IH, Hin].
      rewrite <- in_rev in Hin.
      apply in_app_or in Hin as [Hin|Hin].
      { match type of Hin with In _ (if ?c then _ else _) => destruct c end;
          [destruct Hin as [<-|[]]; exact I|destruct Hin]. }
      apply in_app_or in Hin as [Hin|Hin].
      { (* a before-context event *)
        destruct (before_events_in _ _ Hin) as (pl & Hpl & ->).
        destruct (In_nth_error _ _ Hpl) as [i Hi].
        assert (Hib : i < B).
        { assert (i < length (firstn B (g_pend (run pre)))) by (apply nth_error_Some; congruence).
          rewrite firstn_length in H. lia. }
        assert (Hi' : nth_error (g_pend (run pre)) i = Some pl).
        { clear -Hi. revert Hi. generalize (g_pend (run pre)) as P. generalize B as b. revert i.
          induction i as [|i IHi]; intros b P H; destruct b as [|b]; destruct P as [|x P]; cbn in *; try discriminate; auto.
          apply (IHi b). exact H. }
        destruct (pend_inv_nth _ _ _ _ Hinv Hi') as (pre0 & mid & -> & Hl & Hm & (Hc1 & Hc2) & Hs1 & Hcr & Hp).
        cbn [justified]. exists pre0, mid, l, []. rewrite <- app_assoc. cbn [app].
        split; [reflexivity|]. split; [unfold ev_ctx; now rewrite Hc1, Hc2|]. repeat split; auto. lia. }
      apply in_app_or in Hin as [Hin|Hin].
      { match type of Hin with In _ (if ?c then _ else _) => destruct c end;
          [destruct Hin as [<-|[]]; exact I|destruct Hin]. }
      destruct Hin as [<-|[]]. cbn [justified]. exists pre, []. split; [reflexivity|].
      split; [unfold ev_matched; now rewrite I2, I3|exact Hs].
    - rewrite I4 in Hin. destruct (Nat.leb_spec 1 (credit (rev pre))) as [Hc|Hc].
      + cbn [g_out] in Hin. destruct Hin as [<-|Hin]; [|apply justified_snoc, IH, Hin].
        cbn [justified]. exists pre, []. split; [reflexivity|]. split; [unfold ev_ctx; now rewrite I2, I3|]. auto.
      + destruct (c_passthru cfg) eqn:Hp.
        * cbn [g_out] in Hin. destruct Hin as [<-|Hin]; [|apply justified_snoc, IH, Hin].
          cbn [justified]. exists pre, []. split; [reflexivity|]. split; [unfold ev_ctx; now rewrite I2, I3|].
          repeat split; auto. lia.
        * cbn [g_out] in Hin. apply justified_snoc, IH, Hin.
  Qed.

  (* --- order and uniqueness: every delivered line starts at or after the end of the previous one --- *)
  Definition ev_span (e : event) : option (nat * nat) :=
    match e with
    | EMatched o _ b | EContext _ o _ b => Some (o, o + length b)
    | _ => None
    end.

  Fixpoint ordered_from (d : nat) (evs : list event) : Prop :=
    match evs with
    | [] => True
    | e :: r => match ev_span e with
                | Some (o, en) => d <= o /\ ordered_from en r
                | None => ordered_from d r
                end
    end.

  Fixpoint last_end (d : nat) (evs : list event) : nat :=
    match evs with
    | [] => d
    | e :: r => match ev_span e with Some (_, en) => last_end en r | None => last_end d r end
    end.

  Lemma ordered_app d a b : ordered_from d (a ++ b) <-> ordered_from d a /\ ordered_from (last_end d a) b.
  Proof.
    revert d; induction a as [|e a IH]; intro d; cbn [app ordered_from last_end]; [tauto|].
    destruct (ev_span e) as [[o en]|]; rewrite IH; tauto.
  Qed.

  Lemma last_end_app d a b : last_end d (a ++ b) = last_end (last_end d a) b.
  Proof.
    revert d; induction a as [|e a IH]; intro d; cbn [app last_end]; [reflexivity|].
    destruct (ev_span e) as [[o en]|]; apply IH.
  Qed.

  Definition pbytes (pend : list pend_line) : nat := length (concat (map p_bytes pend)).

  (* pending entries are laid out back to back, ending at e *)
  Fixpoint chain (pend : list pend_line) (e : nat) : Prop :=
    match pend with
    | [] => True
    | pl :: older => p_off pl + length (p_bytes pl) = e /\ chain older (p_off pl)
    end.

  Lemma pend_inv_chain : forall pend pre, pend_inv pre pend -> chain pend (length (concat pre)).
  Proof.
    induction pend as [|pl older IH]; intros pre H; [exact I|].
    destruct H as (pre0 & -> & (Hc1 & Hc2) & _ & _ & _ & Hold).
    cbn [chain]. rewrite concat_app, app_length. cbn [concat length]. rewrite app_nil_r.
    split; [lia|]. rewrite Hc1. apply IH. exact Hold.
  Qed.

  Lemma chain_firstn : forall n pend e, chain pend e -> chain (firstn n pend) e.
  Proof.
    induction n as [|n IH]; intros pend e H; [exact I|]. destruct pend as [|pl older]; [exact I|].
    destruct H as [H1 H2]. cbn [firstn chain]. split; [exact H1|apply IH; exact H2].
  Qed.

  Lemma chain_bytes : forall pend e, chain pend e -> pbytes pend <= e.
  Proof.
    induction pend as [|pl older IH]; intros e H; [cbn; lia|].
    destruct H as [H1 H2]. specialize (IH _ H2). unfold pbytes in *. cbn [map concat]. rewrite app_length. lia.
  Qed.

  Lemma before_events_ordered : forall bl e d, chain bl e -> d + pbytes bl <= e ->
    ordered_from d (before_events cfg bl) /\ last_end d (before_events cfg bl) = (match bl with [] => d | _ => e end).
  Proof.
    induction bl as [|pl older IH]; intros e d Hch Hd; [cbn; auto|].
    destruct Hch as [H1 H2]. cbn [before_events].
    assert (Hd' : d + pbytes older <= p_off pl).
    { unfold pbytes in *. cbn [map concat] in Hd. rewrite app_length in Hd. lia. }
    destruct (IH (p_off pl) d H2 Hd') as [I1 I2].
    split.
    - apply ordered_app. split; [exact I1|]. rewrite I2. cbn [ordered_from ev_span].
      split; [|exact I]. destruct older as [|q older']; [|lia].
      unfold pbytes in Hd. cbn in Hd. rewrite app_nil_r in Hd. lia.
    - rewrite last_end_app. cbn [last_end ev_span]. exact H1.
  Qed.

  Lemma firstn_pbytes n pend : pbytes (firstn n pend) <= pbytes pend.
  Proof.
    revert pend; induction n as [|n IH]; intro pend; [cbn; lia|]. destruct pend as [|pl older]; [cbn; lia|].
    unfold pbytes in *. cbn [firstn map concat]. rewrite !app_length. specialize (IH older). lia.
  Qed.

  Lemma brk_ordered d (c : bool) evs : ordered_from d ((if c then [EBreak] else []) ++ evs) <-> ordered_from d evs.
  Proof. destruct c; cbn; tauto. Qed.
  Lemma brk_last_end d (c : bool) evs : last_end d ((if c then [EBreak] else []) ++ evs) = last_end d evs.
  Proof. destruct c; reflexivity. Qed.

  Theorem delivered_in_order : forall ls,
    ordered_from 0 (rev (g_out (run ls))) /\
    last_end 0 (rev (g_out (run ls))) + pbytes (g_pend (run ls)) <= length (concat ls).
  Proof.
    induction ls as [|l pre IH] using rev_ind; [cbn; auto|].
    destruct IH as [IHo IHe].
    destruct (st_basic pre) as (I1 & I2 & I3 & I4). cbv zeta in *.
    pose proof (pend_inv_chain _ _ (pend_inv_run pre)) as Hch.
    rewrite run_snoc. unfold g_step, g_step_s. rewrite I1. fold (sc l). rewrite Hnostop. cbn [andb].
    rewrite concat_app, app_length. cbn [concat length]. rewrite app_nil_r.
    destruct (sc l) eqn:Hs.
    - cbn [g_out g_pend]. rewrite rev_app_distr, rev_involutive.
      set (bl := firstn B (g_pend (run pre))).
      set (E := rev (g_out (run pre))) in *.
      set (d := last_end 0 E) in *.
      assert (Hbl : d + pbytes bl <= length (concat pre)).
      { pose proof (firstn_pbytes B (g_pend (run pre))). fold bl in H. lia. }
      destruct (before_events_ordered bl (length (concat pre)) d (chain_firstn B _ _ Hch) Hbl) as [Ho Hl].
      split.
      + apply ordered_app. split; [exact IHo|]. fold d.
        apply brk_ordered. apply ordered_app. split; [exact Ho|]. rewrite Hl.
        apply brk_ordered. cbn [ordered_from ev_span]. rewrite I2. split; [|exact I].
        destruct bl; [|lia]. pose proof (chain_bytes _ _ Hch). lia.
      + unfold pbytes. cbn [map concat length]. rewrite Nat.add_0_r.
        rewrite last_end_app. fold d. rewrite brk_last_end, last_end_app, Hl, brk_last_end.
        cbn [last_end ev_span]. rewrite I2. lia.
    - rewrite I4. destruct (Nat.leb_spec 1 (credit (rev pre))) as [Hc|Hc].
      + cbn [g_out g_pend rev]. split.
        * apply ordered_app. split; [exact IHo|]. cbn [ordered_from ev_span]. rewrite I2. split; [lia|exact I].
        * rewrite last_end_app. cbn [last_end ev_span]. unfold pbytes. cbn. rewrite I2. lia.
      + destruct (c_passthru cfg).
        * cbn [g_out g_pend rev]. split.
          -- apply ordered_app. split; [exact IHo|]. cbn [ordered_from ev_span]. rewrite I2. split; [lia|exact I].
          -- rewrite last_end_app. cbn [last_end ev_span]. unfold pbytes. cbn. rewrite I2. lia.
        * cbn [g_out g_pend]. split; [exact IHo|].
          unfold pbytes in *. cbn [map concat p_bytes]. rewrite app_length. lia.
  Qed.

  (* a search that runs to completion reports the input's full length *)
  Theorem finish_is_length ls : g_off (run ls) = length (concat ls).
  Proof. apply st_basic. Qed.
End G.
