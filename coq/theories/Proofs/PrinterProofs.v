(* Proofs/PrinterProofs.v — C09: base64, decimal notation, the layout of a printed record *)
From RG Require Import Base.Bytes Base.BytesFacts Model.MatchIter Model.Replace Model.Sink Model.Standard
  Model.Json Spec.PrinterSpec.
From Coq Require Import ZArith Lia ZifyN.
Ltac Zify.zify_post_hook ::= Z.div_mod_to_equations.

(* ------------------------------------------------------------------ base64 *)
Lemma list_ind3 {A} (P : list A -> Prop) :
  P [] -> (forall a, P [a]) -> (forall a b, P [a; b]) ->
  (forall a b c r, P r -> P (a :: b :: c :: r)) -> forall l, P l.
Proof.
  intros H0 H1 H2 H3. fix IH 1. intros [|a [|b [|c r]]]; [exact H0|apply H1|apply H2|].
  apply H3. apply IH.
Qed.

Definition all64 : list N := map N.of_nat (seq 0 64).
Definition char_good (i : N) : bool :=
  match b64_val (b64_char i) with
  | Some j => (j =? i)%N && negb (b64_char i =? 61)%N
  | None => false
  end.
Lemma char_good_all : forallb char_good all64 = true.
Proof. vm_compute. reflexivity. Qed.

Lemma char_ok i : (i < 64)%N -> b64_val (b64_char i) = Some i /\ (b64_char i =? 61)%N = false.
Proof.
  intro Hi. pose proof char_good_all as H. rewrite forallb_forall in H.
  assert (In i all64) as Hin.
  { unfold all64. apply in_map_iff. exists (N.to_nat i). split; [apply N2Nat.id|]. apply in_seq. lia. }
  specialize (H i Hin). unfold char_good in H.
  destruct (b64_val (b64_char i)) as [j|]; [|discriminate].
  apply andb_true_iff in H as [H1 H2]. apply N.eqb_eq in H1. subst j.
  split; [reflexivity|]. now apply negb_true_iff in H2.
Qed.

Lemma m64 n : (n mod 64 < 64)%N. Proof. apply N.mod_lt. discriminate. Qed.

Lemma chunk3 b0 b1 b2 : (b0 < 256)%N -> (b1 < 256)%N -> (b2 < 256)%N ->
  let g := (b0 * 65536 + b1 * 256 + b2)%N in
  let g' := ((((g / 262144) mod 64 * 64 + (g / 4096) mod 64) * 64 + (g / 64) mod 64) * 64 + g mod 64)%N in
  (g' / 65536 = b0 /\ (g' / 256) mod 256 = b1 /\ g' mod 256 = b2)%N.
Proof. intros H0 H1 H2 g g'. subst g g'. repeat split; lia. Qed.

Lemma chunk2 b0 b1 : (b0 < 256)%N -> (b1 < 256)%N ->
  let g := (b0 * 256 + b1)%N in
  let g' := (((g / 1024) mod 64 * 64 + (g / 16) mod 64) * 64 + (g * 4) mod 64)%N in
  (g' / 1024 = b0 /\ (g' / 4) mod 256 = b1)%N.
Proof. intros H0 H1 g g'. subst g g'. split; lia. Qed.

Lemma chunk1 b0 : (b0 < 256)%N ->
  ((((b0 / 4) mod 64 * 64 + (b0 * 16) mod 64) / 16) = b0)%N.
Proof. intros H0. lia. Qed.

Theorem base64_roundtrip_proof : forall bs,
  Forall (fun b => (b < 256)%N) bs -> b64_decode (base64_standard bs) = Some bs.
Proof.
  induction bs as [|a|a b|a b c r IH] using list_ind3; intro Hall.
  - reflexivity.
  - inversion Hall as [|? ? Ha _]; subst. cbn [base64_standard b64_decode].
    destruct (char_ok _ (m64 (a / 4))) as [-> _]. destruct (char_ok _ (m64 (a * 16))) as [-> _].
    cbn [N.eqb Pos.eqb]. rewrite (chunk1 a Ha). reflexivity.
  - inversion Hall as [|? ? Ha Hr]; subst. inversion Hr as [|? ? Hb _]; subst.
    cbn [base64_standard b64_decode].
    destruct (char_ok _ (m64 ((a * 256 + b) / 1024))) as [-> _].
    destruct (char_ok _ (m64 ((a * 256 + b) / 16))) as [-> _].
    destruct (char_ok _ (m64 ((a * 256 + b) * 4))) as [-> ->].
    cbn [N.eqb Pos.eqb]. destruct (chunk2 a b Ha Hb) as [-> ->]. reflexivity.
  - inversion Hall as [|? ? Ha Hr]; subst. inversion Hr as [|? ? Hb Hr2]; subst.
    inversion Hr2 as [|? ? Hc Hr3]; subst.
    cbn [base64_standard b64_decode].
    destruct (char_ok _ (m64 ((a * 65536 + b * 256 + c) / 262144))) as [-> _].
    destruct (char_ok _ (m64 ((a * 65536 + b * 256 + c) / 4096))) as [-> _].
    destruct (char_ok _ (m64 ((a * 65536 + b * 256 + c) / 64))) as [-> ->].
    destruct (char_ok _ (m64 (a * 65536 + b * 256 + c))) as [-> ->].
    rewrite (IH Hr3). cbn [option_map].
    destruct (chunk3 a b c Ha Hb Hc) as (-> & -> & ->). reflexivity.
Qed.

(* ------------------------------------------------------------------ Data::from_bytes, submatches *)
Lemma data_text_iff_utf8_proof b :
  (utf8_valid b = true -> data_from_bytes b = JText b) /\
  (utf8_valid b = false -> data_from_bytes b = JBytes (base64_standard b)).
Proof. unfold data_from_bytes. destruct (utf8_valid b); split; intro H; try discriminate; reflexivity. Qed.

Lemma submatch_is_slice_proof lines ms sm :
  In sm (submatches_new lines ms) ->
  j_m sm = data_from_bytes (sub lines (j_start sm) (j_end sm)) /\ In (j_start sm, j_end sm) ms.
Proof.
  unfold submatches_new. intro H. apply in_map_iff in H as (m & <- & Hin). cbn. split; [reflexivity|].
  now destruct m.
Qed.

(* ------------------------------------------------------------------ decimal notation *)
Definition dstep (acc d : N) : N := (acc * 10 + (d - 48))%N.
Lemma digits_value_from l : forall a, fold_left dstep l a = (a * 10 ^ N.of_nat (length l) + fold_left dstep l 0)%N.
Proof.
  induction l as [|d l IH]; intro a; cbn [fold_left length].
  - cbn. lia.
  - rewrite IH. rewrite (IH (dstep 0 d)). unfold dstep.
    rewrite Nat2N.inj_succ, N.pow_succ_r'. lia.
Qed.

Lemma decimal_loop_value : forall fuel n acc, (n < 10 ^ N.of_nat fuel)%N -> fuel <> 0 ->
  fold_left dstep (decimal_loop fuel n acc) 0%N
  = (n * 10 ^ N.of_nat (length acc) + fold_left dstep acc 0)%N.
Proof.
  induction fuel as [|fuel IH]; intros n acc Hn Hf; [congruence|].
  cbn [decimal_loop].
  assert (fold_left dstep ((48 + n mod 10)%N :: acc) 0%N
          = ((n mod 10) * 10 ^ N.of_nat (length acc) + fold_left dstep acc 0)%N) as Hcons.
  { cbn [fold_left]. rewrite digits_value_from. unfold dstep. f_equal. f_equal. lia. }
  destruct (N.eqb_spec (n / 10) 0) as [Hz|Hnz].
  - rewrite Hcons. f_equal. f_equal. lia.
  - destruct fuel as [|fuel'].
    + exfalso. cbn in Hn. lia.
    + rewrite IH; [|rewrite Nat2N.inj_succ, N.pow_succ_r' in Hn; lia|discriminate].
      rewrite Hcons. cbn [length]. rewrite Nat2N.inj_succ, N.pow_succ_r'. 
      pose proof (N.div_mod n 10). nia.
Qed.

Theorem decimal_formatter_correct_proof n : (n < 2 ^ 64)%N ->
  digits_value (decimal_formatter n) = n.
Proof.
  intro Hn. unfold digits_value, decimal_formatter. fold dstep.
  rewrite decimal_loop_value; [cbn; lia| |discriminate].
  eapply N.lt_trans; [exact Hn|]. vm_compute. reflexivity.
Qed.

Lemma decimal_loop_digits : forall fuel n acc, forallb is_digit acc = true ->
  forallb is_digit (decimal_loop fuel n acc) = true.
Proof.
  induction fuel as [|fuel IH]; intros n acc Ha; [exact Ha|]. cbn [decimal_loop].
  assert (forallb is_digit ((48 + n mod 10)%N :: acc) = true) as H.
  { cbn [forallb]. rewrite Ha. unfold is_digit. pose proof (N.mod_lt n 10).
    destruct (N.leb_spec 48 (48 + n mod 10)); destruct (N.leb_spec (48 + n mod 10) 57); try reflexivity; lia. }
  destruct (n / 10 =? 0)%N; [exact H|now apply IH].
Qed.
Lemma decimal_loop_nonempty : forall fuel m acc, fuel <> 0 \/ acc <> [] -> decimal_loop fuel m acc <> [].
Proof.
  induction fuel as [|fuel IH]; intros m acc H; cbn [decimal_loop].
  - destruct H; congruence.
  - destruct (m / 10 =? 0)%N; [discriminate|]. apply IH. right. discriminate.
Qed.
Theorem decimal_formatter_digits_proof n : forallb is_digit (decimal_formatter n) = true /\ decimal_formatter n <> [].
Proof.
  unfold decimal_formatter. split; [apply decimal_loop_digits; reflexivity|].
  apply decimal_loop_nonempty. left. discriminate.
Qed.

(* ------------------------------------------------------------------ the layout of a record *)
Section Layout.
  Variable cfg : stdconfig.
  Variable env : senv.
  Variable path : option bytes.

  Lemma write_out b w : w_out (write b w) = w_out w ++ b. Proof. reflexivity. Qed.

  Lemma write_prelude_layout sk off lnum col w :
    w_out (write_prelude cfg path sk off lnum col w)
    = w_out w ++ prelude_spec cfg path (separator_field cfg sk) off lnum col.
  Proof.
    unfold write_prelude, prelude_spec, path_field, num_field, pw_sep.
    destruct (st_heading cfg); destruct path as [p|]; destruct (st_path_term cfg) as [t|];
      destruct lnum as [n|]; destruct (st_column cfg); destruct col as [c|]; destruct (st_byte_offset cfg);
      cbn [negb is_some fst snd]; rewrite ?write_out, ?app_nil_r, <- ?app_assoc; cbn [app];
      rewrite ?app_nil_r, <- ?app_assoc; reflexivity.
  Qed.

  Lemma write_line_layout line w :
    w_out (write_line env line w) = w_out w ++ terminated (e_lt env) line.
  Proof.
    unfold write_line, terminated, write_line_term, lt. destruct (lt_is_suffix (e_lt env) line); cbn [negb];
      rewrite ?write_out, <- ?app_assoc; reflexivity.
  Qed.

  (* one record of the fast path (no match spans recorded): the event's own coordinates and bytes *)
  Theorem sink_fast_layout sk w :
    w_out (sink_fast cfg env path sk w)
    = w_out w ++ prelude_spec cfg path (separator_field cfg sk) (k_off sk) (k_lnum sk) None
              ++ terminated (e_lt env) (k_bytes sk).
  Proof.
    unfold sink_fast. rewrite write_line_layout, write_prelude_layout. now rewrite <- app_assoc.
  Qed.

  (* one record of the slow path for whole lines (--column etc.): same, the column being
     1 + the start of the first recorded match *)
  Theorem sink_slow_layout sk w :
    st_only_matching cfg = false -> st_per_match cfg = false ->
    w_out (sink_slow cfg env path sk w)
    = w_out w ++ prelude_spec cfg path (separator_field cfg sk) (k_off sk) (k_lnum sk)
                   (Some (fst (nth_span (k_matches sk) 0) + 1))
              ++ terminated (e_lt env) (k_bytes sk).
  Proof.
    intros H1 H2. unfold sink_slow. rewrite H1, H2.
    rewrite write_line_layout, write_prelude_layout. now rewrite <- app_assoc.
  Qed.
End Layout.

(* the multi-line fast path: one record per line of the block, numbered and offset consecutively *)
Section MultiLineFast.
  Variable cfg : stdconfig.
  Variable env : senv.
  Variable path : option bytes.
  Variable sk : sunk.

  Fixpoint block_records (spans : list (nat * nat)) (i off : nat) : bytes :=
    match spans with
    | [] => []
    | (s, e) :: r =>
      prelude_spec cfg path (separator_field cfg sk) off (option_map (fun n => n + i) (k_lnum sk)) None
      ++ terminated (e_lt env) (sub (k_bytes sk) s e) ++ block_records r (S i) (off + (e - s))
    end.

  Lemma sink_fast_ml_loop_layout : forall spans i off w,
    w_out (sink_fast_ml_loop cfg env path sk spans i off w) = w_out w ++ block_records spans i off.
  Proof.
    induction spans as [|[s e] r IH]; intros i off w; cbn [sink_fast_ml_loop block_records].
    - now rewrite app_nil_r.
    - rewrite IH, write_line_layout, write_prelude_layout. now rewrite <- !app_assoc.
  Qed.

  Theorem sink_fast_multi_line_layout w :
    w_out (sink_fast_multi_line cfg env path sk w)
    = w_out w ++ block_records (line_spans (lt_byte (e_lt env)) (k_bytes sk)) 0 (k_off sk).
  Proof. apply sink_fast_ml_loop_layout. Qed.
End MultiLineFast.
