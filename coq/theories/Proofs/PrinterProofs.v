(* Proofs/PrinterProofs.v — C09: base64, decimal notation, the layout of a printed record *)
From RG Require Import Base.Bytes Base.BytesFacts Model.MatchIter Model.Replace Model.Sink Model.Standard
  Model.Json Spec.PrinterSpec.
From Coq Require Import ZArith Lia ZifyN.
Ltac Zify.zify_post_hook ::= Z.div_mod_to_equations.

(* ------------------------------------------------------------------ base64 *)
Lemma list_ind3 {A} (P : list A -> Prop) :
  P [] -> (forall a, P [a]) -> (forall a b, P [a; b]) ->
  (forall a b c r, P r -> P (a :: b :: c :: r)) -> forall l, P l.
Proof.
  intros H0 H1 H2 H3. fix IH 1. intros [|a [|b [|c r]]]; [exact H0|apply H1|apply H2|].
  apply H3. apply IH.
Qed.

Definition all64 : list N := map N.of_nat (seq 0 64).
Definition char_good (i : N) : bool :=
  match b64_val (b64_char i) with
  | Some j => (j =? i)%N && negb (b64_char i =? 61)%N
  | None => false
  end.
Lemma char_good_all : forallb char_good all64 = true.
Proof. vm_compute. reflexivity. Qed.

Lemma char_ok i : (i < 64)%N -> b64_val (b64_char i) = Some i /\ (b64_char i =? 61)%N = false.
Proof.
  intro Hi. pose proof char_good_all as H. rewrite forallb_forall in H.
  assert (In i all64) as Hin.
  { unfold all64. apply in_map_iff. exists (N.to_nat i). split; [apply N2Nat.id|]. apply in_seq. lia. }
  specialize (H i Hin). unfold char_good in H.
  destruct (b64_val (b64_char i)) as [j|]; [|discriminate].
  apply andb_true_iff in H as [H1 H2]. apply N.eqb_eq in H1. subst j.
  split; [reflexivity|]. now apply negb_true_iff in H2.
Qed.

Lemma m64 n : (n mod 64 < 64)%N. Proof. apply N.mod_lt. discriminate. Qed.

Lemma chunk3 b0 b1 b2 : (b0 < 256)%N -> (b1 < 256)%N -> (b2 < 256)%N ->
  let g := (b0 * 65536 + b1 * 256 + b2)%N in
  let g' := ((((g / 262144) mod 64 * 64 + (g / 4096) mod 64) * 64 + (g / 64) mod 64) * 64 + g mod 64)%N in
  (g' / 65536 = b0 /\ (g' / 256) mod 256 = b1 /\ g' mod 256 = b2)%N.
Proof. intros H0 H1 H2 g g'. subst g g'. repeat split; lia. Qed.

Lemma chunk2 b0 b1 : (b0 < 256)%N -> (b1 < 256)%N ->
  let g := (b0 * 256 + b1)%N in
  let g' := (((g / 1024) mod 64 * 64 + (g / 16) mod 64) * 64 + (g * 4) mod 64)%N in
  (g' / 1024 = b0 /\ (g' / 4) mod 256 = b1)%N.
Proof. intros H0 H1 g g'. subst g g'. split; lia. Qed.

Lemma chunk1 b0 : (b0 < 256)%N ->
  ((((b0 / 4) mod 64 * 64 + (b0 * 16) mod 64) / 16) = b0)%N.
Proof. intros H0. lia. Qed.

Theorem base64_roundtrip_proof : forall bs,
  Forall (fun b => (b < 256)%N) bs -> b64_decode (base64_standard bs) = Some bs.
Proof.
  induction bs as [|a|a b|a b c r IH] using list_ind3; intro Hall.
  - reflexivity.
  - inversion Hall as [|? ? Ha _]; subst. cbn [base64_standard b64_decode].
    destruct (char_ok _ (m64 (a / 4))) as [-> _]. destruct (char_ok _ (m64 (a * 16))) as [-> _].
    cbn [N.eqb Pos.eqb]. rewrite (chunk1 a Ha). reflexivity.
  - inversion Hall as [|? ? Ha Hr]; subst. inversion Hr as [|? ? Hb _]; subst.
    cbn [base64_standard b64_decode].
    destruct (char_ok _ (m64 ((a * 256 + b) / 1024))) as [-> _].
    destruct (char_ok _ (m64 ((a * 256 + b) / 16))) as [-> _].
    destruct (char_ok _ (m64 ((a * 256 + b) * 4))) as [-> ->].
    cbn [N.eqb Pos.eqb]. destruct (chunk2 a b Ha Hb) as [-> ->]. reflexivity.
  - inversion Hall as [|? ? Ha Hr]; subst. inversion Hr as [|? ? Hb Hr2]; subst.
    inversion Hr2 as [|? ? Hc Hr3]; subst.
    cbn [base64_standard b64_decode].
    destruct (char_ok _ (m64 ((a * 65536 + b * 256 + c) / 262144))) as [-> _].
    destruct (char_ok _ (m64 ((a * 65536 + b * 256 + c) / 4096))) as [-> _].
    destruct (char_ok _ (m64 ((a * 65536 + b * 256 + c) / 64))) as [-> ->].
    destruct (char_ok _ (m64 (a * 65536 + b * 256 + c))) as [-> ->].
    rewrite (IH Hr3). cbn [option_map].
    destruct (chunk3 a b c Ha Hb Hc) as (-> & -> & ->). reflexivity.
Qed.

(* ------------------------------------------------------------------ Data::from_bytes, submatches *)
Lemma data_text_iff_utf8_proof b :
  (utf8_valid b = true -> data_from_bytes b = JText b) /\
  (utf8_valid b = false -> data_from_bytes b = JBytes (base64_standard b)).
Proof. unfold data_from_bytes. destruct (utf8_valid b); split; intro H; try discriminate; reflexivity. Qed.

Lemma submatch_is_slice_proof lines ms sm :
  In sm (submatches_new lines ms) ->
  j_m sm = data_from_bytes (sub lines (j_start sm) (j_end sm)) /\ In (j_start sm, j_end sm) ms.
Proof.
  unfold submatches_new. intro H. apply in_map_iff in H as (m & <- & Hin). cbn. split; [reflexivity|].
  now destruct m.
Qed.

(* ------------------------------------------------------------------ decimal notation *)
Definition dstep (acc d : N) : N := (acc * 10 + (d - 48))%N.
Lemma digits_value_from l : forall a, fold_left dstep l a = (a * 10 ^ N.of_nat (length l) + fold_left dstep l 0)%N.
Proof.
  induction l as [|d l IH]; intro a; cbn [fold_left length].
  - cbn. lia.
  - rewrite IH. rewrite (IH (dstep 0 d)). unfold dstep.
    rewrite Nat2N.inj_succ, N.pow_succ_r'. lia.
Qed.

Lemma decimal_loop_value : forall fuel n acc, (n < 10 ^ N.of_nat fuel)%N -> fuel <> 0 ->
  fold_left dstep (decimal_loop fuel n acc) 0%N
  = (n * 10 ^ N.of_nat (length acc) + fold_left dstep acc 0)%N.
Proof.
  induction fuel as [|fuel IH]; intros n acc Hn Hf; [congruence|].
  cbn [decimal_loop].
  assert (fold_left dstep ((48 + n mod 10)%N :: acc) 0%N
          = ((n mod 10) * 10 ^ N.of_nat (length acc) + fold_left dstep acc 0)%N) as Hcons.
  { cbn [fold_left]. rewrite digits_value_from. unfold dstep. f_equal. f_equal. lia. }
  destruct (N.eqb_spec (n / 10) 0) as [Hz|Hnz].
  - rewrite Hcons. f_equal. f_equal. lia.
  - destruct fuel as [|fuel'].
    + exfalso. cbn in Hn. lia.
    + rewrite IH; [|rewrite Nat2N.inj_succ, N.pow_succ_r' in Hn; lia|discriminate].
      rewrite Hcons. cbn [length]. rewrite Nat2N.inj_succ, N.pow_succ_r'. 
      pose proof (N.div_mod n 10). nia.
Qed.

Theorem decimal_formatter_correct_proof n : (n < 2 ^ 64)%N ->
  digits_value (decimal_formatter n) = n.
Proof.
  intro Hn. unfold digits_value, decimal_formatter. fold dstep.
  rewrite decimal_loop_value; [cbn; lia| |discriminate].
  eapply N.lt_trans; [exact Hn|]. vm_compute. reflexivity.
Qed.

Lemma decimal_loop_digits : forall fuel n acc, forallb is_digit acc = true ->
  forallb is_digit (decimal_loop fuel n acc) = true.
Proof.
  induction fuel as [|fuel IH]; intros n acc Ha; [exact Ha|]. cbn [decimal_loop].
  assert (forallb is_digit ((48 + n mod 10)%N :: acc) = true) as H.
  { cbn [forallb]. rewrite Ha. unfold is_digit. pose proof (N.mod_lt n 10).
    destruct (N.leb_spec 48 (48 + n mod 10)); destruct (N.leb_spec (48 + n mod 10) 57); try reflexivity; lia. }
  destruct (n / 10 =? 0)%N; [exact H|now apply IH].
Qed.
Lemma decimal_loop_nonempty : forall fuel m acc, fuel <> 0 \/ acc <> [] -> decimal_loop fuel m acc <> [].
Proof.
  induction fuel as [|fuel IH]; intros m acc H; cbn [decimal_loop].
  - destruct H; congruence.
  - destruct (m / 10 =? 0)%N; [discriminate|]. apply IH. right. discriminate.
Qed.
Theorem decimal_formatter_digits_proof n : forallb is_digit (decimal_formatter n) = true /\ decimal_formatter n <> [].
Proof.
  unfold decimal_formatter. split; [apply decimal_loop_digits; reflexivity|].
  apply decimal_loop_nonempty. left. discriminate.
Qed.

(* ------------------------------------------------------------------ the layout of a record *)
Section Layout.
  Variable cfg : stdconfig.
  Variable env : senv.
  Variable path : option bytes.

  Lemma write_out b w : w_out (write b w) = w_out w ++ b. Proof. reflexivity. Qed.

  Lemma write_prelude_layout sk off lnum col w :
    w_out (write_prelude cfg path sk off lnum col w)
    = w_out w ++ prelude_spec cfg path (separator_field cfg sk) off lnum col.
  Proof.
    unfold write_prelude, prelude_spec, path_field, num_field, pw_sep.
    destruct (st_heading cfg); destruct path as [p|]; destruct (st_path_term cfg) as [t|];
      destruct lnum as [n|]; destruct (st_column cfg); destruct col as [c|]; destruct (st_byte_offset cfg);
      cbn [negb is_some fst snd]; rewrite ?write_out, ?app_nil_r, <- ?app_assoc; cbn [app];
      rewrite ?app_nil_r, <- ?app_assoc; reflexivity.
  Qed.

  Lemma write_line_layout line w :
    w_out (write_line env line w) = w_out w ++ terminated (e_lt env) line.
  Proof.
    unfold write_line, terminated, write_line_term, lt. destruct (lt_is_suffix (e_lt env) line); cbn [negb];
      rewrite ?write_out, <- ?app_assoc; reflexivity.
  Qed.

  (* one record of the fast path (no match spans recorded): the event's own coordinates and bytes *)
  Theorem sink_fast_layout sk w :
    w_out (sink_fast cfg env path sk w)
    = w_out w ++ prelude_spec cfg path (separator_field cfg sk) (k_off sk) (k_lnum sk) None
              ++ terminated (e_lt env) (k_bytes sk).
  Proof.
    unfold sink_fast. rewrite write_line_layout, write_prelude_layout. now rewrite <- app_assoc.
  Qed.

  (* one record of the slow path for whole lines (--column etc.): same, the column being
     1 + the start of the first recorded match *)
  Theorem sink_slow_layout sk w :
    st_only_matching cfg = false -> st_per_match cfg = false ->
    w_out (sink_slow cfg env path sk w)
    = w_out w ++ prelude_spec cfg path (separator_field cfg sk) (k_off sk) (k_lnum sk)
                   (Some (fst (nth_span (k_matches sk) 0) + 1))
              ++ terminated (e_lt env) (k_bytes sk).
  Proof.
    intros H1 H2. unfold sink_slow. rewrite H1, H2.
    rewrite write_line_layout, write_prelude_layout. now rewrite <- app_assoc.
  Qed.
End Layout.

(* the multi-line fast path: one record per line of the block, numbered and offset consecutively *)
Section MultiLineFast.
  Variable cfg : stdconfig.
  Variable env : senv.
  Variable path : option bytes.
  Variable sk : sunk.

  Fixpoint block_records (spans : list (nat * nat)) (i off : nat) : bytes :=
    match spans with
    | [] => []
    | (s, e) :: r =>
      prelude_spec cfg path (separator_field cfg sk) off (option_map (fun n => n + i) (k_lnum sk)) None
      ++ terminated (e_lt env) (sub (k_bytes sk) s e) ++ block_records r (S i) (off + (e - s))
    end.

  Lemma sink_fast_ml_loop_layout : forall spans i off w,
    w_out (sink_fast_ml_loop cfg env path sk spans i off w) = w_out w ++ block_records spans i off.
  Proof.
    induction spans as [|[s e] r IH]; intros i off w; cbn [sink_fast_ml_loop block_records].
    - now rewrite app_nil_r.
    - rewrite IH, write_line_layout, write_prelude_layout. now rewrite <- !app_assoc.
  Qed.

  Theorem sink_fast_multi_line_layout w :
    w_out (sink_fast_multi_line cfg env path sk w)
    = w_out w ++ block_records (line_spans (lt_byte (e_lt env)) (k_bytes sk)) 0 (k_off sk).
  Proof. apply sink_fast_ml_loop_layout. Qed.
End MultiLineFast.

(* line-oriented --only-matching and per-match (--vimgrep) output: one record per recorded span *)
Section PerMatch.
  Variable cfg : stdconfig.
  Variable env : senv.
  Variable path : option bytes.
  Variable sk : sunk.

  (* the record of span m: offset and column are those of the span; the text is the span (-o) or the line *)
  Definition span_record (only : bool) (m : nat * nat) : bytes :=
    prelude_spec cfg path (separator_field cfg sk) (k_off sk + fst m) (k_lnum sk) (Some (fst m + 1))
    ++ terminated (e_lt env) (if only then sub (k_bytes sk) (fst m) (snd m) else k_bytes sk).

  Lemma fold_span_records (only : bool) : forall (ms : list (nat * nat)) (w : wtr),
    w_out (fold_left (fun (w : wtr) (m : nat * nat) =>
             write_line env (if only then sub (k_bytes sk) (fst m) (snd m) else k_bytes sk)
               (write_prelude cfg path sk (k_off sk + fst m) (k_lnum sk) (Some (fst m + 1)) w)) ms w)
    = w_out w ++ concat (map (span_record only) ms).
  Proof.
    induction ms as [|m ms IH]; intro w; cbn [fold_left map concat]; [now rewrite app_nil_r|].
    rewrite IH, write_line_layout, write_prelude_layout. unfold span_record. now rewrite <- !app_assoc.
  Qed.

  Theorem sink_slow_only_matching_layout w : st_only_matching cfg = true ->
    w_out (sink_slow cfg env path sk w) = w_out w ++ concat (map (span_record true) (k_matches sk)).
  Proof. intro H. unfold sink_slow. rewrite H. apply (fold_span_records true). Qed.

  Theorem sink_slow_per_match_layout w : st_only_matching cfg = false -> st_per_match cfg = true ->
    w_out (sink_slow cfg env path sk w) = w_out w ++ concat (map (span_record false) (k_matches sk)).
  Proof. intros H1 H2. unfold sink_slow. rewrite H1, H2. apply (fold_span_records false). Qed.
End PerMatch.

(* write_colored_matches (colours off): whatever the recorded spans are, exactly the line is written *)
Lemma firstn_split {A} (l : list A) a c : firstn a l ++ firstn c (skipn a l) = firstn (a + c) l.
Proof.
  revert l. induction a as [|a IH]; intro l; [reflexivity|]. destruct l as [|x l]; cbn [firstn skipn Nat.add app].
  - now rewrite firstn_nil.
  - now rewrite IH.
Qed.
Lemma skipn_add {A} (l : list A) : forall a b, skipn a (skipn b l) = skipn (b + a) l.
Proof.
  intros a b. revert l. induction b as [|b IH]; intro l; [reflexivity|].
  destruct l as [|x l]; [now rewrite !skipn_nil|]. cbn [skipn Nat.add]. apply IH.
Qed.
Lemma sub_split {A} (l : list A) i j k : i <= j -> j <= k -> sub l i j ++ sub l j k = sub l i k.
Proof.
  intros H1 H2. unfold sub. replace (skipn j l) with (skipn (j - i) (skipn i l)).
  - rewrite firstn_split. f_equal. lia.
  - rewrite skipn_add. f_equal. lia.
Qed.
Lemma sub_empty {A} (l : list A) i : sub l i i = [].
Proof. unfold sub. now rewrite Nat.sub_diag. Qed.

Lemma wcm_loop_out bytes matches : forall fuel ls le midx w,
  ls <= le -> midx < length matches -> (le - ls) + (length matches - midx) < fuel ->
  w_out (snd (wcm_loop fuel bytes ls le matches midx w)) = w_out w ++ sub bytes ls le /\
  fst (wcm_loop fuel bytes ls le matches midx w) < length matches.
Proof.
  induction fuel as [|fuel IH]; intros ls le midx w Hle Hm Hf; [lia|].
  cbn [wcm_loop]. destruct (Nat.eqb_spec ls le) as [->|Hne].
  - cbn [fst snd]. rewrite sub_empty, app_nil_r. auto.
  - destruct (nth_span matches midx) as [ms me].
    destruct (Nat.leb_spec me ls).
    + destruct (Nat.ltb_spec (midx + 1) (length matches)).
      * apply IH; lia.
      * cbn [fst snd]. auto.
    + destruct (Nat.ltb_spec ls ms).
      * destruct (IH (Nat.min le ms) le midx (write (sub bytes ls (Nat.min le ms)) w)) as [E1 E2]; [lia|lia|lia|].
        rewrite E1. split; [|exact E2]. cbn [write w_out]. rewrite <- app_assoc, sub_split by lia. reflexivity.
      * destruct (IH (Nat.min le me) le midx (write (sub bytes ls (Nat.min le me)) w)) as [E1 E2]; [lia|lia|lia|].
        rewrite E1. split; [|exact E2]. cbn [write w_out]. rewrite <- app_assoc, sub_split by lia. reflexivity.
Qed.

Section MultiLineSlow.
  Variable cfg : stdconfig.
  Variable env : senv.
  Variable path : option bytes.
  Variable sk : sunk.

  Lemma write_colored_matches_out ls le midx w :
    ls <= trim_line_terminator (e_lt env) (k_bytes sk) ls le -> midx < length (k_matches sk) ->
    w_out (snd (write_colored_matches env (k_bytes sk) ls le (k_matches sk) midx w))
    = w_out w ++ sub (k_bytes sk) ls (trim_line_terminator (e_lt env) (k_bytes sk) ls le) /\
    fst (write_colored_matches env (k_bytes sk) ls le (k_matches sk) midx w) < length (k_matches sk).
  Proof.
    intros Hle Hm. unfold write_colored_matches, lt.
    destruct (k_matches sk) as [|m0 ms] eqn:Em; [cbn in Hm; lia|]. cbn [is_empty_list].
    apply wcm_loop_out; [exact Hle|exact Hm|lia].
  Qed.

  (* one record per line of the block: the line without its terminator, then the searcher's terminator;
     every line carries the column of the block's first match (pinned by the suite: column_number_multi_line) *)
  Fixpoint slow_block_records (spans : list (nat * nat)) (count : nat) : bytes :=
    match spans with
    | [] => []
    | (s, e) :: r =>
      prelude_spec cfg path (separator_field cfg sk) (k_off sk + s) (option_map (fun n => n + count) (k_lnum sk))
                   (Some (fst (nth_span (k_matches sk) 0) + 1))
      ++ sub (k_bytes sk) s (trim_line_terminator (e_lt env) (k_bytes sk) s e) ++ lt_bytes (e_lt env)
      ++ slow_block_records r (S count)
    end.

  Lemma sink_slow_ml_loop_layout : forall spans count midx w,
    Forall (fun se => fst se <= trim_line_terminator (e_lt env) (k_bytes sk) (fst se) (snd se)) spans ->
    midx < length (k_matches sk) ->
    w_out (sink_slow_ml_loop cfg env path sk spans count midx w) = w_out w ++ slow_block_records spans count.
  Proof.
    induction spans as [|[s e] r IH]; intros count midx w Hall Hm; cbn [sink_slow_ml_loop slow_block_records].
    - now rewrite app_nil_r.
    - inversion Hall as [|? ? Hse Hr]; subst. cbn [fst snd] in Hse.
      destruct (write_colored_matches_out s e midx
                  (write_prelude cfg path sk (k_off sk + s) (option_map (fun n => n + count) (k_lnum sk))
                     (Some (fst (nth_span (k_matches sk) 0) + 1)) w) Hse Hm) as [E1 E2].
      destruct (write_colored_matches env (k_bytes sk) s e (k_matches sk) midx _) as [midx' w'] eqn:Ew.
      cbn [fst snd] in E1, E2. rewrite IH by assumption.
      unfold write_line_term, lt. cbn [write w_out]. rewrite E1, write_prelude_layout. now rewrite <- !app_assoc.
  Qed.

  Theorem sink_slow_multi_line_layout w :
    st_only_matching cfg = false -> st_per_match cfg = false -> k_matches sk <> [] ->
    Forall (fun se => fst se <= trim_line_terminator (e_lt env) (k_bytes sk) (fst se) (snd se))
           (line_spans (lt_byte (e_lt env)) (k_bytes sk)) ->
    w_out (sink_slow_multi_line cfg env path sk w)
    = w_out w ++ slow_block_records (line_spans (lt_byte (e_lt env)) (k_bytes sk)) 0.
  Proof.
    intros H1 H2 Hne Hall. unfold sink_slow_multi_line. rewrite H1, H2. unfold lt.
    apply sink_slow_ml_loop_layout; [exact Hall|]. destruct (k_matches sk); [congruence|cbn; lia].
  Qed.
End MultiLineSlow.
