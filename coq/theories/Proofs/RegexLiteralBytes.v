(* Proofs/RegexLiteralBytes.v — the inner literal extractor only rearranges bytes its HIR's leaves
   can produce: if no literal leaf contains the ASCII byte b and no class has b as a member
   ([leaf_free]), no extracted literal contains b.  strip_from_match_ascii establishes leaf_free,
   so the fast-line literals of a stripped HIR never contain the terminator. *)
From RG Require Import Base.Bytes Base.BytesFacts Spec.RegexSem Model.RegexTables Model.RegexBuild
  Model.RegexLiteral Proofs.RegexSemProofs Proofs.RegexBuildProofs Proofs.Utf8Proofs
  Proofs.RegexPassesProofs Proofs.RegexLiteralProofs.

Fixpoint leaf_free (b : N) (h : hir) : bool :=
  match h with
  | HLit lit => negb (existsb (N.eqb b) lit)
  | HClassB rs | HClassU rs => negb (in_ranges rs b)
  | HRep _ _ _ sub | HCap sub => leaf_free b sub
  | HConcat xs | HAlt xs =>
    (fix go (l : list hir) : bool := match l with [] => true | x :: t => leaf_free b x && go t end) xs
  | _ => true
  end.

(* ---- strip establishes leaf_free ---- *)
Lemma in_ranges_remove_self rs b : in_ranges (remove_point rs b) b = false.
Proof. rewrite in_ranges_remove_point, N.eqb_refl. cbn. apply andb_false_r. Qed.

Theorem strip_ascii_leaf_free : forall byte h h', strip_ascii byte h = inl h' -> leaf_free byte h' = true.
Proof.
  intros byte h. induction h as [|lit|rs|rs|l|mn mx g h IH|h IH|hs IH|hs IH] using hir_ind2;
    intros h' Hs; cbn [strip_ascii] in Hs.
  - injection Hs as <-. reflexivity.
  - destruct (existsb (N.eqb byte) lit) eqn:E; [discriminate|]. injection Hs as <-. cbn. now rewrite E.
  - destruct rs as [|r rs]; [injection Hs as <-; reflexivity|].
    destruct (remove_point (r :: rs) byte) as [|r' rs'] eqn:E; [discriminate|]. injection Hs as <-.
    cbn [leaf_free]. rewrite <- E, in_ranges_remove_self. reflexivity.
  - destruct rs as [|r rs]; [injection Hs as <-; reflexivity|].
    destruct (remove_point (r :: rs) byte) as [|r' rs'] eqn:E; [discriminate|]. injection Hs as <-.
    cbn [leaf_free]. rewrite <- E, in_ranges_remove_self. reflexivity.
  - injection Hs as <-. reflexivity.
  - destruct (strip_ascii byte h) as [h1|e]; [|discriminate]. injection Hs as <-. cbn. now apply IH.
  - destruct (strip_ascii byte h) as [h1|e]; [|discriminate]. injection Hs as <-. cbn. now apply IH.
  - match type of Hs with match ?g with _ => _ end = _ => destruct g as [ys|e] eqn:G end; [|discriminate].
    injection Hs as <-. apply strip_list_Forall2 in G. cbn [leaf_free]. clear -IH G.
    induction G as [|x y xs ys Hxy _ IHl]; [reflexivity|]. inversion IH; subst.
    apply andb_true_iff. split; [auto|auto].
  - match type of Hs with match ?g with _ => _ end = _ => destruct g as [ys|e] eqn:G end; [|discriminate].
    injection Hs as <-. apply strip_list_Forall2 in G. cbn [leaf_free]. clear -IH G.
    induction G as [|x y xs ys Hxy _ IHl]; [reflexivity|]. inversion IH; subst.
    apply andb_true_iff. split; [auto|auto].
Qed.

(* ---- the extractor ---- *)
Section Free.
  Variable b : N.
  Hypothesis Hb : (b <= 127)%N.

  Definition okb (x : bytes) : Prop := ~ In b x.
  Definition okl (ls : list lit) : Prop := Forall (fun l => okb (l_bytes l)) ls.
  Definition oks (s : seq_t) : Prop := match s with None => True | Some ls => okl ls end.
  Definition okt (t : tseq) : Prop := oks (t_seq t).

  Lemma okb_app x y : okb x -> okb y -> okb (x ++ y).
  Proof. unfold okb. intros Hx Hy H. apply in_app_or in H. tauto. Qed.
  Lemma okb_firstn n x : okb x -> okb (firstn n x).
  Proof. unfold okb. intros Hx H. apply Hx. rewrite <- (firstn_skipn n x). apply in_or_app. now left. Qed.

  Lemma oks_make_inexact s : oks s -> oks (seq_make_inexact s).
  Proof.
    destruct s as [ls|]; cbn; [|auto]. unfold okl. intro H. apply Forall_map. revert H. apply Forall_impl. auto.
  Qed.

  Lemma oks_keep_first n s : oks s -> oks (seq_keep_first_bytes n s).
  Proof.
    destruct s as [ls|]; cbn; [|auto]. unfold okl. intro H. apply Forall_map. revert H. apply Forall_impl. intros l Hl.
    unfold lit_keep_first_bytes. destruct (Nat.leb (lit_len l) n); [exact Hl|]. cbn. now apply okb_firstn.
  Qed.

  Lemma okl_dedup_into kept l : okb (l_bytes kept) -> okl l -> okl (dedup_into kept l).
  Proof.
    revert kept; induction l as [|x t IH]; intros kept Hk Hl; cbn [dedup_into].
    - constructor; [exact Hk|constructor].
    - inversion Hl; subst. destruct (bytes_eqb (l_bytes x) (l_bytes kept)).
      + apply IH; [|assumption]. destruct (Bool.eqb _ _); exact Hk.
      + constructor; [exact Hk|]. apply IH; assumption.
  Qed.

  Lemma oks_dedup s : oks s -> oks (seq_dedup s).
  Proof.
    destruct s as [[|x t]|]; cbn; auto. intro H. inversion H; subst. now apply okl_dedup_into.
  Qed.

  Lemma okl_cross l1 l2 : okl l1 -> okl l2 -> okl (cross_lits l1 l2).
  Proof.
    intros H1 H2. unfold cross_lits, okl. apply Forall_forall. intros x Hx.
    apply in_flat_map in Hx as (a & Ha & Hx). unfold okl in H1, H2. rewrite Forall_forall in H1, H2.
    destruct (l_exact a).
    - apply in_map_iff in Hx as (c & <- & Hc). cbn. apply okb_app; [apply (H1 a Ha)|apply (H2 c Hc)].
    - destruct Hx as [<-|[]]. apply (H1 a Ha).
  Qed.

  Lemma oks_cross_forward s1 s2 : oks s1 -> oks s2 -> oks (seq_cross_forward s1 s2).
  Proof.
    intros H1 H2. unfold seq_cross_forward. destruct s2 as [l2|].
    - destruct s1 as [l1|]; [|exact I]. apply oks_dedup. cbn. now apply okl_cross.
    - destruct (seq_min_literal_len s1) as [[|n]|]; [exact I| |]; now apply oks_make_inexact.
  Qed.

  Lemma oks_union s1 s2 : oks s1 -> oks s2 -> oks (seq_union s1 s2).
  Proof.
    intros H1 H2. unfold seq_union. destruct s2 as [l2|]; [|exact I]. destruct s1 as [l1|]; [|exact I].
    apply oks_dedup. cbn in *. unfold okl in *. apply Forall_app. auto.
  Qed.

  Lemma okt_make_inexact t : okt t -> okt (t_make_inexact t).
  Proof. unfold okt, t_make_inexact, t_map. cbn. apply oks_make_inexact. Qed.

  Lemma okt_choose a c : okt a -> okt c -> okt (t_choose a c).
  Proof. intros Ha Hc. destruct (t_choose_cases a c) as [-> | ->]; now apply okt_make_inexact. Qed.

  Lemma okt_empty_lit : okt (tseq_singleton (lit_exact [])).
  Proof. unfold okt. cbn. constructor; [intros []|constructor]. Qed.

  Section L.
    Variable L : limits.

    Lemma okt_enforce t : okt t -> okt (enforce_literal_len L t).
    Proof. unfold okt, enforce_literal_len, t_map. cbn. apply oks_keep_first. Qed.

    Lemma okt_cross t1 t2 : okt t1 -> okt t2 -> okt (x_cross L t1 t2).
    Proof.
      intros H1 H2. unfold x_cross. destruct (t_prefix t2); cbn [negb]; [|now apply okt_choose].
      apply okt_enforce. unfold okt. cbn [t_seq]. apply oks_cross_forward; [exact H1|].
      destruct (seq_max_cross_len _ _) as [len|]; [|exact H2].
      destruct (Nat.ltb _ len); [exact I|exact H2].
    Qed.

    Lemma okt_union t1 t2 : okt t1 -> okt t2 -> okt (x_union L t1 t2).
    Proof.
      intros H1 H2. unfold x_union.
      destruct (over_total L (t_seq t1) (t_seq t2)).
      - destruct (over_total L _ _); unfold okt; cbn [t_seq].
        + apply oks_union; [now apply oks_dedup, oks_keep_first|exact I].
        + apply oks_union; now apply oks_dedup, oks_keep_first.
      - unfold okt. cbn [t_seq]. now apply oks_union.
    Qed.

    Lemma okt_rep_cross n : forall seq subseq, okt seq -> okt subseq -> okt (rep_cross L n seq subseq).
    Proof.
      induction n as [|m IH]; intros seq subseq H1 H2; cbn [rep_cross]; [exact H1|].
      destruct (seq_is_inexact (t_seq seq)); [exact H1|]. apply IH; [now apply okt_cross|exact H2].
    Qed.

    Lemma okt_repetition mn mx g subseq : okt subseq -> okt (extract_repetition L mn mx g subseq).
    Proof.
      intro H. unfold extract_repetition. pose proof okt_empty_lit as He.
      destruct mn as [|mn'].
      - assert (H' : okt (match mx with Some 1 => subseq | _ => t_make_inexact subseq end)).
        { destruct mx as [[|[|n]]|]; auto using okt_make_inexact. }
        destruct g; now apply okt_union.
      - destruct mx as [m|]; [|now apply okt_make_inexact].
        destruct (Nat.eqb (S mn') m).
        + destruct (Nat.ltb _ _); [apply okt_make_inexact|]; now apply okt_rep_cross.
        + destruct (Nat.ltb (S mn') m); [apply okt_make_inexact; now apply okt_rep_cross|now apply okt_make_inexact].
    Qed.

    (* classes *)
    Lemma range_values_in fuel : forall lo hi x, In x (range_values fuel lo hi) -> (lo <= x <= hi)%N.
    Proof.
      induction fuel as [|f IH]; intros lo hi x H; cbn [range_values] in H; [destruct H|].
      destruct (hi <? lo)%N eqn:E; [destruct H|]. apply N.ltb_ge in E.
      destruct H as [<-|H]; [lia|]. apply IH in H. lia.
    Qed.

    Lemma class_values_in rs x : In x (class_values L rs) -> in_ranges rs x = true.
    Proof.
      unfold class_values. intro H. apply in_flat_map in H as (r & Hr & Hx). apply range_values_in in Hx.
      unfold in_ranges. apply existsb_exists. exists r. split; [exact Hr|].
      unfold in_range. apply andb_true_iff. split; apply N.leb_le; lia.
    Qed.

    Lemma okl_fold_push (f : N -> lit) vals : forall ls0,
      okl ls0 -> (forall v, In v vals -> okb (l_bytes (f v))) ->
      oks (fold_left (fun s x => seq_push s (f x)) vals (Some ls0)).
    Proof.
      induction vals as [|x t IH]; intros ls0 H0 Hv; cbn [fold_left]; [exact H0|].
      assert (Hx : okb (l_bytes (f x))) by (apply Hv; now left).
      unfold seq_push at 2. destruct (rev ls0) as [|last r] eqn:E.
      - apply IH; [constructor; [exact Hx|constructor]|intros v Hin; apply Hv; now right].
      - destruct (lit_eqb last (f x)); apply IH; try (intros v Hin; apply Hv; now right); [exact H0|].
        unfold okl. apply Forall_app. split; [exact H0|constructor; [exact Hx|constructor]].
    Qed.

    Lemma ascii_in_encode cp : In b (utf8_encode cp) -> cp = b.
    Proof.
      unfold utf8_encode. destruct (cp <? 128)%N eqn:E1; [intros [H|[]]; auto|].
      assert (Hm : forall v, (v < 64)%N -> (128 + v <> b)%N) by (intros; lia).
      assert (Hm' : forall t v, (128 <= t)%N -> (t + v <> b)%N) by (intros; lia).
      pose proof (N.mod_lt cp 64 ltac:(lia)) as M1. pose proof (N.mod_lt (cp / 64) 64 ltac:(lia)) as M2.
      pose proof (N.mod_lt (cp / 4096) 64 ltac:(lia)) as M3.
      destruct (cp <? 2048)%N; [|destruct (cp <? 65536)%N]; cbn [In]; intro Hin;
        repeat (destruct Hin as [Hin|Hin];
                [exfalso; first [exact (Hm _ M1 Hin)|exact (Hm _ M2 Hin)|exact (Hm _ M3 Hin)|exact (Hm' 192%N _ ltac:(lia) Hin)|exact (Hm' 224%N _ ltac:(lia) Hin)|exact (Hm' 240%N _ ltac:(lia) Hin)]|]); destruct Hin.
    Qed.

    Lemma okt_class_bytes rs : in_ranges rs b = false -> okt (extract_class_bytes L rs).
    Proof.
      intro Hr. unfold extract_class_bytes. destruct (class_over_limit L rs); [exact I|].
      apply okt_enforce. unfold okt, tseq_of, seq_empty. cbn [t_seq].
      apply okl_fold_push; [constructor|]. intros v Hv [E|[]]. apply class_values_in in Hv. congruence.
    Qed.

    Lemma okt_class_unicode rs : in_ranges rs b = false -> okt (extract_class_unicode L rs).
    Proof.
      intro Hr. unfold extract_class_unicode. destruct (class_over_limit L rs); [exact I|].
      apply okt_enforce. unfold okt, tseq_of, seq_empty. cbn [t_seq].
      apply okl_fold_push; [constructor|]. intros v Hv Hin. cbn in Hin. apply ascii_in_encode in Hin. subst v.
      apply filter_In in Hv as [Hv _]. apply class_values_in in Hv. congruence.
    Qed.

    Lemma okt_concat_loop hs : forall seq prev,
      Forall (fun h => okt (extract L h)) hs -> okt seq ->
      match prev with Some p => okt p | None => True end ->
      okt (concat_loop L (extract L) hs seq prev).
    Proof.
      induction hs as [|h t IH]; intros seq prev Hh Hs Hp; cbn [concat_loop].
      - destruct prev as [p|]; [now apply okt_choose|exact Hs].
      - inversion Hh; subst. destruct (seq_is_inexact (t_seq seq)).
        + destruct (seq_is_empty (t_seq seq)); [exact Hs|]. destruct (t_is_really_good seq); [exact Hs|].
          apply IH; [assumption| |].
          * apply okt_cross; [|assumption]. unfold okt. cbn. constructor; [intros []|constructor].
          * destruct prev as [p|]; [now apply okt_choose|exact Hs].
        + apply IH; [assumption|now apply okt_cross|exact Hp].
    Qed.

    Lemma okt_alt_loop hs : forall seq, Forall (fun h => okt (extract L h)) hs -> okt seq ->
      okt (alt_loop L (extract L) hs seq).
    Proof.
      induction hs as [|h t IH]; intros seq Hh Hs; cbn [alt_loop]; [exact Hs|]. inversion Hh; subst.
      destruct (negb (seq_is_finite (t_seq seq))); [exact Hs|]. apply IH; [assumption|now apply okt_union].
    Qed.

    Theorem extract_free : forall h, leaf_free b h = true -> okt (extract L h).
    Proof.
      intro h. induction h as [|lit|rs|rs|l|mn mx g h IH|h IH|hs IH|hs IH] using hir_ind2; intro Hf.
      - apply okt_empty_lit.
      - cbn [extract]. apply okt_enforce. unfold okt. cbn. constructor; [|constructor].
        cbn in Hf. apply negb_true_iff in Hf. intro Hin. 
        assert (existsb (N.eqb b) lit = true) by (apply existsb_exists; exists b; split; [exact Hin|apply N.eqb_refl]).
        congruence.
      - apply okt_class_bytes. cbn in Hf. now apply negb_true_iff in Hf.
      - apply okt_class_unicode. cbn in Hf. now apply negb_true_iff in Hf.
      - apply okt_empty_lit.
      - cbn [extract]. apply okt_repetition. now apply IH.
      - cbn [extract]. now apply IH.
      - change (extract L (HConcat hs)) with (concat_loop L (extract L) hs (tseq_singleton (lit_exact [])) None).
        apply okt_concat_loop; [|apply okt_empty_lit|exact I].
        cbn [leaf_free] in Hf. clear -IH Hf. induction IH as [|x xs Hx _ IHl]; [constructor|].
        apply andb_true_iff in Hf as [F1 F2]. constructor; auto.
      - change (extract L (HAlt hs)) with (alt_loop L (extract L) hs tseq_empty).
        apply okt_alt_loop; [|unfold okt; cbn; constructor].
        cbn [leaf_free] in Hf. clear -IH Hf. induction IH as [|x xs Hx _ IHl]; [constructor|].
        apply andb_true_iff in Hf as [F1 F2]. constructor; auto.
    Qed.
  End L.

  (* optimisation only drops, truncates and merges literals *)
  Lemma okl_minimize_go l : forall kept_rev, okl kept_rev -> okl l -> okl (minimize_go kept_rev l).
  Proof.
    induction l as [|x t IH]; intros kept_rev Hk Hl; cbn [minimize_go].
    - unfold okl in *. apply Forall_rev. exact Hk.
    - inversion Hl; subst. destruct (existsb _ kept_rev); apply IH; auto. constructor; assumption.
  Qed.

  Lemma oks_attempts l : forall s, oks s -> oks (attempts l s).
  Proof.
    induction l as [|[keep limit] t IH]; intros s H; cbn [attempts]; [exact H|].
    destruct s as [ls|]; [|exact I]. destruct (Nat.leb (length ls) limit); [exact H|].
    apply IH. apply (oks_keep_first keep) in H. cbn in *. apply okl_minimize_go; [constructor|exact H].
  Qed.

  Lemma oks_optimize s : oks s -> oks (optimize_for_prefix_by_preference s).
  Proof.
    intro H. unfold optimize_for_prefix_by_preference. destruct s as [l0|]; [|exact I].
    assert (H1 : oks (Some (minimize l0))) by (cbn; apply okl_minimize_go; [constructor|exact H]).
    set (s1 := Some (minimize l0)) in *. clearbody s1.
    assert (G : forall (af : seq_t + seq_t),
              match af with inl r => oks r | inr s2 => oks s2 end ->
              oks match af with
                  | inl r => r
                  | inr s2 =>
                    let exact : option seq_t := if seq_is_exact s2 then Some s2 else None in
                    let s3 := attempts [(5, 10); (4, 10); (3, 64); (2, 64); (1, 10)] s2 in
                    let s4 : seq_t := match s3 with
                                      | Some ls => if existsb lit_is_poisonous ls then None else s3
                                      | None => None end in
                    match exact with
                    | None => s4
                    | Some ex =>
                      if negb (seq_is_finite s4) then ex
                      else if match seq_min_literal_len s4 with Some n => Nat.leb n 2 | None => true end then ex
                      else if match seq_len s4 with Some n => Nat.ltb 64 n | None => true end then ex
                      else s4
                    end
                  end).
    { intros [r|s2] Haf; [exact Haf|]. cbv zeta.
      pose proof (oks_attempts [(5, 10); (4, 10); (3, 64); (2, 64); (1, 10)] s2 Haf) as H3.
      set (s3 := attempts _ s2) in *. clearbody s3.
      assert (H4 : oks (match s3 with Some ls => if existsb lit_is_poisonous ls then None else s3 | None => None end)).
      { destruct s3 as [ls|]; [|exact I]. destruct (existsb lit_is_poisonous ls); [exact I|exact H3]. }
      destruct (seq_is_exact s2); [|exact H4].
      repeat match goal with |- oks (if ?c then _ else _) => destruct c end; assumption. }
    destruct (seq_min_literal_len (Some l0)) as [[|n]|]; [exact I| |]; apply G.
    all: destruct (longest_common_prefix s1) as [fix_|]; [|exact H1].
    all: destruct (_ && _ && _ && _); [now apply oks_dedup, oks_keep_first|].
    all: destruct (_ || _); [now apply oks_dedup, oks_keep_first|exact H1].
  Qed.

  Theorem fast_line_literals_free : forall c acc h lits,
    leaf_free b h = true -> fast_line_literals (inner_literals c acc h) = Some lits ->
    forall l, In l lits -> ~ In b l.
  Proof.
    intros c acc h lits Hf. unfold fast_line_literals, inner_literals.
    destruct (c_line_terminator c); [|discriminate].
    destruct (acc && negb (contains_word_unicode h)); [discriminate|].
    destruct (is_alternation_literal h); [discriminate|].
    unfold extract_untagged.
    pose proof (extract_free extractor_new h Hf) as He. apply oks_optimize in He.
    destruct (t_is_good _); [|discriminate]. unfold t_map in *. cbn [t_seq] in *.
    destruct (optimize_for_prefix_by_preference (t_seq (extract extractor_new h))) as [[|l0 ls]|]; try discriminate.
    intro H; injection H as <-. intros l Hin.
    change (l_bytes l0 :: map l_bytes ls) with (map l_bytes (l0 :: ls)) in Hin.
    apply in_map_iff in Hin as (x & <- & Hx). cbn in He. unfold okl in He. rewrite Forall_forall in He. now apply He.
  Qed.
End Free.
