(* Proofs/FuelProofs.v — the fuelled loops of the searcher models never run out of fuel with the
   fuel the models give them: every loop step consumes at least one byte of the buffer.  Holds for
   every buffer (whole lines or not), every reply function, every matcher (the multi-line loop
   needs the find_at contract  at <= start <= end <= len). *)
From RG Require Import Base.Bytes Base.BytesFacts Model.Lines Model.SearcherCore Model.Glue Proofs.PrefixLaw Proofs.PrefixCore
  Proofs.MLInvExt.

Lemma find_index_lt {A} (f : A -> bool) l i : find_index f l = Some i -> i < length l.
Proof. intro H. apply find_index_some in H. tauto. Qed.

Lemma line_step_progress ltb buf p en s e :
  line_step ltb buf p en = Some (s, e) -> s = p /\ p < e /\ e <= en /\ e <= length buf.
Proof.
  unfold line_step. intro H.
  assert (Hl : length (firstn en buf) <= en /\ length (firstn en buf) <= length buf).
  { rewrite firstn_length. lia. }
  destruct (find_byte ltb (skipn p (firstn en buf))) as [i|] eqn:E.
  - injection H as <- <-. apply find_index_lt in E. rewrite skipn_length in E. lia.
  - destruct (Nat.ltb_spec p (length (firstn en buf))); [|discriminate]. injection H as <- <-. lia.
Qed.

(* the outcome is not FUEL and the scan position is unchanged (only set_pos moves it) *)
Definition keeps (n : nat) (o : outcome) : Prop :=
  match o with OK _ c | ERR c => pos c = n | FUEL => False end.
Definition nofuel (o : outcome) : Prop := o <> FUEL.

Lemma keeps_nofuel n o : keeps n o -> nofuel o.
Proof. destruct o; cbn; intros H E; try discriminate. exact H. Qed.

Lemma keeps_andthen n o k : keeps n o -> (forall c, pos c = n -> keeps n (k c)) -> keeps n (andthen o k).
Proof. intros Ho Hk. destruct o as [[|] c| |]; cbn in *; auto. Qed.

Section F.
  Variable cfg : config.
  Variable M : matcher.
  Variable r : nat -> reply.
  Variable binary : bool.

  Lemma keeps_emit n c e : pos c = n -> keeps n (emit r c e).
  Proof. intro H. unfold emit. destruct (r _); exact H. Qed.

  Lemma pos_count_lines c buf u : pos (count_lines cfg c buf u) = pos c.
  Proof. unfold count_lines. destruct (line_number c); [|reflexivity]. destruct (Nat.leb _ _); reflexivity. Qed.

  Lemma keeps_guard n b c buf rs re k : pos c = n -> (forall c, pos c = n -> keeps n (k c)) ->
    keeps n (binary_guard cfg r b c buf rs re k).
  Proof.
    intros Hp Hk. rewrite binary_guard_eq. destruct b; [|apply Hk; exact Hp].
    destruct (bin_off c).
    - destruct (quit_byte (c_binary cfg)); [exact Hp|apply Hk; exact Hp].
    - destruct (c_binary cfg) as [|x|x] eqn:Eb; [apply Hk; exact Hp| |];
        (destruct (find_byte x (sub buf rs re)) as [i|]; [|apply Hk; exact Hp]);
        (apply keeps_andthen; [apply keeps_emit; exact Hp|]; intros c1 H1;
         destruct (quit_byte _); [exact H1|apply Hk; exact H1]).
  Qed.

  Lemma keeps_break n c p : pos c = n -> keeps n (sink_break_context cfg r c p).
  Proof. intro H. unfold sink_break_context. destruct (_ || _ || _); [exact H|apply keeps_emit; exact H]. Qed.

  Lemma keeps_sink_matched n c buf rs re : pos c = n -> keeps n (sink_matched cfg r binary c buf rs re).
  Proof.
    intro H. unfold sink_matched. apply keeps_guard; [exact H|]. intros c1 H1.
    apply keeps_andthen; [apply keeps_break; exact H1|]. intros c2 H2.
    apply keeps_andthen; [apply keeps_emit; rewrite pos_count_lines; exact H2|]. intros c3 H3. exact H3.
  Qed.
  Lemma keeps_sink_before n c buf rs re : pos c = n -> keeps n (sink_before_context cfg r binary c buf rs re).
  Proof.
    intro H. unfold sink_before_context. apply keeps_guard; [exact H|]. intros c1 H1.
    apply keeps_andthen; [apply keeps_emit; rewrite pos_count_lines; exact H1|]. intros c3 H3. exact H3.
  Qed.
  Lemma keeps_sink_after n c buf rs re : pos c = n -> keeps n (sink_after_context cfg r binary c buf rs re).
  Proof.
    intro H. unfold sink_after_context. apply keeps_guard; [exact H|]. intros c1 H1.
    apply keeps_andthen; [apply keeps_emit; rewrite pos_count_lines; exact H1|]. intros c3 H3. exact H3.
  Qed.
  Lemma keeps_sink_other n c buf rs re : pos c = n -> keeps n (sink_other_context cfg r binary c buf rs re).
  Proof.
    intro H. unfold sink_other_context. apply keeps_guard; [exact H|]. intros c1 H1.
    apply keeps_andthen; [apply keeps_emit; rewrite pos_count_lines; exact H1|]. intros c3 H3. exact H3.
  Qed.

  Lemma keeps_before_loop n buf en : forall fuel p c, pos c = n -> en - p < fuel ->
    keeps n (before_loop cfg r binary fuel c buf p en).
  Proof.
    induction fuel as [|f IH]; intros p c Hp Hf; [lia|]. cbn [before_loop].
    destruct (line_step (ltb_ cfg) buf p en) as [[s e]|] eqn:E; [|exact Hp].
    apply line_step_progress in E as (-> & H1 & H2 & H3).
    apply keeps_andthen; [apply keeps_break; exact Hp|]. intros c1 Hc1.
    apply keeps_andthen; [apply keeps_sink_before; exact Hc1|]. intros c2 Hc2. apply IH; [exact Hc2|lia].
  Qed.

  Lemma keeps_after_loop n buf en : forall fuel p c, pos c = n -> en - p < fuel ->
    keeps n (after_loop cfg r binary fuel c buf p en).
  Proof.
    induction fuel as [|f IH]; intros p c Hp Hf; [lia|]. cbn [after_loop].
    destruct (line_step (ltb_ cfg) buf p en) as [[s e]|] eqn:E; [|exact Hp].
    apply line_step_progress in E as (-> & H1 & H2 & H3).
    apply keeps_andthen; [apply keeps_sink_after; exact Hp|]. intros c1 Hc1.
    destruct (Nat.eqb _ 0); [exact Hc1|]. apply IH; [exact Hc1|lia].
  Qed.

  Lemma keeps_other_loop n buf en : forall fuel p c, pos c = n -> en - p < fuel ->
    keeps n (other_loop cfg r binary fuel c buf p en).
  Proof.
    induction fuel as [|f IH]; intros p c Hp Hf; [lia|]. cbn [other_loop].
    destruct (line_step (ltb_ cfg) buf p en) as [[s e]|] eqn:E; [|exact Hp].
    apply line_step_progress in E as (-> & H1 & H2 & H3).
    apply keeps_andthen; [apply keeps_sink_other; exact Hp|]. intros c1 Hc1. apply IH; [exact Hc1|lia].
  Qed.

  Lemma keeps_matched_loop n buf en : forall fuel p c, pos c = n -> en - p < fuel ->
    keeps n (matched_loop cfg r binary fuel c buf p en).
  Proof.
    induction fuel as [|f IH]; intros p c Hp Hf; [lia|]. cbn [matched_loop].
    destruct (line_step (ltb_ cfg) buf p en) as [[s e]|] eqn:E; [|exact Hp].
    apply line_step_progress in E as (-> & H1 & H2 & H3).
    apply keeps_andthen; [apply keeps_sink_matched; exact Hp|]. intros c1 Hc1. apply IH; [exact Hc1|lia].
  Qed.

  (* the context functions give their loops S (length buf) *)
  Lemma keeps_before_context n c buf upto : pos c = n -> upto <= length buf ->
    keeps n (before_context_by_line cfg r binary c buf upto).
  Proof.
    intros Hp H. unfold before_context_by_line. destruct (Nat.eqb _ 0); [exact Hp|].
    destruct (Nat.leb _ _); [exact Hp|]. apply keeps_before_loop; [exact Hp|lia].
  Qed.
  Lemma keeps_after_context n c buf upto : pos c = n -> upto <= length buf ->
    keeps n (after_context_by_line cfg r binary c buf upto).
  Proof.
    intros Hp H. unfold after_context_by_line. destruct (Nat.eqb _ 0); [exact Hp|]. apply keeps_after_loop; [exact Hp|lia].
  Qed.
  Lemma keeps_other_context n c buf upto : pos c = n -> upto <= length buf ->
    keeps n (other_context_by_line cfg r binary c buf upto).
  Proof. intros Hp H. unfold other_context_by_line. apply keeps_other_loop; [exact Hp|lia]. Qed.

  Lemma nofuel_slow_loop buf : forall fuel p c, length buf - p < fuel -> nofuel (slow_loop cfg M r binary fuel c buf p).
  Proof.
    induction fuel as [|f IH]; intros p c Hf; [lia|]. cbn [slow_loop].
    destruct (line_step (ltb_ cfg) buf p (length buf)) as [[s e]|] eqn:E; [|discriminate].
    apply line_step_progress in E as (-> & H1 & H2 & H3).
    assert (Hafter : forall c0, nofuel (if c_stop_on_nonmatch cfg &&
                                         negb (negb (Bool.eqb (m_is_match M (without_terminator (c_lt cfg) (sub buf p e))) (c_invert cfg)))
                                         && has_matched c0 then OK false c0 else slow_loop cfg M r binary f c0 buf e)).
    { intro c0. destruct (_ && _ && _); [discriminate|]. apply IH. lia. }
    assert (Hand : forall o k, (exists n, keeps n o) -> (forall c, nofuel (k c)) -> nofuel (andthen o k)).
    { intros o k [n Ho] Hk. destruct o as [[|] c'| |]; cbn in *; auto; try discriminate. contradiction. }
    destruct (negb (Bool.eqb _ _)).
    - apply Hand; [eexists; apply keeps_before_context; [reflexivity|lia]|]. intro c1.
      apply Hand; [eexists; apply keeps_sink_matched; reflexivity|]. exact Hafter.
    - destruct (Nat.leb 1 _).
      + apply Hand; [eexists; apply keeps_sink_after; reflexivity|]. exact Hafter.
      + destruct (c_passthru cfg); [apply Hand; [eexists; apply keeps_sink_other; reflexivity|exact Hafter]|apply Hafter].
  Qed.

  Lemma nofuel_match_by_line_slow c buf : nofuel (match_by_line_slow cfg M r binary c buf).
  Proof. unfold match_by_line_slow. apply nofuel_slow_loop. lia. Qed.

  (* find_by_line_fast: every iteration moves the position forward *)
  Lemma locate_end_ge ltb_ buf rs re : re <= length buf -> re <= snd (locate ltb_ buf rs re).
  Proof.
    intro H. unfold locate. cbn [snd].
    destruct (_ && _); [lia|]. destruct (find_byte ltb_ (skipn re buf)); lia.
  Qed.

  Lemma locate_end_le ltb_ buf rs re : re <= length buf -> snd (locate ltb_ buf rs re) <= length buf.
  Proof.
    intro H. unfold locate. cbn [snd].
    destruct (_ && _); [lia|]. destruct (find_byte ltb_ (skipn re buf)) as [i|] eqn:E; [|lia].
    apply find_index_lt in E. rewrite skipn_length in E. lia.
  Qed.

  Lemma rfind_lt ltb_ l i : rfind_byte ltb_ l = Some i -> i < length l.
  Proof.
    revert i; induction l as [|x l IH]; intros i H; [discriminate|].
    cbn [rfind_byte] in H. destruct (rfind_byte ltb_ l) as [j|].
    - injection H as <-. specialize (IH j eq_refl). cbn. lia.
    - destruct (x =? ltb_)%N; [injection H as <-; cbn; lia|discriminate].
  Qed.

  (* the last byte is the terminator: rfind finds it *)
  Lemma rfind_last ltb_ l : l <> [] -> nth_error l (length l - 1) = Some ltb_ ->
    rfind_byte ltb_ l = Some (length l - 1).
  Proof.
    induction l as [|x l IH]; intros Hne H; [congruence|].
    cbn [rfind_byte]. destruct l as [|y l'].
    - cbn in *. injection H as ->. now rewrite N.eqb_refl.
    - rewrite IH; [cbn; f_equal; lia|discriminate|].
      cbn [length] in *. replace (S (S (length l')) - 1) with (S (length l')) in H by lia.
      cbn [nth_error] in H. replace (S (length l') - 1) with (length l') by lia. exact H.
  Qed.

  Lemma locate_start_le ltb_ buf rs re : rs <= length buf -> fst (locate ltb_ buf rs re) <= rs.
  Proof.
    intro H. unfold locate. cbn [fst].
    destruct (rfind_byte ltb_ (firstn rs buf)) as [i|] eqn:E; [|lia].
    apply rfind_lt in E. rewrite firstn_length in E. lia.
  Qed.

  (* searching from p < len, a match found at a >= p: the end of its line range is beyond p *)
  Lemma locate_progress ltb_ buf p a b : p < length buf -> p <= a -> a <= b -> b <= length buf ->
    p < snd (locate ltb_ buf a b).
  Proof.
    intros Hp H1 H2 H3.
    pose proof (locate_end_ge ltb_ buf a b H3) as Hge.
    destruct (Nat.eq_dec b p) as [Eb|Nb]; [|lia].
    assert (a = p) by lia. subst a b.
    unfold locate in *. cbn [snd] in *.
    destruct (Nat.ltb_spec (match rfind_byte ltb_ (firstn p buf) with Some i => i + 1 | None => 0 end) p) as [Hlt|Hge'].
    - (* p is past the line start: then buf[p-1] is not the terminator *)
      destruct (nth_error buf (p - 1)) as [x|] eqn:En; cbn [andb].
      + destruct (N.eqb_spec x ltb_) as [->|Hx].
        * exfalso.
          assert (Hl : firstn p buf <> []) by (destruct buf; [cbn in Hp; lia|destruct p; [lia|discriminate]]).
          assert (Hlen : length (firstn p buf) = p) by (rewrite firstn_length; lia).
          rewrite (rfind_last ltb_ (firstn p buf) Hl) in Hlt.
          -- rewrite Hlen in Hlt. lia.
          -- rewrite Hlen. rewrite <- En. clear -Hp Hlt.
             assert (p - 1 < p) by lia.
             revert H. generalize (p - 1) as k. intros k Hk.
             rewrite <- (firstn_skipn p buf) at 2. rewrite nth_error_app1 by (rewrite firstn_length; lia). reflexivity.
        * destruct (find_byte ltb_ (skipn p buf)); lia.
      + destruct (find_byte ltb_ (skipn p buf)); lia.
    - cbn [andb]. destruct (find_byte ltb_ (skipn p buf)); lia.
  Qed.
End F.

(* ------------------------------------------------------------------ MultiLine::run terminates *)
Section ML.
  Variable cfg : config.
  Variable M : matcher.
  Variable r : nat -> reply.

  (* the grep-matcher contract of find_at *)
  Definition find_at_ok : Prop :=
    forall s p a b, m_find_at M s p = Some (a, b) -> p <= a /\ a <= b /\ b <= length s.

  Hypothesis Hfa : find_at_ok.

  Lemma keeps_ml_sink_context n c s rs : pos c = n -> rs <= length s -> keeps n (ml_sink_context cfg r c s rs).
  Proof.
    intros Hp H. unfold ml_sink_context. destruct (c_passthru cfg).
    - apply keeps_other_context; assumption.
    - apply keeps_andthen; [apply keeps_after_context; assumption|]. intros c1 H1. apply keeps_before_context; assumption.
  Qed.

  Lemma keeps_ml_sink_matched n c s rs re : pos c = n -> keeps n (ml_sink_matched cfg r c s rs re).
  Proof. intro Hp. unfold ml_sink_matched. destruct (Nat.leb re rs); [exact Hp|apply keeps_sink_matched; exact Hp]. Qed.

  (* one MultiLine::sink call: not FUEL, and the position moves strictly forward or reaches the end *)
  Definition ml_step_ok (s : bytes) (p : nat) (o : ml_outcome) : Prop :=
    match o with
    | MOK _ m => p < pos (ml_core m) \/ length s <= pos (ml_core m)
    | MERR _ => True
    | MFUEL => False
    end.

  Lemma ml_lift_ok s p n o last k : keeps n o -> (p < n \/ length s <= n) ->
    (forall c, pos c = n -> ml_step_ok s p (k c)) -> ml_step_ok s p (ml_lift o last k).
  Proof.
    intros Ho Hn Hk. destruct o as [[|] c| |]; cbn in *; auto. rewrite Ho. exact Hn.
  Qed.

  Lemma advance_progress c s p a b : pos c = p -> p <= a -> a <= b -> b <= length s -> p < length s ->
    let c' := ml_advance c s a b in p < pos c' \/ length s <= pos c'.
  Proof.
    intros Hp H1 H2 H3 H4. unfold ml_advance. cbn [pos set_pos].
    destruct (Nat.leb_spec b a); cbn [andb].
    - destruct (Nat.ltb_spec b (length s)); cbn [pos set_pos]; lia.
    - cbn [pos set_pos]. lia.
  Qed.

  Definition ml_inv (s : bytes) (m : ml) : Prop :=
    match ml_last m with Some (pls, _) => pls <= length s | None => True end.

  Definition ml_step_ok' (s : bytes) (p : nat) (o : ml_outcome) : Prop :=
    match o with
    | MOK _ m => (p < pos (ml_core m) \/ length s <= pos (ml_core m)) /\ ml_inv s m
    | MERR _ => True
    | MFUEL => False
    end.

  Lemma ml_lift_ok' s p n o last k : keeps n o -> (p < n \/ length s <= n) ->
    match last with Some (pls, _) => pls <= length s | None => True end ->
    (forall c, pos c = n -> ml_step_ok' s p (k c)) -> ml_step_ok' s p (ml_lift o last k).
  Proof.
    intros Ho Hn Hl Hk. destruct o as [[|] c| |]; cbn in *; auto. rewrite Ho. split; [exact Hn|exact Hl].
  Qed.

  (* the `while let Some(line)` loop of sink_matched_inverted *)
  Lemma inv_loop_ok s p n (last : option (nat * nat)) en :
    (p < n \/ length s <= n) -> match last with Some (pls, _) => pls <= length s | None => True end ->
    forall fuel q c3, pos c3 = n -> en - q < fuel ->
      ml_step_ok' s p (ml_inv_loop cfg r last fuel c3 s q en).
  Proof.
    intros Hn Hl. induction fuel as [|f IH]; intros q c3 Hc3 Hf; [lia|]. cbn [ml_inv_loop].
    destruct (line_step (lt_byte (c_lt cfg)) s q en) as [[a0 b0]|] eqn:E.
    - apply line_step_progress in E as (-> & E1 & E2 & E3).
      apply (ml_lift_ok' s p n); [apply keeps_ml_sink_matched; exact Hc3|exact Hn|exact Hl|].
      intros c4 Hc4. apply IH; [exact Hc4|lia].
    - cbn [ml_step_ok' ml_core ml_inv ml_last]. rewrite Hc3. split; [exact Hn|exact Hl].
  Qed.

  (* the inner loop of sink_matched_inverted: every round moves the position forward *)
  Lemma ext_pos_ok s : forall f p le, le <= length s -> length s - p < f ->
    exists q le', ml_ext_pos cfg M s f p le = Some (q, le') /\ le <= le' /\ le' <= length s.
  Proof.
    induction f as [|f IH]; intros p le Hle Hf; [lia|]. cbn [ml_ext_pos].
    destruct (Nat.ltb_spec p le) as [Hp|Hp]; [|exists p, le; auto].
    destruct (m_find_at M s p) as [[a b]|] eqn:Ef; [|exists p, le; auto].
    destruct (Hfa s p a b Ef) as (H1 & H2 & H3).
    destruct (Nat.ltb_spec a le) as [Ha|Ha]; [|exists p, le; auto].
    pose proof (locate_end_le (lt_byte (c_lt cfg)) s a b H3) as Hnle.
    destruct (locate (lt_byte (c_lt cfg)) s a b) as [nls nle]. cbn [snd] in Hnle.
    assert (Hq : p < adv_pos s a b \/ length s <= adv_pos s a b).
    { unfold adv_pos. destruct (Nat.leb_spec b a); destruct (Nat.ltb_spec b (length s)); cbn [andb]; lia. }
    destruct (IH (adv_pos s a b) (if Nat.ltb le nle then nle else le)) as (q & le' & E & L1 & L2).
    - destruct (Nat.ltb_spec le nle); lia.
    - lia.
    - exists q, le'. split; [exact E|]. destruct (Nat.ltb_spec le nle); lia.
  Qed.

  Lemma ml_sink_ok (m : ml) (s : bytes) :
    pos (ml_core m) < length s -> ml_inv s m -> ml_step_ok' s (pos (ml_core m)) (ml_sink cfg M r m s).
  Proof.
    intros Hlt Hinv. unfold ml_sink. remember (ml_core m) as c eqn:Ec. remember (pos c) as p eqn:Ep.
    unfold ml_inv in Hinv.
    destruct (c_invert cfg).
    - (* inverted *)
      unfold ml_sink_matched_inverted. cbn zeta. rewrite <- ?Ec. unfold ml_find. rewrite <- ?Ep.
      destruct (m_find_at M s p) as [[a b]|] eqn:Ef.
      + destruct (Hfa s p a b Ef) as (H1 & H2 & H3).
        pose proof (locate_progress (lt_byte (c_lt cfg)) s p a b Hlt H1 H2 H3) as Hprog.
        pose proof (locate_end_le (lt_byte (c_lt cfg)) s a b H3) as Hle.
        pose proof (locate_start_le (lt_byte (c_lt cfg)) s a b ltac:(lia)) as Hls.
        destruct (locate (lt_byte (c_lt cfg)) s a b) as [ls le]. cbn [fst snd] in *.
        rewrite ml_inv_extend_eq.
        destruct (ext_pos_ok s (S (length s)) (pos (ml_advance c s a b)) le Hle ltac:(lia)) as (q & le' & Eext & L1 & L2).
        rewrite Eext.
        remember (set_pos (set_pos (ml_advance c s a b) q) le') as c1 eqn:Ec1.
        assert (Hadv : p < pos c1 \/ length s <= pos c1) by (rewrite Ec1; cbn [pos set_pos]; lia).
        destruct (Nat.leb ls p); [cbn [ml_step_ok' ml_core ml_inv ml_last]; split; [exact Hadv|exact Hinv]|].
        apply (ml_lift_ok' s p (pos c1)); [apply keeps_ml_sink_context; [reflexivity|lia]|exact Hadv|exact Hinv|].
        intros c2 Hc2.
        apply (inv_loop_ok s p (pos c1) (ml_last m) ls Hadv Hinv); [exact Hc2|lia].
      + destruct (Nat.leb (length s) p); [cbn [ml_step_ok' ml_core ml_inv ml_last pos set_pos]; split; [lia|exact Hinv]|].
        apply (ml_lift_ok' s p (length s)); [apply keeps_ml_sink_context; [reflexivity|lia]|lia|exact Hinv|].
        intros c2 Hc2.
        apply (inv_loop_ok s p (length s) (ml_last m) (length s) ltac:(lia) Hinv); [exact Hc2|lia].
    - (* not inverted *)
      cbn zeta. unfold ml_find. rewrite <- ?Ec, <- ?Ep.
      destruct (m_find_at M s p) as [[a b]|] eqn:Ef.
      + destruct (Hfa s p a b Ef) as (H1 & H2 & H3).
        pose proof (advance_progress c s p a b (eq_sym Ep) H1 H2 H3 Hlt) as Hadv. cbn zeta in Hadv.
        remember (ml_advance c s a b) as c1 eqn:Ec1.
        pose proof (locate_start_le (lt_byte (c_lt cfg)) s a b ltac:(lia)) as Hls.
        destruct (locate (lt_byte (c_lt cfg)) s a b) as [ls le]. cbn [fst] in Hls.
        destruct (Nat.leb le ls); [cbn [ml_step_ok' ml_core ml_inv ml_last]; split; [exact Hadv|exact Hinv]|].
        destruct (ml_last m) as [[pls ple]|].
        * destruct (Nat.leb ls ple).
          -- cbn [ml_step_ok' ml_core ml_inv ml_last]. split; [exact Hadv|exact Hinv].
          -- apply (ml_lift_ok' s p (pos c1)); [apply keeps_ml_sink_context; [reflexivity|exact Hinv]|exact Hadv|lia|].
             intros c2 Hc2.
             pose proof (keeps_ml_sink_matched (pos c1) c2 s pls ple Hc2) as Hk.
             destruct (ml_sink_matched cfg r c2 s pls ple) as [b0 c3|c3|]; cbn in Hk |- *;
               [rewrite Hk; split; [exact Hadv|lia]|exact I|contradiction].
        * cbn [ml_step_ok' ml_core ml_inv ml_last]. split; [exact Hadv|lia].
      + cbn [ml_step_ok' ml_core ml_inv ml_last pos set_pos]. split; [lia|exact Hinv].
  Qed.

  Lemma ml_loop_nofuel s : forall fuel m, length s - pos (ml_core m) < fuel -> ml_inv s m ->
    match ml_loop cfg M r fuel m s with
    | MFUEL => False
    | MOK _ m' => ml_inv s m'
    | MERR _ => True
    end.
  Proof.
    induction fuel as [|f IH]; intros m Hf Hinv; [lia|]. cbn [ml_loop].
    destruct (Nat.leb_spec (length s) (pos (ml_core m))) as [Hge|Hlt]; [exact Hinv|].
    pose proof (ml_sink_ok m s Hlt Hinv) as Hok.
    destruct (ml_sink cfg M r m s) as [[|] m'|c|]; cbn in Hok; [|tauto|exact I|exact Hok].
    destruct Hok as [Hadv Hinv'].
    destruct (Nat.leb_spec (length s) (pos (ml_core m'))) as [Hge'|Hlt'].
    - destruct f as [|f']; [lia|]. cbn [ml_loop].
      destruct (Nat.leb_spec (length s) (pos (ml_core m'))); [exact Hinv'|lia].
    - apply IH; [lia|exact Hinv'].
  Qed.

  (* MultiLine::run terminates (never runs out of fuel) for every input, configuration, reply
     function and every matcher obeying the find_at contract *)
  Theorem multi_line_run_terminates_proof s : multi_line_run cfg M r s <> RunFuel.
  Proof.
    unfold multi_line_run.
    assert (Hfin : forall c n, finish r c n <> RunFuel).
    { intros c n. unfold finish. destruct (r _); discriminate. }
    pose proof (keeps_emit r 0 (core_new cfg) EBegin eq_refl) as Hb.
    destruct (emit r (core_new cfg) EBegin) as [[|] c| |]; cbn in Hb; [|apply Hfin|discriminate|contradiction].
    pose proof (keeps_guard cfg r 0 true c s 0 (Nat.min (length s) default_buffer_capacity) (fun c => OK true c) Hb
                  (fun c H => H)) as Hd.
    unfold binary_guard in Hd.
    destruct (detect_binary cfg r c s 0 (Nat.min (length s) default_buffer_capacity)) as [[|] c1| |];
      cbn in Hd; [apply Hfin| |discriminate|contradiction].
    pose proof (ml_loop_nofuel s (S (S (length s))) {| ml_core := c1; ml_last := None |} ltac:(cbn; lia) I) as Hl.
    destruct (ml_loop cfg M r (S (S (length s))) {| ml_core := c1; ml_last := None |} s) as [[|] m|c2|];
      [|apply Hfin|discriminate|contradiction].
    unfold ml_inv in Hl.
    assert (Hflush : exists n, keeps n (match ml_last m with
                        | None => OK true (ml_core m)
                        | Some (pls, ple) => andthen (ml_sink_context cfg r (ml_core m) s pls)
                                               (fun c => ml_sink_matched cfg r c s pls ple)
                        end)).
    { exists (pos (ml_core m)). destruct (ml_last m) as [[pls ple]|]; [|reflexivity].
      apply keeps_andthen; [apply keeps_ml_sink_context; [reflexivity|exact Hl]|].
      intros c3 H3. apply keeps_ml_sink_matched. exact H3. }
    destruct Hflush as [n Hk].
    destruct (match ml_last m with None => _ | Some _ => _ end) as [[|] c3|c3|]; cbn in Hk;
      [|apply Hfin|discriminate|contradiction].
    assert (Htail : exists n', keeps n' (if c_passthru cfg then other_context_by_line cfg r true c3 s (length s)
                                         else after_context_by_line cfg r true c3 s (length s))).
    { exists (pos c3). destruct (c_passthru cfg); [apply keeps_other_context|apply keeps_after_context]; auto. }
    destruct Htail as [n' Hk'].
    destruct (if c_passthru cfg then _ else _) as [b4 c4|c4|]; cbn in Hk'; [apply Hfin|discriminate|contradiction].
  Qed.
End ML.
