(* Proofs/ReplaceProofs.v — replace_all (model of util.rs) = assemble over the successive matches *)
From RG Require Import Base.Bytes Base.BytesFacts Model.Interpolate Model.MatchIter Model.Replace
  Spec.TemplateSpec Spec.ReplaceSpec Proofs.InterpolateProofs.

Section Fusion.
  Context {C St : Type}.
  Variable at_ : nat -> option C.
  Variable span : C -> nat * nat.
  Variable hlen : nat.
  Variable f : C -> St -> St * bool.

  Fixpoint fold_until (l : list C) (st : St) : St :=
    match l with
    | [] => st
    | c :: l' => let (st', go) := f c st in if go then fold_until l' st' else st'
    end.

  Lemma iter_loop_fold : forall fuel le lm st l,
    matches_from at_ span hlen fuel le lm = Some l ->
    iter_loop at_ span hlen f fuel le lm st = Some (fold_until l st).
  Proof.
    induction fuel as [|fuel IH]; intros le lm st l H; [discriminate|].
    cbn [matches_from iter_loop] in *.
    destruct (Nat.ltb hlen le); [injection H as <-; reflexivity|].
    destruct (at_ le) as [c|]; [|injection H as <-; reflexivity].
    destruct (span c) as [s e].
    destruct (Nat.eqb s e).
    - destruct (opt_nat_eqb lm e); [now apply IH|].
      destruct (matches_from at_ span hlen fuel (e + 1) (Some e)) as [l'|] eqn:E; [|discriminate].
      injection H as <-. cbn [fold_until]. destruct (f c st) as [st' go].
      destruct go; [now apply IH|reflexivity].
    - destruct (matches_from at_ span hlen fuel e (Some e)) as [l'|] eqn:E; [|discriminate].
      injection H as <-. cbn [fold_until]. destruct (f c st) as [st' go].
      destruct go; [now apply IH|reflexivity].
  Qed.

  (* termination: with the matcher contract the default fuel is enough *)
  Lemma matches_from_total : matcher_ok at_ span hlen ->
    forall fuel le lm, hlen + 2 - le < fuel -> exists l, matches_from at_ span hlen fuel le lm = Some l.
  Proof.
    intro Hok. induction fuel as [|fuel IH]; intros le lm Hf; [lia|].
    cbn [matches_from].
    destruct (Nat.ltb_spec hlen le) as [Hlt|Hge]; [eauto|].
    destruct (at_ le) as [c|] eqn:Ea; [|eauto].
    destruct (Hok le c Ea) as (H1 & H2 & H3).
    destruct (span c) as [s e]. cbn [fst snd] in *.
    destruct (Nat.eqb_spec s e) as [->|Hne].
    - destruct (opt_nat_eqb lm e).
      + apply IH. lia.
      + destruct (IH (e + 1) (Some e)) as [l Hl]; [lia|]. rewrite Hl. cbn. eauto.
    - destruct (IH e (Some e)) as [l Hl]; [lia|]. rewrite Hl. cbn. eauto.
  Qed.

  Lemma matches_from_in : forall fuel le lm l c,
    matches_from at_ span hlen fuel le lm = Some l -> In c l -> exists p, at_ p = Some c.
  Proof.
    induction fuel as [|fuel IH]; intros le lm l c H Hin; [discriminate|].
    cbn [matches_from] in H.
    destruct (Nat.ltb hlen le); [injection H as <-; destruct Hin|].
    destruct (at_ le) as [c0|] eqn:Ea; [|injection H as <-; destruct Hin].
    destruct (span c0) as [s e].
    destruct (Nat.eqb s e).
    - destruct (opt_nat_eqb lm e); [eapply IH; eauto|].
      destruct (matches_from at_ span hlen fuel (e + 1) (Some e)) as [l'|] eqn:E; [|discriminate].
      injection H as <-. destruct Hin as [<-|Hin]; [eauto|eapply IH; eauto].
    - destruct (matches_from at_ span hlen fuel e (Some e)) as [l'|] eqn:E; [|discriminate].
      injection H as <-. destruct Hin as [<-|Hin]; [eauto|eapply IH; eauto].
  Qed.
End Fusion.

Section R.
  Variable captures_at : bytes -> nat -> option caps.
  Variable n2i : bytes -> option N.

  Lemma replace_cb_eq hay re template c dst last ms :
    replace_cb n2i hay re template c {| r_dst := dst; r_last := last; r_matches := ms; r_fail := false |}
    = let (s, e) := cap_span c in
      if Nat.leb re s then ({| r_dst := dst; r_last := last; r_matches := ms; r_fail := false |}, false)
      else ({| r_dst := (dst ++ sub hay last s) ++ expansion n2i hay template c; r_last := e;
               r_matches := ms ++ [(length (dst ++ sub hay last s),
                                    length ((dst ++ sub hay last s) ++ expansion n2i hay template c))];
               r_fail := false |}, true).
  Proof.
    unfold replace_cb, expansion. cbn [r_dst r_last r_matches r_fail].
    destruct (cap_span c) as [s e]. destruct (Nat.leb re s); [reflexivity|].
    now rewrite interpolate_eq_spec_proof.
  Qed.

  Lemma fold_replace_spec hay re template : forall l dst last ms,
    let st := fold_until (replace_cb n2i hay re template) l
                {| r_dst := dst; r_last := last; r_matches := ms; r_fail := false |} in
    r_fail st = false /\
    r_dst st ++ sub hay (r_last st) (Nat.min (length hay) re)
      = dst ++ assemble n2i hay template re last l /\
    r_matches st = ms ++ assemble_spans n2i hay template re (length dst) last l.
  Proof.
    induction l as [|c l IH]; intros dst last ms; cbn [fold_until assemble assemble_spans].
    - cbn. rewrite app_nil_r. auto.
    - rewrite replace_cb_eq. destruct (cap_span c) as [s e].
      destruct (Nat.leb re s).
      + cbn. rewrite app_nil_r. auto.
      + cbv zeta in IH |- *.
        specialize (IH ((dst ++ sub hay last s) ++ expansion n2i hay template c) e
                       (ms ++ [(length (dst ++ sub hay last s),
                                length ((dst ++ sub hay last s) ++ expansion n2i hay template c))])).
        destruct IH as (IH1 & IH2 & IH3).
        split; [exact IH1|]. split.
        * rewrite IH2. now rewrite <- !app_assoc.
        * rewrite IH3. rewrite <- app_assoc. cbn [app]. rewrite !app_length. reflexivity.
  Qed.

  (* replace_all = assemble over the successive matches of the (content-truncated) haystack *)
  Theorem replace_all_eq_spec_proof lt buf rs re template l :
    let hay := firstn (trim_line_terminator lt buf 0 re) buf in
    all_matches (captures_at hay) cap_span (length hay) rs = Some l ->
    replace_all captures_at n2i lt buf rs re template
      = Some (assemble n2i hay template re rs l, assemble_spans n2i hay template re 0 rs l).
  Proof.
    intros hay Hl. unfold replace_all. fold hay.
    unfold iter_at. unfold all_matches in Hl.
    rewrite (iter_loop_fold _ _ _ _ _ _ _ _ l Hl).
    destruct (fold_replace_spec hay re template l [] rs []) as (H1 & H2 & H3).
    cbv zeta in H1, H2, H3. rewrite H1. rewrite H2, H3. reflexivity.
  Qed.

  (* a line that still has its terminator loses no match: the cut-off never fires *)
  Lemma assemble_no_cut hay template re : length hay < re ->
    forall l last, (forall c, In c l -> fst (cap_span c) <= length hay) ->
    assemble n2i hay template re last l = assemble_all n2i hay template last l.
  Proof.
    intros Hre. induction l as [|c l IH]; intros last Hall; cbn [assemble assemble_all].
    - now rewrite Nat.min_l by lia.
    - pose proof (Hall c (or_introl eq_refl)) as Hc. destruct (cap_span c) as [s e]. cbn [fst] in Hc.
      destruct (Nat.leb_spec re s); [lia|]. rewrite IH; [reflexivity|]. intros c' Hin. apply Hall. now right.
  Qed.

  Theorem replace_all_terminated_line_proof lt buf rs re template l :
    let hay := firstn (trim_line_terminator lt buf 0 re) buf in
    length hay < re ->
    matcher_ok (captures_at hay) cap_span (length hay) ->
    all_matches (captures_at hay) cap_span (length hay) rs = Some l ->
    option_map fst (replace_all captures_at n2i lt buf rs re template)
      = Some (assemble_all n2i hay template rs l).
  Proof.
    intros hay Hlt Hok Hl. unfold hay in *. erewrite replace_all_eq_spec_proof by exact Hl.
    cbn [option_map fst]. f_equal. apply assemble_no_cut; [exact Hlt|].
    intros c Hin. destruct (matches_from_in _ _ _ _ _ _ _ c Hl Hin) as [p Hp].
    destruct (Hok p c Hp) as (H1 & H2 & H3). lia.
  Qed.

  Theorem replace_all_total lt buf rs re template :
    let hay := firstn (trim_line_terminator lt buf 0 re) buf in
    matcher_ok (captures_at hay) cap_span (length hay) ->
    exists out, replace_all captures_at n2i lt buf rs re template = Some out.
  Proof.
    intros hay Hok.
    destruct (matches_from_total (captures_at hay) cap_span (length hay) Hok
                (length hay + 2 - rs + 1) rs None) as [l Hl]; [lia|].
    eexists. apply replace_all_eq_spec_proof. exact Hl.
  Qed.
End R.
