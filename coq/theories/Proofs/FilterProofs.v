(* Proofs/FilterProofs.v — the model of Ignore::matched_dir_entry computes the documented fold. *)
From RG Require Import Base.Bytes Base.BytesFacts Model.IgnoreDir Spec.FilterSpec.

(* ---------------------------------------------------------------- small facts *)
Lemma m_or_none_l m : m_or MNone m = m.
Proof. reflexivity. Qed.
Lemma m_or_none_r m : m_or m MNone = m.
Proof. destruct m; reflexivity. Qed.
Lemma m_or_assoc a b c : m_or (m_or a b) c = m_or a (m_or b c).
Proof. destruct a, b, c; reflexivity. Qed.
Lemma m_or_if m x : (if m_is_none m then x else m) = m_or m x.
Proof. reflexivity. Qed.

Lemma nearest_cons m l : nearest (m :: l) = m_or m (nearest l).
Proof. destruct m; reflexivity. Qed.
Lemma nearest_app l1 l2 : nearest (l1 ++ l2) = m_or (nearest l1) (nearest l2).
Proof.
  induction l1 as [|m r IH]; [reflexivity|].
  cbn [app]. rewrite !nearest_cons, IH, m_or_assoc. reflexivity.
Qed.
Lemma nearest_all_none l : (forall m, In m l -> m = MNone) -> nearest l = MNone.
Proof.
  induction l as [|m r IH]; intro H; [reflexivity|].
  rewrite nearest_cons, (H m (or_introl eq_refl)), IH; [reflexivity|].
  intros x Hx. apply H. right. exact Hx.
Qed.

Lemma upto_repo_incl l : incl (upto_repo l) l.
Proof.
  induction l as [|d r IH]; cbn [upto_repo]; [apply incl_refl|].
  destruct (v_git d).
  - intros x [<-|[]]. left. reflexivity.
  - intros x [<-|Hx]; [left; reflexivity| right; apply IH; exact Hx].
Qed.

Lemma upto_repo_app l1 l2 :
  upto_repo (l1 ++ l2) = if existsb v_git l1 then upto_repo l1 else l1 ++ upto_repo l2.
Proof.
  induction l1 as [|d r IH]; [reflexivity|].
  cbn [app upto_repo existsb]. destruct (v_git d); cbn [orb]; [reflexivity|].
  rewrite IH. destruct (existsb v_git r); reflexivity.
Qed.

Lemma upto_repo_nogit l : existsb v_git l = false -> upto_repo l = l.
Proof.
  induction l as [|d r IH]; [reflexivity|]. cbn [existsb upto_repo].
  destruct (v_git d); cbn [orb]; [discriminate|]. intro H. rewrite IH; [reflexivity|exact H].
Qed.

(* directories that say nothing about a source do not change what the nearest one says, however
   the repository cut falls *)
Lemma nearest_upto_app_silent (f : dview -> mtch) l1 l2 :
  (forall d, In d l2 -> f d = MNone) ->
  nearest (map f (upto_repo (l1 ++ l2))) = nearest (map f (upto_repo l1)).
Proof.
  intro H. rewrite upto_repo_app. destruct (existsb v_git l1) eqn:E; [reflexivity|].
  rewrite (upto_repo_nogit l1 E), map_app, nearest_app.
  rewrite (nearest_all_none (map f (upto_repo l2))), m_or_none_r; [reflexivity|].
  intros m Hm. apply in_map_iff in Hm as (d & <- & Hd). apply H. apply (upto_repo_incl l2). exact Hd.
Qed.

Lemma nearest_app_silent (f : dview -> mtch) l1 l2 :
  (forall d, In d l2 -> f d = MNone) -> nearest (map f (l1 ++ l2)) = nearest (map f l1).
Proof.
  intro H. rewrite map_app, nearest_app, (nearest_all_none (map f l2)), m_or_none_r; [reflexivity|].
  intros m Hm. apply in_map_iff in Hm as (d & <- & Hd). apply H. exact Hd.
Qed.

(* ---------------------------------------------------------------- the scan loops *)
Lemma scan_fold ag p d a nodes : forall mc mi mg me saw,
  fold_left (scan_step ag p d) nodes (mc, mi, mg, me, saw) =
  (m_or mc (nearest (map v_custom (map (nview p d a) nodes))),
   m_or mi (nearest (map v_ignore (map (nview p d a) nodes))),
   (if ag && negb saw then m_or mg (nearest (map v_gi (upto_repo (map (nview p d a) nodes)))) else mg),
   (if ag && negb saw then m_or me (nearest (map v_excl (upto_repo (map (nview p d a) nodes)))) else me),
   saw || existsb v_git (map (nview p d a) nodes)).
Proof.
  induction nodes as [|n r IH]; intros mc mi mg me saw.
  - cbn [fold_left map nearest upto_repo existsb]. rewrite !m_or_none_r, orb_false_r.
    destruct (ag && negb saw); reflexivity.
  - cbn [fold_left]. unfold scan_step at 2. rewrite IH. clear IH.
    cbn [map upto_repo existsb]. cbn [nview v_git v_custom v_ignore v_gi v_excl].
    rewrite !nearest_cons. rewrite !m_or_if, !m_or_assoc.
    f_equal; [f_equal; [f_equal|]|].
    + destruct ag, saw, (nd_has_git n); cbn [andb negb orb]; try reflexivity.
      * cbn [map nearest v_gi nview]. rewrite !m_or_if. destruct mg, (nd_gi n p d); reflexivity.
      * cbn [map v_gi nview]. rewrite nearest_cons, !m_or_if, m_or_assoc. reflexivity.
    + destruct ag, saw, (nd_has_git n); cbn [andb negb orb]; try reflexivity.
      * cbn [map nearest v_excl nview]. rewrite !m_or_if. destruct me, (nd_excl n p d); reflexivity.
      * cbn [map v_excl nview]. rewrite nearest_cons, !m_or_if, m_or_assoc. reflexivity.
    + rewrite orb_assoc. reflexivity.
Qed.

Lemma explicit_scan_nearest gis p d : forall m,
  explicit_scan gis p d m = m_or m (nearest (map (fun g : gmatcher => g p d) gis)).
Proof.
  induction gis as [|g r IH]; intro m; cbn [explicit_scan map].
  - cbn [nearest]. rewrite m_or_none_r. reflexivity.
  - rewrite nearest_cons. destruct m; cbn [m_is_none negb]; try reflexivity.
    rewrite IH. reflexivity.
Qed.

Lemma existsb_map {A B} (f : B -> bool) (g : A -> B) l : existsb f (map g l) = existsb (fun x => f (g x)) l.
Proof. induction l as [|x r IH]; cbn; [reflexivity|]. rewrite IH. reflexivity. Qed.

Lemma view_git_all ig p0 d :
  existsb v_git (s_below (view_of ig p0 d) ++ s_above (view_of ig p0 d)) = existsb nd_has_git (ig_nodes ig).
Proof.
  unfold view_of. cbn [s_below s_above].
  transitivity (existsb nd_has_git (take_while (fun n => negb (nd_abs n)) (ig_nodes ig)
                                    ++ drop_while (fun n => negb (nd_abs n)) (ig_nodes ig)));
    [|rewrite take_drop_while; reflexivity].
  rewrite !existsb_app. f_equal.
  - rewrite existsb_map. reflexivity.
  - destruct (ig_abs_base ig); rewrite existsb_map; reflexivity.
Qed.

Ltac fin6 := rewrite ?nearest_cons; change (nearest (@nil mtch)) with MNone;
             rewrite ?m_or_none_r, ?m_or_none_l, ?m_or_assoc; reflexivity.

(* matched_ignore = the six sources in precedence order *)
Lemma matched_ignore_eq_spec ig p0 d :
  matched_ignore ig (strip_dot_slash p0) d = ignore_stage (sh_opts (ig_sh ig)) (view_of ig p0 d).
Proof.
  unfold ignore_stage, stage_sources, in_repo. rewrite view_git_all.
  unfold matched_ignore.
  set (o := sh_opts (ig_sh ig)). set (p := strip_dot_slash p0).
  set (ag := negb (o_require_git o) || existsb nd_has_git (ig_nodes ig)).
  set (below := take_while (fun n => negb (nd_abs n)) (ig_nodes ig)).
  set (above := drop_while (fun n => negb (nd_abs n)) (ig_nodes ig)).
  rewrite (scan_fold ag p d false below).
  rewrite !m_or_none_l. cbn [negb andb]. rewrite andb_true_r.
  unfold view_of. cbn [s_below s_above s_global s_explicit]. fold p below above.
  rewrite explicit_scan_nearest, m_or_none_l.
  unfold heard.
  destruct (o_parents o) eqn:EP.
  - destruct (ig_abs_base ig) as [b|] eqn:EB.
    + rewrite (scan_fold ag (rebase b (self_dir ig) p) d true above).
      rewrite !map_app, !nearest_app, upto_repo_app.
      cbn [orb].
      destruct ag; cbn [andb];
        destruct (existsb v_git (map (nview p d false) below)) eqn:EG; cbn [negb];
        try rewrite (upto_repo_nogit _ EG); rewrite ?map_app, ?nearest_app; fin6.
    + rewrite (nearest_app_silent v_custom), (nearest_app_silent v_ignore),
        (nearest_upto_app_silent v_gi), (nearest_upto_app_silent v_excl);
        try (intros x Hx; apply in_map_iff in Hx as (n & <- & _); reflexivity).
      destruct ag; fin6.
  - destruct ag; fin6.
Qed.

(* ---------------------------------------------------------------- file_name *)
Lemma file_name_eq_spec p : file_name p = name_spec p.
Proof. destruct p; reflexivity. Qed.

Lemma is_hidden_eq_spec p : is_hidden p = hidden_spec p.
Proof. unfold is_hidden, is_hidden_with, hidden_spec. rewrite file_name_eq_spec. destruct (name_spec p) as [[|c r]|]; reflexivity. Qed.

(* ---------------------------------------------------------------- the whole decision *)
Lemma matched_dir_entry_eq_spec ig p0 d :
  matched_dir_entry ig p0 d = decide_spec (sh_opts (ig_sh ig)) (view_of ig p0 d).
Proof.
  unfold matched_dir_entry, matched_dir_entry_with, matched_with.
  fold (strip_dot_slash p0). rewrite matched_ignore_eq_spec.
  fold (is_hidden p0). rewrite is_hidden_eq_spec.
  unfold decide_spec.
  replace (s_overrides (view_of ig p0 d)) with
      (override_matched (sh_overrides (ig_sh ig)) (strip_dot_slash p0) d) by reflexivity.
  replace (s_any_rules (view_of ig p0 d)) with (has_any_ignore_rules ig) by reflexivity.
  replace (s_types (view_of ig p0 d)) with
      (if ty_is_empty (sh_types (ig_sh ig)) then MNone
       else types_matched (sh_types (ig_sh ig)) (strip_dot_slash p0) d) by reflexivity.
  replace (s_hidden (view_of ig p0 d)) with (hidden_spec p0) by reflexivity.
  assert (HO : (if negb (ov_is_empty (sh_overrides (ig_sh ig)))
                then override_matched (sh_overrides (ig_sh ig)) (strip_dot_slash p0) d else MNone)
               = override_matched (sh_overrides (ig_sh ig)) (strip_dot_slash p0) d).
  { unfold override_matched. destruct (ov_is_empty (sh_overrides (ig_sh ig))); reflexivity. }
  rewrite HO. clear HO.
  destruct (override_matched (sh_overrides (ig_sh ig)) (strip_dot_slash p0) d); cbn [m_is_none negb]; try reflexivity.
  fold types_matched.
  destruct (has_any_ignore_rules ig);
    [destruct (ignore_stage (sh_opts (ig_sh ig)) (view_of ig p0 d))|];
    cbn [m_is_ignore m_is_whitelist m_is_none];
    destruct (ty_is_empty (sh_types (ig_sh ig))); cbn [negb m_is_ignore m_is_whitelist m_is_none andb];
    try destruct (types_matched (sh_types (ig_sh ig)) (strip_dot_slash p0) d);
    cbn [m_is_ignore m_is_whitelist m_is_none andb]; try reflexivity;
    destruct (o_hidden (sh_opts (ig_sh ig))), (hidden_spec p0); reflexivity.
Qed.

(* ---------------------------------------------------------------- precedence facts on the fold *)
(* the first source (in documented order) with an opinion decides the ignore stage *)
Lemma nearest_first_opinion l k m :
  nth_error l k = Some m -> m <> MNone -> (forall j x, j < k -> nth_error l j = Some x -> x = MNone) -> nearest l = m.
Proof.
  revert l; induction k as [|k IH]; intros [|x r] Hk Hm Hbefore; try discriminate.
  - cbn in Hk. injection Hk as ->. destruct m; [contradiction| reflexivity| reflexivity].
  - cbn in Hk. rewrite nearest_cons, (Hbefore 0 x (Nat.lt_0_succ k) eq_refl), m_or_none_l.
    apply IH; [exact Hk|exact Hm|]. intros j y Hj Hy. apply (Hbefore (S j) y); [lia|exact Hy].
Qed.

Lemma whitelist_does_not_beat_earlier_ignore_proof o s k :
  s_overrides s = MNone -> s_any_rules s = true ->
  nth_error (stage_sources o s) k = Some MIgnore ->
  (forall j x, j < k -> nth_error (stage_sources o s) j = Some x -> x = MNone) ->
  decide_spec o s = MIgnore.
Proof.
  intros HO HA Hk Hb. unfold decide_spec. rewrite HO, HA. unfold ignore_stage.
  rewrite (nearest_first_opinion _ k MIgnore Hk); [reflexivity|discriminate|exact Hb].
Qed.

Lemma whitelist_beats_hidden_not_types_proof o s :
  s_overrides s = MNone -> s_any_rules s = true -> ignore_stage o s = MWhitelist ->
  decide_spec o s = match s_types s with MIgnore => MIgnore | _ => MWhitelist end.
Proof.
  intros HO HA HW. unfold decide_spec. rewrite HO, HA, HW. destruct (s_types s); reflexivity.
Qed.

(* ---------------------------------------------------------------- explicit paths *)
Lemma explicit_path_always_searched_proof f c md roots p :
  In (RFile p) roots -> In p (rg_files f c md roots).
Proof.
  intro H. unfold rg_files, lib_files. apply in_flat_map. exists (RFile p). split; [exact H|].
  cbn [walk_root]. left. reflexivity.
Qed.

(* entries met during traversal are listed only if the decision is not Ignore *)
Lemma walk_entry_file_listed md ig dir depth name :
  walk_entry md ig dir depth (TFile name) =
    if depth_ok md depth && negb (m_is_ignore (decide_spec (sh_opts (ig_sh ig)) (view_of ig (path_join dir name) false)))
    then [path_join dir name] else [].
Proof.
  cbn [walk_entry]. unfold should_skip_entry. rewrite matched_dir_entry_eq_spec.
  destruct (depth_ok md depth); cbn [negb andb]; [|reflexivity].
  destruct (m_is_ignore _); reflexivity.
Qed.

(* ================================================================ the command-line level *)
Lemma decide_spec_ext o s s' :
  s_overrides s = s_overrides s' -> s_types s = s_types s' -> s_hidden s = s_hidden s' ->
  (if s_any_rules s then ignore_stage o s else MNone) = (if s_any_rules s' then ignore_stage o s' else MNone) ->
  decide_spec o s = decide_spec o s'.
Proof. intros H1 H2 H3 H4. unfold decide_spec. rewrite H1, H2, H3, H4. reflexivity. Qed.

Definition silent (q : dview) : Prop :=
  v_custom q = MNone /\ v_ignore q = MNone /\ v_gi q = MNone /\ v_excl q = MNone /\ v_git q = false.

Lemma existsb_app_single {A} (f : A -> bool) l q : f q = false -> existsb f (l ++ [q]) = existsb f l.
Proof. intro H. rewrite existsb_app. cbn [existsb]. rewrite H. rewrite !orb_false_r. reflexivity. Qed.

(* a silent directory at the far end of the chain above the root changes nothing *)
Lemma stage_sources_above_ext o s s' :
  s_below s = s_below s' -> s_global s = s_global s' -> s_explicit s = s_explicit s' ->
  existsb v_git (s_above s) = existsb v_git (s_above s') ->
  (o_parents o = true -> exists q, s_above s = s_above s' ++ [q] /\ silent q) ->
  stage_sources o s = stage_sources o s'.
Proof.
  intros HB HG HE HX HP. unfold stage_sources, in_repo, heard.
  rewrite !existsb_app, HB, HG, HE, HX.
  destruct (o_parents o) eqn:EP; [|reflexivity].
  destruct (HP eq_refl) as (q & HA & Hc & Hi & Hg & He & _). rewrite HA, app_assoc.
  assert (S1 : forall f : dview -> mtch, f q = MNone -> forall d, In d [q] -> f d = MNone).
  { intros f Hf d [<-|[]]. exact Hf. }
  rewrite (nearest_app_silent v_custom _ [q] (S1 _ Hc)), (nearest_app_silent v_ignore _ [q] (S1 _ Hi)),
    (nearest_upto_app_silent v_gi _ [q] (S1 _ Hg)), (nearest_upto_app_silent v_excl _ [q] (S1 _ He)).
  reflexivity.
Qed.

Lemma fold_add_child below : forall ig,
  ig_nodes (fold_left add_child below ig) = rev (map (child_node (ig_sh ig)) below) ++ ig_nodes ig
  /\ ig_sh (fold_left add_child below ig) = ig_sh ig
  /\ ig_abs_base (fold_left add_child below ig) = ig_abs_base ig.
Proof.
  induction below as [|d r IH]; intro ig; cbn [fold_left map rev app]; [repeat split|].
  destruct (IH (add_child ig d)) as (H1 & H2 & H3). rewrite H1, H2, H3. cbn [add_child ig_nodes ig_sh ig_abs_base].
  rewrite <- app_assoc. repeat split.
Qed.

Lemma fold_parent_nodes sh above : forall acc,
  fold_left (fun acc d => parent_node sh d :: acc) above acc = rev (map (parent_node sh) above) ++ acc.
Proof.
  induction above as [|d r IH]; intro acc; cbn [fold_left map rev app]; [reflexivity|].
  rewrite IH, <- app_assoc. reflexivity.
Qed.

Lemma take_while_app_stop {A} (f : A -> bool) l1 x l2 :
  forallb f l1 = true -> f x = false -> take_while f (l1 ++ x :: l2) = l1 /\ drop_while f (l1 ++ x :: l2) = x :: l2.
Proof.
  induction l1 as [|y r IH]; cbn [forallb app take_while drop_while]; intros H1 H2.
  - rewrite H2. split; reflexivity.
  - apply andb_true_iff in H1 as [Hy Hr]. rewrite Hy. destruct (IH Hr H2) as [-> ->]. split; reflexivity.
Qed.

Lemma child_nodes_notabs sh l : forallb (fun n => negb (nd_abs n)) (rev (map (child_node sh) l)) = true.
Proof.
  apply forallb_forall. intros n Hn. apply in_rev in Hn. apply in_map_iff in Hn as (d & <- & _). reflexivity.
Qed.

(* the per-directory views agree *)
Lemma child_view f c p d di :
  nview p d false (child_node (ig_sh (build_root (walk_builder_opts f) (walk_builder_env f c))) di)
  = wdview f false p d di.
Proof.
  destruct f as [fh fd fe ff fg fp fv fr].
  unfold nview, wdview, child_node, src_on, child_dotgit_test, repo_marker, exclude_as_read, exclude_as_read_with,
         git_type_seen. cbn.
  destruct fd, fe, fv, fr, (di_dotgit di); reflexivity.
Qed.
Lemma parent_view f c p d di :
  nview p d true (parent_node (ig_sh (build_root (walk_builder_opts f) (walk_builder_env f c))) di)
  = wdview f true p d di.
Proof.
  destruct f as [fh fd fe ff fg fp fv fr].
  unfold nview, wdview, parent_node, child_node, src_on, parent_dotgit_test, child_dotgit_test, repo_marker,
         exclude_as_read, exclude_as_read_with, git_type_seen. cbn.
  destruct fd, fe, fv, fr, (di_dotgit di); reflexivity.
Qed.

Lemma map_rev_map {A B C} (g : B -> C) (h : A -> B) l : map g (rev (map h l)) = map (fun x => g (h x)) (rev l).
Proof. rewrite <- map_rev, map_map. reflexivity. Qed.

Definition early_return (f : lowflags) : bool := f_no_ignore_parent f && f_no_ignore_vcs f.

Lemma early_return_eq f c :
  let o := sh_opts (ig_sh (build_root (walk_builder_opts f) (walk_builder_env f c))) in
  negb (o_parents o) && negb (o_git_ignore o) && negb (o_git_exclude o) && negb (o_git_global o) = early_return f.
Proof. destruct f as [fh fd fe ff fg fp fv fr]. cbn. destruct fp, fv, fe, fg; reflexivity. Qed.

Lemma wdview_nogit_vcs f a p d di : f_no_ignore_vcs f = true -> v_git (wdview f a p d di) = false.
Proof. intro H. cbn. rewrite H. destruct (f_no_require_git f); reflexivity. Qed.

Lemma root_node_silent p d a : silent (nview p d a root_node).
Proof. repeat split. Qed.
Lemma root_node_silent' : silent (nview_silent root_node).
Proof. repeat split. Qed.

(* has_any_ignore_rules = false: every source is switched off *)
Lemma no_rules_stage f w p0 d :
  has_any_ignore_rules (world_ig f w) = false -> ignore_stage (walk_builder_opts f) (wview f w p0 d) = MNone.
Proof.
  unfold world_ig. destruct (fold_add_child (w_below w)
    (add_parents (build_root (walk_builder_opts f) (walk_builder_env f (w_cmd w))) (w_canon w) (w_above w))) as (_ & HS & _).
  unfold has_any_ignore_rules. rewrite HS.
  assert (HSH : ig_sh (add_parents (build_root (walk_builder_opts f) (walk_builder_env f (w_cmd w))) (w_canon w) (w_above w))
                = ig_sh (build_root (walk_builder_opts f) (walk_builder_env f (w_cmd w)))).
  { unfold add_parents. destruct (_ && _ && _ && _); [reflexivity|]. destruct (w_canon w); reflexivity. }
  rewrite HSH. destruct f as [fh fd fe ff fg fp fv fr]. cbn.
  intro H.
  destruct fd; cbn in H; [|discriminate].
  destruct fv; cbn in H; [|destruct fg; discriminate].
  unfold ignore_stage, stage_sources. cbn [f_no_ignore_dot f_no_ignore_vcs f_no_ignore_exclude f_no_ignore_global f_no_ignore_files wview
    s_below s_above s_global s_explicit walk_builder_opts o_parents o_require_git].
  assert (E : (if ff then [] else map (fun g : gmatcher => g (strip_dot_slash p0) d) (rev (c_ignore_files (w_cmd w)))) = []).
  { destruct ff; [reflexivity|]. cbn in H. destruct (c_ignore_files (w_cmd w)); [reflexivity|discriminate]. }
  rewrite E.
  set (ds := heard _ _ _).
  assert (HN : forall (g : dview -> mtch) l, (forall x, In x ds -> g x = MNone) -> incl l ds -> nearest (map g l) = MNone).
  { intros g l Hg Hl. apply nearest_all_none. intros m Hm. apply in_map_iff in Hm as (x & <- & Hx). apply Hg, Hl, Hx. }
  assert (HD : forall x, In x ds -> v_custom x = MNone /\ v_ignore x = MNone /\ v_gi x = MNone /\ v_excl x = MNone).
  { intros x Hx. unfold ds, heard in Hx.
    assert (Hx' : In x (map (wdview {| f_hidden := fh; f_no_ignore_dot := true; f_no_ignore_exclude := fe; f_no_ignore_files := ff;
                                       f_no_ignore_global := fg; f_no_ignore_parent := fp; f_no_ignore_vcs := true; f_no_require_git := fr |}
                                    false (strip_dot_slash p0) d) (rev (w_below w))) \/
                  exists b, In x (map (wdview {| f_hidden := fh; f_no_ignore_dot := true; f_no_ignore_exclude := fe; f_no_ignore_files := ff;
                                       f_no_ignore_global := fg; f_no_ignore_parent := fp; f_no_ignore_vcs := true; f_no_require_git := fr |}
                                    true b d) (rev (w_above w)))).
    { destruct (negb fp); [apply in_app_or in Hx as [Hx|Hx]|]; try (left; exact Hx).
      destruct (w_canon w); [right; eexists; exact Hx|destruct Hx]. }
    destruct Hx' as [Hx'|[b Hx']]; apply in_map_iff in Hx' as (di & <- & _); repeat split. }
  rewrite (HN v_custom ds), (HN v_ignore ds), (HN v_gi (upto_repo ds)), (HN v_excl (upto_repo ds));
    try (intros x Hx; apply HD in Hx; tauto); try apply incl_refl; try apply upto_repo_incl.
  destruct (in_repo _ _); reflexivity.
Qed.

Lemma existsb_nexists_false {A} (g : A -> bool) l : (forall x, In x l -> g x = false) -> existsb g l = false.
Proof.
  induction l as [|x r IH]; intro H; [reflexivity|]. cbn [existsb].
  rewrite (H x (or_introl eq_refl)), IH; [reflexivity|]. intros y Hy. apply H. right. exact Hy.
Qed.

Lemma world_ig_shape f w :
  let sh := ig_sh (build_root (walk_builder_opts f) (walk_builder_env f (w_cmd w))) in
  ig_sh (world_ig f w) = sh /\
  ig_nodes (world_ig f w) =
    rev (map (child_node sh) (w_below w)) ++
    (if early_return f then [] else match w_canon w with Some _ => rev (map (parent_node sh) (w_above w)) | None => [] end)
    ++ [root_node] /\
  ig_abs_base (world_ig f w) = if early_return f then None else w_canon w.
Proof.
  intro sh. unfold world_ig.
  destruct (fold_add_child (w_below w) (add_parents (build_root (walk_builder_opts f) (walk_builder_env f (w_cmd w)))
                                                   (w_canon w) (w_above w))) as (H1 & H2 & H3).
  rewrite H1, H2, H3. unfold add_parents.
  pose proof (early_return_eq f (w_cmd w)) as HE. cbv zeta in HE. rewrite HE.
  destruct (early_return f); [repeat split|].
  destruct (w_canon w) as [b|]; [|repeat split].
  cbn [ig_nodes ig_sh ig_abs_base]. rewrite fold_parent_nodes. repeat split.
Qed.

Lemma split_nodes sh below pn :
  forallb nd_abs pn = true ->
  take_while (fun n => negb (nd_abs n)) (rev (map (child_node sh) below) ++ pn ++ [root_node]) = rev (map (child_node sh) below)
  /\ drop_while (fun n => negb (nd_abs n)) (rev (map (child_node sh) below) ++ pn ++ [root_node]) = pn ++ [root_node].
Proof.
  intro H. destruct pn as [|x r].
  - cbn [app]. apply take_while_app_stop; [apply child_nodes_notabs|reflexivity].
  - cbn [app]. cbn [forallb] in H. apply andb_true_iff in H as [Hx _].
    apply take_while_app_stop; [apply child_nodes_notabs|rewrite Hx; reflexivity].
Qed.

Lemma parent_nodes_abs sh l : forallb nd_abs (rev (map (parent_node sh) l)) = true.
Proof. apply forallb_forall. intros n Hn. apply in_rev in Hn. apply in_map_iff in Hn as (d & <- & _). reflexivity. Qed.

Lemma self_dir_world f w : w_below w <> [] -> self_dir (world_ig f w) = last_dir w.
Proof.
  intro HB. destruct (world_ig_shape f w) as (_ & HN & _). unfold self_dir, last_dir. rewrite HN.
  rewrite <- map_rev. destruct (rev (w_below w)) as [|x r] eqn:E.
  - exfalso. apply HB. apply (f_equal (@rev _)) in E. rewrite rev_involutive in E. exact E.
  - reflexivity.
Qed.

Lemma decide_eq_world_proof f w p0 d :
  w_below w <> [] -> decide f w p0 d = decide_world f w p0 d.
Proof.
  intro HB. unfold decide, decide_world. rewrite matched_dir_entry_eq_spec.
  destruct (world_ig_shape f w) as (HS & HN & HA).
  assert (HO : sh_opts (ig_sh (world_ig f w)) = walk_builder_opts f) by (rewrite HS; reflexivity).
  rewrite HO.
  apply decide_spec_ext.
  - unfold view_of, wview. cbn [s_overrides]. rewrite HS. reflexivity.
  - unfold view_of, wview. cbn [s_types]. rewrite HS. reflexivity.
  - reflexivity.
  - replace (s_any_rules (wview f w p0 d)) with true by reflexivity.
    replace (s_any_rules (view_of (world_ig f w) p0 d)) with (has_any_ignore_rules (world_ig f w)) by reflexivity.
    destruct (has_any_ignore_rules (world_ig f w)) eqn:HAny; [|symmetry; apply no_rules_stage; exact HAny].
    unfold ignore_stage. f_equal.
    set (sh := ig_sh (build_root (walk_builder_opts f) (walk_builder_env f (w_cmd w)))) in *.
    set (pn := if early_return f then [] else
               match w_canon w with Some _ => rev (map (parent_node sh) (w_above w)) | None => [] end) in *.
    assert (Hpn : forallb nd_abs pn = true).
    { unfold pn. destruct (early_return f); [reflexivity|]. destruct (w_canon w); [apply parent_nodes_abs|reflexivity]. }
    destruct (split_nodes sh (w_below w) pn Hpn) as [HT HD].
    assert (VB : s_below (view_of (world_ig f w) p0 d) = s_below (wview f w p0 d)).
    { unfold view_of, wview. cbn [s_below]. rewrite HN, HT, map_rev_map. apply map_ext. intro di. apply child_view. }
    assert (VA : s_above (view_of (world_ig f w) p0 d) =
                 match (if early_return f then None else w_canon w) with
                 | Some b => map (nview (rebase b (last_dir w) (strip_dot_slash p0)) d true) (pn ++ [root_node])
                 | None => map nview_silent (pn ++ [root_node])
                 end).
    { unfold view_of. cbn [s_above]. rewrite HA, HN, HD, (self_dir_world f w HB). reflexivity. }
    apply stage_sources_above_ext.
    + exact VB.
    + unfold view_of, wview. cbn [s_global]. rewrite HS. destruct f as [fh fd fe ff fg fp fv fr]. cbn.
      destruct fv, fg; reflexivity.
    + unfold view_of, wview. cbn [s_explicit]. rewrite HS. destruct f as [fh fd fe ff fg fp fv fr]. cbn.
      destruct ff; reflexivity.
    + rewrite VA. unfold wview. cbn [s_above]. unfold pn.
      destruct (early_return f) eqn:EE.
      * cbn [app map existsb nview_silent v_git root_node nd_has_git orb].
        destruct (w_canon w); [|reflexivity]. symmetry.
        rewrite existsb_map. apply existsb_nexists_false. intros di _.
        apply wdview_nogit_vcs. unfold early_return in EE. apply andb_true_iff in EE. tauto.
      * destruct (w_canon w) as [b|]; [|reflexivity].
        rewrite map_app. cbn [map]. rewrite existsb_app_single; [|reflexivity].
        rewrite map_rev_map. f_equal. apply map_ext. intro di. apply parent_view.
    + intro EP. rewrite VA. unfold wview. cbn [s_above]. unfold pn.
      assert (EE : early_return f = false).
      { destruct f as [fh fd fe ff fg fp fv fr]. cbn in EP. unfold early_return. cbn. destruct fp; [discriminate|reflexivity]. }
      rewrite EE. destruct (w_canon w) as [b|].
      * exists (nview (rebase b (last_dir w) (strip_dot_slash p0)) d true root_node).
        rewrite map_app. split; [|apply root_node_silent].
        cbn [map]. f_equal. rewrite map_rev_map. apply map_ext. intro di. apply parent_view.
      * exists (nview_silent root_node). cbn [app map]. split; [reflexivity|apply root_node_silent'].
Qed.

(* ================================================================ one lemma per flag *)
Lemma decide_spec_opts o o' s :
  o_parents o = o_parents o' -> o_require_git o = o_require_git o' -> o_hidden o = o_hidden o' ->
  decide_spec o s = decide_spec o' s.
Proof.
  intros H1 H2 H3. unfold decide_spec, ignore_stage, stage_sources. rewrite H1, H2, H3. reflexivity.
Qed.

Lemma last_dir_map g w c : (forall d, di_path (g d) = di_path d) ->
  last_dir {| w_cmd := c; w_canon := w_canon w; w_above := map g (w_above w); w_below := map g (w_below w) |} = last_dir w.
Proof.
  intro H. unfold last_dir. cbn [w_below]. rewrite <- map_rev. destruct (rev (w_below w)); [reflexivity|]. cbn [map]. apply H.
Qed.

(* erasing the rules of a source in every directory / on the command line *)
Lemma wview_erase f1 f2 (g : dirinfo -> dirinfo) (gc : cmdline -> cmdline) w p0 d :
  (forall a p di, wdview f1 a p d di = wdview f2 a p d (g di)) ->
  (forall di, di_path (g di) = di_path di) ->
  c_globs (gc (w_cmd w)) = c_globs (w_cmd w) -> c_types (gc (w_cmd w)) = c_types (w_cmd w) ->
  (forall p, src_on (negb (f_no_ignore_vcs f1) && negb (f_no_ignore_global f1)) (c_global (w_cmd w) p d)
             = src_on (negb (f_no_ignore_vcs f2) && negb (f_no_ignore_global f2)) (c_global (gc (w_cmd w)) p d)) ->
  (forall p, (if f_no_ignore_files f1 then [] else map (fun g0 : gmatcher => g0 p d) (rev (c_ignore_files (w_cmd w))))
             = (if f_no_ignore_files f2 then [] else map (fun g0 : gmatcher => g0 p d) (rev (c_ignore_files (gc (w_cmd w)))))) ->
  wview f1 w p0 d = wview f2 (map_cmd gc (map_dirs g w)) p0 d.
Proof.
  intros HV HP HG HT HGl HE. unfold wview, map_cmd, map_dirs. cbn [w_cmd w_canon w_above w_below].
  rewrite (last_dir_map g w (gc (w_cmd w)) HP).
  rewrite HG, HT, <- HGl, <- HE.
  f_equal.
  - rewrite <- map_rev, map_map. apply map_ext. intro di. apply HV.
  - destruct (w_canon w); [|reflexivity]. rewrite <- map_rev, map_map. apply map_ext. intro di. apply HV.
Qed.

Lemma map_cmd_id w : map_cmd (fun c => c) w = w.
Proof. destruct w; reflexivity. Qed.
Lemma map_dirs_id w : map_dirs (fun d => d) w = w.
Proof. destruct w as [c k a b]. unfold map_dirs. cbn. rewrite !map_id. reflexivity. Qed.

Lemma flag_dot_world f w p d :
  decide_world (set_dot true f) w p d = decide_world (set_dot false f) (erase_dot w) p d.
Proof.
  unfold erase_dot. rewrite <- (map_cmd_id (map_dirs di_no_dot w)).
  revert f w p d. intros f w p d. set (f2 := set_dot false f). set (f1 := set_dot true f).
  unfold decide_world.
  rewrite (wview_erase f1 f2 di_no_dot (fun c => c) w p d); unfold f1, f2; try reflexivity;
    try (intros; destruct f as [fh fd fe ff fg fp fv fr]; unfold wdview, src_on; cbn; try destruct fv; reflexivity).
Qed.

Lemma flag_exclude_world f w p d :
  decide_world (set_exclude true f) w p d = decide_world (set_exclude false f) (erase_exclude w) p d.
Proof.
  unfold erase_exclude. rewrite <- (map_cmd_id (map_dirs di_no_exclude w)). unfold decide_world.
  rewrite (wview_erase (set_exclude true f) (set_exclude false f) di_no_exclude (fun c => c) w p d); try reflexivity;
    try (intros; destruct f as [fh fd fe ff fg fp fv fr]; unfold wdview, src_on; cbn; try destruct fv; reflexivity).
Qed.

Lemma flag_global_world f w p d :
  decide_world (set_global true f) w p d = decide_world (set_global false f) (erase_global w) p d.
Proof.
  unfold erase_global. rewrite <- (map_dirs_id w) at 2. unfold decide_world.
  rewrite (wview_erase (set_global true f) (set_global false f) (fun x => x) cmd_no_global w p d); try reflexivity;
    try (intros; destruct f as [fh fd fe ff fg fp fv fr]; unfold wdview, src_on; cbn; try destruct fv; reflexivity).
Qed.

Lemma flag_files_world f w p d :
  decide_world (set_files true f) w p d = decide_world (set_files false f) (erase_files w) p d.
Proof.
  unfold erase_files. rewrite <- (map_dirs_id w) at 2. unfold decide_world.
  rewrite (wview_erase (set_files true f) (set_files false f) (fun x => x) cmd_no_files w p d); try reflexivity;
    try (intros; destruct f as [fh fd fe ff fg fp fv fr]; unfold wdview, src_on; cbn; try destruct fv; reflexivity).
Qed.

(* when no git source has an opinion, which directories count as repository roots is irrelevant *)
Lemma stage_sources_git_silent o s s' :
  map v_custom (s_below s) = map v_custom (s_below s') -> map v_custom (s_above s) = map v_custom (s_above s') ->
  map v_ignore (s_below s) = map v_ignore (s_below s') -> map v_ignore (s_above s) = map v_ignore (s_above s') ->
  (forall x, In x (s_below s ++ s_above s) -> v_gi x = MNone /\ v_excl x = MNone) ->
  (forall x, In x (s_below s' ++ s_above s') -> v_gi x = MNone /\ v_excl x = MNone) ->
  s_global s = MNone -> s_global s' = MNone -> s_explicit s = s_explicit s' ->
  stage_sources o s = stage_sources o s'.
Proof.
  intros C1 C2 I1 I2 G1 G2 L1 L2 E. unfold stage_sources. rewrite L1, L2, E.
  assert (Z : forall (t : sview) (f : dview -> mtch),
             (forall x, In x (s_below t ++ s_above t) -> f x = MNone) ->
             nearest (map f (upto_repo (heard (o_parents o) (s_below t) (s_above t)))) = MNone).
  { intros t f H. apply nearest_all_none. intros m Hm. apply in_map_iff in Hm as (x & <- & Hx).
    apply H. apply upto_repo_incl in Hx. unfold heard in Hx. destruct (o_parents o); [exact Hx|apply in_or_app; left; exact Hx]. }
  rewrite (Z s v_gi), (Z s v_excl), (Z s' v_gi), (Z s' v_excl); try (intros x Hx; first [apply G1 in Hx|apply G2 in Hx]; tauto).
  unfold heard. destruct (o_parents o); rewrite ?map_app, C1, ?C2, I1, ?I2;
    destruct (in_repo (o_require_git o) s), (in_repo (o_require_git o) s'); reflexivity.
Qed.

Lemma flag_vcs_world f w p d :
  decide_world (set_vcs true f) w p d = decide_world (set_vcs false f) (erase_vcs w) p d.
Proof.
  unfold decide_world.
  rewrite (decide_spec_opts (walk_builder_opts (set_vcs true f)) (walk_builder_opts (set_vcs false f))); try reflexivity.
  apply decide_spec_ext; try reflexivity.
  replace (s_any_rules (wview (set_vcs true f) w p d)) with true by reflexivity.
  replace (s_any_rules (wview (set_vcs false f) (erase_vcs w) p d)) with true by reflexivity.
  unfold ignore_stage. f_equal.
  assert (LD : last_dir (erase_vcs w) = last_dir w).
  { unfold erase_vcs, map_cmd. cbn. apply (last_dir_map di_no_vcs w). reflexivity. }
  apply stage_sources_git_silent; unfold wview, erase_vcs, map_cmd, map_dirs;
    cbn [s_below s_above s_global s_explicit w_cmd w_canon w_above w_below].
  - rewrite <- map_rev, !map_map. apply map_ext. intro di. destruct f; reflexivity.
  - fold (map_dirs di_no_vcs w). destruct (w_canon w); [|reflexivity].
    change (last_dir {| w_cmd := cmd_no_global (w_cmd w); w_canon := Some l; w_above := map di_no_vcs (w_above w); w_below := map di_no_vcs (w_below w) |})
      with (match rev (map di_no_vcs (w_below w)) with d0 :: _ => di_path d0 | [] => [] end).
    rewrite <- (map_rev di_no_vcs (w_below w)). unfold last_dir.
    destruct (rev (w_below w)); cbn [map di_path di_no_vcs]; rewrite <- map_rev, !map_map; apply map_ext; intro di; destruct f; reflexivity.
  - rewrite <- map_rev, !map_map. apply map_ext. intro di. destruct f; reflexivity.
  - destruct (w_canon w); [|reflexivity].
    unfold last_dir. cbn [w_below]. rewrite <- (map_rev di_no_vcs (w_below w)).
    destruct (rev (w_below w)); cbn [map di_path di_no_vcs]; rewrite <- map_rev, !map_map; apply map_ext; intro di; destruct f; reflexivity.
  - intros x Hx. apply in_app_or in Hx as [Hx|Hx].
    + apply in_map_iff in Hx as (di & <- & _). destruct f; split; reflexivity.
    + destruct (w_canon w); [|destruct Hx]. apply in_map_iff in Hx as (di & <- & _). destruct f; split; reflexivity.
  - intros x Hx. apply in_app_or in Hx as [Hx|Hx].
    + apply in_map_iff in Hx as (di & <- & Hd). apply in_rev in Hd. apply in_map_iff in Hd as (d0 & <- & _).
      destruct f as [fh fd fe ff fg fp fv fr]; split; cbn; [reflexivity|destruct fe; reflexivity].
    + destruct (w_canon w); [|destruct Hx]. apply in_map_iff in Hx as (di & <- & Hd). apply in_rev in Hd.
      apply in_map_iff in Hd as (d0 & <- & _).
      destruct f as [fh fd fe ff fg fp fv fr]; split; cbn; [reflexivity|destruct fe; reflexivity].
  - destruct f; reflexivity.
  - destruct f as [fh fd fe ff fg fp fv fr]. cbn. destruct fg; reflexivity.
  - destruct f; reflexivity.
Qed.

Lemma decide_spec_ext2 o o' s s' :
  s_overrides s = s_overrides s' -> s_types s = s_types s' -> s_hidden s = s_hidden s' -> o_hidden o = o_hidden o' ->
  s_any_rules s = s_any_rules s' -> stage_sources o s = stage_sources o' s' ->
  decide_spec o s = decide_spec o' s'.
Proof. intros H1 H2 H3 H4 H5 H6. unfold decide_spec, ignore_stage. rewrite H1, H2, H3, H4, H5, H6. reflexivity. Qed.

Lemma flag_parent_world f w p d :
  decide_world (set_parent true f) w p d = decide_world (set_parent false f) (erase_parent w) p d.
Proof.
  unfold decide_world. apply decide_spec_ext2; try reflexivity.
  unfold stage_sources, in_repo, heard.
  replace (o_parents (walk_builder_opts (set_parent true f))) with false by reflexivity.
  replace (o_parents (walk_builder_opts (set_parent false f))) with true by reflexivity.
  replace (o_require_git (walk_builder_opts (set_parent true f))) with (o_require_git (walk_builder_opts (set_parent false f))) by reflexivity.
  replace (s_below (wview (set_parent true f) w p d)) with (s_below (wview (set_parent false f) (erase_parent w) p d)) by reflexivity.
  replace (s_global (wview (set_parent true f) w p d)) with (s_global (wview (set_parent false f) (erase_parent w) p d)) by reflexivity.
  replace (s_explicit (wview (set_parent true f) w p d)) with (s_explicit (wview (set_parent false f) (erase_parent w) p d)) by reflexivity.
  set (B := s_below (wview (set_parent false f) (erase_parent w) p d)).
  set (A' := s_above (wview (set_parent false f) (erase_parent w) p d)).
  set (A := s_above (wview (set_parent true f) w p d)).
  assert (HG : existsb v_git (B ++ A) = existsb v_git (B ++ A')).
  { rewrite !existsb_app. f_equal. unfold A, A', wview, erase_parent. cbn [s_above w_canon w_above w_below w_cmd].
    destruct (w_canon w); [|reflexivity]. rewrite <- map_rev, !existsb_map. unfold last_dir. cbn [w_below].
    induction (rev (w_above w)) as [|x r IH]; [reflexivity|]. cbn [existsb map]. rewrite IH. reflexivity. }
  assert (HS : forall x, In x A' -> v_custom x = MNone /\ v_ignore x = MNone /\ v_gi x = MNone /\ v_excl x = MNone).
  { intros x Hx. unfold A', wview, erase_parent in Hx. cbn [s_above w_canon w_above] in Hx.
    destruct (w_canon w); [|destruct Hx]. apply in_map_iff in Hx as (di & <- & Hd). apply in_rev in Hd.
    apply in_map_iff in Hd as (d0 & <- & _).
    destruct f as [fh fd fe ff fg fp fv fr]. unfold wdview, src_on. cbn. destruct fd, fv, fe; repeat split. }
  rewrite HG.
  rewrite (nearest_app_silent v_custom B A'), (nearest_app_silent v_ignore B A'),
    (nearest_upto_app_silent v_gi B A'), (nearest_upto_app_silent v_excl B A');
    try (intros x Hx; apply HS in Hx; tauto).
  reflexivity.
Qed.

(* --hidden: the verdict is that of the world in which no name counts as hidden *)
Definition unhide (s : sview) : sview :=
  {| s_overrides := s_overrides s; s_below := s_below s; s_above := s_above s; s_global := s_global s;
     s_explicit := s_explicit s; s_types := s_types s; s_hidden := false; s_any_rules := s_any_rules s |}.

Lemma flag_hidden_world f w p d :
  decide_world (set_hidden true f) w p d
  = decide_spec (walk_builder_opts (set_hidden false f)) (unhide (wview (set_hidden false f) w p d)).
Proof.
  unfold decide_world, decide_spec, ignore_stage, stage_sources. cbn [unhide s_overrides s_any_rules s_types s_hidden].
  replace (o_hidden (walk_builder_opts (set_hidden true f))) with false by reflexivity.
  rewrite andb_false_r. reflexivity.
Qed.

(* compositions: --no-ignore, -u, -uu, -uuu *)
Lemma flag_no_ignore_is f :
  flag_no_ignore f = set_dot true (set_exclude true (set_global true (set_parent true (set_vcs true f)))).
Proof. destruct f; reflexivity. Qed.

Definition clear5 (f : lowflags) : lowflags :=
  set_dot false (set_exclude false (set_global false (set_parent false (set_vcs false f)))).
Definition erase5 (w : world) : world :=
  erase_vcs (erase_parent (erase_global (erase_exclude (erase_dot w)))).

Lemma flag_no_ignore_world f w p d :
  decide_world (flag_no_ignore f) w p d = decide_world (clear5 f) (erase5 w) p d.
Proof.
  rewrite flag_no_ignore_is, flag_dot_world.
  replace (set_dot false (set_exclude true (set_global true (set_parent true (set_vcs true f)))))
    with (set_exclude true (set_dot false (set_global true (set_parent true (set_vcs true f))))) by (destruct f; reflexivity).
  rewrite flag_exclude_world.
  replace (set_exclude false (set_dot false (set_global true (set_parent true (set_vcs true f)))))
    with (set_global true (set_exclude false (set_dot false (set_parent true (set_vcs true f))))) by (destruct f; reflexivity).
  rewrite flag_global_world.
  replace (set_global false (set_exclude false (set_dot false (set_parent true (set_vcs true f)))))
    with (set_parent true (set_global false (set_exclude false (set_dot false (set_vcs true f))))) by (destruct f; reflexivity).
  rewrite flag_parent_world.
  replace (set_parent false (set_global false (set_exclude false (set_dot false (set_vcs true f)))))
    with (set_vcs true (set_parent false (set_global false (set_exclude false (set_dot false f))))) by (destruct f; reflexivity).
  rewrite flag_vcs_world.
  unfold clear5, erase5. reflexivity.
Qed.

Lemma flag_unrestricted_world n f w p d :
  decide_world (flag_unrestricted n f) w p d =
  match n with
  | 0 => decide_world f w p d
  | 1 => decide_world (clear5 f) (erase5 w) p d
  | _ => decide_spec (walk_builder_opts (set_hidden false (clear5 f))) (unhide (wview (set_hidden false (clear5 f)) (erase5 w) p d))
  end.
Proof.
  destruct n as [|[|n]]; cbn [flag_unrestricted]; [reflexivity|apply flag_no_ignore_world|].
  replace (flag_hidden (flag_no_ignore f)) with (flag_no_ignore (set_hidden true f)) by (destruct f; reflexivity).
  rewrite flag_no_ignore_world.
  replace (clear5 (set_hidden true f)) with (set_hidden true (clear5 f)) by (destruct f; reflexivity).
  apply flag_hidden_world.
Qed.

(* ================================================================ the same, for the model's decision *)
Lemma map_nonempty {A B} (g : A -> B) l : l <> [] -> map g l <> [].
Proof. destruct l; [intro H; exfalso; apply H; reflexivity|discriminate]. Qed.

Ltac via_world HB :=
  rewrite !decide_eq_world_proof; [| try exact HB; cbn [erase_dot erase_exclude erase_global erase_vcs erase_files erase_parent erase5
      map_dirs map_cmd w_below]; repeat apply map_nonempty; exact HB ..].

Lemma flag_dot_proof f w p d : w_below w <> [] ->
  decide (set_dot true f) w p d = decide (set_dot false f) (erase_dot w) p d.
Proof. intro HB. via_world HB. apply flag_dot_world. Qed.
Lemma flag_exclude_proof f w p d : w_below w <> [] ->
  decide (set_exclude true f) w p d = decide (set_exclude false f) (erase_exclude w) p d.
Proof. intro HB. via_world HB. apply flag_exclude_world. Qed.
Lemma flag_global_proof f w p d : w_below w <> [] ->
  decide (set_global true f) w p d = decide (set_global false f) (erase_global w) p d.
Proof. intro HB. via_world HB. apply flag_global_world. Qed.
Lemma flag_files_proof f w p d : w_below w <> [] ->
  decide (set_files true f) w p d = decide (set_files false f) (erase_files w) p d.
Proof. intro HB. via_world HB. apply flag_files_world. Qed.
Lemma flag_vcs_proof f w p d : w_below w <> [] ->
  decide (set_vcs true f) w p d = decide (set_vcs false f) (erase_vcs w) p d.
Proof. intro HB. via_world HB. apply flag_vcs_world. Qed.
Lemma flag_parent_proof f w p d : w_below w <> [] ->
  decide (set_parent true f) w p d = decide (set_parent false f) (erase_parent w) p d.
Proof. intro HB. via_world HB. apply flag_parent_world. Qed.
Lemma flag_no_ignore_proof f w p d : w_below w <> [] ->
  decide (flag_no_ignore f) w p d = decide (clear5 f) (erase5 w) p d.
Proof. intro HB. via_world HB. apply flag_no_ignore_world. Qed.
Lemma flag_hidden_proof f w p d : w_below w <> [] ->
  decide (set_hidden true f) w p d
  = decide_spec (walk_builder_opts (set_hidden false f)) (unhide (wview (set_hidden false f) w p d)).
Proof. intro HB. rewrite decide_eq_world_proof by exact HB. apply flag_hidden_world. Qed.
Lemma flag_unrestricted_proof n f w p d : w_below w <> [] ->
  decide (flag_unrestricted n f) w p d =
  match n with
  | 0 => decide f w p d
  | 1 => decide (clear5 f) (erase5 w) p d
  | _ => decide_spec (walk_builder_opts (set_hidden false (clear5 f))) (unhide (wview (set_hidden false (clear5 f)) (erase5 w) p d))
  end.
Proof.
  intro HB. rewrite decide_eq_world_proof by exact HB. rewrite flag_unrestricted_world.
  destruct n as [|[|n]]; try reflexivity; symmetry; apply decide_eq_world_proof; try exact HB.
  cbn [erase5 erase_dot erase_exclude erase_global erase_vcs erase_parent map_dirs map_cmd w_below].
  repeat apply map_nonempty. exact HB.
Qed.

(* ================================================================ what `last component` means *)
Lemma alsf_spec p : forall i best,
  (after_last_slash_from i best p = best /\ ~ In SLASH p) \/
  (exists j, after_last_slash_from i best p = i + j + 1 /\ nth_error p j = Some SLASH /\ ~ In SLASH (skipn (j + 1) p)).
Proof.
  induction p as [|c r IH]; intros i best; cbn [after_last_slash_from].
  - left. split; [reflexivity|intros []].
  - destruct (c =? SLASH)%N eqn:E.
    + apply N.eqb_eq in E. subst c. destruct (IH (S i) (S i)) as [[H1 H2]|(j & H1 & H2 & H3)].
      * right. exists 0. rewrite H1. split; [lia|]. split; [reflexivity|exact H2].
      * right. exists (S j). rewrite H1. split; [lia|]. split; [exact H2|exact H3].
    + apply N.eqb_neq in E. destruct (IH (S i) best) as [[H1 H2]|(j & H1 & H2 & H3)].
      * left. split; [exact H1|]. intros [H|H]; [apply E; exact H|exact (H2 H)].
      * right. exists (S j). rewrite H1. split; [lia|]. split; [exact H2|exact H3].
Qed.

Lemma firstn_S_nth {A} (l : list A) : forall j x, nth_error l j = Some x -> firstn (S j) l = firstn j l ++ [x].
Proof.
  induction l as [|y r IH]; intros [|j] x H; try discriminate.
  - cbn in H. injection H as ->. reflexivity.
  - cbn [nth_error] in H. change (firstn (S (S j)) (y :: r)) with (y :: firstn (S j) r).
    rewrite (IH j x H). reflexivity.
Qed.

(* the last component: what follows the last '/', or the whole path when there is none *)
Lemma last_component_char p :
  ~ In SLASH (last_component p) /\
  exists pre, p = pre ++ last_component p /\ (pre = [] \/ exists pre', pre = pre' ++ [SLASH]).
Proof.
  unfold last_component, after_last_slash.
  destruct (alsf_spec p 0 0) as [[H1 H2]|(j & H1 & H2 & H3)]; rewrite H1.
  - cbn [skipn]. split; [exact H2|]. exists []. split; [reflexivity|left; reflexivity].
  - replace (0 + j + 1) with (j + 1) by lia. split; [exact H3|].
    exists (firstn (j + 1) p). split; [symmetry; apply firstn_skipn|].
    right. exists (firstn j p). replace (j + 1) with (S j) by lia. apply firstn_S_nth. exact H2.
Qed.
