(* Proofs/FilterProofs.v — the model of Ignore::matched_dir_entry computes the documented fold. *)
From RG Require Import Base.Bytes Base.BytesFacts Model.IgnoreDir Spec.FilterSpec.

(* ---------------------------------------------------------------- small facts *)
Lemma m_or_none_l m : m_or MNone m = m.
Proof. reflexivity. Qed.
Lemma m_or_none_r m : m_or m MNone = m.
Proof. destruct m; reflexivity. Qed.
Lemma m_or_assoc a b c : m_or (m_or a b) c = m_or a (m_or b c).
Proof. destruct a, b, c; reflexivity. Qed.
Lemma m_or_if m x : (if m_is_none m then x else m) = m_or m x.
Proof. reflexivity. Qed.

Lemma nearest_cons m l : nearest (m :: l) = m_or m (nearest l).
Proof. destruct m; reflexivity. Qed.
Lemma nearest_app l1 l2 : nearest (l1 ++ l2) = m_or (nearest l1) (nearest l2).
Proof.
  induction l1 as [|m r IH]; [reflexivity|].
  cbn [app]. rewrite !nearest_cons, IH, m_or_assoc. reflexivity.
Qed.
Lemma nearest_all_none l : (forall m, In m l -> m = MNone) -> nearest l = MNone.
Proof.
  induction l as [|m r IH]; intro H; [reflexivity|].
  rewrite nearest_cons, (H m (or_introl eq_refl)), IH; [reflexivity|].
  intros x Hx. apply H. right. exact Hx.
Qed.

Lemma upto_repo_incl l : incl (upto_repo l) l.
Proof.
  induction l as [|d r IH]; cbn [upto_repo]; [apply incl_refl|].
  destruct (v_git d).
  - intros x [<-|[]]. left. reflexivity.
  - intros x [<-|Hx]; [left; reflexivity| right; apply IH; exact Hx].
Qed.

Lemma upto_repo_app l1 l2 :
  upto_repo (l1 ++ l2) = if existsb v_git l1 then upto_repo l1 else l1 ++ upto_repo l2.
Proof.
  induction l1 as [|d r IH]; [reflexivity|].
  cbn [app upto_repo existsb]. destruct (v_git d); cbn [orb]; [reflexivity|].
  rewrite IH. destruct (existsb v_git r); reflexivity.
Qed.

Lemma upto_repo_nogit l : existsb v_git l = false -> upto_repo l = l.
Proof.
  induction l as [|d r IH]; [reflexivity|]. cbn [existsb upto_repo].
  destruct (v_git d); cbn [orb]; [discriminate|]. intro H. rewrite IH; [reflexivity|exact H].
Qed.

(* directories that say nothing about a source do not change what the nearest one says, however
   the repository cut falls *)
Lemma nearest_upto_app_silent (f : dview -> mtch) l1 l2 :
  (forall d, In d l2 -> f d = MNone) ->
  nearest (map f (upto_repo (l1 ++ l2))) = nearest (map f (upto_repo l1)).
Proof.
  intro H. rewrite upto_repo_app. destruct (existsb v_git l1) eqn:E; [reflexivity|].
  rewrite (upto_repo_nogit l1 E), map_app, nearest_app.
  rewrite (nearest_all_none (map f (upto_repo l2))), m_or_none_r; [reflexivity|].
  intros m Hm. apply in_map_iff in Hm as (d & <- & Hd). apply H. apply (upto_repo_incl l2). exact Hd.
Qed.

Lemma nearest_app_silent (f : dview -> mtch) l1 l2 :
  (forall d, In d l2 -> f d = MNone) -> nearest (map f (l1 ++ l2)) = nearest (map f l1).
Proof.
  intro H. rewrite map_app, nearest_app, (nearest_all_none (map f l2)), m_or_none_r; [reflexivity|].
  intros m Hm. apply in_map_iff in Hm as (d & <- & Hd). apply H. exact Hd.
Qed.

(* ---------------------------------------------------------------- the scan loops *)
Lemma scan_fold ag p d a nodes : forall mc mi mg me saw,
  fold_left (scan_step ag p d) nodes (mc, mi, mg, me, saw) =
  (m_or mc (nearest (map v_custom (map (nview p d a) nodes))),
   m_or mi (nearest (map v_ignore (map (nview p d a) nodes))),
   (if ag && negb saw then m_or mg (nearest (map v_gi (upto_repo (map (nview p d a) nodes)))) else mg),
   (if ag && negb saw then m_or me (nearest (map v_excl (upto_repo (map (nview p d a) nodes)))) else me),
   saw || existsb v_git (map (nview p d a) nodes)).
Proof.
  induction nodes as [|n r IH]; intros mc mi mg me saw.
  - cbn [fold_left map nearest upto_repo existsb]. rewrite !m_or_none_r, orb_false_r.
    destruct (ag && negb saw); reflexivity.
  - cbn [fold_left]. unfold scan_step at 2. rewrite IH. clear IH.
    cbn [map upto_repo existsb]. cbn [nview v_git v_custom v_ignore v_gi v_excl].
    rewrite !nearest_cons. rewrite !m_or_if, !m_or_assoc.
    f_equal; [f_equal; [f_equal|]|].
    + destruct ag, saw, (nd_has_git n); cbn [andb negb orb]; try reflexivity.
      * cbn [map nearest v_gi nview]. rewrite !m_or_if. destruct mg, (nd_gi n p d); reflexivity.
      * cbn [map v_gi nview]. rewrite nearest_cons, !m_or_if, m_or_assoc. reflexivity.
    + destruct ag, saw, (nd_has_git n); cbn [andb negb orb]; try reflexivity.
      * cbn [map nearest v_excl nview]. rewrite !m_or_if. destruct me, (nd_excl n p d); reflexivity.
      * cbn [map v_excl nview]. rewrite nearest_cons, !m_or_if, m_or_assoc. reflexivity.
    + rewrite orb_assoc. reflexivity.
Qed.

Lemma explicit_scan_nearest gis p d : forall m,
  explicit_scan gis p d m = m_or m (nearest (map (fun g : gmatcher => g p d) gis)).
Proof.
  induction gis as [|g r IH]; intro m; cbn [explicit_scan map].
  - cbn [nearest]. rewrite m_or_none_r. reflexivity.
  - rewrite nearest_cons. destruct m; cbn [m_is_none negb]; try reflexivity.
    rewrite IH. reflexivity.
Qed.

Lemma existsb_map {A B} (f : B -> bool) (g : A -> B) l : existsb f (map g l) = existsb (fun x => f (g x)) l.
Proof. induction l as [|x r IH]; cbn; [reflexivity|]. rewrite IH. reflexivity. Qed.

Lemma view_git_all ig p0 d :
  existsb v_git (s_below (view_of ig p0 d) ++ s_above (view_of ig p0 d)) = existsb nd_has_git (ig_nodes ig).
Proof.
  unfold view_of. cbn [s_below s_above].
  transitivity (existsb nd_has_git (take_while (fun n => negb (nd_abs n)) (ig_nodes ig)
                                    ++ drop_while (fun n => negb (nd_abs n)) (ig_nodes ig)));
    [|rewrite take_drop_while; reflexivity].
  rewrite !existsb_app. f_equal.
  - rewrite existsb_map. reflexivity.
  - destruct (ig_abs_base ig); rewrite existsb_map; reflexivity.
Qed.

Ltac fin6 := rewrite ?nearest_cons; change (nearest (@nil mtch)) with MNone;
             rewrite ?m_or_none_r, ?m_or_none_l, ?m_or_assoc; reflexivity.

(* matched_ignore = the six sources in precedence order *)
Lemma matched_ignore_eq_spec ig p0 d :
  matched_ignore ig (strip_dot_slash p0) d = ignore_stage (sh_opts (ig_sh ig)) (view_of ig p0 d).
Proof.
  unfold ignore_stage, stage_sources, in_repo. rewrite view_git_all.
  unfold matched_ignore.
  set (o := sh_opts (ig_sh ig)). set (p := strip_dot_slash p0).
  set (ag := negb (o_require_git o) || existsb nd_has_git (ig_nodes ig)).
  set (below := take_while (fun n => negb (nd_abs n)) (ig_nodes ig)).
  set (above := drop_while (fun n => negb (nd_abs n)) (ig_nodes ig)).
  rewrite (scan_fold ag p d false below).
  rewrite !m_or_none_l. cbn [negb andb]. rewrite andb_true_r.
  unfold view_of. cbn [s_below s_above s_global s_explicit]. fold p below above.
  rewrite explicit_scan_nearest, m_or_none_l.
  unfold heard.
  destruct (o_parents o) eqn:EP.
  - destruct (ig_abs_base ig) as [b|] eqn:EB.
    + rewrite (scan_fold ag (rebase b (self_dir ig) p) d true above).
      rewrite !map_app, !nearest_app, upto_repo_app.
      cbn [orb].
      destruct ag; cbn [andb];
        destruct (existsb v_git (map (nview p d false) below)) eqn:EG; cbn [negb];
        try rewrite (upto_repo_nogit _ EG); rewrite ?map_app, ?nearest_app; fin6.
    + rewrite (nearest_app_silent v_custom), (nearest_app_silent v_ignore),
        (nearest_upto_app_silent v_gi), (nearest_upto_app_silent v_excl);
        try (intros x Hx; apply in_map_iff in Hx as (n & <- & _); reflexivity).
      destruct ag; fin6.
  - destruct ag; fin6.
Qed.

(* ---------------------------------------------------------------- file_name *)
Lemma file_name_eq_spec p : file_name p = name_spec p.
Proof. destruct p; reflexivity. Qed.

Lemma is_hidden_eq_spec p : is_hidden p = hidden_spec p.
Proof. unfold is_hidden, is_hidden_with, hidden_spec. rewrite file_name_eq_spec. destruct (name_spec p) as [[|c r]|]; reflexivity. Qed.

(* ---------------------------------------------------------------- the whole decision *)
Lemma matched_dir_entry_eq_spec ig p0 d :
  matched_dir_entry ig p0 d = decide_spec (sh_opts (ig_sh ig)) (view_of ig p0 d).
Proof.
  unfold matched_dir_entry, matched_dir_entry_with, matched_with.
  fold (strip_dot_slash p0). rewrite matched_ignore_eq_spec.
  fold (is_hidden p0). rewrite is_hidden_eq_spec.
  unfold decide_spec.
  replace (s_overrides (view_of ig p0 d)) with
      (override_matched (sh_overrides (ig_sh ig)) (strip_dot_slash p0) d) by reflexivity.
  replace (s_any_rules (view_of ig p0 d)) with (has_any_ignore_rules ig) by reflexivity.
  replace (s_types (view_of ig p0 d)) with
      (if ty_is_empty (sh_types (ig_sh ig)) then MNone
       else types_matched (sh_types (ig_sh ig)) (strip_dot_slash p0) d) by reflexivity.
  replace (s_hidden (view_of ig p0 d)) with (hidden_spec p0) by reflexivity.
  assert (HO : (if negb (ov_is_empty (sh_overrides (ig_sh ig)))
                then override_matched (sh_overrides (ig_sh ig)) (strip_dot_slash p0) d else MNone)
               = override_matched (sh_overrides (ig_sh ig)) (strip_dot_slash p0) d).
  { unfold override_matched. destruct (ov_is_empty (sh_overrides (ig_sh ig))); reflexivity. }
  rewrite HO. clear HO.
  destruct (override_matched (sh_overrides (ig_sh ig)) (strip_dot_slash p0) d); cbn [m_is_none negb]; try reflexivity.
  fold types_matched.
  destruct (has_any_ignore_rules ig);
    [destruct (ignore_stage (sh_opts (ig_sh ig)) (view_of ig p0 d))|];
    cbn [m_is_ignore m_is_whitelist m_is_none];
    destruct (ty_is_empty (sh_types (ig_sh ig))); cbn [negb m_is_ignore m_is_whitelist m_is_none andb];
    try destruct (types_matched (sh_types (ig_sh ig)) (strip_dot_slash p0) d);
    cbn [m_is_ignore m_is_whitelist m_is_none andb]; try reflexivity;
    destruct (o_hidden (sh_opts (ig_sh ig))), (hidden_spec p0); reflexivity.
Qed.

(* ---------------------------------------------------------------- precedence facts on the fold *)
(* the first source (in documented order) with an opinion decides the ignore stage *)
Lemma nearest_first_opinion l k m :
  nth_error l k = Some m -> m <> MNone -> (forall j x, j < k -> nth_error l j = Some x -> x = MNone) -> nearest l = m.
Proof.
  revert l; induction k as [|k IH]; intros [|x r] Hk Hm Hbefore; try discriminate.
  - cbn in Hk. injection Hk as ->. destruct m; [contradiction| reflexivity| reflexivity].
  - cbn in Hk. rewrite nearest_cons, (Hbefore 0 x (Nat.lt_0_succ k) eq_refl), m_or_none_l.
    apply IH; [exact Hk|exact Hm|]. intros j y Hj Hy. apply (Hbefore (S j) y); [lia|exact Hy].
Qed.

Lemma whitelist_does_not_beat_earlier_ignore_proof o s k :
  s_overrides s = MNone -> s_any_rules s = true ->
  nth_error (stage_sources o s) k = Some MIgnore ->
  (forall j x, j < k -> nth_error (stage_sources o s) j = Some x -> x = MNone) ->
  decide_spec o s = MIgnore.
Proof.
  intros HO HA Hk Hb. unfold decide_spec. rewrite HO, HA. unfold ignore_stage.
  rewrite (nearest_first_opinion _ k MIgnore Hk); [reflexivity|discriminate|exact Hb].
Qed.

Lemma whitelist_beats_hidden_not_types_proof o s :
  s_overrides s = MNone -> s_any_rules s = true -> ignore_stage o s = MWhitelist ->
  decide_spec o s = match s_types s with MIgnore => MIgnore | _ => MWhitelist end.
Proof.
  intros HO HA HW. unfold decide_spec. rewrite HO, HA, HW. destruct (s_types s); reflexivity.
Qed.

(* ---------------------------------------------------------------- explicit paths *)
Lemma explicit_path_always_searched_proof f c md roots p :
  In (RFile p) roots -> In p (rg_files f c md roots).
Proof.
  intro H. unfold rg_files, lib_files. apply in_flat_map. exists (RFile p). split; [exact H|].
  cbn [walk_root]. left. reflexivity.
Qed.

(* entries met during traversal are listed only if the decision is not Ignore *)
Lemma walk_entry_file_listed md ig dir depth name :
  walk_entry md ig dir depth (TFile name) =
    if depth_ok md depth && negb (m_is_ignore (decide_spec (sh_opts (ig_sh ig)) (view_of ig (path_join dir name) false)))
    then [path_join dir name] else [].
Proof.
  cbn [walk_entry]. unfold should_skip_entry. rewrite matched_dir_entry_eq_spec.
  destruct (depth_ok md depth); cbn [negb andb]; [|reflexivity].
  destruct (m_is_ignore _); reflexivity.
Qed.
