(* Proofs/LitePlanProofs.v — the concrete plan of the C14 model (`lite_plan`, Model/BinaryDetect.v) is the
   sequence of sink calls of the Core model of C02/C03 (Model/SearcherCore.v, Model/Glue.v) for searches
   without context lines.  Route: Props/C03 `slice_eq_ref` (Core = grep reference) + the grep reference of a
   context-free configuration read off the list of lines = the events of the plan. *)
From RG Require Import Base.Bytes Model.Lines Model.SearcherCore Model.Glue Spec.GrepSpec
  Model.LineBufferBin Model.BinaryDetect Model.LitePlanCore
  Proofs.LinesProofs Proofs.FastPathProofs.

(* ---- the translation forgets the line number only ---- *)
Lemma ev14_inj e1 e2 : ev14 e1 = ev14 e2 -> strip_lnum e1 = strip_lnum e2.
Proof.
  destruct e1 as [|o1 n1 b1|k1 o1 n1 b1| |o1|c1 x1], e2 as [|o2 n2 b2|k2 o2 n2 b2| |o2|c2 x2];
    cbn [ev14 strip_lnum]; intro H; try discriminate H; try reflexivity.
  - injection H as -> ->. reflexivity.
  - injection H as Hk -> ->. destruct k1, k2; try discriminate Hk; reflexivity.
  - injection H as ->. reflexivity.
  - injection H as -> ->. reflexivity.
Qed.

(* ---- lite_calls is plan_calls ---- *)
Lemma lite_calls_plan needles invert passthru n rs :
  lite_calls needles invert passthru n rs =
  plan_calls (fun line => negb (Bool.eqb (existsb (fun x => contains x line) needles) invert)) invert passthru n rs.
Proof.
  induction rs as [|[[s e] l] rs IH]; [reflexivity|].
  cbn [lite_calls plan_calls]. rewrite IH. reflexivity.
Qed.

(* plan_calls depends on the verdict function only through the lines present *)
Lemma plan_calls_ext f g fi pt n rs :
  Forall (fun r => f (snd r) = g (snd r)) rs -> plan_calls f fi pt n rs = plan_calls g fi pt n rs.
Proof.
  induction 1 as [|[[s e] l] rs Hh _ IH]; [reflexivity|].
  cbn [plan_calls]. cbn [snd] in Hh. rewrite IH, Hh. reflexivity.
Qed.

(* ---- line_ranges = the ranges of split_lines ---- *)
Definition glue (p : bytes) (ls : list bytes) : list bytes :=
  match ls with
  | [] => match p with [] => [] | _ => [p] end
  | x :: xs => (p ++ x) :: xs
  end.

Lemma glue_nil ls : glue [] ls = ls.
Proof. destruct ls; reflexivity. Qed.

Lemma glue_glue p x ls : glue p (glue [x] ls) = glue (p ++ [x]) ls.
Proof.
  destruct ls as [|y ys]; cbn [glue].
  - destruct p; reflexivity.
  - cbn [app]. rewrite <- app_assoc. reflexivity.
Qed.

Lemma split_lines_cons ltb b r :
  split_lines ltb (b :: r) = if (b =? ltb)%N then [b] :: split_lines ltb r else glue [b] (split_lines ltb r).
Proof. cbn [split_lines]. destruct (b =? ltb)%N; [reflexivity|]. destruct (split_lines ltb r); reflexivity. Qed.

Lemma line_ranges_split ltb : forall l s i cur, i = s + length cur ->
  line_ranges ltb l s i cur = ranges_of s (glue (rev cur) (split_lines ltb l)).
Proof.
  induction l as [|x xs IH]; intros s i cur Hi.
  - cbn [line_ranges split_lines glue]. destruct cur as [|a c]; [reflexivity|].
    cbn [rev]. destruct (rev c ++ [a]) as [|y ys] eqn:E; [destruct (rev c); discriminate E|].
    rewrite <- E. cbn [ranges_of]. rewrite app_length, rev_length. cbn [length] in *. subst i.
    f_equal. f_equal. f_equal. lia.
  - cbn [line_ranges]. rewrite split_lines_cons. destruct (x =? ltb)%N.
    + cbn [glue ranges_of rev]. rewrite (IH (S i) (S i) []) by (cbn [length]; lia).
      cbn [rev]. rewrite glue_nil.
      rewrite app_length, rev_length. cbn [length]. subst i.
      replace (s + (length cur + 1)) with (S (s + length cur)) by lia. reflexivity.
    + rewrite glue_glue. rewrite (IH s (S i) (x :: cur)) by (cbn [length]; lia). reflexivity.
Qed.

Lemma line_ranges_split0 ltb l : line_ranges ltb l 0 0 [] = ranges_of 0 (split_lines ltb l).
Proof. rewrite (line_ranges_split ltb l 0 0 []) by reflexivity. cbn [rev]. now rewrite glue_nil. Qed.

(* ---- the ranges point at their lines ---- *)
Lemma sub_mid' {A} (u m v : list A) : sub (u ++ m ++ v) (length u) (length u + length m) = m.
Proof.
  unfold sub. replace (length u + length m - length u) with (length m) by lia.
  rewrite skipn_app, skipn_all, Nat.sub_diag. cbn [skipn app].
  rewrite firstn_app, firstn_all, Nat.sub_diag. cbn [firstn]. apply app_nil_r.
Qed.

Definition range_ok (buf : bytes) (r : nat * nat * bytes) : Prop :=
  sub buf (fst (fst r)) (snd (fst r)) = snd r.

Lemma ranges_of_ok : forall ls pre, Forall (range_ok (pre ++ concat ls)) (ranges_of (length pre) ls).
Proof.
  induction ls as [|l ls IH]; intro pre; [constructor|].
  cbn [ranges_of concat]. constructor.
  - unfold range_ok. cbn [fst snd]. apply sub_mid'.
  - specialize (IH (pre ++ l)). rewrite app_length, <- app_assoc in IH. exact IH.
Qed.

Lemma ranges_of_lines off ls : map snd (ranges_of off ls) = ls.
Proof. revert off. induction ls as [|l ls IH]; intro off; [reflexivity|]. cbn [ranges_of map snd]. now rewrite IH. Qed.

(* ---- the events of a plan ---- *)
Definition rng_ev (sc : bytes -> bool) (pt : bool) (r : nat * nat * bytes) : list BinaryDetect.event :=
  if sc (snd r) then [BinaryDetect.EMatched (fst (fst r)) (snd r)]
  else if pt then [BinaryDetect.EContext KOther (fst (fst r)) (snd r)] else [].

Lemma plan_calls_events sc fi pt n buf rs : Forall (range_ok buf) rs ->
  map (call_event 0 buf) (fst (plan_calls sc fi pt n rs)) = flat_map (rng_ev sc pt) rs.
Proof.
  induction 1 as [|[[s e] l] rs Hh _ IH]; [reflexivity|].
  cbn [plan_calls flat_map]. destruct (plan_calls sc fi pt n rs) as [rest nxt]. cbn [fst] in IH.
  unfold range_ok in Hh. cbn [fst snd] in Hh. unfold rng_ev at 1. cbn [fst snd].
  destruct (sc l).
  - cbn [fst map app]. rewrite IH. unfold call_event. cbn [c_matched c_start c_end]. rewrite Hh. reflexivity.
  - destruct pt; cbn [fst map app]; rewrite IH; [|reflexivity].
    unfold call_event. cbn [c_matched c_start c_end c_kind]. rewrite Hh. reflexivity.
Qed.

(* ---- the grep reference without context ---- *)
Section CF.
  Variable cfg : config.
  Variable im : bytes -> bool.
  Hypothesis Hb : c_before cfg = 0.
  Hypothesis Ha : c_after cfg = 0.
  Hypothesis Hs : c_stop_on_nonmatch cfg = false.

  Definition scf (l : bytes) : bool := negb (Bool.eqb (im (without_terminator (c_lt cfg) l)) (c_invert cfg)).

  Lemma g_step_cf st a : g_after st = 0 -> g_stopped st = false ->
    g_after (g_step cfg im st a) = 0 /\ g_stopped (g_step cfg im st a) = false /\
    g_off (g_step cfg im st a) = g_off st + length a /\
    map ev14 (g_out (g_step cfg im st a)) =
      rev (rng_ev scf (c_passthru cfg) (g_off st, g_off st + length a, a)) ++ map ev14 (g_out st).
  Proof.
    intros H0 H1. unfold g_step, g_step_s, rng_ev. cbn [fst snd]. fold (scf a).
    rewrite H1, Hs, H0, Hb, Ha. unfold any_context. rewrite Hb, Ha.
    destruct (scf a); cbn -[Nat.ltb]; [repeat split; reflexivity|].
    destruct (c_passthru cfg); cbn; repeat split; reflexivity.
  Qed.

  Lemma g_run_cf : forall ls st, g_after st = 0 -> g_stopped st = false ->
    g_off (fold_left (g_step cfg im) ls st) = g_off st + length (concat ls) /\
    map ev14 (g_out (fold_left (g_step cfg im) ls st)) =
      rev (flat_map (rng_ev scf (c_passthru cfg)) (ranges_of (g_off st) ls)) ++ map ev14 (g_out st).
  Proof.
    induction ls as [|a ls IH]; intros st H0 H1.
    - cbn. split; [lia|reflexivity].
    - cbn [fold_left ranges_of flat_map concat].
      destruct (g_step_cf st a H0 H1) as (G0 & G1 & G2 & G3).
      destruct (IH _ G0 G1) as (I1 & I2). split.
      + rewrite I1, G2, app_length. lia.
      + rewrite I2, G2, G3, rev_app_distr, app_assoc. reflexivity.
  Qed.

  Lemma grep_ref_cf s :
    map ev14 (grep_ref cfg im s) =
    BinaryDetect.EBegin :: map (call_event 0 s) (core_plan cfg im s) ++ [BinaryDetect.EFinish (length s) None].
  Proof.
    unfold grep_ref, g_run, core_plan.
    destruct (g_run_cf (split_lines (lt_byte (c_lt cfg)) s) g_init eq_refl eq_refl) as (I1 & I2).
    cbn [map ev14]. rewrite map_app, map_rev, I2, I1. cbn [g_init g_off g_out map ev14 Nat.add].
    rewrite app_nil_r, rev_involutive, split_lines_concat.
    rewrite line_ranges_split0.
    rewrite (plan_calls_events _ _ _ _ s).
    - reflexivity.
    - pose proof (ranges_of_ok (split_lines (lt_byte (c_lt cfg)) s) []) as H.
      cbn [app length] in H. rewrite split_lines_concat in H. exact H.
  Qed.
End CF.

(* ---- the statement for Props/C14.v ---- *)
Notation K := (fun _ : nat => Continue).

Theorem core_plan_eq_core_proof :
  forall (cfg : config) (M : matcher),
    c_binary cfg = SearcherCore.BNone -> c_before cfg = 0 -> c_after cfg = 0 -> c_stop_on_nonmatch cfg = false ->
    forall s : bytes, find_spec cfg M s ->
    result14 (slice_by_line_run cfg M K s) =
    Some (BinaryDetect.EBegin :: map (call_event 0 s) (core_plan cfg (m_is_match M) s)
          ++ [BinaryDetect.EFinish (length s) None]).
Proof.
  intros cfg M Hbin Hb Ha Hs s Hf.
  rewrite (slice_eq_ref_proof cfg M Hbin s Hf). cbn [result14]. f_equal.
  apply grep_ref_cf; assumption.
Qed.

(* the matcher of the C14 runs: a line is matched iff one of the needles occurs in it *)
Definition needle_matcher (cfg : config) (M : matcher) (needles : list bytes) (s : bytes) : Prop :=
  Forall (fun line => m_is_match M (without_terminator (c_lt cfg) line) = existsb (fun x => contains x line) needles)
         (split_lines (lt_byte (c_lt cfg)) s).

Lemma core_plan_lite cfg M needles s : needle_matcher cfg M needles s ->
  core_plan cfg (m_is_match M) s = lite_plan needles (c_invert cfg) (c_passthru cfg) (lt_byte (c_lt cfg)) s.
Proof.
  intro H. unfold needle_matcher in H. unfold core_plan, lite_plan. rewrite lite_calls_plan. f_equal.
  apply plan_calls_ext. rewrite line_ranges_split0.
  rewrite <- (ranges_of_lines 0 (split_lines (lt_byte (c_lt cfg)) s)) in H.
  rewrite Forall_map in H. revert H. apply Forall_impl. intros r Hr. now rewrite Hr.
Qed.

Theorem lite_plan_eq_core_proof :
  forall (cfg : config) (M : matcher) (needles : list bytes),
    c_binary cfg = SearcherCore.BNone -> c_before cfg = 0 -> c_after cfg = 0 -> c_stop_on_nonmatch cfg = false ->
    forall s : bytes, find_spec cfg M s -> needle_matcher cfg M needles s ->
    result14 (slice_by_line_run cfg M K s) =
    Some (BinaryDetect.EBegin
          :: map (call_event 0 s) (lite_plan needles (c_invert cfg) (c_passthru cfg) (lt_byte (c_lt cfg)) s)
          ++ [BinaryDetect.EFinish (length s) None]).
Proof.
  intros cfg M needles Hbin Hb Ha Hs s Hf Hn.
  rewrite <- (core_plan_lite cfg M needles s Hn). apply core_plan_eq_core_proof; assumption.
Qed.

(* ---- the same, run against run: the C14 slice run over lite_plan with the always-continuing sink and
        detection off delivers the events of the Core model's SliceByLine::run ---- *)
Lemma plan_calls_no_break sc fi pt n rs : Forall (fun c => c_break c = false) (fst (plan_calls sc fi pt n rs)).
Proof.
  induction rs as [|[[s e] l] rs IH]; [constructor|].
  cbn [plan_calls]. destruct (plan_calls sc fi pt n rs) as [rest nxt]. cbn [fst] in IH.
  destruct (sc l); cbn [fst]; [constructor; [reflexivity|exact IH]|].
  destruct pt; cbn [app]; [constructor; [reflexivity|exact IH]|exact IH].
Qed.

Lemma run_calls_K buf : forall cs tr, Forall (fun c => c_break c = false) cs ->
  run_calls sink_K LineBufferBin.BNone true 0 buf cs None (tt, tr) =
  (None, None, (tt, rev (map (call_event 0 buf) cs) ++ tr)).
Proof.
  induction cs as [|c cs IH]; intros tr H; [reflexivity|].
  inversion H as [|? ? Hc Hcs]; subst. cbn [run_calls map rev].
  assert (E : sink_call sink_K LineBufferBin.BNone true 0 buf c None (tt, tr) = (true, None, (tt, call_event 0 buf c :: tr))).
  { unfold sink_call, guard, BinaryDetect.detect_binary, emit_break. rewrite Hc.
    destruct (negb (c_matched c) && match c_kind c with KBefore => true | _ => false end); cbn;
      destruct (c_matched c); reflexivity. }
  rewrite E. rewrite IH by exact Hcs. rewrite <- app_assoc. reflexivity.
Qed.

Lemma slice_run_K cap buf cs n : Forall (fun c => c_break c = false) cs ->
  rev (snd (slice_run sink_K LineBufferBin.BNone cap buf cs n (tt, []))) =
  BinaryDetect.EBegin :: map (call_event 0 buf) cs ++ [BinaryDetect.EFinish n None].
Proof.
  intro H. unfold slice_run. cbn [BinaryDetect.emit sink_K fst snd BinaryDetect.detect_binary].
  rewrite run_calls_K by exact H. cbn [BinaryDetect.byte_count fst snd rev].
  rewrite rev_app_distr, rev_involutive. reflexivity.
Qed.

Theorem slice_run_lite_eq_core_proof :
  forall (cfg : config) (M : matcher) (needles : list bytes) (cap : nat),
    c_binary cfg = SearcherCore.BNone -> c_before cfg = 0 -> c_after cfg = 0 -> c_stop_on_nonmatch cfg = false ->
    forall s : bytes, find_spec cfg M s -> needle_matcher cfg M needles s ->
    result14 (slice_by_line_run cfg M K s) =
    Some (rev (snd (slice_run sink_K LineBufferBin.BNone cap s
                      (lite_plan needles (c_invert cfg) (c_passthru cfg) (lt_byte (c_lt cfg)) s) (length s) (tt, [])))).
Proof.
  intros cfg M needles cap Hbin Hb Ha Hs s Hf Hn.
  rewrite slice_run_K.
  - apply lite_plan_eq_core_proof; assumption.
  - unfold lite_plan. rewrite lite_calls_plan. apply plan_calls_no_break.
Qed.
