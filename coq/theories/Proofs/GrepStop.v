(* Proofs/GrepStop.v — stop-on-nonmatch, read declaratively: the grep reference with
   stop_on_nonmatch = true delivers exactly what the reference without it delivers on the input
   truncated after the first non-result line that follows a result.  So every statement of
   GrepSpecProofs.v / GrepBreaks.v (proved for stop_on_nonmatch = false) describes the stopped
   search too, on the truncated list of lines. *)
From RG Require Import Base.Bytes Model.Lines Model.SearcherCore Spec.GrepSpec.

Section Stop.
  Variable cfg : config.
  Variable is_match : bytes -> bool.
  Hypothesis Hstop : c_stop_on_nonmatch cfg = true.

  Definition nostop : config :=
    {| c_lt := c_lt cfg; c_invert := c_invert cfg; c_after := c_after cfg; c_before := c_before cfg;
       c_passthru := c_passthru cfg; c_line_number := c_line_number cfg; c_stop_on_nonmatch := false;
       c_binary := c_binary cfg; c_multi_line := c_multi_line cfg |}.

  Definition sc (l : bytes) : bool := negb (Bool.eqb (is_match (without_terminator (c_lt cfg) l)) (c_invert cfg)).

  (* the lines up to and including the first non-result line after a result ([m]: a result was seen) *)
  Fixpoint trunc (m : bool) (ls : list bytes) : list bytes :=
    match ls with
    | [] => []
    | l :: r => if sc l then l :: trunc true r else if m then [l] else l :: trunc false r
    end.

  Lemma trunc_prefix : forall ls m, exists rest, ls = trunc m ls ++ rest.
  Proof.
    induction ls as [|l r IH]; intro m; [exists []; reflexivity|]. cbn [trunc].
    destruct (sc l).
    - destruct (IH true) as [rest E]. exists rest. cbn. now rewrite <- E.
    - destruct m.
      + exists r. reflexivity.
      + destruct (IH false) as [rest E]. exists rest. cbn. now rewrite <- E.
  Qed.

  (* something is cut only after a non-result line that follows a result *)
  Lemma trunc_cut : forall ls m rest, ls = trunc m ls ++ rest -> rest <> [] ->
    exists pre l, trunc m ls = pre ++ [l] /\ sc l = false /\ (m = true \/ Exists (fun x => sc x = true) pre).
  Proof.
    induction ls as [|l r IH]; intros m rest E Hne.
    - cbn in E. subst rest. congruence.
    - cbn [trunc] in *. destruct (sc l) eqn:El.
      + injection E as E. destruct (IH true rest E Hne) as (pre & x & Ht & Hx & _).
        exists (l :: pre), x. rewrite Ht. split; [reflexivity|]. split; [exact Hx|]. right. now constructor.
      + destruct m.
        * exists [], l. split; [reflexivity|]. split; [exact El|]. now left.
        * injection E as E. destruct (IH false rest E Hne) as (pre & x & Ht & Hx & [Hm|Hex]); [discriminate|].
          exists (l :: pre), x. rewrite Ht. split; [reflexivity|]. split; [exact Hx|]. right. now constructor 2.
  Qed.

  (* same state up to the stopped flag *)
  Definition same (g g' : gstate) : Prop :=
    g_lnum g = g_lnum g' /\ g_off g = g_off g' /\ g_pend g = g_pend g' /\ g_after g = g_after g' /\
    g_sunk g = g_sunk g' /\ g_matched g = g_matched g' /\ g_out g = g_out g'.

  Lemma fold_stopped ls g : g_stopped g = true -> fold_left (g_step cfg is_match) ls g = g.
  Proof.
    intro H. induction ls as [|l r IH]; [reflexivity|]. cbn [fold_left].
    unfold g_step at 2. unfold g_step_s. rewrite H. exact IH.
  Qed.

  Lemma stop_trunc : forall ls g g',
    same g g' -> g_stopped g = false -> g_stopped g' = false ->
    same (fold_left (g_step cfg is_match) ls g) (fold_left (g_step nostop is_match) (trunc (g_matched g) ls) g').
  Proof.
    induction ls as [|l r IH]; intros g g' Hs Hn Hn'; [exact Hs|].
    destruct Hs as (S1 & S2 & S3 & S4 & S5 & S6 & S7).
    cbn [fold_left trunc].
    assert (Hsc : negb (Bool.eqb (is_match (without_terminator (c_lt nostop) l)) (c_invert nostop)) = sc l) by reflexivity.
    destruct (sc l) eqn:El.
    - (* a result line: both step alike, nobody stops *)
      cbn [fold_left].
      set (g1 := g_step cfg is_match g l). set (g1' := g_step nostop is_match g' l).
      assert (H1 : same g1 g1' /\ g_stopped g1 = false /\ g_stopped g1' = false /\ g_matched g1 = true).
      { unfold g1, g1', g_step. rewrite Hsc. fold (sc l). rewrite El. unfold g_step_s. rewrite Hn, Hn'.
        unfold same. cbn. rewrite S1, S2, S3, S5, S7. unfold any_context, lnum_of. cbn. auto 10. }
      destruct H1 as (H1 & H2 & H3 & H4). rewrite <- H4. apply IH; assumption.
    - destruct (g_matched g) eqn:Em.
      + (* the search stops here *)
        cbn [fold_left].
        set (g1 := g_step cfg is_match g l). set (g1' := g_step nostop is_match g' l).
        assert (H1 : same g1 g1' /\ g_stopped g1 = true).
        { unfold g1, g1', g_step. rewrite Hsc. fold (sc l). rewrite El. unfold g_step_s. rewrite Hn, Hn'.
          rewrite Hstop, Em. cbn [negb andb]. rewrite <- S4.
          destruct (Nat.leb 1 (g_after g)); [|change (c_passthru nostop) with (c_passthru cfg); destruct (c_passthru cfg)];
            unfold same; cbn; rewrite ?S1, ?S2, ?S3, ?S5, ?S7; unfold lnum_of; cbn; rewrite <- ?S6, ?Em; auto 10. }
        destruct H1 as (H1 & H2). rewrite fold_stopped by exact H2. exact H1.
      + (* no result yet: the line is skipped or kept pending, nobody stops *)
        set (g1 := g_step cfg is_match g l). set (g1' := g_step nostop is_match g' l).
        assert (H1 : same g1 g1' /\ g_stopped g1 = false /\ g_stopped g1' = false /\ g_matched g1 = false).
        { unfold g1, g1', g_step. rewrite Hsc. fold (sc l). rewrite El. unfold g_step_s. rewrite Hn, Hn'.
          rewrite Hstop, Em. cbn [negb andb]. rewrite <- S4.
          destruct (Nat.leb 1 (g_after g)); [|change (c_passthru nostop) with (c_passthru cfg); destruct (c_passthru cfg)];
            unfold same; cbn; rewrite ?S1, ?S2, ?S3, ?S5, ?S7; unfold lnum_of; cbn; rewrite <- ?S6, ?Em; auto 10. }
        destruct H1 as (H1 & H2 & H3 & H4). rewrite <- H4. apply IH; assumption.
  Qed.

  Theorem stop_on_nonmatch_is_truncation_proof : forall ls,
    let g := g_run cfg is_match ls in
    let g' := g_run nostop is_match (trunc false ls) in
    g_out g = g_out g' /\ g_off g = g_off g' /\ exists rest, ls = trunc false ls ++ rest.
  Proof.
    intro ls. cbv zeta. unfold g_run.
    destruct (stop_trunc ls g_init g_init) as (_ & S2 & _ & _ & _ & _ & S7); try reflexivity.
    { unfold same. auto 10. }
    split; [exact S7|]. split; [exact S2|]. apply trunc_prefix.
  Qed.
End Stop.
