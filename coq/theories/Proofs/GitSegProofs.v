(* Proofs/GitSegProofs.v — for every pattern of the documented grammar (segment form) and every path of
   separator-free components: the regex meaning (tmatch, literal_separator on) of the tokens ripgrep produces,
   on the '/'-joined path, equals git's component-wise matching (cmatch). *)
From RG Require Import Base.Bytes Base.BytesFacts Model.Glob Model.GlobSet Spec.GlobSem Spec.GlobSetSem
  Model.Gitignore Spec.GitSem Spec.GitGrammar
  Proofs.GlobSemProofs Proofs.GlobPathProofs Proofs.GlobStrategyProofs Proofs.GitSemProofs.

Section Seg.
Variable o : gopts.
Variable ci : bool.
Hypothesis Hci : case_insensitive o = ci.
Hypothesis Hls : literal_separator o = true.

(* the rest of a path after a component: every remaining component preceded by '/' *)
Definition tail_bytes (cs : list bytes) : bytes := flat_map (fun x => 47%N :: x) cs.

Lemma join_cons c cs : join (c :: cs) = c ++ tail_bytes cs.
Proof. reflexivity. Qed.

(* a continuation that only accepts the end of the path or a component boundary *)
Definition boundary_k (k : bytes -> bool) : Prop := forall b s, b <> 47%N -> k (b :: s) = false.

Lemma lit_match_w1 x b : lit_match o x b = w1 ci (WLit x) b.
Proof. unfold lit_match, w1. rewrite Hci. reflexivity. Qed.

Lemma class_match_w1 neg rs b : class_match o neg rs b = w1 ci (WClass neg rs) b.
Proof. unfold class_match, w1. rewrite Hci. destruct ci; cbn [andb]; rewrite ?orb_false_r; reflexivity. Qed.

Lemma wild_ok_ls b : wild_ok o b = negb (b =? 47)%N.
Proof. unfold wild_ok. now rewrite Hls. Qed.

Lemma lower_47 x : (lower x =? lower 47)%N = (x =? 47)%N.
Proof.
  unfold lower. change (up 47) with false. cbv iota. unfold up.
  destruct ((65 <=? x)%N && (x <=? 90)%N) eqn:E; [|reflexivity].
  apply andb_true_iff in E as [E1 E2]. apply N.leb_le in E1, E2.
  assert (x + 32 <> 47)%N by lia. assert (x <> 47)%N by lia.
  rewrite (proj2 (N.eqb_neq _ _) H), (proj2 (N.eqb_neq _ _) H0). reflexivity.
Qed.

Lemma w1_slash w : wtok_ok w = true -> w <> WStar -> w1 ci w 47 = false \/ w = WAny.
Proof.
  destruct w as [x| | |neg rs]; cbn [wtok_ok]; intros H Hs; try congruence; auto.
  - left. cbn [w1]. destruct ci; [rewrite lower_47|]; now apply negb_true_iff in H.
  - left. apply andb_true_iff in H as [Hn Hr]. apply negb_true_iff in Hn, Hr. subst neg.
    cbn [w1]. change (other_case 47) with 47%N. rewrite Hr. now destruct ci.
Qed.

(* one component: the tokens of a component pattern consume exactly one whole component *)
Lemma comp_match ws : forall (R : list token) (k0 : bytes -> bool) (c r' : bytes),
  forallb wtok_ok ws = true ->
  boundary_k (tmk o R k0) ->
  has 47 c = false -> (r' = [] \/ exists s, r' = 47%N :: s) ->
  tmk o (toks ws ++ R) k0 (c ++ r') = wmatch ci ws c && tmk o R k0 r'.
Proof.
  induction ws as [|w ws IH]; intros R k0 c r' Hok Hb Hc Hr.
  - cbn [toks map app wmatch]. destruct c as [|b c]; [reflexivity|].
    rewrite has_cons in Hc. apply orb_false_iff in Hc as [Hb1 _]. cbn [app].
    apply Hb. intros ->. discriminate.
  - cbn [forallb] in Hok. apply andb_true_iff in Hok as [Hw Hok].
    assert (Hslash : forall s, r' = 47%N :: s -> True) by auto.
    destruct w as [x| | |neg rs].
    + (* literal *)
      cbn [toks map tok_of app tmk tok_k]. fold (toks ws).
      destruct c as [|b c]; cbn [app].
      * destruct Hr as [->|(s & ->)]; [reflexivity|]. cbn [one_k wmatch]. rewrite lit_match_w1.
        destruct (w1_slash (WLit x) Hw ltac:(discriminate)) as [->|F]; [reflexivity|discriminate].
      * cbn [one_k wmatch]. rewrite has_cons in Hc. apply orb_false_iff in Hc as [_ Hc].
        rewrite lit_match_w1, IH by assumption. now rewrite andb_assoc.
    + (* ? *)
      cbn [toks map tok_of app tmk tok_k]. fold (toks ws).
      destruct c as [|b c]; cbn [app].
      * destruct Hr as [->|(s & ->)]; [reflexivity|]. cbn [one_k wmatch]. now rewrite wild_ok_ls.
      * cbn [one_k wmatch w1]. rewrite has_cons in Hc. apply orb_false_iff in Hc as [Hb1 Hc].
        rewrite wild_ok_ls, (N.eqb_sym b 47), Hb1. cbn [negb andb]. now apply IH.
    + (* * *)
      cbn [toks map tok_of app tmk tok_k]. fold (toks ws). cbn [wmatch].
      induction c as [|b c IHc]; cbn [app].
      * pose proof (IH R k0 [] r' Hok Hb eq_refl Hr) as Hbase. cbn [app] in Hbase.
        destruct Hr as [->|(s & ->)]; cbn [star_k].
        -- rewrite Hbase. now rewrite !orb_false_r.
        -- rewrite Hbase, wild_ok_ls, N.eqb_refl. cbn [negb andb]. now rewrite !orb_false_r.
      * rewrite has_cons in Hc. apply orb_false_iff in Hc as [Hb1 Hc]. cbn [star_k].
        change (b :: c ++ r') with ((b :: c) ++ r').
        rewrite (IH R k0 (b :: c) r' Hok Hb) by (try assumption; rewrite has_cons, Hb1, Hc; reflexivity).
        rewrite wild_ok_ls, (N.eqb_sym b 47), Hb1. cbn [negb andb]. rewrite (IHc Hc).
        now rewrite andb_orb_distrib_l.
    + (* class *)
      cbn [toks map tok_of app tmk tok_k]. fold (toks ws).
      destruct c as [|b c]; cbn [app].
      * destruct Hr as [->|(s & ->)]; [reflexivity|]. cbn [one_k wmatch]. rewrite class_match_w1.
        destruct (w1_slash (WClass neg rs) Hw ltac:(discriminate)) as [->|F]; [reflexivity|discriminate].
      * cbn [one_k wmatch]. rewrite has_cons in Hc. apply orb_false_iff in Hc as [_ Hc].
        rewrite class_match_w1, IH by assumption. now rewrite andb_assoc.
Qed.

Lemma lit_match_slash b : lit_match o 47 b = (b =? 47)%N.
Proof.
  rewrite lit_match_w1. cbn [w1]. destruct ci; [|apply N.eqb_sym].
  rewrite N.eqb_sym. apply lower_47.
Qed.

Lemma after_comp_boundary segs : boundary_k (tmk o (after_comp segs) is_nil).
Proof.
  intros b s Hb. apply N.eqb_neq in Hb.
  destruct segs as [|[ws|] r]; cbn [after_comp]; [reflexivity| |].
  - cbn [tmk tok_k one_k]. now rewrite lit_match_slash, Hb.
  - destruct r as [|[ws|] r']; cbn [tmk tok_k one_k]; rewrite ?Hb; reflexivity.
Qed.

Lemma after_some_slash_skip k c s : has 47 c = false -> after_some_slash k (c ++ s) = after_some_slash k s.
Proof.
  induction c as [|b c IH]; intro H; [reflexivity|]. rewrite has_cons in H. apply orb_false_iff in H as [H1 H2].
  cbn [app after_some_slash]. rewrite (N.eqb_sym b 47), H1. cbn [andb orb]. now apply IH.
Qed.

Lemma after_some_slash_tail k cs :
  after_some_slash k (tail_bytes cs) = tok_k o TRecZeroOrMore k (tail_bytes cs).
Proof.
  destruct cs as [|c cs]; [reflexivity|]. cbn [tail_bytes flat_map app tok_k one_k after_some_slash].
  rewrite N.eqb_refl. reflexivity.
Qed.

Lemma cmatch_dstar_cons p r c cs :
  cmatch ci (CDStar :: p :: r) (c :: cs) = cmatch ci (p :: r) (c :: cs) || cmatch ci (CDStar :: p :: r) cs.
Proof. reflexivity. Qed.

Lemma cmatch_dstar_nil p r : cmatch ci (CDStar :: p :: r) [] = cmatch ci (p :: r) [].
Proof. cbn [cmatch]. now rewrite orb_false_r. Qed.

(* "/**/": zero or more whole components *)
Lemma dstar_middle (X : list token) (p : cpat) (r : list cpat) :
  (forall c cs, has 47 c = false -> Forall comp_ok cs ->
                tmk o X is_nil (c ++ tail_bytes cs) = cmatch ci (p :: r) (c :: cs)) ->
  cmatch ci (p :: r) [] = false ->
  forall cs, Forall comp_ok cs ->
    tok_k o TRecZeroOrMore (tmk o X is_nil) (tail_bytes cs) = cmatch ci (CDStar :: p :: r) cs.
Proof.
  intros HK Hnil cs Hcs. induction cs as [|c cs IH].
  - rewrite cmatch_dstar_nil, Hnil. reflexivity.
  - pose proof (Forall_inv Hcs) as Hc; pose proof (Forall_inv_tail Hcs) as Hcs'. rewrite cmatch_dstar_cons, <- (IH Hcs'), <- (after_some_slash_tail _ cs).
    cbn [tail_bytes flat_map app tok_k one_k]. rewrite N.eqb_refl. cbn [andb]. fold (tail_bytes cs).
    rewrite (HK c cs Hc Hcs'), (after_some_slash_skip _ c _ Hc). reflexivity.
Qed.

(* "/**" at the end (rewritten to "/**/*"): at least one more component *)
Lemma dstar_last_true : forall cs c, has 47 c = false -> Forall comp_ok cs ->
  let K := tmk o [TStar] is_nil in
  K (c ++ tail_bytes cs) || after_some_slash K (c ++ tail_bytes cs) = true.
Proof.
  induction cs as [|c2 cs IH]; intros c Hc Hcs K.
  - cbn [tail_bytes flat_map]. rewrite app_nil_r. apply orb_true_iff. left. unfold K. cbn [tmk tok_k].
    apply star_k_iff. exists c, []. rewrite app_nil_r. repeat split. now apply forallb_wild_ok.
  - pose proof (Forall_inv Hcs) as Hc2; pose proof (Forall_inv_tail Hcs) as Hcs'. apply orb_true_iff. right.
    rewrite (after_some_slash_skip _ c _ Hc). cbn [tail_bytes flat_map app after_some_slash]. rewrite N.eqb_refl.
    cbn [andb]. fold (tail_bytes cs). exact (IH c2 Hc2 Hcs').
Qed.

Lemma seg_ok_comp ws : seg_ok (SComp ws) = true -> forallb wtok_ok ws = true /\ ws <> [].
Proof.
  cbn [seg_ok]. intro H. apply andb_true_iff in H as [H1 H2]. split; [assumption|]. now destruct ws.
Qed.

Lemma after_comp_sem_n n : forall segs cs,
  length segs <= n ->
  forallb seg_ok segs = true -> no_adjacent_dstar segs = true -> Forall comp_ok cs ->
  tmk o (after_comp segs) is_nil (tail_bytes cs) = cmatch ci (map cpat_of segs) cs.
Proof.
  induction n as [|n IH]; intros segs cs Hlen Hok Hadj Hcs.
  { destruct segs; [|cbn in Hlen; lia]. destruct cs; reflexivity. }
  destruct segs as [|sg r]; [destruct cs; reflexivity|].
  cbn [length] in Hlen. cbn [forallb] in Hok. apply andb_true_iff in Hok as [Hsg Hok].
  destruct sg as [ws|].
  - (* a component *)
    apply seg_ok_comp in Hsg as [Hws _].
    assert (Hadj' : no_adjacent_dstar r = true) by exact Hadj.
    cbn [after_comp map cpat_of]. destruct cs as [|c cs]; [reflexivity|].
    pose proof (Forall_inv Hcs) as Hc; pose proof (Forall_inv_tail Hcs) as Hcs'.
    cbn [tail_bytes flat_map app tmk tok_k one_k cmatch]. rewrite lit_match_slash, N.eqb_refl. cbn [andb].
    fold (tail_bytes cs). fold (toks ws).
    rewrite (comp_match ws (after_comp r) is_nil c (tail_bytes cs) Hws (after_comp_boundary r) Hc).
    + rewrite IH by (try assumption; lia). reflexivity.
    + destruct cs; [now left|right; eexists; reflexivity].
  - (* "**" *)
    destruct r as [|[ws|] r'].
    + (* last *)
      cbn [after_comp map cpat_of cmatch]. destruct cs as [|c cs]; [reflexivity|].
      pose proof (Forall_inv Hcs) as Hc; pose proof (Forall_inv_tail Hcs) as Hcs'.
      cbn [tail_bytes flat_map app tmk tok_k one_k]. rewrite N.eqb_refl. cbn [andb]. fold (tail_bytes cs).
      exact (dstar_last_true cs c Hc Hcs').
    + (* "**" then a component *)
      cbn [forallb] in Hok. apply andb_true_iff in Hok as [Hsg2 Hok'].
      pose proof (seg_ok_comp ws Hsg2) as [Hws _].
      assert (Hadj'' : no_adjacent_dstar r' = true) by exact Hadj.
      cbn [length] in Hlen.
      cbn [after_comp map cpat_of]. cbn [tmk]. fold (toks ws).
      apply (dstar_middle (toks ws ++ after_comp r') (CSimple ws) (map cpat_of r')); [|reflexivity|assumption].
      intros c cs0 Hc Hcs0.
      rewrite (comp_match ws (after_comp r') is_nil c (tail_bytes cs0) Hws (after_comp_boundary r') Hc).
      * cbn [cmatch]. rewrite IH by (try assumption; lia). reflexivity.
      * destruct cs0; [now left|right; eexists; reflexivity].
    + discriminate.
Qed.

Lemma after_comp_sem segs cs :
  forallb seg_ok segs = true -> no_adjacent_dstar segs = true -> Forall comp_ok cs ->
  tmk o (after_comp segs) is_nil (tail_bytes cs) = cmatch ci (map cpat_of segs) cs.
Proof. apply (after_comp_sem_n (length segs)). lia. Qed.

Lemma comp_then_rest ws r c cs :
  forallb wtok_ok ws = true -> forallb seg_ok r = true -> no_adjacent_dstar r = true ->
  has 47 c = false -> Forall comp_ok cs ->
  tmk o (toks ws ++ after_comp r) is_nil (c ++ tail_bytes cs) = cmatch ci (CSimple ws :: map cpat_of r) (c :: cs).
Proof.
  intros Hws Hr Hadj Hc Hcs.
  rewrite (comp_match ws (after_comp r) is_nil c (tail_bytes cs) Hws (after_comp_boundary r) Hc).
  - cbn [cmatch]. now rewrite after_comp_sem.
  - destruct cs; [now left|right; eexists; reflexivity].
Qed.

Lemma tmatch_no_recprefix ts p : hd_error ts <> Some TRecPrefix -> tmatch o ts p = tmk o ts is_nil p.
Proof. destruct ts as [|t ts]; [reflexivity|]. destruct t; try reflexivity. intro H. now elim H. Qed.

Lemma hd_toks_after ws r : hd_error (toks ws ++ after_comp r) <> Some TRecPrefix.
Proof.
  destruct ws as [|w ws]; cbn.
  - destruct r as [|[ws2|] r]; cbn; try discriminate. destruct r as [|[ws3|] r']; discriminate.
  - destruct w; discriminate.
Qed.

(* "**/" in front (written, or implied by an unanchored pattern): the rest matches from some component on *)
Lemma rec_prefix_sem ws r c cs :
  forallb wtok_ok ws = true -> ws <> [] -> forallb seg_ok r = true -> no_adjacent_dstar r = true ->
  has 47 c = false -> Forall comp_ok cs ->
  tmatch o (TRecPrefix :: toks ws ++ after_comp r) (join (c :: cs)) =
  cmatch ci (CDStar :: CSimple ws :: map cpat_of r) (c :: cs).
Proof.
  intros Hws Hne Hr Hadj Hc Hcs.
  assert (E : tmatch o (TRecPrefix :: toks ws ++ after_comp r) (join (c :: cs)) =
              tmk o (TRecPrefix :: toks ws ++ after_comp r) is_nil (join (c :: cs))).
  { destruct ws as [|w ws]; [congruence|]. apply tmatch_len2. }
  rewrite E, tmk_recprefix, rec_prefix_k_simpl, join_cons, cmatch_dstar_cons.
  rewrite (comp_then_rest ws r c cs) by assumption. f_equal.
  rewrite (after_some_slash_skip _ c _ Hc), after_some_slash_tail.
  apply (dstar_middle (toks ws ++ after_comp r) (CSimple ws) (map cpat_of r)); [|reflexivity|assumption].
  intros c0 cs0 Hc0 Hcs0. now apply comp_then_rest.
Qed.

Theorem seg_sem_eq unanch segs comps :
  segs_ok unanch segs = true -> comps <> [] -> Forall comp_ok comps ->
  tmatch o (rg_tokens unanch segs) (join comps) = cmatch ci (git_cpats unanch segs) comps.
Proof.
  intros Hok Hne Hcs. destruct comps as [|c cs]; [congruence|].
  pose proof (Forall_inv Hcs) as Hc; pose proof (Forall_inv_tail Hcs) as Hcs'.
  unfold segs_ok in Hok. apply andb_true_iff in Hok as [Hok Hshape]. apply andb_true_iff in Hok as [Hsegs Hadj].
  destruct segs as [|[ws|] r]; [discriminate| |].
  - (* starts with a component *)
    cbn [forallb] in Hsegs. apply andb_true_iff in Hsegs as [Hsg Hr]. apply seg_ok_comp in Hsg as [Hws Hwne].
    assert (Hadj' : no_adjacent_dstar r = true) by exact Hadj.
    destruct unanch.
    + assert (r = []) as -> by (destruct r; [reflexivity|discriminate]).
      cbn [rg_tokens git_cpats app map cpat_of]. exact (rec_prefix_sem ws [] c cs Hws Hwne eq_refl eq_refl Hc Hcs').
    + cbn [rg_tokens git_cpats app map cpat_of].
      rewrite (tmatch_no_recprefix _ _ (hd_toks_after ws r)), join_cons. now apply comp_then_rest.
  - (* starts with "**" *)
    assert (unanch = false) as -> by (destruct unanch; [destruct r; discriminate|reflexivity]).
    destruct r as [|[ws|] r']; [| |discriminate].
    + reflexivity.
    + cbn [forallb] in Hsegs. apply andb_true_iff in Hsegs as [_ Hsegs]. apply andb_true_iff in Hsegs as [Hsg Hr].
      apply seg_ok_comp in Hsg as [Hws Hwne]. assert (Hadj' : no_adjacent_dstar r' = true) by exact Hadj.
      cbn [rg_tokens git_cpats app map cpat_of]. now apply rec_prefix_sem.
Qed.
End Seg.
