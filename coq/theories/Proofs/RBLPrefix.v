(* Proofs/RBLPrefix.v — the prefix law (property C16) for ReadByLine::run: stopping sinks
   under every read history (including histories with failing or interrupted reads). *)
From RG Require Import Base.Bytes Model.Lines Model.SearcherCore Model.Glue Model.ReadByLine
  Proofs.PrefixLaw Proofs.PrefixCore Proofs.MLPrefix.

(* Good2: like Good, but the uninterrupted run may itself end in an error that does not come
   from the sink (a failing read): the law is the same with that outcome as the reference. *)
Definition fin_core (o : outcome) : option core :=
  match o with OK _ c => Some c | ERR c => Some c | FUEL => None end.

Definition Good2 (f : action) : Prop :=
  forall r c,
    match fin_core (f K c) with
    | None => True
    | Some cK =>
      (exists ext, log cK = ext ++ log c) /\
      (quiet r (length (log c)) (length (log cK)) -> f r c = f K c) /\
      (forall k, length (log c) <= k < length (log cK) -> quiet r (length (log c)) k ->
                 r k <> Continue -> cut_result r k (log cK) (f r c))
    end.

Lemma good2_of_good f : Good f -> Good2 f.
Proof.
  intros G r c. specialize (G r c). destruct (f K c) as [b cK| |]; cbn [fin_core]; [|contradiction|exact I].
  destruct G as (He & Gq & Gc). split; [exact He|]. split; [|exact Gc]. exact Gq.
Qed.

Lemma good2_dep (F : core -> action) : (forall c0, Good2 (F c0)) -> Good2 (fun r c => F c r c).
Proof. intros H r c. exact (H c r c). Qed.

Lemma good2_const (o : core -> outcome) :
  (forall c, match fin_core (o c) with Some c' => log c' = log c | None => True end) ->
  Good2 (fun _ c => o c).
Proof.
  intros H r c. specialize (H c). destruct (fin_core (o c)) as [cK|]; [|exact I].
  rewrite H. split; [exists []; reflexivity|]. split; [reflexivity|]. intros k Hk. lia.
Qed.

Lemma cut_result_andthen r k full o g :
  cut_result r k full o -> cut_result r k full (andthen o g).
Proof.
  intros (c' & Hlog & Hres). exists c'. split; [exact Hlog|].
  destruct (r k); [exact Hres| |]; rewrite Hres; reflexivity.
Qed.

Lemma cut_result_ext r k (ext l : list event) o :
  k < length l -> cut_result r k l o -> cut_result r k (ext ++ l) o.
Proof.
  intros Hk (c' & Hlog & Hres). exists c'. split; [|exact Hres].
  rewrite Hlog, skipn_app, app_length.
  replace (length ext + length l - S k - length ext) with (length l - S k) by lia.
  assert (E : skipn (length ext + length l - S k) ext = []) by (apply skipn_all2; lia).
  rewrite E. reflexivity.
Qed.

Lemma good2_andthen (f g : action) :
  Good2 f -> Good2 g -> Good2 (fun r c => andthen (f r c) (g r)).
Proof.
  intros Gf Gg r c. specialize (Gf r c).
  destruct (f K c) as [bf c1|c1|] eqn:EfK; cbn [andthen fin_core] in *; [| |exact I].
  - destruct Gf as ((ext1 & Hext1) & Gq & Gcut).
    assert (Hlen1 : length (log c) <= length (log c1)) by (rewrite Hext1, app_length; lia).
    destruct bf; cbn [fin_core].
    + specialize (Gg r c1).
      destruct (fin_core (g K c1)) as [c2|] eqn:EgK; [|exact I].
      destruct Gg as ((ext2 & Hext2) & Gq2 & Gcut2).
      assert (Hlen2 : length (log c1) <= length (log c2)) by (rewrite Hext2, app_length; lia).
      split; [exists (ext2 ++ ext1); now rewrite Hext2, Hext1, app_assoc|]. split.
      * intro Q. apply (quiet_split r _ (length (log c1))) in Q as [Q1 Q2]; [|lia].
        rewrite (Gq Q1). cbn [andthen]. exact (Gq2 Q2).
      * intros k Hk Q Hr.
        destruct (Nat.lt_ge_cases k (length (log c1))) as [Hlt|Hge].
        -- apply cut_result_andthen. rewrite Hext2. apply cut_result_ext; [exact Hlt|].
           exact (Gcut k ltac:(lia) Q Hr).
        -- apply (quiet_split r _ (length (log c1))) in Q as [Q1 Q2]; [|lia].
           rewrite (Gq Q1). cbn [andthen]. exact (Gcut2 k ltac:(lia) Q2 Hr).
    + split; [eauto|]. split.
      * intro Q. rewrite (Gq Q). reflexivity.
      * intros k Hk Q Hr. apply cut_result_andthen. exact (Gcut k Hk Q Hr).
  - destruct Gf as ((ext1 & Hext1) & Gq & Gcut).
    split; [eauto|]. split.
    + intro Q. rewrite (Gq Q). reflexivity.
    + intros k Hk Q Hr. apply cut_result_andthen. exact (Gcut k Hk Q Hr).
Qed.

Lemma good2_pre (u : core -> core) (f : action) :
  (forall c, log (u c) = log c) -> Good2 f -> Good2 (fun r c => f r (u c)).
Proof. intros Hu Gf r c. specialize (Gf r (u c)). rewrite Hu in Gf. exact Gf. Qed.

(* whole-run law from a Good2 body; the byte count reported at finish may live outside the core *)
Section RunLaw2.
  Variable body : action.
  Variable c0 : core.
  Variable cnt : (nat -> reply) -> nat.
  Variable run : (nat -> reply) -> run_result.
  Hypothesis Hc0 : log c0 = [].
  Hypothesis Gbody : Good2 body.
  Hypothesis Hrun : forall r, run r =
    match body r c0 with
    | ERR c => RunErr (rev (log c))
    | FUEL => RunFuel
    | OK _ c => finish r c (cnt r)
    end.
  Hypothesis Hcnt : forall r cK, fin_core (body K c0) = Some cK -> quiet r 0 (length (log cK)) -> cnt r = cnt K.

  (* the events of the reference run, and whether it ended with finish *)
  Lemma run_prefix_law2 : forall (r : nat -> reply) (evs : list event),
    (run K = RunOk evs ->
       (quiet r 0 (length evs) -> run r = RunOk evs) /\
       (forall k, S k < length evs -> quiet r 0 k -> r k <> Continue ->
          match r k with
          | Stop => exists n b, run r =
                      (match r (S k) with Fail => RunErr | _ => RunOk end) (firstn (S k) evs ++ [EFinish n b])
          | _ => run r = RunErr (firstn (S k) evs)
          end)) /\
    (run K = RunErr evs ->
       (quiet r 0 (length evs) -> run r = RunErr evs) /\
       (forall k, k < length evs -> quiet r 0 k -> r k <> Continue ->
          match r k with
          | Stop => exists n b, run r =
                      (match r (S k) with Fail => RunErr | _ => RunOk end) (firstn (S k) evs ++ [EFinish n b])
          | _ => run r = RunErr (firstn (S k) evs)
          end)).
  Proof.
    intros r evs.
    pose proof (Gbody r c0) as G. pose proof (Hcnt r) as Hc.
    assert (Hcut : forall cK k, log cK <> [] \/ True -> k < length (log cK) ->
              cut_result r k (log cK) (body r c0) ->
              match r k with
              | Stop => exists n b, run r =
                      (match r (S k) with Fail => RunErr | _ => RunOk end) (firstn (S k) (rev (log cK)) ++ [EFinish n b])
              | Fail => run r = RunErr (firstn (S k) (rev (log cK)))
              | Continue => False
              end).
    { intros cK k _ Hk (c' & Hlog & Hres).
      assert (Hlenc : length (log c') = S k) by (rewrite Hlog, skipn_length; lia).
      assert (Hfirst : rev (log c') = firstn (S k) (rev (log cK))) by (rewrite firstn_rev; now rewrite Hlog).
      rewrite Hrun.
      destruct (r k); [exact Hres| |].
      - rewrite Hres. unfold finish. rewrite Hlenc. exists (cnt r), (bin_off c'). cbn [rev]. rewrite Hfirst.
        destruct (r (S k)); reflexivity.
      - rewrite Hres. now rewrite Hfirst. }
    split; intro HK; rewrite Hrun in HK.
    - destruct (body K c0) as [b cK|cK|] eqn:EK; [|discriminate|discriminate].
      cbn [fin_core] in G. destruct G as (_ & Gq & Gcut). rewrite Hc0 in *. cbn [length] in *.
      unfold finish in HK. cbn beta in HK. injection HK as HK.
      assert (Hlen : length evs = S (length (log cK))).
      { rewrite <- HK. cbn [rev]. rewrite app_length, rev_length. cbn. lia. }
      split.
      + intro Q. rewrite Hrun.
        rewrite Gq by (intros i Hi; apply Q; lia).
        unfold finish. rewrite (Q (length (log cK))) by lia.
        rewrite (Hc cK eq_refl) by (intros i Hi; apply Q; lia). rewrite <- HK. reflexivity.
      + intros k Hk Q Hr.
        pose proof (Hcut cK k (or_intror I) ltac:(lia) (Gcut k ltac:(lia) Q Hr)) as H.
        rewrite <- HK. cbn [rev]. rewrite firstn_app, rev_length.
        replace (S k - length (log cK)) with 0 by lia. rewrite firstn_O, app_nil_r.
        destruct (r k); [contradiction|exact H|exact H].
    - destruct (body K c0) as [b cK|cK|] eqn:EK; [|injection HK as HK|discriminate].
      { unfold finish in HK. destruct (K (length (log cK))); discriminate. }
      cbn [fin_core] in G. destruct G as (_ & Gq & Gcut). rewrite Hc0 in *. cbn [length] in *.
      assert (Hlen : length evs = length (log cK)) by (rewrite <- HK; apply rev_length).
      split.
      + intro Q. rewrite Hrun. rewrite Gq by (intros i Hi; apply Q; lia). now rewrite HK.
      + intros k Hk Q Hr.
        pose proof (Hcut cK k (or_intror I) ltac:(lia) (Gcut k ltac:(lia) Q Hr)) as H.
        rewrite <- HK. destruct (r k); [contradiction|exact H|exact H].
  Qed.
End RunLaw2.

Section RBLP.
  Variable cfg : config.
  Variable M : matcher.
  Variable pol : alloc_policy.

  (* rbl_fill does not talk to the sink; its core is the rolled core *)
  Definition rollc (c : core) (lb : linebuf) : core := snd (roll cfg c (lb_buffer lb)).

  Lemma log_rollc c lb : log (rollc c lb) = log c.
  Proof. unfold rollc, roll. cbn. apply log_count_lines. Qed.

  Definition fill_core (o : rbl_fill_result) : option core :=
    match o with RF _ c _ _ => Some c | RFErr c => Some c | RFFuel => None end.

  Lemma rbl_fill_core c lb rd :
    match fill_core (rbl_fill cfg pol c lb rd) with Some c' => c' = rollc c lb | None => True end.
  Proof.
    unfold rbl_fill, rollc. destruct (roll cfg c (lb_buffer lb)) as [consumed c1]. cbn [snd].
    destruct (lb_fill _ _ _ _) as [d lb' rd'| | |]; cbn [fill_core]; auto.
    destruct (negb d); [reflexivity|]. destruct (_ && _); reflexivity.
  Qed.

  (* the loop as a core action indexed by the buffer and reader state *)
  Fixpoint rblc_loop (fuel : nat) (lb : linebuf) (rd : reader) (r : nat -> reply) (c : core) : outcome :=
    match fuel with
    | 0 => FUEL
    | S fuel' =>
      match rbl_fill cfg pol c lb rd with
      | RFErr c => ERR c
      | RFFuel => FUEL
      | RF false c _ _ => OK false c
      | RF true c lb' rd' =>
        andthen (match_by_line cfg M r false c (lb_buffer lb')) (fun c => rblc_loop fuel' lb' rd' r c)
      end
    end.

  Lemma rbl_loop_fst r : forall fuel c lb rd,
    fst (rbl_loop cfg M r pol fuel c lb rd) = rblc_loop fuel lb rd r c.
  Proof.
    induction fuel as [|f IH]; intros c lb rd; cbn [rbl_loop rblc_loop]; [reflexivity|].
    destruct (rbl_fill cfg pol c lb rd) as [[|] c' lb' rd'|c'|]; try reflexivity.
    destruct (match_by_line cfg M r false c' (lb_buffer lb')) as [[|] c''| |]; cbn [andthen fst]; try reflexivity.
    apply IH.
  Qed.

  Lemma good2_rblc_loop : forall fuel lb rd, Good2 (rblc_loop fuel lb rd).
  Proof.
    induction fuel as [|f IH]; intros lb rd; [intros r c; exact I|].
    cbn [rblc_loop].
    assert (G : Good2 (fun r c =>
      match rbl_fill cfg pol c lb rd with
      | RFErr _ => ERR (rollc c lb)
      | RFFuel => FUEL
      | RF false _ _ _ => OK false (rollc c lb)
      | RF true _ lb' rd' =>
        andthen (match_by_line cfg M r false (rollc c lb) (lb_buffer lb')) (fun c => rblc_loop f lb' rd' r c)
      end)).
    { apply (good2_dep (fun c0 r c =>
        match rbl_fill cfg pol c0 lb rd with
        | RFErr _ => ERR (rollc c lb)
        | RFFuel => FUEL
        | RF false _ _ _ => OK false (rollc c lb)
        | RF true _ lb' rd' =>
          andthen (match_by_line cfg M r false (rollc c lb) (lb_buffer lb')) (fun c => rblc_loop f lb' rd' r c)
        end)).
      intro c0. destruct (rbl_fill cfg pol c0 lb rd) as [[|] c' lb' rd'|c'|].
      + apply (good2_pre (fun c => rollc c lb)
                 (fun r c => andthen (match_by_line cfg M r false c (lb_buffer lb')) (fun c => rblc_loop f lb' rd' r c))).
        * intro c. apply log_rollc.
        * apply (good2_andthen (fun r c => match_by_line cfg M r false c (lb_buffer lb')) (rblc_loop f lb' rd')).
          -- apply good2_of_good. apply good_match_by_line.
          -- apply IH.
      + apply (good2_const (fun c => OK false (rollc c lb))). intro c. cbn. apply log_rollc.
      + apply (good2_const (fun c => ERR (rollc c lb))). intro c. cbn. apply log_rollc.
      + intros r c. exact I. }
    intros r c. specialize (G r c). cbv beta in G.
    pose proof (rbl_fill_core c lb rd) as Hc.
    destruct (rbl_fill cfg pol c lb rd) as [[|] c' lb' rd'|c'|]; cbn [fill_core] in Hc; try subst c'; exact G.
  Qed.

  Lemma rbl_loop_quiet r : forall fuel c lb rd cK,
    fin_core (fst (rbl_loop cfg M K pol fuel c lb rd)) = Some cK ->
    quiet r (length (log c)) (length (log cK)) ->
    rbl_loop cfg M r pol fuel c lb rd = rbl_loop cfg M K pol fuel c lb rd.
  Proof.
    induction fuel as [|f IH]; intros c lb rd cK HK Q; [reflexivity|].
    cbn [rbl_loop] in *.
    pose proof (rbl_fill_core c lb rd) as Hc.
    destruct (rbl_fill cfg pol c lb rd) as [[|] c' lb' rd'|c'|]; try reflexivity.
    cbn [fill_core] in Hc. subst c'.
    pose proof (good_match_by_line cfg M false (lb_buffer lb') r (rollc c lb)) as G.
    rewrite log_rollc in G.
    destruct (match_by_line cfg M K false (rollc c lb) (lb_buffer lb')) as [b c1| |] eqn:EK; [|contradiction|discriminate].
    destruct G as ((ext & Hext) & Gq & _).
    assert (Hle : length (log c1) <= length (log cK)).
    { destruct b.
      - rewrite rbl_loop_fst in HK.
        pose proof (good2_rblc_loop f lb' rd' K c1) as G2. rewrite HK in G2.
        destruct G2 as ((e2 & He2) & _). rewrite He2, app_length. lia.
      - cbn in HK. injection HK as <-. lia. }
    assert (Hge : length (log c) <= length (log c1)) by (rewrite Hext, app_length; lia).
    apply (quiet_split r _ (length (log c1))) in Q as [Q1 Q2]; [|lia].
    rewrite (Gq Q1). destruct b; [|reflexivity].
    apply (IH c1 lb' rd' cK HK Q2).
  Qed.

  Variable cap : nat.
  Variable stream : bytes.
  Variable hist : list read_step.

  Definition rbl_body : action := fun r c =>
    andthen (emit r c EBegin)
            (rblc_loop (2 * length stream + 4) (lb_new cap) {| r_rest := stream; r_hist := hist |} r).

  Definition rbl_cnt (r : nat -> reply) : nat :=
    match emit r (core_new cfg) EBegin with
    | OK true c => lb_abs (snd (rbl_loop cfg M r pol (2 * length stream + 4) c (lb_new cap) {| r_rest := stream; r_hist := hist |}))
    | _ => 0
    end.

  Lemma good2_rbl_body : Good2 rbl_body.
  Proof.
    apply (good2_andthen (fun r c => emit r c EBegin)).
    - apply good2_of_good. apply good_emit.
    - apply good2_rblc_loop.
  Qed.

  Lemma rbl_run_eq_body r :
    read_by_line_run cfg M r pol cap stream hist =
    match rbl_body r (core_new cfg) with
    | ERR c => RunErr (rev (log c))
    | FUEL => RunFuel
    | OK _ c => finish r c (rbl_cnt r)
    end.
  Proof.
    unfold read_by_line_run, rbl_body, rbl_cnt.
    destruct (emit r (core_new cfg) EBegin) as [[|] c| |]; cbn [andthen]; try reflexivity.
    rewrite <- rbl_loop_fst.
    destruct (rbl_loop cfg M r pol (2 * length stream + 4) c (lb_new cap) {| r_rest := stream; r_hist := hist |}) as [o lb].
    reflexivity.
  Qed.

  Lemma rbl_cnt_quiet r cK :
    fin_core (rbl_body K (core_new cfg)) = Some cK -> quiet r 0 (length (log cK)) -> rbl_cnt r = rbl_cnt K.
  Proof.
    unfold rbl_body, rbl_cnt. intros HK Q.
    pose proof (good_emit EBegin r (core_new cfg)) as G.
    destruct (emit K (core_new cfg) EBegin) as [b c1| |] eqn:EK; [|contradiction|discriminate].
    destruct G as ((ext & Hext) & Gq & _).
    change (log (core_new cfg)) with (@nil event) in *. cbn [length] in *.
    assert (Hb : b = true) by (unfold emit in EK; cbn in EK; now injection EK as <- _).
    subst b. cbn [andthen] in HK. rewrite <- rbl_loop_fst in HK.
    assert (Hle : length (log c1) <= length (log cK)).
    { rewrite rbl_loop_fst in HK.
      pose proof (good2_rblc_loop (2 * length stream + 4) (lb_new cap) {| r_rest := stream; r_hist := hist |} K c1) as G2.
      rewrite HK in G2. destruct G2 as ((e2 & He2) & _). rewrite He2, app_length. lia. }
    apply (quiet_split r _ (length (log c1))) in Q as [Q1 Q2]; [|lia].
    rewrite (Gq Q1).
    rewrite (rbl_loop_quiet r _ c1 _ _ cK HK Q2). reflexivity.
  Qed.

  (* the prefix law for ReadByLine::run: every reply function, every read history *)
  Definition run (r : nat -> reply) : run_result := read_by_line_run cfg M r pol cap stream hist.

  Theorem stop_is_prefix_reader_proof : forall (r : nat -> reply) (evs : list event),
    (run K = RunOk evs ->
       (quiet r 0 (length evs) -> run r = RunOk evs) /\
       (forall k, S k < length evs -> quiet r 0 k -> r k <> Continue ->
          match r k with
          | Stop => exists n b, run r =
                      (match r (S k) with Fail => RunErr | _ => RunOk end) (firstn (S k) evs ++ [EFinish n b])
          | _ => run r = RunErr (firstn (S k) evs)
          end))  /\
    (run K = RunErr evs ->
       (quiet r 0 (length evs) -> run r = RunErr evs) /\
       (forall k, k < length evs -> quiet r 0 k -> r k <> Continue ->
          match r k with
          | Stop => exists n b, run r =
                      (match r (S k) with Fail => RunErr | _ => RunOk end) (firstn (S k) evs ++ [EFinish n b])
          | _ => run r = RunErr (firstn (S k) evs)
          end)).
  Proof.
    intros r evs.
    apply (run_prefix_law2 rbl_body (core_new cfg) rbl_cnt run).
    - reflexivity.
    - apply good2_rbl_body.
    - intro r0. apply rbl_run_eq_body.
    - intros r0 cK. apply rbl_cnt_quiet.
  Qed.
End RBLP.
