(* Proofs/Utf8SpecProofs.v - the modelled UTF-8 validator of Model/Decode.v computes Spec/Utf8Spec.v *)
From RG Require Import Base.Bytes Base.BytesFacts Model.Decode Spec.Utf8Spec Proofs.DecodeProofs.

Definition out_core (st : u8_core) (s : bytes) : bytes :=
  let (o, st') := u8_core_feed st s in o ++ u8_core_finish st'.

Lemma out_core_cons st x r :
  out_core st (x :: r) = fst (u8_core_step st x) ++ out_core (snd (u8_core_step st x)) r.
Proof.
  unfold out_core. cbn [u8_core_feed]. destruct (u8_core_step st x) as [o st1]. cbn [fst snd].
  destruct (u8_core_feed st1 r) as [o2 st2]. now rewrite app_assoc.
Qed.

Lemma out_core_nil st : out_core st [] = u8_core_finish st.
Proof. reflexivity. Qed.

Lemma core_feed_app : forall a b st,
  u8_core_feed st (a ++ b) =
  let (o1, st1) := u8_core_feed st a in
  let (o2, st2) := u8_core_feed st1 b in (o1 ++ o2, st2).
Proof.
  induction a as [|x xs IH]; intros b st.
  - cbn [app u8_core_feed]. destruct (u8_core_feed st b). reflexivity.
  - cbn [app u8_core_feed]. destruct (u8_core_step st x) as [o1 st1]. rewrite IH.
    destruct (u8_core_feed st1 xs) as [o2 st2]. destruct (u8_core_feed st2 b) as [o3 st3]. now rewrite app_assoc.
Qed.

Lemma out_core_app st a b :
  out_core st (a ++ b) = fst (u8_core_feed st a) ++ out_core (snd (u8_core_feed st a)) b.
Proof.
  unfold out_core. rewrite core_feed_app. destruct (u8_core_feed st a) as [o1 st1]. cbn [fst snd].
  destruct (u8_core_feed st1 b) as [o2 st2]. now rewrite app_assoc.
Qed.

(* the lead-byte dispatch of the model is the table of the specification *)
Lemma lead_eq x :
  u8_lead x = match lead_class x with
              | None => (replacement, u8_idle)
              | Some (0, _, _) => ([x], u8_idle)
              | Some (S n, lo, hi) => ([], mk_u8 [x] (S n) lo hi)
              end.
Proof.
  unfold u8_lead, lead_class.
  repeat match goal with |- context [if ?c then _ else _] => destruct c; [reflexivity|] end. reflexivity.
Qed.

Lemma idle_step x : u8_core_step u8_idle x = u8_lead x.
Proof. reflexivity. Qed.

(* a pending sequence: the continuation bytes that are still acceptable are consumed; complete => copied,
   otherwise one U+FFFD and the offending byte is looked at again *)
Lemma cont_run_cons n lo hi y r :
  cont_run (S n) lo hi (y :: r) = if ((lo <=? y) && (y <=? hi))%N then S (cont_run n 128 191 r) else 0.
Proof. reflexivity. Qed.

Lemma pending_run : forall n p lo hi r,
  out_core (mk_u8 p (S n) lo hi) r =
  let k := cont_run (S n) lo hi r in
  if Nat.eqb k (S n) then p ++ firstn k r ++ out_core u8_idle (skipn k r)
  else replacement ++ out_core u8_idle (skipn k r).
Proof.
  induction n as [|n IH]; intros p lo hi r.
  - destruct r as [|y r]; [reflexivity|]. rewrite out_core_cons, cont_run_cons. unfold u8_core_step. cbn [v_need v_lo v_hi v_pend].
    destruct ((lo <=? y)%N && (y <=? hi)%N).
    + cbn [fst snd cont_run Nat.eqb firstn skipn]. now rewrite <- app_assoc.
    + rewrite <- idle_step. cbn [Nat.eqb skipn].
      destruct (u8_core_step u8_idle y) as [o st'] eqn:E. cbn [fst snd]. rewrite <- app_assoc. f_equal.
      rewrite out_core_cons, E. reflexivity.
  - destruct r as [|y r]; [reflexivity|]. rewrite out_core_cons, cont_run_cons. unfold u8_core_step. cbn [v_need v_lo v_hi v_pend].
    destruct ((lo <=? y)%N && (y <=? hi)%N).
    + cbn [fst snd app]. rewrite IH. cbn zeta. set (k := cont_run (S n) 128 191 r). cbn [Nat.eqb].
      destruct (Nat.eqb k (S n)); cbn [firstn skipn]; [now rewrite <- app_assoc|reflexivity].
    + rewrite <- idle_step. cbn [Nat.eqb skipn].
      destruct (u8_core_step u8_idle y) as [o st'] eqn:E. cbn [fst snd]. rewrite <- app_assoc. f_equal.
      rewrite out_core_cons, E. reflexivity.
Qed.

Lemma cont_run_le n : forall lo hi r, cont_run n lo hi r <= n /\ cont_run n lo hi r <= length r.
Proof.
  induction n as [|n IH]; intros lo hi r; [cbn; lia|]. destruct r as [|y r]; [cbn; lia|]. cbn [cont_run length].
  destruct (_ && _); [|lia]. specialize (IH 128%N 191%N r). lia.
Qed.

Lemma core_eq_spec_fuel : forall f s, length s <= f -> out_core u8_idle s = spec_fuel f s.
Proof.
  induction f as [|f IH]; intros s Hl; [destruct s; [reflexivity|cbn in Hl; lia]|].
  destruct s as [|x r]; [reflexivity|]. cbn [length] in Hl. cbn [spec_fuel].
  rewrite out_core_cons, idle_step, lead_eq.
  destruct (lead_class x) as [[[n lo] hi]|].
  - destruct n as [|n].
    + cbn [fst snd cont_run Nat.eqb firstn skipn app]. f_equal. apply IH. lia.
    + cbn [fst snd app]. rewrite pending_run. cbn zeta.
      pose proof (cont_run_le (S n) lo hi r) as [_ Hk].
      destruct (Nat.eqb_spec (cont_run (S n) lo hi r) (S n)) as [E|E].
      * rewrite E. cbn [app]. f_equal. f_equal. apply IH. rewrite skipn_length. lia.
      * f_equal. apply IH. rewrite skipn_length. lia.
  - cbn [fst snd]. f_equal. apply IH. lia.
Qed.

Lemma core_eq_spec s : out_core u8_idle s = utf8_spec s.
Proof. apply core_eq_spec_fuel. lia. Qed.

Lemma spec_fuel_enough f s : length s <= f -> spec_fuel f s = utf8_spec s.
Proof. intro H. unfold utf8_spec. now rewrite <- !core_eq_spec_fuel by lia. Qed.

(* ---------- mark removal ---------- *)
Definition out_full (st : u8_state) (s : bytes) : bytes :=
  let (o, st') := u8_feed st s in o ++ u8_finish st'.

Lemma out_full_none : forall s c, out_full (mk_u8s None c) s = out_core c s.
Proof.
  induction s as [|x r IH]; intro c; [reflexivity|].
  rewrite out_core_cons. unfold out_full. cbn [u8_feed]. unfold u8_step. cbn [w_held w_core].
  destruct (u8_core_step c x) as [o c1]. cbn [fst snd]. specialize (IH c1). unfold out_full in IH.
  destruct (u8_feed (mk_u8s None c1) r) as [o2 st2]. rewrite <- app_assoc. now rewrite IH.
Qed.

Lemma out_full_cons st x r :
  out_full st (x :: r) = fst (u8_step st x) ++ out_full (snd (u8_step st x)) r.
Proof.
  unfold out_full. cbn [u8_feed]. destruct (u8_step st x) as [o st1]. cbn [fst snd].
  destruct (u8_feed st1 r) as [o2 st2]. now rewrite app_assoc.
Qed.

(* flushing held bytes h followed by x through the core, then going on unheld *)
Lemma flush_held h x r :
  (let (o, c) := u8_core_feed u8_idle (h ++ [x]) in o ++ out_full (mk_u8s None c) r) = out_core u8_idle (h ++ x :: r).
Proof.
  replace (h ++ x :: r) with ((h ++ [x]) ++ r) by (now rewrite <- app_assoc).
  rewrite out_core_app. destruct (u8_core_feed u8_idle (h ++ [x])) as [o c]. cbn [fst snd]. now rewrite out_full_none.
Qed.

Lemma eqb_false_of a b : a <> b -> (a =? b)%N = false.
Proof. apply N.eqb_neq. Qed.

Lemma full_eq_strip s : out_full u8_init s = out_core u8_idle (strip_utf8_mark s).
Proof.
  unfold strip_utf8_mark, u8_init.
  destruct s as [|a s]; [reflexivity|].
  rewrite out_full_cons. unfold u8_step. cbn [w_held w_core app bytes_eqb is_prefix_of].
  destruct (N.eqb_spec a 239) as [->|Ha].
  2:{ cbn [andb].
      replace (starts3 239 187 191 (a :: s)) with false
        by (destruct s as [|b [|c' s']]; cbn; try reflexivity; now rewrite (eqb_false_of _ _ Ha)).
      change (out_core u8_idle (a :: s)) with (out_core u8_idle ([] ++ a :: s)). rewrite <- flush_held. cbn [app].
      destruct (u8_core_feed u8_idle [a]) as [o c]. reflexivity. }
  cbn [andb fst snd app]. destruct s as [|b s].
  { reflexivity. }
  rewrite out_full_cons. unfold u8_step. cbn [w_held w_core app bytes_eqb is_prefix_of]. rewrite N.eqb_refl. cbn [andb].
  destruct (N.eqb_spec b 187) as [->|Hb].
  2:{ replace (starts3 239 187 191 (239%N :: b :: s)) with false
        by (destruct s as [|c' s']; cbn; try reflexivity; now rewrite (eqb_false_of _ _ Hb), Bool.andb_false_r).
      change (out_core u8_idle (239%N :: b :: s)) with (out_core u8_idle ([239%N] ++ b :: s)). rewrite <- flush_held. cbn [app].
      destruct (u8_core_feed u8_idle [239%N; b]) as [o c]. reflexivity. }
  cbn [andb fst snd app]. destruct s as [|c s].
  { reflexivity. }
  rewrite out_full_cons. unfold u8_step. cbn [w_held w_core app bytes_eqb is_prefix_of]. rewrite !N.eqb_refl. cbn [andb].
  destruct (N.eqb_spec c 191) as [->|Hc].
  - cbn [fst snd app starts3 skipn]. rewrite !N.eqb_refl. cbn [andb]. apply out_full_none.
  - cbn [andb].
    replace (starts3 239 187 191 (239%N :: 187%N :: c :: s)) with false
      by (cbn; now rewrite (eqb_false_of _ _ Hc), Bool.andb_false_r).
    change (out_core u8_idle (239%N :: 187%N :: c :: s)) with (out_core u8_idle ([239%N; 187%N] ++ c :: s)).
    rewrite <- flush_held. cbn [app].
    destruct (u8_core_feed u8_idle [239%N; 187%N; c]) as [o c1]. reflexivity.
Qed.

(* the validator = the declarative specification, every input *)
Lemma utf8_decoder_eq_spec_proof s : utf8_to_utf8 s = utf8_spec_bom s.
Proof.
  change (utf8_to_utf8 s) with (out_full u8_init s). rewrite full_eq_strip. apply core_eq_spec.
Qed.

Lemma utf8_stream_eq_spec_proof chunks : u8_stream u8_init chunks = utf8_spec_bom (concat chunks).
Proof. rewrite utf8_chunk_independent_proof. apply utf8_decoder_eq_spec_proof. Qed.

(* ---------- sanity corollaries ---------- *)
Lemma cont_run_app n : forall lo hi t r,
  length t = n -> cont_run n lo hi t = n -> cont_run n lo hi (t ++ r) = n.
Proof.
  induction n as [|n IH]; intros lo hi t r Hl Hc; [reflexivity|].
  destruct t as [|y t]; [discriminate|]. cbn [app]. rewrite cont_run_cons in *.
  destruct ((lo <=? y)%N && (y <=? hi)%N); [|discriminate]. f_equal. apply IH; [cbn in Hl; lia|lia].
Qed.

Lemma cont_run_firstn n : forall lo hi r,
  cont_run n lo hi r = n -> length (firstn n r) = n /\ cont_run n lo hi (firstn n r) = n.
Proof.
  induction n as [|n IH]; intros lo hi r Hc; [split; reflexivity|].
  destruct r as [|y r]; [discriminate|]. rewrite cont_run_cons in Hc. cbn [firstn length]. rewrite cont_run_cons.
  destruct ((lo <=? y)%N && (y <=? hi)%N); [|discriminate].
  destruct (IH 128%N 191%N r) as [H1 H2]; [lia|]. split; [now rewrite H1|now rewrite H2].
Qed.

Lemma valid_unchanged_fuel s : utf8_valid s -> forall f, length s <= f -> spec_fuel f s = s.
Proof.
  induction 1 as [|x t r n lo hi Hlead Hlen Hrun Hv IH]; intros f Hl; [destruct f; reflexivity|].
  destruct f as [|f]; [cbn in Hl; lia|]. cbn [spec_fuel]. rewrite Hlead. cbn zeta.
  rewrite (cont_run_app n lo hi t r Hlen Hrun), Nat.eqb_refl.
  rewrite firstn_app, skipn_app, Hlen, Nat.sub_diag, firstn_O, app_nil_r.
  rewrite firstn_all2, skipn_all2 by lia. cbn [app skipn].
  rewrite IH; [reflexivity|]. cbn [length] in Hl. rewrite app_length in Hl. lia.
Qed.

Lemma utf8_valid_unchanged_proof s : utf8_valid s -> utf8_spec s = s.
Proof. intro H. apply valid_unchanged_fuel; [exact H|lia]. Qed.

Lemma replacement_seq r : utf8_valid r -> utf8_valid (replacement ++ r).
Proof.
  intro H. change (replacement ++ r) with (239%N :: [191%N; 189%N] ++ r).
  apply (uv_seq 239 [191; 189]%N r 2 128 191); [reflexivity|reflexivity|reflexivity|exact H].
Qed.

Lemma spec_fuel_valid : forall f s, utf8_valid (spec_fuel f s).
Proof.
  induction f as [|f IH]; intro s; [constructor|]. destruct s as [|x r]; [constructor|]. cbn [spec_fuel].
  destruct (lead_class x) as [[[n lo] hi]|] eqn:L; [|apply replacement_seq, IH].
  cbn zeta. destruct (Nat.eqb_spec (cont_run n lo hi r) n) as [E|E]; [|apply replacement_seq, IH].
  destruct (cont_run_firstn n lo hi r E) as [H1 H2].
  eapply uv_seq; [exact L|exact H1|exact H2|apply IH].
Qed.

Lemma utf8_spec_valid_proof s : utf8_valid (utf8_spec s).
Proof. apply spec_fuel_valid. Qed.

Lemma utf8_decoder_valid_unchanged_proof s :
  utf8_valid s -> starts3 239 187 191 s = false -> utf8_to_utf8 s = s.
Proof.
  intros Hv Hb. rewrite utf8_decoder_eq_spec_proof. unfold utf8_spec_bom, strip_utf8_mark. rewrite Hb.
  now apply utf8_valid_unchanged_proof.
Qed.

Lemma utf8_decoder_output_valid_proof s : utf8_valid (utf8_to_utf8 s).
Proof. rewrite utf8_decoder_eq_spec_proof. apply utf8_spec_valid_proof. Qed.

(* what the searcher is given under an explicit utf-8 label (no mark, or the UTF-8 mark: removed by the peeker) *)
Lemma searched_utf8_label_proof s :
  for_bom s = None -> searched_bytes (EncSome Utf8) s = Some (utf8_spec_bom s).
Proof.
  intro F. unfold searched_bytes. rewrite selection_table_proof, (for_bom_none_encoding _ F).
  unfold peeked_stream, possible_bom.
  cbn [decode_settings_of enc_config_of ds_strip_bom ec_bom_sniffing negb label_of].
  rewrite (for_bom_none_slice _ F), firstn_skipn. cbn [decode_with]. f_equal. apply utf8_decoder_eq_spec_proof.
Qed.
