(* Proofs/GitGrammarClassProofs.v — every line of the documented grammar (Spec/GitLineSyntax.v, gline_ok) is in
   the class of the line-level theorem: grammar_lines_in_class *)
From RG Require Import Base.Bytes Base.BytesFacts Model.Glob Model.GlobSet Model.Gitignore Spec.GlobSyntax Spec.GitSem
  Spec.GitGrammar Spec.GitLineClass Spec.GitLineSyntax
  Proofs.GlobSemProofs Proofs.GlobPathProofs Proofs.GlobParseProofs Proofs.GlobRenderProofs
  Proofs.GitLineRgProofs Proofs.GitLineGitProofs.

Definition piece_seg (p : gpiece) : seg :=
  match p with PComp its => SComp (map item_wtok its) | PDStar => SDStar end.

Lemma seg_of_piece_cpat ps : map seg_of_cpat (map piece_cpat ps) = map piece_seg ps.
Proof. rewrite map_map. apply map_ext. now intros [its|]. Qed.

Lemma toks_items its : toks (map item_wtok its) = comp_toks its.
Proof. unfold toks, comp_toks. rewrite map_map. apply map_ext. now intros [c|c| | |ms]. Qed.

(* the "/*" appended after a trailing "/**" *)
Fixpoint fix_tail (r : list gpiece) : list gpiece :=
  match r with
  | [] => []
  | p :: r' => match r' with
               | [] => match p with PDStar => [PDStar; PComp [IStar]] | _ => [p] end
               | _ => p :: fix_tail r'
               end
  end.

Lemma fix_tail_spec r :
  fix_tail r = match rev r with PDStar :: _ => r ++ [PComp [IStar]] | _ => r end.
Proof.
  induction r as [|p r IH]; [reflexivity|]. destruct r as [|p2 r'].
  - destruct p; reflexivity.
  - change (fix_tail (p :: p2 :: r')) with (p :: fix_tail (p2 :: r')). rewrite IH.
    change (rev (p :: p2 :: r')) with (rev (p2 :: r') ++ [p]).
    destruct (rev (p2 :: r')) as [|x t] eqn:E; [apply (f_equal (@rev _)) in E; rewrite rev_involutive in E; discriminate|].
    cbn [app]. destruct x; reflexivity.
Qed.

Lemma actual_anchored lead p r :
  (lead = true \/ r <> []) -> actual_pieces lead (p :: r) = p :: fix_tail r.
Proof.
  intro H. destruct r as [|p2 r'].
  - destruct H as [->|F]; [|congruence]. destruct p; reflexivity.
  - assert (E : actual_pieces lead (p :: p2 :: r') =
                match rev (p :: p2 :: r') with PDStar :: _ :: _ => (p :: p2 :: r') ++ [PComp [IStar]] | _ => p :: p2 :: r' end)
      by (destruct p; reflexivity).
    rewrite E, fix_tail_spec. change (rev (p :: p2 :: r')) with (rev (p2 :: r') ++ [p]).
    destruct (rev (p2 :: r')) as [|x t] eqn:Er; [apply (f_equal (@rev _)) in Er; rewrite rev_involutive in Er; discriminate|].
    cbn [app]. destruct x; [reflexivity|]. destruct t; reflexivity.
Qed.

Lemma after_comp_piece_n n : forall r, length r <= n -> no_adjacent_dstar_p r = true ->
  after_comp (map piece_seg r) = after_piece (fix_tail r).
Proof.
  induction n as [|n IH]; intros r Hlen Hadj.
  { destruct r; [reflexivity|cbn in Hlen; lia]. }
  destruct r as [|p r]; [reflexivity|]. cbn [length] in Hlen. destruct p as [its|].
  - assert (Hadj' : no_adjacent_dstar_p r = true) by exact Hadj.
    cbn [map piece_seg after_comp]. rewrite toks_items, (IH r) by (assumption || lia).
    destruct r as [|p2 r']; [reflexivity|]. reflexivity.
  - destruct r as [|[its|] r'].
    + reflexivity.
    + assert (Hadj' : no_adjacent_dstar_p r' = true) by exact Hadj. cbn [length] in Hlen.
      cbn [map piece_seg after_comp]. rewrite toks_items, (IH r') by (assumption || lia).
      destruct r' as [|p3 r'']; reflexivity.
    + discriminate.
Qed.

Lemma no_adj_map ps : no_adjacent_dstar (map piece_seg ps) = no_adjacent_dstar_p ps.
Proof.
  induction ps as [|p r IH]; [reflexivity|]. destruct p as [its|]; cbn [map piece_seg].
  - exact IH.
  - destruct r as [|[its|] r']; [reflexivity| |reflexivity]. exact IH.
Qed.

Lemma item_wtok_ok i : item_lok i = true -> wtok_ok (item_wtok i) = true.
Proof.
  destruct i as [c|c| | |ms]; cbn [item_lok item_wtok wtok_ok]; intro H; try reflexivity.
  - unfold plain_safe, plain_ok in H. split_orbs. now apply negb_true_iff.
  - split_orbs. now apply negb_true_iff.
  - apply andb_true_iff in H as [_ H]. exact H.
Qed.

Lemma piece_seg_ok p : piece_ok p = true -> piece_lok p = true -> seg_ok (piece_seg p) = true.
Proof.
  destruct p as [its|]; [|reflexivity]. cbn [piece_ok piece_lok piece_seg seg_ok]. intros Hok Hl.
  apply andb_true_iff in Hok as [_ Hne]. apply andb_true_iff. split.
  - rewrite forallb_forall. intros w Hw. apply in_map_iff in Hw as (i & <- & Hi). rewrite forallb_forall in Hl.
    apply item_wtok_ok. now apply Hl.
  - destruct its; [discriminate|reflexivity].
Qed.

(* tokens without alternates compare equal to themselves *)
Definition alt_free (t : token) : bool := match t with TAlt _ => false | _ => true end.

Lemma ranges_eqb_refl r : ranges_eqb r r = true.
Proof. induction r as [|[x y] r IH]; [reflexivity|]. cbn. now rewrite !N.eqb_refl, IH. Qed.

Lemma tokens_eqb_refl ts : forallb alt_free ts = true -> tokens_eqb ts ts = true.
Proof.
  induction ts as [|t ts IH]; [reflexivity|]. cbn [forallb tokens_eqb]. intro H. apply andb_true_iff in H as [Ht H].
  rewrite (IH H), andb_true_r. destruct t; try reflexivity; try discriminate.
  - apply N.eqb_refl.
  - cbn. now rewrite Bool.eqb_reflx, ranges_eqb_refl.
Qed.

Lemma comp_toks_alt_free its : forallb alt_free (comp_toks its) = true.
Proof. induction its as [|[c|c| | |ms] its IH]; cbn; auto. Qed.

Lemma after_piece_alt_free_n n : forall r, length r <= n -> forallb alt_free (after_piece r) = true.
Proof.
  induction n as [|n IH]; intros r Hlen.
  { destruct r; [reflexivity|cbn in Hlen; lia]. }
  destruct r as [|[its|] r]; [reflexivity| |]; cbn [length] in Hlen.
  - cbn [after_piece forallb alt_free]. rewrite forallb_app, comp_toks_alt_free, IH by lia. reflexivity.
  - destruct r as [|[its|] r']; [reflexivity| |reflexivity]. cbn [length] in Hlen.
    cbn [after_piece forallb alt_free]. rewrite forallb_app, comp_toks_alt_free, IH by lia. reflexivity.
Qed.

Lemma glob_tokens_alt_free ps : forallb alt_free (glob_tokens ps) = true.
Proof.
  destruct ps as [|[its|] r]; [reflexivity| |].
  - cbn [glob_tokens]. now rewrite forallb_app, comp_toks_alt_free, (after_piece_alt_free_n (length r)).
  - destruct r as [|[its|] r']; [reflexivity| |reflexivity].
    cbn [glob_tokens forallb alt_free]. now rewrite forallb_app, comp_toks_alt_free, (after_piece_alt_free_n (length r')).
Qed.

Lemma glob_tokens_anchored lead ps :
  glob_ok ps = true -> (lead = true \/ match ps with _ :: _ :: _ => True | _ => False end) ->
  glob_tokens (actual_pieces lead ps) = rg_tokens false (map piece_seg ps).
Proof.
  intros Hg Hanch. destruct (glob_ok_parts ps Hg) as (_ & Hadj & Hne). destruct ps as [|p r]; [congruence|].
  rewrite actual_anchored by (destruct Hanch as [->|H]; [now left|right; destruct r; [contradiction|discriminate]]).
  destruct p as [its|].
  - assert (Hadj' : no_adjacent_dstar_p r = true) by exact Hadj.
    cbn [map piece_seg rg_tokens app]. rewrite toks_items, (after_comp_piece_n (length r) r (le_n _) Hadj').
    destruct r; reflexivity.
  - destruct r as [|[its|] r'].
    + reflexivity.
    + assert (Hadj' : no_adjacent_dstar_p r' = true) by exact Hadj.
      cbn [map piece_seg rg_tokens]. rewrite toks_items, (after_comp_piece_n (length r') r' (le_n _) Hadj').
      change (fix_tail (PComp its :: r')) with (match r' with [] => [PComp its] | _ => PComp its :: fix_tail r' end).
      destruct r'; reflexivity.
    + discriminate.
Qed.

Lemma segs_ok_pieces ps : glob_ok ps = true -> forallb piece_lok ps = true -> segs_ok false (map piece_seg ps) = true.
Proof.
  intros Hg Hl. destruct (glob_ok_parts ps Hg) as (Hok & Hadj & Hne). unfold segs_ok. rewrite no_adj_map, Hadj.
  assert (Hs : forallb seg_ok (map piece_seg ps) = true).
  { rewrite forallb_forall. intros s Hs. apply in_map_iff in Hs as (p & <- & Hp). rewrite forallb_forall in Hok, Hl.
    apply piece_seg_ok; [now apply Hok|now apply Hl]. }
  rewrite Hs. destruct ps as [|p [|p2 r]]; [congruence| |]; destruct p; try destruct p2; reflexivity.
Qed.

Theorem grammar_lines_in_class_proof ci gl : gline_ok gl = true -> line_class ci (render_line gl) = true.
Proof.
  intro Hok. pose proof (gline_ok_parts gl Hok) as (Hg & Hl & Hf). destruct (glob_ok_parts _ Hg) as (Hpok & Hadj & Hne).
  unfold line_class. rewrite (add_line_render_proof ci gl Hok), (git_parse_render_proof gl Hok).
  cbn [ig_glob g_tokens g_opts ig_whitelist ig_only_dir gp_comps gp_neg gp_dironly case_insensitive literal_separator].
  rewrite !Bool.eqb_reflx, !andb_true_r. unfold git_cps.
  destruct (gl_lead gl || match gl_pieces gl with _ :: _ :: _ => true | _ => false end) eqn:Eanch.
  - (* anchored *)
    apply orb_true_iff. left. rewrite seg_of_piece_cpat, (segs_ok_pieces _ Hg Hl). cbn [andb].
    rewrite glob_tokens_anchored; [apply tokens_eqb_refl|assumption|].
    + rewrite <- (glob_tokens_anchored (gl_lead gl)); [apply glob_tokens_alt_free|assumption|].
      apply orb_true_iff in Eanch as [E|E]; [now left|right; destruct (gl_pieces gl) as [|? [|? ?]]; try discriminate; exact I].
    + apply orb_true_iff in Eanch as [E|E]; [now left|right; destruct (gl_pieces gl) as [|? [|? ?]]; try discriminate; exact I].
  - (* one piece, tried at any depth *)
    apply orb_false_iff in Eanch as [Elead Eone]. rewrite Elead.
    destruct (gl_pieces gl) as [|p [|p2 r]] eqn:Eps; [congruence| |discriminate].
    cbn [forallb] in Hpok, Hl. rewrite andb_true_r in Hpok, Hl.
    destruct p as [its|].
    + apply orb_true_iff. left. cbn [map piece_cpat_simple seg_of_cpat actual_pieces].
      assert (Hseg : seg_ok (SComp (map item_wtok its)) = true) by exact (piece_seg_ok (PComp its) Hpok Hl).
      unfold segs_ok. cbn [forallb seg_ok]. cbn [seg_ok] in Hseg. rewrite Hseg. cbn [andb no_adjacent_dstar negb].
      cbn [rg_tokens glob_tokens after_piece after_comp]. rewrite toks_items.
      apply tokens_eqb_refl. cbn [forallb alt_free]. now rewrite forallb_app, comp_toks_alt_free.
    + apply orb_true_iff. right. reflexivity.
Qed.

(* ---- comments and blank lines ---- *)
Lemma comment_in_class ci l : is_comment l = true -> line_class ci l = true.
Proof.
  intro H. unfold line_class.
  assert (Ha : add_line ci l = LSkip).
  { unfold add_line. destruct l as [|b r]; [discriminate|]. cbn in H. cbn [is_prefix_of]. now rewrite (N.eqb_sym 35 b), H. }
  assert (Hg : git_parse_line l = None) by (unfold git_parse_line; rewrite H; now destruct (dangling l)).
  now rewrite Ha, Hg.
Qed.

Lemma blank_in_class ci n : line_class ci (repeat 32%N n) = true.
Proof.
  unfold line_class.
  assert (Ha : add_line ci (repeat 32%N n) = LSkip).
  { rewrite add_line_stages. assert (E : is_prefix_of [35%N] (repeat 32%N n) = false) by (destruct n; reflexivity).
    rewrite E. cbv zeta. change (repeat 32%N n) with ([] ++ repeat 32%N n). now rewrite (trim_clean [] n eq_refl). }
  assert (Hg : git_parse_line (repeat 32%N n) = None).
  { rewrite git_parse_stages, dangling_spaces. assert (E : is_comment (repeat 32%N n) = false) by (destruct n; reflexivity).
    now rewrite E, to_units_spaces, dts_spaces. }
  now rewrite Ha, Hg.
Qed.

(* a line of the documented grammar: a pattern line, a comment, or a blank line *)
Definition grammar_line (l : bytes) : Prop :=
  (exists gl, gline_ok gl = true /\ l = render_line gl) \/ is_comment l = true \/ (exists n, l = repeat 32%N n).

Lemma grammar_line_in_class ci l : grammar_line l -> line_class ci l = true.
Proof.
  intros [(gl & Hok & ->)|[Hc|(n & ->)]].
  - now apply grammar_lines_in_class_proof.
  - now apply comment_in_class.
  - apply blank_in_class.
Qed.
