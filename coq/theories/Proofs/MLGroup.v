(* Proofs/MLGroup.v — the declarative multi-line reference at the level of blocks.
   Pure reasoning about Spec/GrepSpec.v and Spec/MultiLineSpec.v (no searcher model):
     1. group_matched, a right fold, equals a left-to-right accumulator version (gacc);
     2. g_step_s does not read g_out: the delivered events are a function of the other fields;
     3. a BLOCK of k >= 1 adjacent matched lines goes through the line reference as k EMatched events
        that group_matched merges into one: g_block;
     4. bfold: the reference run over separated blocks of line indices; group_matched of the
        per-line reference with the indicator flags of the blocks = bfold. *)
From RG Require Import Base.Bytes Model.Lines Model.SearcherCore Spec.GrepSpec Spec.MultiLineSpec.

(* ------------------------------------------------------------------ 1. grouping, left to right *)
Definition is_em (e : event) : bool := match e with EMatched _ _ _ => true | _ => false end.

(* acc: newest first *)
Definition gstep (acc : list event) (e : event) : list event :=
  match e with
  | EMatched o' n' b' =>
    match acc with
    | EMatched o n b :: acc' => if Nat.eqb o' (o + length b) then EMatched o n (b ++ b') :: acc' else e :: acc
    | _ => e :: acc
    end
  | _ => e :: acc
  end.

(* out: newest first, as in g_out *)
Definition gacc (out : list event) : list event := fold_left gstep (rev out) [].

Lemma gstep_nonem acc e : is_em e = false -> gstep acc e = e :: acc.
Proof. destruct e; cbn; intro H; try reflexivity. discriminate. Qed.

Lemma fold_gstep_nonem evs : forall acc, forallb (fun e => negb (is_em e)) evs = true ->
  fold_left gstep evs acc = rev evs ++ acc.
Proof.
  induction evs as [|e r IH]; intros acc H; [reflexivity|].
  cbn [forallb] in H. apply andb_true_iff in H as [He Hr]. apply negb_true_iff in He.
  cbn [fold_left rev]. rewrite gstep_nonem by exact He. rewrite IH by exact Hr.
  now rewrite <- app_assoc.
Qed.

(* group_matched only looks at the grouped tail *)
Lemma group_cons e rest : group_matched (e :: rest) =
  match e with
  | EMatched o n b =>
    match group_matched rest with
    | EMatched o' n' b' :: rest' =>
      if Nat.eqb o' (o + length b) then EMatched o n (b ++ b') :: rest'
      else EMatched o n b :: EMatched o' n' b' :: rest'
    | r => EMatched o n b :: r
    end
  | _ => e :: group_matched rest
  end.
Proof. destruct e; reflexivity. Qed.

Lemma group_congr xs : forall ys ys', group_matched ys = group_matched ys' ->
  group_matched (xs ++ ys) = group_matched (xs ++ ys').
Proof.
  induction xs as [|x xs IH]; intros ys ys' H; [exact H|].
  cbn [app]. rewrite !group_cons. rewrite (IH ys ys' H). reflexivity.
Qed.

Lemma group_merge o n b o' n' b' r : o' = o + length b ->
  group_matched (EMatched o n b :: EMatched o' n' b' :: r) = group_matched (EMatched o n (b ++ b') :: r).
Proof.
  intros ->. rewrite (group_cons (EMatched o n b)). rewrite (group_cons (EMatched (o + length b) n' b')).
  rewrite (group_cons (EMatched o n (b ++ b'))).
  destruct (group_matched r) as [|[|o2 n2 b2| | | |] r2]; try (rewrite Nat.eqb_refl; reflexivity).
  rewrite app_length, Nat.add_assoc.
  destruct (Nat.eqb o2 (o + length b + length b')).
  - rewrite Nat.eqb_refl. now rewrite app_assoc.
  - rewrite Nat.eqb_refl. reflexivity.
Qed.

Lemma group_gstep : forall evs acc,
  group_matched (rev (fold_left gstep evs acc)) = group_matched (rev acc ++ evs).
Proof.
  induction evs as [|e r IH]; intro acc; [now rewrite app_nil_r|].
  cbn [fold_left]. rewrite IH.
  assert (Hpush : group_matched (rev (e :: acc) ++ r) = group_matched (rev acc ++ e :: r)).
  { cbn [rev]. now rewrite <- app_assoc. }
  destruct e as [|o' n' b'| | | |]; try exact Hpush.
  destruct acc as [|[|o n b| | | |] acc']; try exact Hpush.
  cbn [gstep]. destruct (Nat.eqb_spec o' (o + length b)) as [E|E]; [|exact Hpush].
  cbn [rev]. rewrite <- !app_assoc. cbn [app]. apply group_congr. symmetry. apply group_merge. exact E.
Qed.

(* grouping never reaches behind the newest event of the accumulator *)
Definition adj (e e' : event) : bool :=
  match e, e' with
  | EMatched o _ b, EMatched o' _ _ => Nat.eqb o' (o + length b)
  | _, _ => false
  end.

Lemma group_nomerge h e tail : adj h e = false ->
  group_matched (h :: e :: tail) = h :: group_matched (e :: tail).
Proof.
  intro H. rewrite (group_cons h). destruct h as [|o n b| | | |]; try reflexivity.
  rewrite (group_cons e). destruct e as [|o' n' b'| | | |]; try reflexivity.
  cbn [adj] in H.
  destruct (group_matched tail) as [|[|o2 n2 b2| | | |] r2]; try (rewrite H; reflexivity).
  destruct (Nat.eqb o2 (o' + length b')); rewrite H; reflexivity.
Qed.

Definition Qacc (acc : list event) : Prop :=
  forall tail, group_matched (rev acc ++ tail) =
    match acc with [] => group_matched tail | h :: t => rev t ++ group_matched (h :: tail) end.

Lemma Qacc_push acc e : Qacc acc -> match acc with h :: _ => adj h e = false | [] => True end -> Qacc (e :: acc).
Proof.
  intros HQ Hadj tail. cbn [rev]. rewrite <- app_assoc. cbn [app]. rewrite HQ.
  destruct acc as [|h t]; [reflexivity|].
  rewrite (group_nomerge h e tail Hadj). cbn [rev]. now rewrite <- app_assoc.
Qed.

Lemma Qacc_gstep acc e : Qacc acc -> Qacc (gstep acc e).
Proof.
  intro HQ.
  destruct e as [|o' n' b'| | | |];
    try (cbn [gstep]; apply Qacc_push; [exact HQ|destruct acc as [|[] ?]; reflexivity]).
  destruct acc as [|h t]; [apply Qacc_push; [exact HQ|exact I]|].
  destruct h as [|o n b| | | |]; try (cbn [gstep]; apply Qacc_push; [exact HQ|reflexivity]).
  cbn [gstep]. destruct (Nat.eqb_spec o' (o + length b)) as [E|E].
  - intro tail. cbn [rev]. rewrite <- app_assoc. cbn [app].
    rewrite (group_congr (rev t) (EMatched o n (b ++ b') :: tail) (EMatched o n b :: EMatched o' n' b' :: tail))
      by (symmetry; apply group_merge; exact E).
    specialize (HQ (EMatched o' n' b' :: tail)). cbn [rev] in HQ. rewrite <- app_assoc in HQ. cbn [app] in HQ.
    rewrite HQ. f_equal. apply group_merge. exact E.
  - apply Qacc_push; [exact HQ|]. cbn [adj]. now apply Nat.eqb_neq.
Qed.

Lemma Qacc_fold : forall evs acc, Qacc acc -> Qacc (fold_left gstep evs acc).
Proof. induction evs as [|e r IH]; intros acc H; [exact H|]. cbn [fold_left]. apply IH, Qacc_gstep, H. Qed.

Theorem group_is_gacc out : group_matched (rev out) = rev (gacc out).
Proof.
  unfold gacc.
  pose proof (group_gstep (rev out) []) as H1. cbn [rev app] in H1. rewrite <- H1.
  assert (HQ : Qacc (fold_left gstep (rev out) [])) by (apply Qacc_fold; intro tail; reflexivity).
  specialize (HQ []). rewrite app_nil_r in HQ. rewrite HQ.
  destruct (fold_left gstep (rev out) []) as [|h t]; [reflexivity|].
  cbn [rev]. f_equal. destruct h; reflexivity.
Qed.

Lemma gacc_cons e out : gacc (e :: out) = gstep (gacc out) e.
Proof. unfold gacc. cbn [rev]. now rewrite fold_left_app. Qed.

Lemma gacc_app_nonem X out : forallb (fun e => negb (is_em e)) X = true -> gacc (X ++ out) = X ++ gacc out.
Proof.
  induction X as [|x X IH]; intro H; [reflexivity|].
  cbn [forallb] in H. apply andb_true_iff in H as [Hx HX]. apply negb_true_iff in Hx.
  cbn [app]. rewrite gacc_cons, (IH HX). now apply gstep_nonem.
Qed.

(* ------------------------------------------------------------------ 2. g_step_s and g_out *)
Definition with_out (g : gstate) (o : list event) : gstate :=
  {| g_lnum := g_lnum g; g_off := g_off g; g_pend := g_pend g; g_after := g_after g; g_sunk := g_sunk g;
     g_matched := g_matched g; g_stopped := g_stopped g; g_out := o |}.

Lemma with_out_id g : with_out g (g_out g) = g.
Proof. destruct g; reflexivity. Qed.
Lemma with_out_twice g o o' : with_out (with_out g o) o' = with_out g o'.
Proof. reflexivity. Qed.

Section Blocks.
  Variable cfg : config.
  Hypothesis Hns : c_stop_on_nonmatch cfg = false.

  Notation step f := (fun g l => g_step_s cfg g l f).

  (* the context part of a matched line's events, newest first *)
  Definition ctxp (g : gstate) : list event :=
    let bl := firstn (c_before cfg) (g_pend g) in
    let skipped := Nat.ltb (length bl) (length (g_pend g)) in
    let brk1 := if any_context cfg && g_sunk g && skipped && negb (Nat.eqb (length bl) 0) then [EBreak] else [] in
    let brk2 := if any_context cfg && g_sunk g && Nat.eqb (length bl) 0 && negb (Nat.eqb (length (g_pend g)) 0)
                then [EBreak] else [] in
    rev (brk1 ++ before_events cfg bl ++ brk2).

  Definition new_events (g : gstate) (l : bytes) (f : bool) : list event :=
    if f then EMatched (g_off g) (lnum_of cfg (g_lnum g)) l :: ctxp g
    else if Nat.leb 1 (g_after g) then [EContext CAfter (g_off g) (lnum_of cfg (g_lnum g)) l]
    else if c_passthru cfg then [EContext COther (g_off g) (lnum_of cfg (g_lnum g)) l]
    else [].

  Lemma rev_snoc3 {A} (a b c : list A) e : rev (a ++ b ++ c ++ [e]) = e :: rev (a ++ b ++ c).
  Proof. rewrite !app_assoc. rewrite rev_unit. now rewrite <- !app_assoc. Qed.

  Lemma step_with_out g o l f : g_stopped g = false ->
    g_step_s cfg (with_out g o) l f = with_out (g_step_s cfg g l f) (new_events g l f ++ o).
  Proof.
    intro H. unfold g_step_s, new_events, ctxp, with_out.
    cbn [g_lnum g_off g_pend g_after g_sunk g_matched g_stopped g_out]. rewrite H.
    destruct f.
    - rewrite rev_snoc3. reflexivity.
    - destruct (Nat.leb 1 (g_after g)); [reflexivity|]. destruct (c_passthru cfg); reflexivity.
  Qed.

  Lemma step_out g l f : g_stopped g = false -> g_out (g_step_s cfg g l f) = new_events g l f ++ g_out g.
  Proof.
    intro H. unfold g_step_s, new_events, ctxp. rewrite H.
    destruct f.
    - cbn [g_out]. rewrite rev_snoc3. reflexivity.
    - destruct (Nat.leb 1 (g_after g)); [reflexivity|]. destruct (c_passthru cfg); reflexivity.
  Qed.

  Lemma step_stopped g l f : g_stopped g = false -> g_stopped (g_step_s cfg g l f) = false.
  Proof.
    intro H. unfold g_step_s. rewrite H, Hns. cbn [andb].
    destruct f; [reflexivity|]. destruct (Nat.leb 1 (g_after g)); [reflexivity|]. destruct (c_passthru cfg); reflexivity.
  Qed.

  Lemma step_off g l f : g_stopped g = false -> g_off (g_step_s cfg g l f) = g_off g + length l.
  Proof.
    intro H. unfold g_step_s. rewrite H.
    destruct f; [reflexivity|]. destruct (Nat.leb 1 (g_after g)); [reflexivity|]. destruct (c_passthru cfg); reflexivity.
  Qed.

  Lemma fold_stopped f ls : forall g, g_stopped g = false -> g_stopped (fold_left (step f) ls g) = false.
  Proof. induction ls as [|l r IH]; intros g H; [exact H|]. cbn [fold_left]. apply IH, step_stopped, H. Qed.

  Lemma before_events_nonem bl : forallb (fun e => negb (is_em e)) (before_events cfg bl) = true.
  Proof.
    induction bl as [|x r IH]; [reflexivity|]. cbn [before_events]. rewrite forallb_app, IH. reflexivity.
  Qed.

  Lemma ctxp_nonem g : forallb (fun e => negb (is_em e)) (ctxp g) = true.
  Proof.
    unfold ctxp. apply forallb_forall. intros e He. apply in_rev in He.
    apply in_app_or in He as [He|He]; [destruct (_ && _ && _ && _); [destruct He as [<-|[]]; reflexivity|destruct He]|].
    apply in_app_or in He as [He|He].
    - pose proof (before_events_nonem (firstn (c_before cfg) (g_pend g))) as Hb.
      rewrite forallb_forall in Hb. apply Hb, He.
    - destruct (_ && _ && _ && _); [destruct He as [<-|[]]; reflexivity|destruct He].
  Qed.

  Lemma ctxp_nil g : g_pend g = [] -> ctxp g = [].
  Proof.
    intro H. unfold ctxp. rewrite H, firstn_nil. cbn [length Nat.eqb negb before_events app].
    rewrite !andb_false_r. reflexivity.
  Qed.

  Lemma new_events_false_nonem g l : forallb (fun e => negb (is_em e)) (new_events g l false) = true.
  Proof.
    unfold new_events. destruct (Nat.leb 1 (g_after g)); [reflexivity|]. destruct (c_passthru cfg); reflexivity.
  Qed.

  (* ---------------------------------------------------------------- 3. blocks *)
  Definition block_rec (g : gstate) (blk : list bytes) (o : list event) : gstate :=
    {| g_lnum := g_lnum g + length blk; g_off := g_off g + length (concat blk); g_pend := [];
       g_after := c_after cfg; g_sunk := true; g_matched := true; g_stopped := false; g_out := o |}.

  (* a block of adjacent matched lines delivered as ONE matched event *)
  Definition g_block (g : gstate) (blk : list bytes) : gstate :=
    block_rec g blk (EMatched (g_off g) (lnum_of cfg (g_lnum g)) (concat blk) :: ctxp g ++ g_out g).

  Lemma fold_true_fields : forall r g l o, g_stopped g = false ->
    with_out (fold_left (step true) (l :: r) g) o = block_rec g (l :: r) o.
  Proof.
    induction r as [|l2 r IH]; intros g l o H.
    - cbn [fold_left]. unfold g_step_s, with_out, block_rec. rewrite H.
      cbn [g_lnum g_off g_pend g_after g_sunk g_matched g_stopped g_out concat length].
      rewrite app_nil_r. f_equal. lia.
    - change (fold_left (step true) (l :: l2 :: r) g) with (fold_left (step true) (l2 :: r) (g_step_s cfg g l true)).
      rewrite IH by (apply step_stopped; exact H).
      unfold block_rec. f_equal.
      + unfold g_step_s. rewrite H. cbn [g_lnum length]. lia.
      + rewrite step_off by exact H. cbn [concat]. rewrite !app_length. lia.
  Qed.

  Lemma fold_true_gacc : forall r g acc o n bs,
    g_stopped g = false -> g_pend g = [] -> g_off g = o + length bs ->
    gacc (g_out g) = EMatched o n bs :: acc ->
    gacc (g_out (fold_left (step true) r g)) = EMatched o n (bs ++ concat r) :: acc.
  Proof.
    induction r as [|l r IH]; intros g acc o n bs Hs Hp Ho Hg.
    - cbn [fold_left concat]. now rewrite app_nil_r.
    - cbn [fold_left concat]. rewrite app_assoc. apply IH.
      + apply step_stopped, Hs.
      + unfold g_step_s. rewrite Hs. reflexivity.
      + rewrite step_off by exact Hs. rewrite app_length. lia.
      + rewrite step_out by exact Hs. unfold new_events. rewrite (ctxp_nil g Hp). cbn [app].
        rewrite gacc_cons, Hg. cbn [gstep]. rewrite Ho, Nat.eqb_refl. reflexivity.
  Qed.

  (* the per-line state gl and the block-level state gb *)
  Definition Rel (gl gb : gstate) : Prop := gb = with_out gl (gacc (g_out gl)).

  Definition wsep (g : gstate) : Prop :=
    match g_out g with EMatched o _ b :: _ => o + length b <= g_off g | _ => True end.
  Definition ssep (g : gstate) : Prop :=
    match g_out g with EMatched o _ b :: _ => o + length b < g_off g | _ => True end.

  Lemma Rel_stopped gl gb : Rel gl gb -> g_stopped gb = g_stopped gl.
  Proof. intros ->. reflexivity. Qed.

  Lemma Rel_false gl gb l : Rel gl gb -> g_stopped gl = false ->
    Rel (g_step_s cfg gl l false) (g_step_s cfg gb l false).
  Proof.
    intros -> Hs. unfold Rel. rewrite step_with_out by exact Hs.
    rewrite step_out by exact Hs. rewrite gacc_app_nonem by apply new_events_false_nonem. reflexivity.
  Qed.

  Lemma ssep_false g l : g_stopped g = false -> 1 <= length l -> wsep g -> ssep (g_step_s cfg g l false).
  Proof.
    intros Hs Hl Hw. unfold ssep. rewrite step_out, step_off by exact Hs.
    unfold new_events. destruct (Nat.leb 1 (g_after g)); [exact I|]. destruct (c_passthru cfg); [exact I|].
    cbn [app]. unfold wsep in Hw. destruct (g_out g) as [|[] ?]; auto. lia.
  Qed.

  Lemma ssep_wsep g : ssep g -> wsep g.
  Proof. unfold ssep, wsep. destruct (g_out g) as [|[] ?]; auto. lia. Qed.

  Lemma Rel_fold_false : forall pre gl gb, Rel gl gb -> g_stopped gl = false ->
    Rel (fold_left (step false) pre gl) (fold_left (step false) pre gb).
  Proof.
    induction pre as [|l r IH]; intros gl gb HR Hs; [exact HR|]. cbn [fold_left].
    apply IH; [apply Rel_false; assumption|apply step_stopped; exact Hs].
  Qed.

  Lemma ssep_fold_false : forall pre g, g_stopped g = false -> Forall (fun l : bytes => 1 <= length l) pre ->
    wsep g -> (pre = [] -> ssep g) -> ssep (fold_left (step false) pre g).
  Proof.
    induction pre as [|l r IH]; intros g Hs Hne Hw He; [apply He; reflexivity|].
    inversion Hne as [|? ? Hl Hr]; subst. cbn [fold_left].
    pose proof (ssep_false g l Hs Hl Hw) as H1.
    apply IH; [apply step_stopped; exact Hs|exact Hr|apply ssep_wsep; exact H1|intros _; exact H1].
  Qed.

  Lemma Rel_block gl gb blk : Rel gl gb -> g_stopped gl = false -> blk <> [] -> ssep gb ->
    Rel (fold_left (step true) blk gl) (g_block gb blk) /\ wsep (g_block gb blk).
  Proof.
    intros -> Hs Hne Hsep. destruct blk as [|l r]; [congruence|].
    split.
    - unfold Rel. rewrite fold_true_fields by exact Hs.
      unfold g_block, block_rec, with_out. cbn [g_lnum g_off g_out].
      f_equal.
      change (fold_left (step true) (l :: r) gl) with (fold_left (step true) r (g_step_s cfg gl l true)).
      set (g1 := g_step_s cfg gl l true).
      assert (Hg1 : gacc (g_out g1) = EMatched (g_off gl) (lnum_of cfg (g_lnum gl)) l :: ctxp gl ++ gacc (g_out gl)).
      { unfold g1. rewrite step_out by exact Hs. unfold new_events. cbn [app].
        rewrite gacc_cons. rewrite gacc_app_nonem by apply ctxp_nonem.
        pose proof (ctxp_nonem gl) as Hc.
        destruct (ctxp gl) as [|x X] eqn:Ec.
        - cbn [app]. unfold ssep in Hsep. cbn [with_out g_out g_off] in Hsep.
          destruct (gacc (g_out gl)) as [|[|o n b| | | |] acc]; try reflexivity.
          cbn [gstep]. destruct (Nat.eqb_spec (g_off gl) (o + length b)); [lia|reflexivity].
        - cbn [forallb] in Hc. apply andb_true_iff in Hc as [Hx _]. cbn [app].
          destruct x; try reflexivity. discriminate. }
      cbn [concat]. symmetry.
      change (ctxp (with_out gl (gacc (g_out gl)))) with (ctxp gl).
      apply (fold_true_gacc r g1 _ _ _ l); auto.
      + apply step_stopped, Hs.
      + unfold g1, g_step_s. rewrite Hs. reflexivity.
      + unfold g1. rewrite step_off by exact Hs. reflexivity.
    - unfold wsep, g_block, block_rec. cbn [g_out g_off with_out]. lia.
  Qed.
End Blocks.

(* ------------------------------------------------------------------ 4. separated blocks of line indices *)
Definition in_iv (t : nat) (iv : nat * nat) : bool := Nat.leb (fst iv) t && Nat.ltb t (snd iv).
Definition flagf (blocks : list (nat * nat)) (t : nat) : bool := existsb (in_iv t) blocks.

Section Fold.
  Variable cfg : config.
  Hypothesis Hns : c_stop_on_nonmatch cfg = false.
  Variable L : list bytes.
  Hypothesis HL : Forall (fun l : bytes => 1 <= length l) L.
  Notation n := (length L).
  Notation step f := (fun g l => g_step_s cfg g l f).

  (* lines k .. i-1 *)
  Definition seg (k i : nat) : list bytes := firstn (i - k) (skipn k L).

  Lemma seg_length k i : i <= n -> length (seg k i) = i - k.
  Proof. intro H. unfold seg. rewrite firstn_length, skipn_length. lia. Qed.

  Lemma seg_all k : seg k n = skipn k L.
  Proof. unfold seg. apply firstn_all2. rewrite skipn_length. lia. Qed.

  Lemma skipn_skipn' {A} (a b : nat) (l : list A) : skipn a (skipn b l) = skipn (b + a) l.
  Proof.
    revert l; induction b as [|b IH]; intro l; [reflexivity|].
    destruct l as [|x l]; [now rewrite !skipn_nil|]. cbn [skipn Nat.add]. apply IH.
  Qed.

  Lemma seg_split k i j : k <= i -> i <= j -> seg k j = seg k i ++ seg i j.
  Proof.
    intros H1 H2. unfold seg.
    replace (j - k) with ((i - k) + (j - i)) by lia.
    rewrite <- (firstn_skipn (i - k) (firstn (i - k + (j - i)) (skipn k L))).
    rewrite firstn_firstn. replace (Nat.min (i - k) (i - k + (j - i))) with (i - k) by lia. f_equal.
    rewrite skipn_firstn_comm. replace (i - k + (j - i) - (i - k)) with (j - i) by lia.
    rewrite skipn_skipn'. do 2 f_equal. lia.
  Qed.

  Lemma seg_nil k : seg k k = [].
  Proof. unfold seg. now rewrite Nat.sub_diag. Qed.

  Lemma seg_nonempty k i : k < i -> i <= n -> seg k i <> [].
  Proof. intros H1 H2 E. apply (f_equal (@length _)) in E. rewrite seg_length in E by exact H2. cbn in E. lia. Qed.

  Lemma seg_lines k i : Forall (fun l : bytes => 1 <= length l) (seg k i).
  Proof.
    unfold seg. pose proof HL as H. rewrite <- (firstn_skipn k L) in H. apply Forall_app in H as [_ H].
    rewrite <- (firstn_skipn (i - k) (skipn k L)) in H. apply Forall_app in H as [H _]. exact H.
  Qed.

  (* the per-line reference with the flag of line t given by f *)
  Fixpoint lfold (f : nat -> bool) (k : nat) (ls : list bytes) (g : gstate) : gstate :=
    match ls with
    | [] => g
    | l :: r => lfold f (S k) r (g_step_s cfg g l (f k))
    end.

  Lemma lfold_app f : forall a k b g, lfold f k (a ++ b) g = lfold f (k + length a) b (lfold f k a g).
  Proof.
    induction a as [|x a IH]; intros k b g; cbn [app lfold length]; [now rewrite Nat.add_0_r|].
    rewrite IH. f_equal. lia.
  Qed.

  Lemma lfold_const f v : forall ls k g, (forall t, k <= t < k + length ls -> f t = v) ->
    lfold f k ls g = fold_left (step v) ls g.
  Proof.
    induction ls as [|l r IH]; intros k g H; [reflexivity|]. cbn [lfold fold_left].
    rewrite (H k) by (cbn [length]; lia). apply IH. intros t Ht. apply H. cbn [length]. lia.
  Qed.

  Lemma lfold_ext f f' : forall ls k g, (forall t, k <= t < k + length ls -> f t = f' t) ->
    lfold f k ls g = lfold f' k ls g.
  Proof.
    induction ls as [|l r IH]; intros k g H; [reflexivity|]. cbn [lfold].
    rewrite (H k) by (cbn [length]; lia). apply IH. intros t Ht. apply H. cbn [length]. lia.
  Qed.

  Lemma lfold_combine f : forall ls k g,
    fold_left (fun st (lf : bytes * bool) => g_step_s cfg st (fst lf) (snd lf))
              (combine ls (map f (seq k (length ls)))) g = lfold f k ls g.
  Proof.
    induction ls as [|l r IH]; intros k g; [reflexivity|].
    cbn [length seq map combine fold_left lfold fst snd]. apply IH.
  Qed.

  (* the block-level reference: blocks (i, j) = lines i .. j-1, in order; empty blocks are skipped *)
  Fixpoint bfold (blocks : list (nat * nat)) (k : nat) (g : gstate) : gstate :=
    match blocks with
    | [] => fold_left (step false) (seg k n) g
    | (i, j) :: r =>
      if Nat.leb j i then bfold r k g
      else bfold r j (g_block cfg (fold_left (step false) (seg k i) g) (seg i j))
    end.

  (* blocks in order, inside the input, with at least one unflagged line between two of them *)
  Fixpoint sepb (lo : nat) (blocks : list (nat * nat)) : Prop :=
    match blocks with
    | [] => True
    | (i, j) :: r => lo <= i /\ i <= j /\ j <= n /\ sepb (S j) r
    end.

  Lemma sepb_weaken : forall blocks lo lo', lo' <= lo -> sepb lo blocks -> sepb lo' blocks.
  Proof. intros [|[i j] r] lo lo' H; cbn [sepb]; [auto|]. intros (H1 & H2); split; [lia|exact H2]. Qed.

  Lemma flagf_below : forall blocks lo t, sepb lo blocks -> t < lo -> flagf blocks t = false.
  Proof.
    induction blocks as [|[i j] r IH]; intros lo t Hs Ht; [reflexivity|].
    destruct Hs as (H1 & H2 & H3 & H4). unfold flagf. cbn [existsb]. fold (flagf r t).
    rewrite (IH (S j) t H4) by lia. unfold in_iv. cbn [fst snd].
    destruct (Nat.leb_spec i t); [lia|reflexivity].
  Qed.

  Theorem lfold_bfold : forall blocks k lo gl gb,
    Rel gl gb -> g_stopped gl = false -> k <= lo -> k <= n -> wsep gb -> (k = lo -> ssep gb) ->
    sepb lo blocks ->
    Rel (lfold (flagf blocks) k (skipn k L) gl) (bfold blocks k gb).
  Proof.
    induction blocks as [|[i j] r IH]; intros k lo gl gb HR Hs Hk Hkn Hw Hss Hsep.
    - cbn [bfold]. rewrite seg_all. rewrite (lfold_const _ false) by reflexivity.
      apply Rel_fold_false; assumption.
    - destruct Hsep as (H1 & H2 & H3 & H4). cbn [bfold].
      destruct (Nat.leb_spec j i) as [Hji|Hij].
      + (* an empty block *)
        rewrite (lfold_ext _ (flagf r)).
        * apply (IH k (S j)); auto; [lia|intro; lia].
        * intros t _. unfold flagf. cbn [existsb]. unfold in_iv at 1. cbn [fst snd].
          destruct (Nat.leb_spec i t); destruct (Nat.ltb_spec t j); try reflexivity; lia.
      + rewrite <- (seg_all k). rewrite (seg_split k i n) by lia. rewrite (seg_split i j n) by lia.
        rewrite !lfold_app. rewrite !seg_length by lia.
        replace (k + (i - k)) with i by lia. replace (i + (j - i)) with j by lia.
        rewrite seg_all.
        (* the lines before the block *)
        rewrite (lfold_const _ false (seg k i)).
        2:{ intros t Ht. rewrite seg_length in Ht by lia. apply (flagf_below _ i); [|lia].
            cbn [sepb]. repeat split; auto; lia. }
        (* the block *)
        rewrite (lfold_const _ true (seg i j)).
        2:{ intros t Ht. rewrite seg_length in Ht by lia. unfold flagf. cbn [existsb]. unfold in_iv at 1. cbn [fst snd].
            destruct (Nat.leb_spec i t); [|lia]. destruct (Nat.ltb_spec t j); [reflexivity|lia]. }
        set (gl1 := fold_left (step false) (seg k i) gl).
        set (gb1 := fold_left (step false) (seg k i) gb).
        assert (HR1 : Rel gl1 gb1) by (apply Rel_fold_false; assumption).
        assert (Hs1 : g_stopped gl1 = false) by (apply fold_stopped; assumption).
        assert (Hsb : g_stopped gb = false) by (rewrite (Rel_stopped gl gb HR); exact Hs).
        assert (Hss1 : ssep gb1).
        { apply ssep_fold_false; auto; [apply seg_lines|].
          intro E. apply Hss. apply (f_equal (@length _)) in E. rewrite seg_length in E by lia. cbn in E. lia. }
        destruct (Rel_block cfg Hns gl1 gb1 (seg i j) HR1 Hs1 (seg_nonempty i j Hij H3) Hss1) as [HR2 Hw2].
        rewrite (lfold_ext _ (flagf r)).
        * apply (IH j (S j)); auto; [apply fold_stopped; [exact Hns|exact Hs1]|intro; lia].
        * intros t Ht. unfold flagf. cbn [existsb]. unfold in_iv at 1. cbn [fst snd].
          destruct (Nat.ltb_spec t j); [lia|]. now rewrite andb_false_r.
  Qed.
End Fold.
