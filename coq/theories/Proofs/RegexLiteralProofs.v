(* Proofs/RegexLiteralProofs.v — soundness of the inner literal extractor (Model/RegexLiteral.v):
   every text matched by an HIR is covered by the extracted tagged sequence
   (prefix flag = the literal starts the text; exact = the literal reaches the end of the text),
   hence contains one of the literals of extract_untagged as a substring. *)
From RG Require Import Base.Bytes Base.BytesFacts Spec.RegexSem Model.RegexTables Model.RegexBuild
  Model.RegexLiteral Proofs.RegexSemProofs Proofs.RegexBuildProofs Proofs.Utf8Proofs.

(* ---- coverage ---- *)
Definition cov1 (p : bool) (l : lit) (w : bytes) : Prop :=
  exists u v, w = u ++ l_bytes l ++ v /\ (p = true -> u = []) /\ (l_exact l = true -> v = []).
Definition cov (p : bool) (ls : list lit) (w : bytes) : Prop := exists l, In l ls /\ cov1 p l w.
Definition scov (p : bool) (s : seq_t) (w : bytes) : Prop :=
  match s with None => True | Some ls => cov p ls w end.
Definition tcov (t : tseq) (w : bytes) : Prop := scov (t_prefix t) (t_seq t) w.

Lemma cov1_flag p p' l w : (p' = true -> p = true) -> cov1 p l w -> cov1 p' l w.
Proof. intros Hp (u & v & E & Hu & Hv). exists u, v. auto. Qed.

Lemma cov1_inexact p l w x : cov1 p l w -> cov1 p (lit_make_inexact l) (w ++ x).
Proof.
  intros (u & v & -> & Hu & Hv). exists u, (v ++ x). cbn. rewrite <- !app_assoc.
  repeat split; auto. discriminate.
Qed.

Lemma cov1_ext p l w x : l_exact l = false -> cov1 p l w -> cov1 p l (w ++ x).
Proof.
  intros Hl (u & v & -> & Hu & Hv). exists u, (v ++ x). rewrite <- !app_assoc.
  repeat split; auto. congruence.
Qed.

Lemma cov1_prepend l w x : cov1 false l w -> cov1 false l (x ++ w).
Proof.
  intros (u & v & -> & Hu & Hv). exists (x ++ u), v. rewrite <- !app_assoc. repeat split; auto. discriminate.
Qed.

Lemma firstn_skipn_app {A} n (l : list A) : l = firstn n l ++ skipn n l.
Proof. symmetry. apply firstn_skipn. Qed.

Lemma cov1_keep_first p n l w : cov1 p l w -> cov1 p (lit_keep_first_bytes n l) w.
Proof.
  unfold lit_keep_first_bytes. destruct (Nat.leb (lit_len l) n); [auto|].
  intros (u & v & -> & Hu & Hv). exists u, (skipn n (l_bytes l) ++ v). cbn.
  rewrite app_assoc with (m := skipn n (l_bytes l)). rewrite <- (firstn_skipn_app n (l_bytes l)).
  repeat split; auto. discriminate.
Qed.

Lemma cov_map p f ls w : (forall l, cov1 p l w -> cov1 p (f l) w) -> cov p ls w -> cov p (map f ls) w.
Proof. intros Hf (l & Hin & Hc). exists (f l). split; [now apply in_map|auto]. Qed.

Lemma cov_flag p p' ls w : (p' = true -> p = true) -> cov p ls w -> cov p' ls w.
Proof. intros Hp (l & Hin & Hc). exists l. split; [auto|eapply cov1_flag; eauto]. Qed.

Lemma scov_flag p p' s w : (p' = true -> p = true) -> scov p s w -> scov p' s w.
Proof. destruct s; cbn; [apply cov_flag|auto]. Qed.

Lemma scov_keep_first p n s w : scov p s w -> scov p (seq_keep_first_bytes n s) w.
Proof. destruct s; cbn; [|auto]. apply cov_map. intro. apply cov1_keep_first. Qed.

Lemma scov_make_inexact p s w x : scov p s w -> scov p (seq_make_inexact s) (w ++ x).
Proof.
  destruct s as [ls|]; cbn; [|auto]. intros (l & Hin & Hc). exists (lit_make_inexact l).
  split; [now apply in_map|now apply cov1_inexact].
Qed.

Lemma scov_make_inexact0 p s w : scov p s w -> scov p (seq_make_inexact s) w.
Proof. intro H. rewrite <- (app_nil_r w). now apply scov_make_inexact. Qed.

Lemma scov_inexact_ext p s w x : seq_is_inexact s = true -> scov p s w -> scov p s (w ++ x).
Proof.
  destruct s as [ls|]; cbn; [|auto]. intros Hall (l & Hin & Hc). exists l. split; [exact Hin|].
  apply cov1_ext; [|exact Hc]. rewrite forallb_forall in Hall. specialize (Hall l Hin).
  now apply negb_true_iff in Hall.
Qed.

(* dedup *)
Lemma bytes_eqb_true a b : bytes_eqb a b = true -> a = b.
Proof. apply bytes_eqb_eq. Qed.

Lemma cov1_same_bytes p (k x : lit) w :
  l_bytes x = l_bytes k -> (l_exact k = true -> l_exact x = true) -> cov1 p x w -> cov1 p k w.
Proof.
  intros Eb Ee (u & v & -> & Hu & Hv). exists u, v. rewrite Eb. repeat split; auto.
Qed.

Lemma cov_dedup_into p kept l w : cov p (kept :: l) w -> cov p (dedup_into kept l) w.
Proof.
  revert kept; induction l as [|x t IH]; intros kept H; cbn [dedup_into]; [exact H|].
  destruct (bytes_eqb (l_bytes x) (l_bytes kept)) eqn:E.
  - apply bytes_eqb_true in E. apply IH. destruct H as (l & [<-|[<-|Hin]] & Hc).
    + (* covered by kept *)
      exists (if Bool.eqb (l_exact x) (l_exact kept) then kept else lit_make_inexact kept).
      split; [now left|]. destruct (Bool.eqb (l_exact x) (l_exact kept)); [exact Hc|].
      rewrite <- (app_nil_r w). now apply cov1_inexact.
    + (* covered by x, same bytes *)
      exists (if Bool.eqb (l_exact x) (l_exact kept) then kept else lit_make_inexact kept).
      split; [now left|]. destruct (Bool.eqb (l_exact x) (l_exact kept)) eqn:B.
      * apply Bool.eqb_prop in B. eapply cov1_same_bytes; [exact E| |exact Hc]. congruence.
      * eapply cov1_same_bytes; [exact E|cbn; discriminate|exact Hc].
    + exists l. split; [now right|exact Hc].
  - destruct H as (l & [<-|Hin] & Hc).
    + exists kept. split; [now left|exact Hc].
    + destruct (IH x) as (l' & Hin' & Hc'); [exists l; auto|]. exists l'. split; [now right|exact Hc'].
Qed.

Lemma cov_dedup p ls w : cov p ls w -> cov p (lits_dedup ls) w.
Proof. destruct ls as [|x t]; [auto|]. apply cov_dedup_into. Qed.

Lemma scov_dedup p s w : scov p s w -> scov p (seq_dedup s) w.
Proof. destruct s; cbn; [apply cov_dedup|auto]. Qed.

(* cross *)
Lemma cov_cross p l1 l2 w1 w2 : cov p l1 w1 -> cov true l2 w2 -> cov p (cross_lits l1 l2) (w1 ++ w2).
Proof.
  intros (a & Ha & u & v & -> & Hu & Hv) (b & Hb & u2 & v2 & -> & Hu2 & Hv2).
  rewrite (Hu2 eq_refl). cbn [app]. unfold cross_lits.
  destruct (l_exact a) eqn:Ea.
  - rewrite (Hv eq_refl), app_nil_r.
    exists {| l_bytes := l_bytes a ++ l_bytes b; l_exact := l_exact b |}. split.
    + apply in_flat_map. exists a. split; [exact Ha|]. rewrite Ea. apply in_map_iff. exists b. auto.
    + exists u, v2. cbn. rewrite <- !app_assoc. repeat split; auto.
  - exists a. split.
    + apply in_flat_map. exists a. split; [exact Ha|]. rewrite Ea. now left.
    + exists u, (v ++ l_bytes b ++ v2). rewrite <- !app_assoc. repeat split; auto. congruence.
Qed.

Lemma scov_cross_forward p s1 s2 w1 w2 :
  scov p s1 w1 -> scov true s2 w2 -> scov p (seq_cross_forward s1 s2) (w1 ++ w2).
Proof.
  intros H1 H2. unfold seq_cross_forward. destruct s2 as [l2|].
  - destruct s1 as [l1|]; [|exact I]. apply scov_dedup. cbn. now apply cov_cross.
  - destruct (seq_min_literal_len s1) as [[|n]|]; [exact I| |]; now apply scov_make_inexact.
Qed.

Lemma scov_union p s1 s2 w : scov p s1 w \/ scov p s2 w -> scov p (seq_union s1 s2) w.
Proof.
  unfold seq_union. destruct s2 as [l2|]; [|intros; exact I]. destruct s1 as [l1|]; [|intros; exact I].
  intros H. apply scov_dedup. cbn in *.
  destruct H as [(l & Hin & Hc)|(l & Hin & Hc)]; exists l; (split; [apply in_or_app; auto|exact Hc]).
Qed.

(* choose: the result is one of the two arguments, made inexact *)
Lemma t_choose_cases a b : t_choose a b = t_make_inexact a \/ t_choose a b = t_make_inexact b.
Proof.
  unfold t_choose.
  repeat match goal with
  | |- context [if ?c then _ else _] => destruct c
  | |- context [match ?c with Some _ => _ | None => _ end] => destruct c
  end; auto.
Qed.

Lemma tcov_choose a b w : tcov (t_make_inexact a) w -> tcov (t_make_inexact b) w -> tcov (t_choose a b) w.
Proof. intros Ha Hb. destruct (t_choose_cases a b) as [-> | ->]; assumption. Qed.

Lemma tcov_make_inexact t w x : tcov t w -> tcov (t_make_inexact t) (w ++ x).
Proof. unfold tcov, t_make_inexact, t_map. cbn. apply scov_make_inexact. Qed.

Lemma tcov_make_inexact0 t w : tcov t w -> tcov (t_make_inexact t) w.
Proof. intro H. rewrite <- (app_nil_r w). now apply tcov_make_inexact. Qed.

Lemma tcov_prepend t w x : t_prefix t = false -> tcov t w -> tcov t (x ++ w).
Proof.
  unfold tcov. intros ->. destruct (t_seq t) as [ls|]; cbn; [|auto].
  intros (l & Hin & Hc). exists l. split; [exact Hin|now apply cov1_prepend].
Qed.

Lemma tcov_inexact_ext t w x : seq_is_inexact (t_seq t) = true -> tcov t w -> tcov t (w ++ x).
Proof. unfold tcov. apply scov_inexact_ext. Qed.

Lemma seq_make_inexact_is_inexact s : seq_is_inexact (seq_make_inexact s) = true.
Proof.
  destruct s as [ls|]; cbn; [|reflexivity]. induction ls as [|x t IH]; cbn; [reflexivity|exact IH].
Qed.

Section WithLimits.
  Variable L : limits.

  Lemma tcov_enforce t w : tcov t w -> tcov (enforce_literal_len L t) w.
  Proof. unfold tcov, enforce_literal_len, t_map. cbn. apply scov_keep_first. Qed.

  Lemma tcov_cross t1 t2 w1 w2 : tcov t1 w1 -> tcov t2 w2 -> tcov (x_cross L t1 t2) (w1 ++ w2).
  Proof.
    intros H1 H2. unfold x_cross. destruct (t_prefix t2) eqn:P2; cbn [negb].
    - apply tcov_enforce. unfold tcov. cbn [t_seq t_prefix].
      apply scov_cross_forward; [exact H1|].
      unfold tcov in H2. rewrite P2 in H2.
      destruct (seq_max_cross_len (t_seq t1) (t_seq t2)) as [len|]; [|exact H2].
      destruct (Nat.ltb (limit_total L) len); [exact I|exact H2].
    - apply tcov_choose.
      + now apply tcov_make_inexact.
      + apply tcov_prepend; [exact P2|]. now apply tcov_make_inexact0.
  Qed.

  Lemma tcov_union t1 t2 w : tcov t1 w \/ tcov t2 w -> tcov (x_union L t1 t2) w.
  Proof.
    intros H. unfold x_union.
    assert (G : forall a b, (scov (t_prefix t1 && t_prefix t2) a w \/ scov (t_prefix t1 && t_prefix t2) b w) ->
                tcov {| t_seq := seq_union a b; t_prefix := t_prefix t1 && t_prefix t2 |} w).
    { intros a b Hab. unfold tcov. cbn. now apply scov_union. }
    assert (H' : scov (t_prefix t1 && t_prefix t2) (t_seq t1) w \/ scov (t_prefix t1 && t_prefix t2) (t_seq t2) w).
    { destruct H as [H|H]; [left|right]; (eapply scov_flag; [|exact H]); intro E; apply andb_true_iff in E; tauto. }
    destruct (over_total L (t_seq t1) (t_seq t2)).
    - destruct (over_total L _ _).
      + apply G. right. exact I.
      + apply G. destruct H' as [H'|H']; [left|right]; apply scov_dedup, scov_keep_first; exact H'.
    - apply G. exact H'.
  Qed.

  (* repeated cross *)
  Lemma tcov_rep_cross n : forall seq subseq W ws,
    tcov seq W -> Forall (tcov subseq) ws -> length ws = n ->
    tcov (rep_cross L n seq subseq) (W ++ concat ws).
  Proof.
    induction n as [|m IH]; intros seq subseq W ws HW Hws Hlen.
    - destruct ws; [|discriminate]. cbn. now rewrite app_nil_r.
    - destruct ws as [|w1 ws]; [discriminate|]. cbn [rep_cross concat].
      destruct (seq_is_inexact (t_seq seq)) eqn:E.
      + now apply tcov_inexact_ext.
      + rewrite app_assoc. inversion Hws; subst. apply IH; auto. now apply tcov_cross.
  Qed.
End WithLimits.

(* ---- match texts ---- *)
Lemma sub_same {A} (s : list A) i : sub s i i = [].
Proof. unfold sub. now rewrite Nat.sub_diag. Qed.

Lemma skipn_add {A} a b (l : list A) : skipn (a + b) l = skipn a (skipn b l).
Proof.
  revert l; induction b as [|b IH]; intros l; [now rewrite Nat.add_0_r|].
  rewrite Nat.add_succ_r. destruct l as [|x t]; [now rewrite !skipn_nil|]. cbn [skipn]. apply IH.
Qed.

Lemma sub_app {A} (s : list A) i k j : i <= k <= j -> j <= length s -> sub s i j = sub s i k ++ sub s k j.
Proof.
  intros H Hj. unfold sub.
  replace (j - i) with ((k - i) + (j - k)) by lia.
  rewrite <- (firstn_skipn (k - i) (skipn i s)) at 1.
  rewrite firstn_app. rewrite firstn_length, skipn_length.
  replace (Nat.min (k - i) (length s - i)) with (k - i) by lia.
  rewrite firstn_firstn. replace (Nat.min (k - i + (j - k)) (k - i)) with (k - i) by lia.
  f_equal. replace (k - i + (j - k) - (k - i)) with (j - k) by lia.
  rewrite <- skipn_add. replace (k - i + i) with k by lia. reflexivity.
Qed.

Lemma prefix_firstn (b t : bytes) : is_prefix_of b t = true -> firstn (length b) t = b.
Proof.
  intro H. apply is_prefix_of_app in H as [r ->]. rewrite firstn_app, Nat.sub_diag, firstn_all. cbn. now rewrite app_nil_r.
Qed.

Lemma sub_lit (b s : bytes) i : is_prefix_of b (skipn i s) = true -> sub s i (i + length b) = b.
Proof. intro H. unfold sub. replace (i + length b - i) with (length b) by lia. now apply prefix_firstn. Qed.

Lemma sub_byte (s : bytes) i x : nth_error s i = Some x -> sub s i (S i) = [x].
Proof.
  unfold sub. replace (S i - i) with 1 by lia. revert i; induction s as [|y ys IH]; intros [|i] H; cbn in *; try discriminate.
  - now injection H as ->.
  - now apply IH.
Qed.

Lemma tcov_empty_lit p : scov p (seq_singleton (lit_exact [])) [].
Proof. exists (lit_exact []). split; [now left|]. exists [], []. repeat split; auto. Qed.

(* ---- classes ---- *)
Lemma lit_eqb_eq a b : lit_eqb a b = true -> a = b.
Proof.
  unfold lit_eqb. intro H. apply andb_true_iff in H as [H1 H2]. apply bytes_eqb_eq in H1. apply Bool.eqb_prop in H2.
  destruct a, b; cbn in *; congruence.
Qed.

Lemma seq_push_keeps s l x ls' :
  s = Some ls' -> In x ls' -> exists ls'', seq_push s l = Some ls'' /\ In x ls''.
Proof.
  intros -> Hin. unfold seq_push. destruct (rev ls') as [|last r] eqn:E.
  - exists [l]. apply (f_equal (@rev lit)) in E. rewrite rev_involutive in E. subst. destruct Hin.
  - destruct (lit_eqb last l); [exists ls'; auto|exists (ls' ++ [l]); split; [reflexivity|apply in_or_app; auto]].
Qed.

Lemma seq_push_has s l ls' : s = Some ls' -> exists ls'', seq_push s l = Some ls'' /\ In l ls''.
Proof.
  intros ->. unfold seq_push. destruct (rev ls') as [|last r] eqn:E.
  - exists [l]. split; [reflexivity|now left].
  - destruct (lit_eqb last l) eqn:Q.
    + apply lit_eqb_eq in Q. subst last. exists ls'. split; [reflexivity|].
      apply in_rev. rewrite E. now left.
    + exists (ls' ++ [l]). split; [reflexivity|apply in_or_app; right; now left].
Qed.

Lemma fold_push_In (f : N -> lit) vals : forall ls0 v,
  In v vals -> exists ls, fold_left (fun s x => seq_push s (f x)) vals (Some ls0) = Some ls /\ In (f v) ls.
Proof.
  induction vals as [|x t IH]; intros ls0 v Hin; [destruct Hin|].
  cbn [fold_left]. destruct Hin as [->|Hin].
  - destruct (seq_push_has (Some ls0) (f v) ls0 eq_refl) as (ls1 & E1 & H1). rewrite E1.
    clear -H1. revert ls1 H1. induction t as [|y t IH]; intros ls1 H1; [exists ls1; auto|].
    cbn [fold_left]. destruct (seq_push_keeps (Some ls1) (f y) (f v) ls1 eq_refl H1) as (ls2 & E2 & H2).
    rewrite E2. now apply IH.
  - destruct (seq_push_has (Some ls0) (f x) ls0 eq_refl) as (ls1 & E1 & _). rewrite E1. now apply IH.
Qed.

Lemma in_ranges_true' rs x : in_ranges rs x = true -> exists r, In r rs /\ in_range r x = true.
Proof. unfold in_ranges. intro H. apply existsb_exists in H. exact H. Qed.

Section Classes.
  Variable L : limits.

  Lemma over_limit_go_false rs c : class_over_limit_go L rs c = false -> (c <= N.of_nat (limit_class L))%N.
  Proof.
    destruct rs as [|r t]; cbn; intro H.
    - now apply N.ltb_ge in H.
    - destruct (N.of_nat (limit_class L) <? c)%N eqn:E; [discriminate|]. now apply N.ltb_ge in E.
  Qed.

  Lemma over_limit_go_each rs : forall c r,
    class_over_limit_go L rs c = false -> In r rs -> (range_len r <= N.of_nat (limit_class L))%N.
  Proof.
    induction rs as [|r0 t IH]; intros c r H Hin; [destruct Hin|].
    cbn in H. destruct (N.of_nat (limit_class L) <? c)%N eqn:E; [discriminate|].
    destruct Hin as [<-|Hin].
    - apply over_limit_go_false in H. lia.
    - eapply IH; eauto.
  Qed.

  Lemma range_values_In fuel : forall lo hi x,
    (lo <= x <= hi)%N -> (hi - lo < N.of_nat fuel)%N -> In x (range_values fuel lo hi).
  Proof.
    induction fuel as [|f IH]; intros lo hi x Hx Hf; [lia|].
    cbn [range_values]. assert (E : (hi <? lo)%N = false) by (apply N.ltb_ge; lia). rewrite E.
    destruct (N.eq_dec x lo) as [->|Hne]; [now left|right]. apply IH; lia.
  Qed.

  Lemma class_values_In rs x : class_over_limit L rs = false -> in_ranges rs x = true -> In x (class_values L rs).
  Proof.
    intros Hlim Hx. apply in_ranges_true' in Hx as (r & Hin & Hr).
    unfold class_values. apply in_flat_map. exists r. split; [exact Hin|].
    pose proof (over_limit_go_each rs 0%N r Hlim Hin) as Hlen. unfold range_len in Hlen.
    unfold in_range in Hr. apply andb_true_iff in Hr as [R1 R2]. apply N.leb_le in R1, R2.
    apply range_values_In; lia.
  Qed.

  Lemma extract_class_bytes_cov rs s i j :
    Matches (HClassB rs) s i j -> tcov (extract_class_bytes L rs) (sub s i j).
  Proof.
    intro M. apply matches_classb_iff in M as (-> & x & Hx & Hr). rewrite (sub_byte _ _ _ Hx).
    unfold extract_class_bytes. destruct (class_over_limit L rs) eqn:E; [exact I|].
    apply tcov_enforce. unfold tcov, tseq_of, seq_empty. cbn [t_seq t_prefix].
    destruct (fold_push_In (fun b => lit_exact [b]) (class_values L rs) [] x (class_values_In _ _ E Hr)) as (ls & -> & Hin).
    exists (lit_exact [x]). split; [exact Hin|]. exists [], []. repeat split; auto.
  Qed.

  Lemma extract_class_unicode_cov rs s i j :
    Matches (HClassU rs) s i j -> tcov (extract_class_unicode L rs) (sub s i j).
  Proof.
    intro M. apply matches_classu_iff in M as (Hi & cp & n & -> & Hd & Hr).
    destruct (utf8_decode_encode _ _ _ Hd) as (Hs & Henc & Hn).
    assert (Hw : sub s i (i + n) = utf8_encode cp).
    { unfold sub. replace (i + n - i) with n by lia. exact Henc. }
    rewrite Hw.
    unfold extract_class_unicode. destruct (class_over_limit L rs) eqn:E; [exact I|].
    apply tcov_enforce. unfold tcov, tseq_of, seq_empty. cbn [t_seq t_prefix].
    assert (Hin0 : In cp (filter is_scalar (class_values L rs))).
    { apply filter_In. split; [now apply class_values_In|exact Hs]. }
    destruct (fold_push_In (fun c => lit_exact (utf8_encode c)) _ [] cp Hin0) as (ls & -> & Hin).
    exists (lit_exact (utf8_encode cp)). split; [exact Hin|]. exists [], []. cbn. rewrite app_nil_r. repeat split; auto.
  Qed.
End Classes.

(* ---- repetition ---- *)
Lemma RepM_zero_zero P len k j : RepM P len 0 (Some 0) k j -> j = k.
Proof. inversion 1; subst; [reflexivity|congruence]. Qed.

Lemma option_pred_sub mx m :
  option_map pred (option_map (fun x => x - m) mx) = option_map (fun x => x - S m) mx.
Proof. destruct mx as [x|]; cbn; [f_equal; lia|reflexivity]. Qed.

Section Rep.
  Variable L : limits.
  Variable h : hir.
  Variable s : bytes.
  Variable subseq : tseq.
  Hypothesis IHsub : forall a b, Matches h s a b -> tcov subseq (sub s a b).

  Lemma rep_split m : forall mn mx i j,
    RepM (Matches h s) (length s) mn mx i j -> m <= mn ->
    exists ws k, length ws = m /\ Forall (tcov subseq) ws /\ i <= k <= j /\ j <= length s /\
                 sub s i k = concat ws /\
                 RepM (Matches h s) (length s) (mn - m) (option_map (fun x => x - m) mx) k j.
  Proof.
    induction m as [|m IH]; intros mn mx i j HR Hm.
    - exists [], i. pose proof (RepM_bounds _ _ _ _ _ _ (matches_bounds h s) HR).
      repeat split; try lia; [constructor|apply sub_same|].
      rewrite Nat.sub_0_r. replace (option_map (fun x => x - 0) mx) with mx; [exact HR|].
      destruct mx; cbn; [f_equal; lia|reflexivity].
    - inversion HR as [mx' i' Hi|mn' mx' i' k1 j' Hmx HP HR']; subst; [lia|].
      destruct (IH (pred mn) (option_map pred mx) k1 j HR' ltac:(lia)) as (ws & k & Hl & Hall & Hk & Hj & Hsub & Hrest).
      pose proof (matches_bounds _ _ _ _ HP).
      exists (sub s i k1 :: ws), k. repeat split; try lia.
      + cbn. lia.
      + constructor; [now apply IHsub|exact Hall].
      + cbn [concat]. rewrite <- Hsub. apply sub_app; lia.
      + replace (mn - S m) with (pred mn - m) by lia.
        replace (option_map (fun x => x - S m) mx) with (option_map (fun x => x - m) (option_map pred mx)); [exact Hrest|].
        destruct mx as [x|]; cbn; [f_equal; lia|reflexivity].
  Qed.

  Lemma rep_first mn mx i j :
    RepM (Matches h s) (length s) mn mx i j -> 1 <= mn ->
    tcov (t_make_inexact subseq) (sub s i j).
  Proof.
    intros HR Hm. destruct (rep_split 1 mn mx i j HR Hm) as (ws & k & Hl & Hall & Hk & Hj & Hsub & _).
    destruct ws as [|w [|? ?]]; try discriminate. inversion Hall; subst.
    rewrite (sub_app s i k j) by lia. rewrite Hsub. cbn [concat]. rewrite app_nil_r.
    now apply tcov_make_inexact.
  Qed.

  Lemma rep_cross_cov r mn mx i j :
    RepM (Matches h s) (length s) mn mx i j -> r <= mn ->
    exists k, i <= k <= j /\ j <= length s /\
      tcov (rep_cross L r (tseq_singleton (lit_exact [])) subseq) (sub s i k) /\
      RepM (Matches h s) (length s) (mn - r) (option_map (fun x => x - r) mx) k j.
  Proof.
    intros HR Hr. destruct (rep_split r mn mx i j HR Hr) as (ws & k & Hl & Hall & Hk & Hj & Hsub & Hrest).
    exists k. repeat split; try lia; [|exact Hrest].
    rewrite Hsub. change (concat ws) with ([] ++ concat ws). apply tcov_rep_cross; auto.
    apply tcov_empty_lit.
  Qed.

  Lemma extract_repetition_cov mn mx g i j :
    Matches (HRep mn mx g h) s i j -> tcov (extract_repetition L mn mx g subseq) (sub s i j).
  Proof.
    intro M. apply matches_rep_iff in M. unfold extract_repetition.
    destruct mn as [|mn'].
    - (* min = 0 *)
      assert (G : tcov (match mx with Some 1 => subseq | _ => t_make_inexact subseq end) (sub s i j)
                  \/ tcov (tseq_singleton (lit_exact [])) (sub s i j)).
      { inversion M as [mx' i' Hi|mn0 mx' i' k j' Hmx HP HR']; subst.
        - right. rewrite sub_same. apply tcov_empty_lit.
        - left. pose proof (matches_bounds _ _ _ _ HP).
          pose proof (RepM_bounds _ _ _ _ _ _ (matches_bounds h s) HR').
          rewrite (sub_app s i k j) by lia.
          destruct mx as [[|[|n]]|]; try (apply tcov_make_inexact; now apply IHsub).
          cbn in HR'. apply RepM_zero_zero in HR'. subst j. rewrite sub_same, app_nil_r. now apply IHsub. }
      destruct g; apply tcov_union; tauto.
    - destruct mx as [m|].
      + destruct (Nat.eqb (S mn') m) eqn:E1.
        * apply Nat.eqb_eq in E1. subst m.
          destruct (rep_cross_cov (Nat.min (S mn') (limit_repeat L)) (S mn') (Some (S mn')) i j M ltac:(lia))
            as (k & Hk & Hj & Hc & Hrest).
          destruct (Nat.ltb (limit_repeat L) (S mn')) eqn:E2.
          -- rewrite (sub_app s i k j) by lia. now apply tcov_make_inexact.
          -- apply Nat.ltb_ge in E2. replace (Nat.min (S mn') (limit_repeat L)) with (S mn') in * by lia.
             cbn [option_map] in Hrest. rewrite Nat.sub_diag in Hrest. apply RepM_zero_zero in Hrest. subst j. exact Hc.
        * destruct (Nat.ltb (S mn') m) eqn:E2.
          -- destruct (rep_cross_cov (Nat.min (S mn') (limit_repeat L)) (S mn') (Some m) i j M ltac:(lia))
               as (k & Hk & Hj & Hc & Hrest).
             rewrite (sub_app s i k j) by lia. now apply tcov_make_inexact.
          -- apply (rep_first (S mn') (Some m) i j M). lia.
      + apply (rep_first (S mn') None i j M). lia.
  Qed.
End Rep.

(* ---- concat / alternation loops ---- *)
Section Loops.
  Variable L : limits.
  Variable s : bytes.

  Definition hir_ok (h : hir) : Prop := forall a b, Matches h s a b -> tcov (extract L h) (sub s a b).

  Definition prev_ok (prev : option tseq) (w : bytes) : Prop :=
    match prev with None => True | Some p => seq_is_inexact (t_seq p) = true /\ tcov p w end.

  Lemma t_choose_inexact a b : seq_is_inexact (t_seq (t_choose a b)) = true.
  Proof.
    destruct (t_choose_cases a b) as [-> | ->]; unfold t_make_inexact, t_map; cbn; apply seq_make_inexact_is_inexact.
  Qed.

  Lemma tcov_not_prefix_empty w : tcov (t_make_not_prefix (tseq_singleton (lit_exact []))) w.
  Proof.
    unfold tcov. cbn. exists (lit_exact []). split; [now left|]. exists w, []. cbn. rewrite app_nil_r.
    repeat split; auto. discriminate.
  Qed.

  Lemma concat_loop_cov hs : forall seq prev i0 k j,
    Forall hir_ok hs -> Matches (HConcat hs) s k j -> i0 <= k ->
    tcov seq (sub s i0 k) -> prev_ok prev (sub s i0 k) ->
    tcov (concat_loop L (extract L) hs seq prev) (sub s i0 j).
  Proof.
    induction hs as [|h t IH]; intros seq prev i0 k j Hok M Hi Hseq Hprev.
    - apply matches_concat_nil_iff in M as [-> _]. cbn [concat_loop].
      destruct prev as [p|]; [|exact Hseq]. destruct Hprev as [_ Hp].
      apply tcov_choose; now apply tcov_make_inexact0.
    - apply matches_concat_cons_iff in M as (k' & M1 & M2). inversion Hok as [|? ? Hh Ht]; subst.
      pose proof (matches_bounds _ _ _ _ M1) as B1. pose proof (matches_bounds _ _ _ _ M2) as B2.
      assert (Esplit : sub s i0 k' = sub s i0 k ++ sub s k k') by (apply sub_app; lia).
      assert (Hprev_ext : forall p, seq_is_inexact (t_seq p) = true -> tcov p (sub s i0 k) -> tcov p (sub s i0 k')).
      { intros p Hin Hp. rewrite Esplit. now apply tcov_inexact_ext. }
      cbn [concat_loop]. destruct (seq_is_inexact (t_seq seq)) eqn:Ein.
      + destruct (seq_is_empty (t_seq seq)) eqn:Eemp.
        { (* an empty sequence covers nothing: no such match *)
          unfold tcov in Hseq. destruct (t_seq seq) as [[|? ?]|]; try discriminate.
          destruct Hseq as (l & [] & _). }
        destruct (t_is_really_good seq).
        { rewrite (sub_app s i0 k j) by lia. now apply tcov_inexact_ext. }
        apply (IH _ _ i0 k' j Ht M2); [lia| |].
        * rewrite Esplit. apply tcov_cross; [apply tcov_not_prefix_empty|now apply Hh].
        * destruct prev as [p|]; cbn.
          -- destruct Hprev as [Hpi Hp]. split; [apply t_choose_inexact|].
             apply tcov_choose; apply tcov_make_inexact0; apply Hprev_ext; auto.
          -- split; [exact Ein|]. now apply Hprev_ext.
      + apply (IH _ _ i0 k' j Ht M2); [lia| |].
        * rewrite Esplit. apply tcov_cross; [exact Hseq|now apply Hh].
        * destruct prev as [p|]; cbn; [|exact I]. destruct Hprev as [Hpi Hp]. split; [exact Hpi|]. now apply Hprev_ext.
  Qed.

  Lemma alt_loop_cov hs : forall seq w,
    (tcov seq w \/ exists h, In h hs /\ tcov (extract L h) w) -> tcov (alt_loop L (extract L) hs seq) w.
  Proof.
    induction hs as [|h t IH]; intros seq w H; cbn [alt_loop].
    - destruct H as [H|(h & [] & _)]. exact H.
    - destruct (seq_is_finite (t_seq seq)) eqn:E; cbn [negb].
      + apply IH. destruct H as [H|(h' & [<-|Hin] & Hc)].
        * left. apply tcov_union. now left.
        * left. apply tcov_union. now right.
        * right. eauto.
      + unfold tcov. destruct (t_seq seq); [discriminate|exact I].
  Qed.
End Loops.

Theorem extract_sound : forall L h s i j, Matches h s i j -> tcov (extract L h) (sub s i j).
Proof.
  intros L h s. induction h as [|b|rs|rs|l|mn mx g h IH|h IH|hs IH|hs IH] using hir_ind2; intros i j M.
  - apply matches_empty_iff in M as [-> _]. rewrite sub_same. apply tcov_empty_lit.
  - apply matches_lit_iff in M as (-> & Hi & Hp). rewrite (sub_lit _ _ _ Hp). cbn [extract].
    apply tcov_enforce. exists (lit_exact b). split; [now left|]. exists [], []. cbn. rewrite app_nil_r. repeat split; auto.
  - now apply extract_class_bytes_cov.
  - now apply extract_class_unicode_cov.
  - apply matches_look_iff in M as (-> & _). rewrite sub_same. apply tcov_empty_lit.
  - cbn [extract]. now apply (extract_repetition_cov L h s (extract L h) IH).
  - rewrite matches_cap_iff in M. cbn [extract]. now apply IH.
  - change (extract L (HConcat hs)) with (concat_loop L (extract L) hs (tseq_singleton (lit_exact [])) None).
    apply (concat_loop_cov L s hs _ _ i i j); auto.
    + rewrite sub_same. apply tcov_empty_lit.
    + exact I.
  - change (extract L (HAlt hs)) with (alt_loop L (extract L) hs tseq_empty).
    apply alt_loop_cov. right. apply matches_alt_iff in M as (h & Hin & Mh). exists h. split; [exact Hin|].
    rewrite Forall_forall in IH. now apply IH.
Qed.

(* ---- extract_untagged: only "contains the literal" survives the optimisation ---- *)
Definition infix (l w : bytes) : Prop := exists u v, w = u ++ l ++ v.
Definition icov (ls : list lit) (w : bytes) : Prop := exists l, In l ls /\ infix (l_bytes l) w.
Definition sicov (s : seq_t) (w : bytes) : Prop := match s with None => True | Some ls => icov ls w end.

Lemma scov_sicov p s w : scov p s w -> sicov s w.
Proof.
  destruct s as [ls|]; cbn; [|auto]. intros (l & Hin & u & v & E & _). exists l. split; [exact Hin|]. now exists u, v.
Qed.

Lemma infix_prefix k l w : is_prefix_of k l = true -> infix l w -> infix k w.
Proof.
  intros Hp (u & v & ->). apply is_prefix_of_app in Hp as [r ->]. exists u, (r ++ v). now rewrite <- !app_assoc.
Qed.

Lemma is_prefix_firstn n (l : bytes) : is_prefix_of (firstn n l) l = true.
Proof. apply is_prefix_of_app. exists (skipn n l). symmetry. apply firstn_skipn. Qed.

Lemma is_prefix_refl (l : bytes) : is_prefix_of l l = true.
Proof. apply is_prefix_of_app. exists []. now rewrite app_nil_r. Qed.

Lemma sicov_keep_first n s w : sicov s w -> sicov (seq_keep_first_bytes n s) w.
Proof.
  destruct s as [ls|]; cbn; [|auto]. intros (l & Hin & Hi). exists (lit_keep_first_bytes n l).
  split; [now apply in_map|]. unfold lit_keep_first_bytes. destruct (Nat.leb (lit_len l) n); [exact Hi|].
  cbn. eapply infix_prefix; [apply is_prefix_firstn|exact Hi].
Qed.

Lemma dedup_into_bytes kept l x :
  In x (kept :: l) -> exists y, In y (dedup_into kept l) /\ l_bytes y = l_bytes x.
Proof.
  revert kept x; induction l as [|z t IH]; intros kept x Hin; cbn [dedup_into].
  - destruct Hin as [<-|[]]. exists kept. split; [now left|reflexivity].
  - destruct (bytes_eqb (l_bytes z) (l_bytes kept)) eqn:E.
    + apply bytes_eqb_eq in E.
      set (k' := if Bool.eqb (l_exact z) (l_exact kept) then kept else lit_make_inexact kept).
      assert (Hk : l_bytes k' = l_bytes kept) by (unfold k'; destruct (Bool.eqb _ _); reflexivity).
      destruct Hin as [<-|[<-|Hin]].
      * destruct (IH k' k' (or_introl eq_refl)) as (y & Hy & Ey). exists y. split; [exact Hy|congruence].
      * destruct (IH k' k' (or_introl eq_refl)) as (y & Hy & Ey). exists y. split; [exact Hy|congruence].
      * destruct (IH k' x (or_intror Hin)) as (y & Hy & Ey). exists y. auto.
    + destruct Hin as [<-|Hin].
      * exists kept. split; [now left|reflexivity].
      * destruct (IH z x Hin) as (y & Hy & Ey). exists y. split; [now right|exact Ey].
Qed.

Lemma sicov_dedup s w : sicov s w -> sicov (seq_dedup s) w.
Proof.
  destruct s as [ls|]; cbn; [|auto]. intros (l & Hin & Hi). destruct ls as [|x t]; [destruct Hin|].
  destruct (dedup_into_bytes x t l Hin) as (y & Hy & Ey). exists y. split; [exact Hy|]. now rewrite Ey.
Qed.

Lemma minimize_go_prefix l : forall kept_rev x,
  In x (rev kept_rev ++ l) ->
  exists k, In k (minimize_go kept_rev l) /\ is_prefix_of (l_bytes k) (l_bytes x) = true.
Proof.
  induction l as [|y t IH]; intros kept_rev x Hin; cbn [minimize_go].
  - rewrite app_nil_r in Hin. exists x. split; [exact Hin|apply is_prefix_refl].
  - destruct (existsb (fun k => is_prefix_of (l_bytes k) (l_bytes y)) kept_rev) eqn:E.
    + apply in_app_or in Hin as [Hin|[<-|Hin]].
      * apply IH. apply in_or_app. now left.
      * apply existsb_exists in E as (k & Hk & Hp).
        destruct (IH kept_rev k) as (k2 & Hk2 & Hp2); [apply in_or_app; left; now apply in_rev in Hk|].
        exists k2. split; [exact Hk2|].
        apply is_prefix_of_app in Hp as [r1 E1]. apply is_prefix_of_app in Hp2 as [r2 E2].
        apply is_prefix_of_app. exists (r2 ++ r1). rewrite E1, E2. now rewrite app_assoc.
      * apply IH. apply in_or_app. now right.
    + apply IH. cbn [rev]. rewrite <- app_assoc. exact Hin.
Qed.

Lemma sicov_minimize ls w : icov ls w -> icov (minimize ls) w.
Proof.
  intros (l & Hin & Hi). destruct (minimize_go_prefix ls [] l Hin) as (k & Hk & Hp).
  exists k. split; [exact Hk|]. eapply infix_prefix; eauto.
Qed.

Lemma sicov_attempts l : forall s w, sicov s w -> sicov (attempts l s) w.
Proof.
  induction l as [|[keep limit] t IH]; intros s w H; cbn [attempts]; [exact H|].
  destruct s as [ls|]; [|exact I]. destruct (Nat.leb (length ls) limit); [exact H|].
  apply IH. apply (sicov_keep_first keep) in H. cbn in *. now apply sicov_minimize.
Qed.

Lemma poison_sicov (s3 : seq_t) w : sicov s3 w ->
  sicov (match s3 with Some ls => if existsb lit_is_poisonous ls then None else s3 | None => None end) w.
Proof. intro H3. destruct s3 as [ls|]; [|exact I]. destruct (existsb lit_is_poisonous ls); [exact I|exact H3]. Qed.

Lemma optimize_sicov s w : sicov s w -> sicov (optimize_for_prefix_by_preference s) w.
Proof.
  intro H. unfold optimize_for_prefix_by_preference. destruct s as [l0|]; [|exact I].
  destruct (seq_min_literal_len (Some l0)) as [[|n]|].
  - exact I.
  - set (s1 := Some (minimize l0)). assert (H1 : sicov s1 w) by (now apply sicov_minimize).
    clearbody s1.
    match goal with |- sicov (match ?af with inl r => r | inr s2 => _ end) w => 
      assert (Haf : match af with inl r => sicov r w | inr s2 => sicov s2 w end) end.
    { destruct (longest_common_prefix s1) as [fix_|]; [|exact H1].
      destruct (_ && _ && _ && _); [now apply sicov_dedup, sicov_keep_first|].
      destruct (_ || _); [now apply sicov_dedup, sicov_keep_first|exact H1]. }
    match goal with |- sicov (match ?af with inl r => r | inr s2 => _ end) w => destruct af as [r|s2] end;
      [exact Haf|].
    cbv zeta.
    set (s3 := attempts _ s2). assert (H3 : sicov s3 w) by (now apply sicov_attempts). clearbody s3.
    pose proof (poison_sicov s3 w H3) as H4.
    destruct (seq_is_exact s2); [|exact H4].
    repeat match goal with |- sicov (if ?c then _ else _) w => destruct c end; assumption.
  - set (s1 := Some (minimize l0)). assert (H1 : sicov s1 w) by (now apply sicov_minimize).
    clearbody s1.
    match goal with |- sicov (match ?af with inl r => r | inr s2 => _ end) w => 
      assert (Haf : match af with inl r => sicov r w | inr s2 => sicov s2 w end) end.
    { destruct (longest_common_prefix s1) as [fix_|]; [|exact H1].
      destruct (_ && _ && _ && _); [now apply sicov_dedup, sicov_keep_first|].
      destruct (_ || _); [now apply sicov_dedup, sicov_keep_first|exact H1]. }
    match goal with |- sicov (match ?af with inl r => r | inr s2 => _ end) w => destruct af as [r|s2] end;
      [exact Haf|].
    cbv zeta.
    set (s3 := attempts _ s2). assert (H3 : sicov s3 w) by (now apply sicov_attempts). clearbody s3.
    pose proof (poison_sicov s3 w H3) as H4.
    destruct (seq_is_exact s2); [|exact H4].
    repeat match goal with |- sicov (if ?c then _ else _) w => destruct c end; assumption.
Qed.

Theorem extract_untagged_sound_proof : forall L h ls s i j,
  extract_untagged L h = Some ls -> Matches h s i j ->
  exists l, In l ls /\ exists u v, sub s i j = u ++ l_bytes l ++ v.
Proof.
  intros L h ls s i j E M. pose proof (extract_sound L h s i j M) as Hc.
  apply scov_sicov, optimize_sicov in Hc. unfold extract_untagged in E.
  destruct (t_is_good _); [|discriminate]. unfold t_map in E. cbn [t_seq] in E. rewrite E in Hc. exact Hc.
Qed.

Theorem inner_literals_sound_proof : forall c acc h ls s i j,
  inner_literals c acc h = Some ls -> Matches h s i j ->
  exists l, In l ls /\ exists u v, sub s i j = u ++ l_bytes l ++ v.
Proof.
  intros c acc h ls s i j E M. unfold inner_literals in E.
  destruct (c_line_terminator c); [|discriminate].
  destruct (acc && negb (contains_word_unicode h)); [discriminate|].
  destruct (is_alternation_literal h); [discriminate|].
  eapply extract_untagged_sound_proof; eauto.
Qed.

(* every region [a,b) of a buffer that contains a match contains an occurrence of a fast-line
   literal: the candidate search (leftmost occurrence of any literal) cannot report a position
   beyond it, so it never passes over a line that has a match *)
Theorem candidate_never_skips_proof : forall c acc h lits buf a b i j,
  fast_line_literals (inner_literals c acc h) = Some lits ->
  Matches h buf i j -> a <= i -> j <= b ->
  exists l q, In l lits /\ a <= q /\ q + length l <= b /\ sub buf q (q + length l) = l.
Proof.
  intros c acc h lits buf a b i j E M Ha Hb. unfold fast_line_literals in E.
  destruct (inner_literals c acc h) as [ls|] eqn:EI; [|discriminate].
  destruct (inner_literals_sound_proof c acc h ls buf i j EI M) as (l & Hin & u & v & Hw).
  destruct ls as [|l0 t]; [discriminate|]. injection E as <-.
  pose proof (matches_bounds _ _ _ _ M) as B.
  exists (l_bytes l), (i + length u). split; [exact (in_map l_bytes (l0 :: t) l Hin)|].
  assert (Hlen : length (sub buf i j) = j - i).
  { unfold sub. rewrite firstn_length, skipn_length. lia. }
  rewrite Hw, !app_length in Hlen. split; [lia|]. split; [lia|].
  unfold sub in *. replace (i + length u + length (l_bytes l) - (i + length u)) with (length (l_bytes l)) by lia.
  rewrite Nat.add_comm, skipn_add.
  assert (E2 : skipn (length u) (firstn (j - i) (skipn i buf)) = l_bytes l ++ v).
  { rewrite Hw. rewrite skipn_app, skipn_all, Nat.sub_diag. reflexivity. }
  rewrite skipn_firstn_comm in E2.
  apply (f_equal (firstn (length (l_bytes l)))) in E2.
  rewrite firstn_firstn in E2. replace (Nat.min (length (l_bytes l)) (j - i - length u)) with (length (l_bytes l)) in E2 by lia.
  rewrite E2. rewrite firstn_app, Nat.sub_diag, firstn_all. cbn. now rewrite app_nil_r.
Qed.
