(* Proofs/LitePlanSim.v — step-by-step simulation between the Core model (Model/SearcherCore.v, Model/Glue.v)
   and the C14 model (Model/BinaryDetect.v) over the plan, for searches without context lines: ANY reply
   function without Fail (so any sink that stops anywhere), ANY detection mode, positions included. *)
From RG Require Import Base.Bytes Model.Lines Model.SearcherCore Model.Glue Spec.GrepSpec
  Model.LineBufferBin Model.BinaryDetect Model.LitePlanCore
  Proofs.LinesProofs Proofs.SlowPathProofs Proofs.FastPathProofs Proofs.LitePlanProofs.

Definition W (c : core) : nat * list BinaryDetect.event := (length (log c), map ev14 (log c)).
Definition Inv (c : core) : Prop := abs_off c = 0 /\ after_context_left c = 0.

Ltac fin := repeat match goal with |- _ /\ _ => split end; auto.

Section Sim.
  Variable cfg : config.
  Variable M : matcher.
  Variable r : nat -> reply.
  Hypothesis Hr : forall i, r i <> Fail.
  Hypothesis Hb : c_before cfg = 0.
  Hypothesis Ha : c_after cfg = 0.
  Hypothesis Hs : c_stop_on_nonmatch cfg = false.
  Variable s : bytes.
  Notation mode := (mode14 (c_binary cfg)).
  Notation snk := (sink_of r).
  Notation ltb := (lt_byte (c_lt cfg)).

  Definition go (c : core) : bool := match r (length (log c)) with Continue => true | _ => false end.

  Lemma emit_core c e : SearcherCore.emit r c e = OK (go c) (set_log c (e :: log c)).
  Proof. unfold SearcherCore.emit, go. destruct (r (length (log c))) eqn:E; try reflexivity. now destruct (Hr _ E). Qed.

  Lemma emit_14 c e : BinaryDetect.emit snk (W c) (ev14 e) = (W (set_log c (e :: log c)), go c).
  Proof. reflexivity. Qed.

  Lemma quit_eq : (match quit_byte (c_binary cfg) with Some _ => true | None => false end) = is_quit mode.
  Proof. destruct (c_binary cfg); reflexivity. Qed.

  (* Core::detect_binary in both models *)
  Lemma detect_sim c buf a e :
    exists q c', SearcherCore.detect_binary cfg r c buf a e = OK q c' /\
      BinaryDetect.detect_binary snk mode buf a e (bin_off c) (W c) = (q, bin_off c', W c') /\
      pos c' = pos c /\ abs_off c' = abs_off c /\ after_context_left c' = after_context_left c.
  Proof.
    unfold SearcherCore.detect_binary, BinaryDetect.detect_binary. rewrite quit_eq.
    destruct (bin_off c) as [o|] eqn:Eb.
    - exists (is_quit mode), c. rewrite Eb. repeat split; reflexivity.
    - destruct (c_binary cfg) as [|b|b] eqn:Em; cbn [mode14].
      + exists false, c. rewrite Eb. repeat split; reflexivity.
      + unfold find_byte. destruct (memchr b (sub buf a e)) as [i|].
        * rewrite emit_core. change (go (set_bin_off c (a + i))) with (go c).
          unfold BinaryDetect.emit, sink_of, W. cbn [fst snd]. fold (go c).
          destruct (go c) eqn:Eg; cbn [negb];
            eexists; eexists; (split; [reflexivity|]); cbn; repeat split; reflexivity.
        * exists false, c. rewrite Eb. repeat split; reflexivity.
      + unfold find_byte. destruct (memchr b (sub buf a e)) as [i|].
        * rewrite emit_core. change (go (set_bin_off c (a + i))) with (go c).
          unfold BinaryDetect.emit, sink_of, W. cbn [fst snd]. fold (go c).
          destruct (go c) eqn:Eg; cbn [negb];
            eexists; eexists; (split; [reflexivity|]); cbn; repeat split; reflexivity.
        * exists false, c. rewrite Eb. repeat split; reflexivity.
  Qed.

  Lemma cl_same c buf u :
    log (count_lines cfg c buf u) = log c /\ pos (count_lines cfg c buf u) = pos c /\
    abs_off (count_lines cfg c buf u) = abs_off c /\ bin_off (count_lines cfg c buf u) = bin_off c /\
    after_context_left (count_lines cfg c buf u) = after_context_left c.
  Proof.
    unfold count_lines. destruct (line_number c); [|repeat split; reflexivity].
    destruct (Nat.leb _ _); repeat split; reflexivity.
  Qed.

  Lemma no_break c p : sink_break_context cfg r c p = OK true c.
  Proof. unfold sink_break_context. rewrite Hb, Ha. reflexivity. Qed.

  (* Core::sink_matched in both models *)
  Lemma sm_sim c a e p : Inv c ->
    exists b c', sink_matched cfg r true c s a e = OK b c' /\
      sink_call snk mode true 0 s (mk_call true KOther a e false p) (bin_off c) (W c) = (b, bin_off c', W c') /\
      pos c' = pos c /\ Inv c'.
  Proof.
    intros [I1 I2]. unfold sink_matched, binary_guard, sink_call, guard.
    cbn [c_matched c_kind c_start c_end c_break negb andb].
    destruct (detect_sim c s a e) as (q & c1 & E1 & E2 & P1 & A1 & L1). rewrite E1, E2.
    destruct q.
    - exists false, c1. repeat split; congruence.
    - rewrite no_break. cbn [andthen]. unfold emit_break. cbn [c_break].
      destruct (cl_same c1 s a) as (C1 & C2 & C3 & C4 & C5).
      rewrite emit_core. unfold call_event. cbn [c_matched c_start c_end].
      unfold BinaryDetect.emit, sink_of, W. cbn [fst snd].
      unfold go. rewrite C1, C3, A1, I1.
      destruct (r (length (log c1))) eqn:Er; cbn [andthen negb].
      + eexists; eexists; split; [reflexivity|]. cbn [bin_off set_visited set_log log pos abs_off after_context_left map ev14 length].
        rewrite ?C1, ?C2, ?C3, ?C4, ?C5, ?Ha. unfold Inv. cbn [abs_off after_context_left set_visited set_log].
        repeat split; congruence.
      + eexists; eexists; split; [reflexivity|]. cbn [bin_off set_visited set_log log pos abs_off after_context_left map ev14 length].
        rewrite ?C1, ?C2, ?C3, ?C4, ?C5, ?Ha. unfold Inv. cbn [abs_off after_context_left set_visited set_log].
        repeat split; congruence.
      + now destruct (Hr _ Er).
  Qed.

  (* Core::sink_other_context in both models *)
  Lemma so_sim c a e p : Inv c ->
    exists b c', sink_other_context cfg r true c s a e = OK b c' /\
      sink_call snk mode true 0 s (mk_call false KOther a e false p) (bin_off c) (W c) = (b, bin_off c', W c') /\
      pos c' = pos c /\ Inv c'.
  Proof.
    intros [I1 I2]. unfold sink_other_context, binary_guard, sink_call, guard.
    cbn [c_matched c_kind c_start c_end c_break negb andb].
    destruct (detect_sim c s a e) as (q & c1 & E1 & E2 & P1 & A1 & L1). rewrite E1, E2.
    destruct q.
    - exists false, c1. repeat split; congruence.
    - destruct (cl_same c1 s a) as (C1 & C2 & C3 & C4 & C5).
      rewrite emit_core. unfold call_event. cbn [c_matched c_start c_end c_kind].
      unfold BinaryDetect.emit, sink_of, W. cbn [fst snd].
      unfold go. rewrite C1, C3, A1, I1.
      destruct (r (length (log c1))) eqn:Er; cbn [andthen negb].
      + eexists; eexists; split; [reflexivity|]. cbn [bin_off set_visited set_log log pos abs_off after_context_left map ev14 kind14 length].
        rewrite ?C1, ?C2, ?C3, ?C4, ?C5, ?Ha. unfold Inv. cbn [abs_off after_context_left set_visited set_log].
        repeat split; congruence.
      + eexists; eexists; split; [reflexivity|]. cbn [bin_off set_visited set_log log pos abs_off after_context_left map ev14 kind14 length].
        rewrite ?C1, ?C2, ?C3, ?C4, ?C5, ?Ha. unfold Inv. cbn [abs_off after_context_left set_visited set_log].
        repeat split; congruence.
      + now destruct (Hr _ Er).
  Qed.

  Notation sc := (scf cfg (m_is_match M)).
  Notation pt := (c_passthru cfg).

  (* what a simulated loop must deliver: the Core outcome against the C14 run of the planned calls *)
  Definition sim_post (c : core) (nonempty : bool) (o : SearcherCore.outcome)
             (x : option call * option nat * (nat * list BinaryDetect.event)) : Prop :=
    exists b c', o = OK b c' /\
      match x with
      | (None, cb', w') => b = true /\ cb' = bin_off c' /\ w' = W c' /\ Inv c' /\
                           pos c' = (if nonempty then length s else pos c)
      | (Some cl, cb', w') => b = false /\ cb' = bin_off c' /\ w' = W c' /\ pos c' = c_pos cl
      end.

  Lemma Inv_set_pos c q : Inv c -> Inv (set_pos c q). Proof. exact (fun H => H). Qed.
  Lemma Inv_set_hm c : Inv c -> Inv (set_has_matched c). Proof. exact (fun H => H). Qed.

  Lemma before_none c buf u : before_context_by_line cfg r true c buf u = OK true c.
  Proof. unfold before_context_by_line. rewrite Hb. reflexivity. Qed.

  Lemma after_none c buf u : Inv c -> after_context_by_line cfg r true c buf u = OK true c.
  Proof. intros [_ H]. unfold after_context_by_line. rewrite H. reflexivity. Qed.

  (* match_by_line_slow over the remaining lines *)
  Lemma slow_sim : forall ls c p fuel, lines_at cfg s ls p -> length ls < fuel -> Inv c ->
    (ls = [] -> pos c = length s) ->
    sim_post c true (slow_loop cfg M r true fuel c s p)
      (run_calls snk mode true 0 s (fst (plan_calls sc false pt (length s) (ranges_of p ls))) (bin_off c) (W c)).
  Proof.
    induction ls as [|l ls IH]; intros c p fuel Hat Hf Hi Hnil.
    - cbn [lines_at] in Hat. destruct fuel as [|f]; [cbn in Hf; lia|]. cbn [slow_loop].
      rewrite line_step_end by lia. cbn [ranges_of plan_calls fst run_calls].
      exists true, c. split; [reflexivity|]. fin.
    - cbn [lines_at] in Hat. destruct Hat as (Hn & Ht & Hat).
      destruct fuel as [|f]; [cbn in Hf; lia|]. cbn [length] in Hf. cbn [slow_loop].
      unfold ltb_. rewrite (line_step_next cfg s p l Hn).
      assert (Hsub : sub s p (p + length l) = l) by exact (proj1 Hn).
      rewrite Hsub. fold (sc l). rewrite Hs. cbn [andb].
      cbn [ranges_of plan_calls].
      destruct (plan_calls sc false pt (length s) (ranges_of (p + length l) ls)) as [rest nxt] eqn:Epc.
      assert (Hend : ls = [] -> p + length l = length s).
      { intros ->. exact Hat. }
      assert (IH' : forall c1, Inv c1 -> pos c1 = p + length l ->
                sim_post c1 true (slow_loop cfg M r true f c1 s (p + length l))
                  (run_calls snk mode true 0 s rest (bin_off c1) (W c1))).
      { intros c1 Hi1 Hp1. specialize (IH c1 (p + length l) f Hat ltac:(lia) Hi1).
        rewrite Epc in IH. apply IH. intro E. rewrite Hp1. auto. }
      destruct (sc l) eqn:Esc.
      + cbn [andb fst]. rewrite before_none. cbn [andthen].
        destruct (sm_sim (set_has_matched (set_pos c (p + length l))) p (p + length l) (p + length l)
                    (Inv_set_hm _ (Inv_set_pos _ _ Hi))) as (b1 & c1 & E1 & E2 & P1 & I1).
        rewrite E1. cbn [run_calls].
        change (bin_off c) with (bin_off (set_has_matched (set_pos c (p + length l)))).
        change (W c) with (W (set_has_matched (set_pos c (p + length l)))).
        rewrite E2. destruct b1; cbn [andthen].
        * destruct (IH' c1 I1 P1) as (b & c' & E3 & E4). exists b, c'. split; [exact E3|].
          destruct (run_calls snk mode true 0 s rest (bin_off c1) (W c1)) as [[[cl|] cb'] w'].
          -- exact E4.
          -- destruct E4 as (? & ? & ? & ? & E5). fin.
        * exists false, c1. split; [reflexivity|]. fin.
      + cbn [fst]. change (after_context_left (set_pos c (p + length l))) with (after_context_left c).
        rewrite (proj2 Hi). cbn [Nat.leb].
        destruct pt eqn:Ept.
        * cbn [app].
          destruct (so_sim (set_pos c (p + length l)) p (p + length l) (p + length l) (Inv_set_pos _ _ Hi))
            as (b1 & c1 & E1 & E2 & P1 & I1).
          rewrite E1. cbn [run_calls].
          change (bin_off c) with (bin_off (set_pos c (p + length l))).
          change (W c) with (W (set_pos c (p + length l))).
          rewrite E2. destruct b1; cbn [andthen].
          -- destruct (IH' c1 I1 P1) as (b & c' & E3 & E4). exists b, c'. split; [exact E3|].
             destruct (run_calls snk mode true 0 s rest (bin_off c1) (W c1)) as [[[cl|] cb'] w'].
             ++ exact E4.
             ++ destruct E4 as (? & ? & ? & ? & E5). fin.
          -- exists false, c1. split; [reflexivity|]. fin.
        * cbn [app].
          destruct (IH' (set_pos c (p + length l)) (Inv_set_pos _ _ Hi) eq_refl) as (b & c' & E3 & E4).
          exists b, c'. split; [exact E3|].
          change (bin_off c) with (bin_off (set_pos c (p + length l))).
          change (W c) with (W (set_pos c (p + length l))).
          destruct (run_calls snk mode true 0 s rest _ _) as [[[cl|] cb'] w'].
          -- exact E4.
          -- destruct E4 as (? & ? & ? & ? & E5). fin.
  Qed.

  (* core.finish in both models *)
  Lemma finish_sim c n :
    result14 (Glue.finish r c n) =
    Some (rev (snd (fst (BinaryDetect.emit snk (W c) (BinaryDetect.EFinish n (bin_off c)))))).
  Proof.
    unfold Glue.finish, BinaryDetect.emit, sink_of, W. cbn [fst snd].
    destruct (r (length (log c))) eqn:Er; [| |now destruct (Hr _ Er)];
      cbn [result14]; rewrite map_rev; reflexivity.
  Qed.

  Lemma byte_count_sim c : Glue.byte_count c = BinaryDetect.byte_count (bin_off c) (pos c).
  Proof. reflexivity. Qed.

  (* SliceByLine::run in both models, given the simulation of one match_by_line call over the whole slice *)
  Lemma run_sim plan :
    (forall c, pos c = 0 -> Inv c -> s <> [] ->
       sim_post c true (match_by_line cfg M r true c s) (run_calls snk mode true 0 s plan (bin_off c) (W c))) ->
    (s = [] -> plan = []) ->
    result14 (slice_by_line_run cfg M r s) =
    Some (rev (snd (slice_run snk mode default_buffer_capacity s plan (length s) (0, [])))).
  Proof.
    intros Hm Hnil. unfold slice_by_line_run, slice_run.
    rewrite emit_core.
    change (BinaryDetect.emit snk (0, []) BinaryDetect.EBegin)
      with (BinaryDetect.emit snk (W (core_new cfg)) (ev14 SearcherCore.EBegin)).
    rewrite emit_14. set (c0 := set_log (core_new cfg) (SearcherCore.EBegin :: log (core_new cfg))).
    destruct (go (core_new cfg)).
    - destruct (detect_sim c0 s 0 (Nat.min (length s) default_buffer_capacity)) as (q & c1 & E1 & E2 & P1 & A1 & L1).
      rewrite E1. change (@None nat) with (bin_off c0) at 1. rewrite E2.
      assert (I1 : Inv c1) by (split; [rewrite A1|rewrite L1]; reflexivity).
      assert (Z1 : pos c1 = 0) by (rewrite P1; reflexivity).
      destruct q.
      + rewrite finish_sim, byte_count_sim, Z1. reflexivity.
      + cbn [slice_loop]. destruct (Nat.leb (length s) (pos c1)) eqn:El.
        * apply Nat.leb_le in El. assert (s = []) by (destruct s; [reflexivity|cbn in El; lia]).
          assert (L0 : length s = 0) by lia.
          rewrite (Hnil H). cbn [run_calls]. rewrite finish_sim, byte_count_sim, Z1, L0. reflexivity.
        * apply Nat.leb_gt in El. assert (Hne : s <> []) by (intros ->; cbn in El; lia).
          destruct (Hm c1 Z1 I1 Hne) as (b & c' & E3 & E4). rewrite E3.
          destruct (run_calls snk mode true 0 s plan (bin_off c1) (W c1)) as [[[cl|] cb'] w'].
          -- destruct E4 as (-> & -> & -> & E5). rewrite finish_sim, byte_count_sim, E5. reflexivity.
          -- destruct E4 as (-> & -> & -> & I' & E5).
             replace (Nat.leb (length s) (pos c')) with true by (symmetry; apply Nat.leb_le; lia).
             rewrite finish_sim, byte_count_sim, E5. reflexivity.
    - rewrite finish_sim, byte_count_sim. reflexivity.
  Qed.

  Lemma split_lines_len b : forall x : bytes, length (split_lines b x) <= length x.
  Proof.
    induction x as [|y x IH]; [cbn; lia|]. rewrite split_lines_cons.
    destruct (y =? b)%N; [cbn [length]; lia|].
    destruct (split_lines b x); cbn [glue length] in *; lia.
  Qed.

  Lemma lines_at_split_lines : lines_at cfg s (split_lines ltb s) 0.
  Proof.
    apply lines_at_shape; [apply split_lines_shape|lia|]. rewrite split_lines_concat. reflexivity.
  Qed.

  Lemma split_lines_nonnil : s <> [] -> split_lines ltb s <> [].
  Proof. intros Hne E. apply Hne. rewrite <- (split_lines_concat ltb s), E. reflexivity. Qed.

  (* without stop_on_nonmatch the choice of the line path does not depend on the Core state *)
  Definition fastb : bool := is_line_by_line_fast cfg M (core_new cfg).
  Lemma is_fast_const c : is_line_by_line_fast cfg M c = fastb.
  Proof. unfold fastb, is_line_by_line_fast. rewrite Hs. reflexivity. Qed.

  (* the slow line path (always taken under --passthru) *)
  Lemma slice_sim_slow : fastb = false ->
    result14 (slice_by_line_run cfg M r s) =
    Some (rev (snd (slice_run snk mode default_buffer_capacity s
                      (core_plan_on false cfg (m_is_match M) s) (length s) (0, [])))).
  Proof.
    intro Hslow. apply run_sim.
    - intros c Hp Hi Hne. unfold match_by_line. rewrite is_fast_const, Hslow.
      unfold match_by_line_slow, core_plan_on. rewrite Hp. cbn [andb]. rewrite line_ranges_split0.
      apply slow_sim; [apply lines_at_split_lines| |exact Hi|].
      + pose proof (split_lines_len ltb s). lia.
      + intro E. destruct (split_lines_nonnil Hne E).
    - intro E. unfold core_plan_on. rewrite E. reflexivity.
  Qed.
End Sim.
