(* Proofs/LitePlanSim.v — step-by-step simulation between the Core model (Model/SearcherCore.v, Model/Glue.v)
   and the C14 model (Model/BinaryDetect.v) over the plan, for searches without context lines: ANY reply
   function without Fail (so any sink that stops anywhere), ANY detection mode, positions included. *)
From RG Require Import Base.Bytes Model.Lines Model.SearcherCore Model.Glue Spec.GrepSpec
  Model.LineBufferBin Model.BinaryDetect Model.LitePlanCore
  Proofs.LinesProofs Proofs.SlowPathProofs Proofs.FastPathProofs Proofs.LitePlanProofs.

Definition W (c : core) : nat * list BinaryDetect.event := (length (log c), map ev14 (log c)).
Definition Inv (c : core) : Prop := abs_off c = 0 /\ after_context_left c = 0.

Ltac fin := repeat match goal with |- _ /\ _ => split end; auto.

Section Sim.
  Variable cfg : config.
  Variable M : matcher.
  Variable r : nat -> reply.
  Hypothesis Hr : forall i, r i <> Fail.
  Hypothesis Hb : c_before cfg = 0.
  Hypothesis Ha : c_after cfg = 0.
  Hypothesis Hs : c_stop_on_nonmatch cfg = false.
  Variable s : bytes.
  Notation mode := (mode14 (c_binary cfg)).
  Notation snk := (sink_of r).
  Notation ltb := (lt_byte (c_lt cfg)).

  Definition go (c : core) : bool := match r (length (log c)) with Continue => true | _ => false end.

  Lemma emit_core c e : SearcherCore.emit r c e = OK (go c) (set_log c (e :: log c)).
  Proof. unfold SearcherCore.emit, go. destruct (r (length (log c))) eqn:E; try reflexivity. now destruct (Hr _ E). Qed.

  Lemma emit_14 c e : BinaryDetect.emit snk (W c) (ev14 e) = (W (set_log c (e :: log c)), go c).
  Proof. reflexivity. Qed.

  Lemma quit_eq : (match quit_byte (c_binary cfg) with Some _ => true | None => false end) = is_quit mode.
  Proof. destruct (c_binary cfg); reflexivity. Qed.

  (* Core::detect_binary in both models *)
  Lemma detect_sim c buf a e :
    exists q c', SearcherCore.detect_binary cfg r c buf a e = OK q c' /\
      BinaryDetect.detect_binary snk mode buf a e (bin_off c) (W c) = (q, bin_off c', W c') /\
      pos c' = pos c /\ abs_off c' = abs_off c /\ after_context_left c' = after_context_left c.
  Proof.
    unfold SearcherCore.detect_binary, BinaryDetect.detect_binary. rewrite quit_eq.
    destruct (bin_off c) as [o|] eqn:Eb.
    - exists (is_quit mode), c. rewrite Eb. repeat split; reflexivity.
    - destruct (c_binary cfg) as [|b|b] eqn:Em; cbn [mode14].
      + exists false, c. rewrite Eb. repeat split; reflexivity.
      + unfold find_byte. destruct (memchr b (sub buf a e)) as [i|].
        * rewrite emit_core. change (go (set_bin_off c (a + i))) with (go c).
          unfold BinaryDetect.emit, sink_of, W. cbn [fst snd]. fold (go c).
          destruct (go c) eqn:Eg; cbn [negb];
            eexists; eexists; (split; [reflexivity|]); cbn; repeat split; reflexivity.
        * exists false, c. rewrite Eb. repeat split; reflexivity.
      + unfold find_byte. destruct (memchr b (sub buf a e)) as [i|].
        * rewrite emit_core. change (go (set_bin_off c (a + i))) with (go c).
          unfold BinaryDetect.emit, sink_of, W. cbn [fst snd]. fold (go c).
          destruct (go c) eqn:Eg; cbn [negb];
            eexists; eexists; (split; [reflexivity|]); cbn; repeat split; reflexivity.
        * exists false, c. rewrite Eb. repeat split; reflexivity.
  Qed.

  Lemma cl_same c buf u :
    log (count_lines cfg c buf u) = log c /\ pos (count_lines cfg c buf u) = pos c /\
    abs_off (count_lines cfg c buf u) = abs_off c /\ bin_off (count_lines cfg c buf u) = bin_off c /\
    after_context_left (count_lines cfg c buf u) = after_context_left c.
  Proof.
    unfold count_lines. destruct (line_number c); [|repeat split; reflexivity].
    destruct (Nat.leb _ _); repeat split; reflexivity.
  Qed.

  Lemma no_break c p : sink_break_context cfg r c p = OK true c.
  Proof. unfold sink_break_context. rewrite Hb, Ha. reflexivity. Qed.

  (* Core::sink_matched in both models *)
  Lemma sm_sim c a e p : Inv c ->
    exists b c', sink_matched cfg r true c s a e = OK b c' /\
      sink_call snk mode true 0 s (mk_call true KOther a e false p) (bin_off c) (W c) = (b, bin_off c', W c') /\
      pos c' = pos c /\ Inv c'.
  Proof.
    intros [I1 I2]. unfold sink_matched, binary_guard, sink_call, guard.
    cbn [c_matched c_kind c_start c_end c_break negb andb].
    destruct (detect_sim c s a e) as (q & c1 & E1 & E2 & P1 & A1 & L1). rewrite E1, E2.
    destruct q.
    - exists false, c1. repeat split; congruence.
    - rewrite no_break. cbn [andthen]. unfold emit_break. cbn [c_break].
      destruct (cl_same c1 s a) as (C1 & C2 & C3 & C4 & C5).
      rewrite emit_core. unfold call_event. cbn [c_matched c_start c_end].
      unfold BinaryDetect.emit, sink_of, W. cbn [fst snd].
      unfold go. rewrite C1, C3, A1, I1.
      destruct (r (length (log c1))) eqn:Er; cbn [andthen negb].
      + eexists; eexists; split; [reflexivity|]. cbn [bin_off set_visited set_log log pos abs_off after_context_left map ev14 length].
        rewrite ?C1, ?C2, ?C3, ?C4, ?C5, ?Ha. unfold Inv. cbn [abs_off after_context_left set_visited set_log].
        repeat split; congruence.
      + eexists; eexists; split; [reflexivity|]. cbn [bin_off set_visited set_log log pos abs_off after_context_left map ev14 length].
        rewrite ?C1, ?C2, ?C3, ?C4, ?C5, ?Ha. unfold Inv. cbn [abs_off after_context_left set_visited set_log].
        repeat split; congruence.
      + now destruct (Hr _ Er).
  Qed.

  (* Core::sink_other_context in both models *)
  Lemma so_sim c a e p : Inv c ->
    exists b c', sink_other_context cfg r true c s a e = OK b c' /\
      sink_call snk mode true 0 s (mk_call false KOther a e false p) (bin_off c) (W c) = (b, bin_off c', W c') /\
      pos c' = pos c /\ Inv c'.
  Proof.
    intros [I1 I2]. unfold sink_other_context, binary_guard, sink_call, guard.
    cbn [c_matched c_kind c_start c_end c_break negb andb].
    destruct (detect_sim c s a e) as (q & c1 & E1 & E2 & P1 & A1 & L1). rewrite E1, E2.
    destruct q.
    - exists false, c1. repeat split; congruence.
    - destruct (cl_same c1 s a) as (C1 & C2 & C3 & C4 & C5).
      rewrite emit_core. unfold call_event. cbn [c_matched c_start c_end c_kind].
      unfold BinaryDetect.emit, sink_of, W. cbn [fst snd].
      unfold go. rewrite C1, C3, A1, I1.
      destruct (r (length (log c1))) eqn:Er; cbn [andthen negb].
      + eexists; eexists; split; [reflexivity|]. cbn [bin_off set_visited set_log log pos abs_off after_context_left map ev14 kind14 length].
        rewrite ?C1, ?C2, ?C3, ?C4, ?C5, ?Ha. unfold Inv. cbn [abs_off after_context_left set_visited set_log].
        repeat split; congruence.
      + eexists; eexists; split; [reflexivity|]. cbn [bin_off set_visited set_log log pos abs_off after_context_left map ev14 kind14 length].
        rewrite ?C1, ?C2, ?C3, ?C4, ?C5, ?Ha. unfold Inv. cbn [abs_off after_context_left set_visited set_log].
        repeat split; congruence.
      + now destruct (Hr _ Er).
  Qed.

  Notation sc := (scf cfg (m_is_match M)).
  Notation pt := (c_passthru cfg).

  (* what a simulated loop must deliver: the Core outcome against the C14 run of the planned calls *)
  Definition sim_post (c : core) (nonempty : bool) (o : SearcherCore.outcome)
             (x : option call * option nat * (nat * list BinaryDetect.event)) : Prop :=
    exists b c', o = OK b c' /\
      match x with
      | (None, cb', w') => b = true /\ cb' = bin_off c' /\ w' = W c' /\ Inv c' /\
                           pos c' = (if nonempty then length s else pos c)
      | (Some cl, cb', w') => b = false /\ cb' = bin_off c' /\ w' = W c' /\ pos c' = c_pos cl
      end.

  Lemma Inv_set_pos c q : Inv c -> Inv (set_pos c q). Proof. exact (fun H => H). Qed.
  Lemma Inv_set_hm c : Inv c -> Inv (set_has_matched c). Proof. exact (fun H => H). Qed.

  Lemma before_none c buf u : before_context_by_line cfg r true c buf u = OK true c.
  Proof. unfold before_context_by_line. rewrite Hb. reflexivity. Qed.

  Lemma after_none c buf u : Inv c -> after_context_by_line cfg r true c buf u = OK true c.
  Proof. intros [_ H]. unfold after_context_by_line. rewrite H. reflexivity. Qed.

  (* match_by_line_slow over the remaining lines *)
  Lemma slow_sim : forall ls c p fuel, lines_at cfg s ls p -> length ls < fuel -> Inv c ->
    (ls = [] -> pos c = length s) ->
    sim_post c true (slow_loop cfg M r true fuel c s p)
      (run_calls snk mode true 0 s (fst (plan_calls sc false pt (length s) (ranges_of p ls))) (bin_off c) (W c)).
  Proof.
    induction ls as [|l ls IH]; intros c p fuel Hat Hf Hi Hnil.
    - cbn [lines_at] in Hat. destruct fuel as [|f]; [cbn in Hf; lia|]. cbn [slow_loop].
      rewrite line_step_end by lia. cbn [ranges_of plan_calls fst run_calls].
      exists true, c. split; [reflexivity|]. fin.
    - cbn [lines_at] in Hat. destruct Hat as (Hn & Ht & Hat).
      destruct fuel as [|f]; [cbn in Hf; lia|]. cbn [length] in Hf. cbn [slow_loop].
      unfold ltb_. rewrite (line_step_next cfg s p l Hn).
      assert (Hsub : sub s p (p + length l) = l) by exact (proj1 Hn).
      rewrite Hsub. fold (sc l). rewrite Hs. cbn [andb].
      cbn [ranges_of plan_calls].
      destruct (plan_calls sc false pt (length s) (ranges_of (p + length l) ls)) as [rest nxt] eqn:Epc.
      assert (Hend : ls = [] -> p + length l = length s).
      { intros ->. exact Hat. }
      assert (IH' : forall c1, Inv c1 -> pos c1 = p + length l ->
                sim_post c1 true (slow_loop cfg M r true f c1 s (p + length l))
                  (run_calls snk mode true 0 s rest (bin_off c1) (W c1))).
      { intros c1 Hi1 Hp1. specialize (IH c1 (p + length l) f Hat ltac:(lia) Hi1).
        rewrite Epc in IH. apply IH. intro E. rewrite Hp1. auto. }
      destruct (sc l) eqn:Esc.
      + cbn [andb fst]. rewrite before_none. cbn [andthen].
        destruct (sm_sim (set_has_matched (set_pos c (p + length l))) p (p + length l) (p + length l)
                    (Inv_set_hm _ (Inv_set_pos _ _ Hi))) as (b1 & c1 & E1 & E2 & P1 & I1).
        rewrite E1. cbn [run_calls].
        change (bin_off c) with (bin_off (set_has_matched (set_pos c (p + length l)))).
        change (W c) with (W (set_has_matched (set_pos c (p + length l)))).
        rewrite E2. destruct b1; cbn [andthen].
        * destruct (IH' c1 I1 P1) as (b & c' & E3 & E4). exists b, c'. split; [exact E3|].
          destruct (run_calls snk mode true 0 s rest (bin_off c1) (W c1)) as [[[cl|] cb'] w'].
          -- exact E4.
          -- destruct E4 as (? & ? & ? & ? & E5). fin.
        * exists false, c1. split; [reflexivity|]. fin.
      + cbn [fst]. change (after_context_left (set_pos c (p + length l))) with (after_context_left c).
        rewrite (proj2 Hi). cbn [Nat.leb].
        destruct pt eqn:Ept.
        * cbn [app].
          destruct (so_sim (set_pos c (p + length l)) p (p + length l) (p + length l) (Inv_set_pos _ _ Hi))
            as (b1 & c1 & E1 & E2 & P1 & I1).
          rewrite E1. cbn [run_calls].
          change (bin_off c) with (bin_off (set_pos c (p + length l))).
          change (W c) with (W (set_pos c (p + length l))).
          rewrite E2. destruct b1; cbn [andthen].
          -- destruct (IH' c1 I1 P1) as (b & c' & E3 & E4). exists b, c'. split; [exact E3|].
             destruct (run_calls snk mode true 0 s rest (bin_off c1) (W c1)) as [[[cl|] cb'] w'].
             ++ exact E4.
             ++ destruct E4 as (? & ? & ? & ? & E5). fin.
          -- exists false, c1. split; [reflexivity|]. fin.
        * cbn [app].
          destruct (IH' (set_pos c (p + length l)) (Inv_set_pos _ _ Hi) eq_refl) as (b & c' & E3 & E4).
          exists b, c'. split; [exact E3|].
          change (bin_off c) with (bin_off (set_pos c (p + length l))).
          change (W c) with (W (set_pos c (p + length l))).
          destruct (run_calls snk mode true 0 s rest _ _) as [[[cl|] cb'] w'].
          -- exact E4.
          -- destruct E4 as (? & ? & ? & ? & E5). fin.
  Qed.

  (* core.finish in both models *)
  Lemma finish_sim c n :
    result14 (Glue.finish r c n) =
    Some (rev (snd (fst (BinaryDetect.emit snk (W c) (BinaryDetect.EFinish n (bin_off c)))))).
  Proof.
    unfold Glue.finish, BinaryDetect.emit, sink_of, W. cbn [fst snd].
    destruct (r (length (log c))) eqn:Er; [| |now destruct (Hr _ Er)];
      cbn [result14]; rewrite map_rev; reflexivity.
  Qed.

  Lemma byte_count_sim c : Glue.byte_count c = BinaryDetect.byte_count (bin_off c) (pos c).
  Proof. reflexivity. Qed.

  (* SliceByLine::run in both models, given the simulation of one match_by_line call over the whole slice *)
  Lemma run_sim plan :
    (forall c, pos c = 0 -> Inv c -> s <> [] ->
       sim_post c true (match_by_line cfg M r true c s) (run_calls snk mode true 0 s plan (bin_off c) (W c))) ->
    (s = [] -> plan = []) ->
    result14 (slice_by_line_run cfg M r s) =
    Some (rev (snd (slice_run snk mode default_buffer_capacity s plan (length s) (0, [])))).
  Proof.
    intros Hm Hnil. unfold slice_by_line_run, slice_run.
    rewrite emit_core.
    change (BinaryDetect.emit snk (0, []) BinaryDetect.EBegin)
      with (BinaryDetect.emit snk (W (core_new cfg)) (ev14 SearcherCore.EBegin)).
    rewrite emit_14. set (c0 := set_log (core_new cfg) (SearcherCore.EBegin :: log (core_new cfg))).
    destruct (go (core_new cfg)).
    - destruct (detect_sim c0 s 0 (Nat.min (length s) default_buffer_capacity)) as (q & c1 & E1 & E2 & P1 & A1 & L1).
      rewrite E1. change (@None nat) with (bin_off c0) at 1. rewrite E2.
      assert (I1 : Inv c1) by (split; [rewrite A1|rewrite L1]; reflexivity).
      assert (Z1 : pos c1 = 0) by (rewrite P1; reflexivity).
      destruct q.
      + rewrite finish_sim, byte_count_sim, Z1. reflexivity.
      + cbn [slice_loop]. destruct (Nat.leb (length s) (pos c1)) eqn:El.
        * apply Nat.leb_le in El. assert (s = []) by (destruct s; [reflexivity|cbn in El; lia]).
          assert (L0 : length s = 0) by lia.
          rewrite (Hnil H). cbn [run_calls]. rewrite finish_sim, byte_count_sim, Z1, L0. reflexivity.
        * apply Nat.leb_gt in El. assert (Hne : s <> []) by (intros ->; cbn in El; lia).
          destruct (Hm c1 Z1 I1 Hne) as (b & c' & E3 & E4). rewrite E3.
          destruct (run_calls snk mode true 0 s plan (bin_off c1) (W c1)) as [[[cl|] cb'] w'].
          -- destruct E4 as (-> & -> & -> & E5). rewrite finish_sim, byte_count_sim, E5. reflexivity.
          -- destruct E4 as (-> & -> & -> & I' & E5).
             replace (Nat.leb (length s) (pos c')) with true by (symmetry; apply Nat.leb_le; lia).
             rewrite finish_sim, byte_count_sim, E5. reflexivity.
    - rewrite finish_sim, byte_count_sim. reflexivity.
  Qed.

  Lemma split_lines_len b : forall x : bytes, length (split_lines b x) <= length x.
  Proof.
    induction x as [|y x IH]; [cbn; lia|]. rewrite split_lines_cons.
    destruct (y =? b)%N; [cbn [length]; lia|].
    destruct (split_lines b x); cbn [glue length] in *; lia.
  Qed.

  Lemma lines_at_split_lines : lines_at cfg s (split_lines ltb s) 0.
  Proof.
    apply lines_at_shape; [apply split_lines_shape|lia|]. rewrite split_lines_concat. reflexivity.
  Qed.

  Lemma split_lines_nonnil : s <> [] -> split_lines ltb s <> [].
  Proof. intros Hne E. apply Hne. rewrite <- (split_lines_concat ltb s), E. reflexivity. Qed.

  (* without stop_on_nonmatch the choice of the line path does not depend on the Core state *)
  Definition fastb : bool := is_line_by_line_fast cfg M (core_new cfg).
  Lemma is_fast_const c : is_line_by_line_fast cfg M c = fastb.
  Proof. unfold fastb, is_line_by_line_fast. rewrite Hs. reflexivity. Qed.

  (* the slow line path (always taken under --passthru) *)
  Lemma slice_sim_slow : fastb = false ->
    result14 (slice_by_line_run cfg M r s) =
    Some (rev (snd (slice_run snk mode default_buffer_capacity s
                      (core_plan_on false cfg (m_is_match M) s) (length s) (0, [])))).
  Proof.
    intro Hslow. apply run_sim.
    - intros c Hp Hi Hne. unfold match_by_line. rewrite is_fast_const, Hslow.
      unfold match_by_line_slow, core_plan_on. rewrite Hp. cbn [andb]. rewrite line_ranges_split0.
      apply slow_sim; [apply lines_at_split_lines| |exact Hi|].
      + pose proof (split_lines_len ltb s). lia.
      + intro E. destruct (split_lines_nonnil Hne E).
    - intro E. unfold core_plan_on. rewrite E. reflexivity.
  Qed.

  (* ---------------- plan algebra ---------------- *)
  Lemma ranges_of_app : forall a b p, ranges_of p (a ++ b) = ranges_of p a ++ ranges_of (p + length (concat a)) b.
  Proof.
    induction a as [|x a IH]; intros b p; cbn [app ranges_of concat length]; [now rewrite Nat.add_0_r|].
    rewrite IH, app_length, Nat.add_assoc. reflexivity.
  Qed.

  Definition mkc (P : nat) (x : nat * nat * bytes) : call := mk_call true KOther (fst (fst x)) (snd (fst x)) false P.

  Lemma ranges_forall (P : bytes -> Prop) ls p : Forall P ls -> Forall (fun x => P (snd x)) (ranges_of p ls).
  Proof. intro H. rewrite <- (ranges_of_lines p ls) in H. now rewrite Forall_map in H. Qed.

  (* a run of result lines in front (inverted fast path: all carry the position of the line after them) *)
  Lemma plan_calls_pre f n : forall pre rs, Forall (fun x => f (snd x) = true) pre ->
    plan_calls f true false n (pre ++ rs) =
    (map (mkc (snd (plan_calls f true false n rs))) pre ++ fst (plan_calls f true false n rs),
     snd (plan_calls f true false n rs)).
  Proof.
    induction 1 as [|[[a b] l] pre Hh _ IH]; [cbn [app map]; now destruct (plan_calls f true false n rs)|].
    cbn [app plan_calls]. rewrite IH. cbn [snd] in Hh. rewrite Hh. reflexivity.
  Qed.

  (* non-result lines in front, no passthru: no calls *)
  Lemma plan_calls_skip f fi n : forall pre rs, Forall (fun x => f (snd x) = false) pre ->
    fst (plan_calls f fi false n (pre ++ rs)) = fst (plan_calls f fi false n rs).
  Proof.
    induction 1 as [|[[a b] l] pre Hh _ IH]; [reflexivity|].
    cbn [app plan_calls]. destruct (plan_calls f fi false n (pre ++ rs)) as [x y]. cbn [snd] in Hh. rewrite Hh.
    cbn [fst app] in *. exact IH.
  Qed.

  Lemma run_calls_app bin a : forall x cb w,
    run_calls snk mode bin a s (x ++ nil) cb w = run_calls snk mode bin a s x cb w.
  Proof. intros. now rewrite app_nil_r. Qed.

  Lemma run_calls_app2 bin a : forall x y cb w,
    run_calls snk mode bin a s (x ++ y) cb w =
    match run_calls snk mode bin a s x cb w with
    | (None, cb', w') => run_calls snk mode bin a s y cb' w'
    | z => z
    end.
  Proof.
    induction x as [|c x IH]; intros y cb w; [reflexivity|].
    cbn [app run_calls]. destruct (sink_call snk mode bin a s c cb w) as [[g cb1] w1].
    destruct g; [apply IH|reflexivity].
  Qed.

  Lemma next_line_pos p l : next_line cfg s p l -> 0 < length l.
  Proof.
    intros (_ & _ & [(body & -> & _)|((Hne & _) & _)]); [rewrite app_length; cbn; lia|].
    destruct l; [congruence|cbn; lia].
  Qed.

  (* the `while let Some(line)` loop of match_by_line_fast_invert over the lines [pre], laid out from p *)
  Lemma matched_sim : forall pre c p en fuel, lines_seq cfg s pre p -> en = p + length (concat pre) ->
    en <= length s -> length pre < fuel -> Inv c ->
    sim_post c false (matched_loop cfg r true fuel c s p en)
      (run_calls snk mode true 0 s (map (mkc (pos c)) (ranges_of p pre)) (bin_off c) (W c)).
  Proof.
    induction pre as [|l pre IH]; intros c p en fuel Hseq Hen Hle Hf Hi;
      (destruct fuel as [|f]; [cbn in Hf; lia|]); cbn [matched_loop]; unfold ltb_.
    - cbn [concat length] in Hen. rewrite line_step_end by lia. cbn [ranges_of map run_calls].
      exists true, c. split; [reflexivity|]. fin.
    - destruct Hseq as (Hn & _ & Hseq). cbn [concat] in Hen. rewrite app_length in Hen.
      rewrite (line_step_seq cfg s p l en Hn) by lia.
      cbn [ranges_of map]. unfold mkc at 1. cbn [fst snd run_calls].
      destruct (sm_sim c p (p + length l) (pos c) Hi) as (b1 & c1 & E1 & E2 & P1 & I1).
      rewrite E1, E2. destruct b1; cbn [andthen].
      + cbn [length] in Hf.
        destruct (IH c1 (p + length l) en f Hseq ltac:(lia) Hle ltac:(lia) I1) as (b & c' & E3 & E4).
        rewrite P1 in E4. exists b, c'. split; [exact E3|].
        destruct (run_calls snk mode true 0 s _ (bin_off c1) (W c1)) as [[[cl|] cb'] w'].
        * exact E4.
        * destruct E4 as (? & ? & ? & ? & E5). fin; try congruence.
      + exists false, c1. split; [reflexivity|]. fin.
  Qed.

  (* ---------------- the fast line path ---------------- *)
  Definition conv (fo : fast_outcome) : SearcherCore.outcome :=
    match fo with
    | FOK FContinue c => OK true c
    | FOK FStop c => OK false c
    | FOK FSwitchToSlow _ => FUEL
    | FERR c => ERR c
    | FFUEL => FUEL
    end.

  Hypothesis Hpt : pt = false.
  Hypothesis Hfs : find_spec cfg M s.

  Lemma finish_fast c : Inv c ->
    lift_stop (after_context_by_line cfg r true c s (length s)) (fun c => FOK FContinue (set_pos c (length s)))
    = FOK FContinue (set_pos c (length s)).
  Proof. intro Hi. rewrite after_none by exact Hi. reflexivity. Qed.

  Lemma max_context0 : max_context cfg = 0.
  Proof. unfold max_context. rewrite Hb, Ha. reflexivity. Qed.

  (* not inverted: the line found is the next result *)
  Lemma fast_sim_ni : c_invert cfg = false ->
    forall fuel ls c p, pos c = p -> lines_at cfg s ls p -> (ls <> [] -> bnd cfg s p) -> Inv c -> length ls < fuel ->
    sim_post c true (conv (fast_loop cfg M r true fuel c s))
      (run_calls snk mode true 0 s (fst (plan_calls sc false false (length s) (ranges_of p ls))) (bin_off c) (W c)).
  Proof.
    intro Hinv.
    assert (Hsc : forall l, sc l = pmatch cfg M l).
    { intro l. unfold scf, pmatch. rewrite Hinv. now destruct (m_is_match M _). }
    induction fuel as [|f IH]; intros ls c p Hp Hat Hbnd Hi Hf; [lia|].
    cbn [fast_loop]. destruct ls as [|l0 ls'].
    - cbn [lines_at] in Hat. replace (Nat.leb (length s) (pos c)) with true by (symmetry; apply Nat.leb_le; lia).
      rewrite finish_fast by exact Hi. cbn [conv ranges_of plan_calls fst run_calls].
      exists true, (set_pos c (length s)). split; [reflexivity|]. fin.
    - pose proof (next_line_pos p l0 (proj1 Hat)) as Hl0. pose proof (proj1 (proj2 (proj1 Hat))) as Hl0b.
      replace (Nat.leb (length s) (pos c)) with false by (symmetry; apply Nat.leb_gt; lia).
      rewrite Hs, Hinv. cbn [andb].
      pose proof (Hfs c (l0 :: ls') p Hp Hat (Hbnd ltac:(discriminate))) as F.
      destruct (find_by_line_fast cfg M c s) as [[[q e]|]|]; [| |contradiction].
      + destruct F as (pre & l & post & Els & Hpre & Hl & -> & ->). rewrite Els in *.
        destruct (lines_at_split cfg s pre l post p Hat) as (Hseq & Htpre & Hnl & Htl & Hpost).
        rewrite max_context0. cbn [Nat.ltb Nat.leb].
        rewrite ranges_of_app, plan_calls_skip
          by (apply (ranges_forall (fun l => sc l = false)); revert Hpre; apply Forall_impl; intros x Hx; now rewrite Hsc).
        cbn [ranges_of plan_calls]. rewrite Hsc, Hl.
        destruct (plan_calls sc false false (length s) (ranges_of (p + length (concat pre) + length l) post))
          as [rest nxt] eqn:Epc.
        cbn [andb fst run_calls].
        destruct (sm_sim (set_pos (set_has_matched c) (p + length (concat pre) + length l))
                    (p + length (concat pre)) (p + length (concat pre) + length l)
                    (p + length (concat pre) + length l) Hi) as (b1 & c1 & E1 & E2 & P1 & I1).
        rewrite E1.
        change (bin_off c) with (bin_off (set_pos (set_has_matched c) (p + length (concat pre) + length l))).
        change (W c) with (W (set_pos (set_has_matched c) (p + length (concat pre) + length l))).
        rewrite E2. destruct b1; cbn [lift_stop].
        * assert (Hbp : post <> [] -> bnd cfg s (p + length (concat pre) + length l)).
          { intro Hne. apply bnd_next; [exact Hnl|exact (Htl Hne)]. }
          assert (Hlen : length post < f).
          { rewrite app_length in Hf. cbn [length] in Hf. lia. }
          specialize (IH post c1 (p + length (concat pre) + length l) P1 Hpost Hbp I1 Hlen). rewrite Epc in IH. cbn [fst] in IH.
          destruct IH as (b & c' & E3 & E4). exists b, c'. split; [exact E3|].
          destruct (run_calls snk mode true 0 s rest (bin_off c1) (W c1)) as [[[cl|] cb'] w'].
          -- exact E4.
          -- destruct E4 as (? & ? & ? & ? & E5). fin.
        * cbn [conv]. exists false, c1. split; [reflexivity|]. fin.
      + rewrite <- (app_nil_r (l0 :: ls')), ranges_of_app, plan_calls_skip
          by (apply (ranges_forall (fun l => sc l = false)); revert F; apply Forall_impl; intros x Hx; now rewrite Hsc).
        cbn [ranges_of plan_calls fst run_calls].
        rewrite finish_fast by exact Hi. cbn [conv].
        exists true, (set_pos c (length s)). split; [reflexivity|]. fin.
  Qed.

  (* inverted: the lines before the line found are the results; pos is already past the line found *)
  Lemma fast_sim_inv : c_invert cfg = true ->
    forall fuel ls c p, pos c = p -> lines_at cfg s ls p -> (ls <> [] -> bnd cfg s p) -> Inv c -> length ls < fuel ->
    sim_post c true (conv (fast_loop cfg M r true fuel c s))
      (run_calls snk mode true 0 s (fst (plan_calls sc true false (length s) (ranges_of p ls))) (bin_off c) (W c)).
  Proof.
    intro Hinv.
    assert (Hsc : forall l, sc l = negb (pmatch cfg M l)).
    { intro l. unfold scf, pmatch. rewrite Hinv. now destruct (m_is_match M _). }
    induction fuel as [|f IH]; intros ls c p Hp Hat Hbnd Hi Hf; [lia|].
    cbn [fast_loop]. destruct ls as [|l0 ls'].
    - cbn [lines_at] in Hat. replace (Nat.leb (length s) (pos c)) with true by (symmetry; apply Nat.leb_le; lia).
      rewrite finish_fast by exact Hi. cbn [conv ranges_of plan_calls fst run_calls].
      exists true, (set_pos c (length s)). split; [reflexivity|]. fin.
    - pose proof (next_line_pos p l0 (proj1 Hat)) as Hl0. pose proof (proj1 (proj2 (proj1 Hat))) as Hl0b.
      replace (Nat.leb (length s) (pos c)) with false by (symmetry; apply Nat.leb_gt; lia).
      rewrite Hs, Hinv. cbn [andb]. unfold match_by_line_fast_invert.
      pose proof (Hfs c (l0 :: ls') p Hp Hat (Hbnd ltac:(discriminate))) as F.
      destruct (find_by_line_fast cfg M c s) as [[[q e]|]|]; [| |contradiction].
      + destruct F as (pre & l & post & Els & Hpre & Hl & -> & ->). rewrite Els in *.
        destruct (lines_at_split cfg s pre l post p Hat) as (Hseq & Htpre & Hnl & Htl & Hpost).
        rewrite Hs. cbn [andb]. rewrite Hp.
        set (e := p + length (concat pre) + length l) in *.
        assert (Hbp : post <> [] -> bnd cfg s e).
        { intro Hne. apply bnd_next; [exact Hnl|exact (Htl Hne)]. }
        assert (Hlen : length post < f).
        { rewrite app_length in Hf. cbn [length] in Hf. lia. }
        rewrite ranges_of_app.
        rewrite plan_calls_pre
          by (apply (ranges_forall (fun l => sc l = true)); revert Hpre; apply Forall_impl; intros x Hx;
              now rewrite Hsc, Hx).
        cbn [ranges_of plan_calls]. fold e. rewrite Hsc, Hl. cbn [negb].
        destruct (plan_calls sc true false (length s) (ranges_of e post)) as [rest nxt] eqn:Epc.
        cbn [fst snd app].
        assert (Hcont : forall c1, Inv c1 -> pos c1 = e ->
                  sim_post c1 true (conv (fast_loop cfg M r true f c1 s))
                    (run_calls snk mode true 0 s rest (bin_off c1) (W c1))).
        { intros c1 I1 P1. specialize (IH post c1 e P1 Hpost Hbp I1 Hlen). rewrite Epc in IH. exact IH. }
        destruct pre as [|l1 pre'].
        * cbn [concat length ranges_of map app]. rewrite Nat.add_0_r, Nat.leb_refl. cbn [lift_stop].
          destruct (Hcont (set_pos c e) Hi eq_refl) as (b & c' & E3 & E4).
          exists b, c'. split; [exact E3|].
          change (bin_off c) with (bin_off (set_pos c e)). change (W c) with (W (set_pos c e)).
          destruct (run_calls snk mode true 0 s rest _ _) as [[[cl|] cb'] w'].
          -- exact E4.
          -- destruct E4 as (? & ? & ? & ? & E5). fin.
        * pose proof (next_line_pos p l1 (proj1 Hseq)) as Hl1.
          assert (Hq : p < p + length (concat (l1 :: pre'))).
          { cbn [concat]. rewrite app_length. lia. }
          replace (Nat.leb (p + length (concat (l1 :: pre'))) p) with false by (symmetry; apply Nat.leb_gt; lia).
          rewrite after_none by exact Hi. cbn [andthen]. rewrite before_none. cbn [andthen].
          pose proof (proj1 (proj2 Hnl)) as Hqe.
          pose proof (lines_seq_count cfg s _ _ Hseq) as Hcnt.
          destruct (matched_sim (l1 :: pre') (set_has_matched (set_pos c e)) p (p + length (concat (l1 :: pre')))
                      (S (length s)) Hseq eq_refl ltac:(lia) ltac:(lia) Hi) as (b1 & c1 & E1 & E2).
          rewrite E1. rewrite run_calls_app2.
          change (pos (set_has_matched (set_pos c e))) with e in E2.
          change (bin_off (set_has_matched (set_pos c e))) with (bin_off c) in E2.
          change (W (set_has_matched (set_pos c e))) with (W c) in E2.
          destruct (run_calls snk mode true 0 s (map (mkc e) (ranges_of p (l1 :: pre'))) (bin_off c) (W c))
            as [[[cl|] cb1] w1].
          -- destruct E2 as (-> & -> & -> & E5). cbn [lift_stop conv]. exists false, c1. split; [reflexivity|]. fin.
          -- destruct E2 as (-> & -> & -> & I1 & E5). cbn [lift_stop].
             destruct (Hcont c1 I1 E5) as (b & c' & E3 & E4).
             exists b, c'. split; [exact E3|].
             destruct (run_calls snk mode true 0 s rest _ _) as [[[cl|] cb'] w'].
             ++ exact E4.
             ++ destruct E4 as (? & ? & ? & ? & E6). fin.
      + rewrite Hp.
        replace (Nat.leb (length s) p) with false by (symmetry; apply Nat.leb_gt; lia).
        rewrite after_none by exact Hi. cbn [andthen]. rewrite before_none. cbn [andthen].
        rewrite <- (app_nil_r (l0 :: ls')), ranges_of_app.
        rewrite plan_calls_pre
          by (apply (ranges_forall (fun l => sc l = true)); revert F; apply Forall_impl; intros x Hx;
              now rewrite Hsc, Hx).
        cbn [ranges_of plan_calls fst snd]. rewrite app_nil_r.
        pose proof (lines_at_seq cfg s _ _ Hat) as Hseq.
        pose proof (lines_at_total cfg s _ _ Hat) as Htot.
        pose proof (lines_seq_count cfg s _ _ Hseq) as Hcnt.
        destruct (matched_sim (l0 :: ls') (set_has_matched (set_pos c (length s))) p (length s)
                    (S (length s)) Hseq ltac:(lia) ltac:(lia) ltac:(lia) Hi) as (b1 & c1 & E1 & E2).
        rewrite E1.
        change (pos (set_has_matched (set_pos c (length s)))) with (length s) in E2.
        change (bin_off (set_has_matched (set_pos c (length s)))) with (bin_off c) in E2.
        change (W (set_has_matched (set_pos c (length s)))) with (W c) in E2.
        destruct (run_calls snk mode true 0 s _ (bin_off c) (W c)) as [[[cl|] cb1] w1].
        * destruct E2 as (-> & -> & -> & E5). cbn [lift_stop conv]. exists false, c1. split; [reflexivity|]. fin.
        * destruct E2 as (-> & -> & -> & I1 & E5). cbn [lift_stop].
          assert (H0f : 0 < f) by (cbn [length] in Hf; lia).
          destruct (IH [] c1 (length s) E5 eq_refl ltac:(congruence) I1 H0f) as (b & c' & E3 & E4).
          cbn [ranges_of plan_calls fst run_calls] in E4.
          exists b, c'. split; [exact E3|]. destruct E4 as (? & ? & ? & ? & E6). fin.
  Qed.
End Sim.

(* ---------------- the statement for Props/C14.v ---------------- *)
Theorem slice_sim_proof :
  forall (cfg : config) (M : matcher) (r : nat -> reply),
    (forall i, r i <> Fail) ->
    c_before cfg = 0 -> c_after cfg = 0 -> c_stop_on_nonmatch cfg = false ->
    forall s : bytes, find_spec cfg M s ->
    result14 (slice_by_line_run cfg M r s) =
    Some (rev (snd (slice_run (sink_of r) (mode14 (c_binary cfg)) default_buffer_capacity s
                      (core_plan_on (fastb cfg M) cfg (m_is_match M) s) (length s) (0, [])))).
Proof.
  intros cfg M r Hr Hb Ha Hs s Hfs. destruct (fastb cfg M) eqn:Ef.
  - assert (Hpt : c_passthru cfg = false).
    { unfold fastb, is_line_by_line_fast in Ef. destruct (c_passthru cfg); [discriminate|reflexivity]. }
    apply run_sim; try assumption.
    + intros c Hp Hi Hne. unfold match_by_line. rewrite (is_fast_const cfg M Hs), Ef. unfold match_by_line_fast.
      assert (Hlen : length (split_lines (lt_byte (c_lt cfg)) s) < S (S (length s))).
      { pose proof (split_lines_len cfg Hb Ha (lt_byte (c_lt cfg)) s). lia. }
      assert (Hsim : sim_post s c true (conv (fast_loop cfg M r true (S (S (length s))) c s))
                (run_calls (sink_of r) (mode14 (c_binary cfg)) true 0 s
                   (core_plan_on true cfg (m_is_match M) s) (bin_off c) (W c))).
      { unfold core_plan_on. rewrite Hpt, line_ranges_split0.
        change (fun line : bytes => negb (Bool.eqb (m_is_match M (without_terminator (c_lt cfg) line)) (c_invert cfg)))
          with (scf cfg (m_is_match M)).
        assert (Hcases : c_invert cfg = true \/ c_invert cfg = false) by (destruct (c_invert cfg); auto).
        destruct Hcases as [Hinv|Hinv]; rewrite Hinv; cbn [andb].
        - apply (fast_sim_inv cfg M r Hr Hb Ha Hs s Hfs Hinv (S (S (length s))) _ c 0 Hp
                   (lines_at_split_lines cfg Hb Ha s)); [intros _; left; reflexivity|exact Hi|exact Hlen].
        - apply (fast_sim_ni cfg M r Hr Hb Ha Hs s Hfs Hinv (S (S (length s))) _ c 0 Hp
                   (lines_at_split_lines cfg Hb Ha s)); [intros _; left; reflexivity|exact Hi|exact Hlen]. }
      destruct Hsim as (b & c' & E & R). exists b, c'. split; [|exact R].
      destruct (fast_loop cfg M r true (S (S (length s))) c s) as [[] ?| |]; cbn [conv] in E; try discriminate E; exact E.
    + intro E. unfold core_plan_on. rewrite E. reflexivity.
  - apply slice_sim_slow; assumption.
Qed.

From RG Require Proofs.BinaryDetectProofs.
(* consequence inside the Core model: with Quit(b) no delivered line contains b, whatever the sink does *)
Theorem core_quit_events_free_proof :
  forall (cfg : config) (M : matcher) (r : nat -> reply) (b : byte),
    (forall i, r i <> Fail) ->
    c_before cfg = 0 -> c_after cfg = 0 -> c_stop_on_nonmatch cfg = false ->
    c_binary cfg = SearcherCore.BQuit b ->
    forall s : bytes, find_spec cfg M s ->
    exists evs, slice_by_line_run cfg M r s = RunOk evs /\
      forall e, In e evs ->
        match e with
        | SearcherCore.EMatched _ _ l | SearcherCore.EContext _ _ _ l => ~ In b l
        | _ => True
        end.
Proof.
  intros cfg M r b Hr Hb Ha Hs Hq s Hfs.
  pose proof (slice_sim_proof cfg M r Hr Hb Ha Hs s Hfs) as H. rewrite Hq in H. cbn [mode14] in H.
  destruct (slice_by_line_run cfg M r s) as [evs| |]; cbn [result14] in H; try discriminate H.
  exists evs. split; [reflexivity|]. intros e He. injection H as H.
  pose proof (BinaryDetectProofs.slice_quit_events_free_proof (sink_of r) (LineBufferBin.BQuit b) b
                default_buffer_capacity s (core_plan_on (fastb cfg M) cfg (m_is_match M) s) (length s) 0 eq_refl) as Q.
  rewrite Forall_forall in Q. specialize (Q (ev14 e)).
  assert (Hin : In (ev14 e) (snd (slice_run (sink_of r) (LineBufferBin.BQuit b) default_buffer_capacity s
                (core_plan_on (fastb cfg M) cfg (m_is_match M) s) (length s) (0, [])))).
  { apply in_rev. rewrite <- H. apply in_map. exact He. }
  specialize (Q Hin). destruct e; exact Q.
Qed.

(* lite_plan is core_plan_on whenever the positions agree: not inverted, or passthru, or the fast path runs *)
Lemma core_plan_on_lite cfg M needles s fast :
  needle_matcher cfg M needles s ->
  fast = true \/ c_invert cfg = false \/ c_passthru cfg = true ->
  core_plan_on fast cfg (m_is_match M) s = lite_plan needles (c_invert cfg) (c_passthru cfg) (lt_byte (c_lt cfg)) s.
Proof.
  intros Hn Hc. rewrite <- (core_plan_lite cfg M needles s Hn). unfold core_plan_on, core_plan.
  destruct Hc as [->|[H|H]].
  - reflexivity.
  - rewrite H. now rewrite Bool.andb_false_r.
  - rewrite H. f_equal.
    generalize (line_ranges (lt_byte (c_lt cfg)) s 0 0 []). intro rs.
    induction rs as [|[[a b] l] rs IH]; [reflexivity|]. cbn [plan_calls]. rewrite IH.
    now rewrite !Bool.andb_false_r.
Qed.

Theorem lite_sim_proof :
  forall (cfg : config) (M : matcher) (needles : list bytes) (r : nat -> reply),
    (forall i, r i <> Fail) ->
    c_before cfg = 0 -> c_after cfg = 0 -> c_stop_on_nonmatch cfg = false ->
    forall s : bytes, find_spec cfg M s -> needle_matcher cfg M needles s ->
    fastb cfg M = true \/ c_invert cfg = false \/ c_passthru cfg = true ->
    result14 (slice_by_line_run cfg M r s) =
    Some (rev (snd (slice_run (sink_of r) (mode14 (c_binary cfg)) default_buffer_capacity s
                      (lite_plan needles (c_invert cfg) (c_passthru cfg) (lt_byte (c_lt cfg)) s) (length s) (0, [])))).
Proof.
  intros cfg M needles r Hr Hb Ha Hs s Hfs Hn Hc.
  rewrite <- (core_plan_on_lite cfg M needles s (fastb cfg M) Hn Hc). apply slice_sim_proof; assumption.
Qed.

(* Core::roll without context = lite_roll: the whole buffer is consumed *)
Lemma lite_roll_eq_core_proof cfg c buf : c_before cfg = 0 -> c_after cfg = 0 ->
  fst (roll cfg c buf) = fst (lite_roll tt buf).
Proof. intros Hb Ha. unfold roll, lite_roll, max_context. rewrite Hb, Ha. reflexivity. Qed.

(* ---------------- consequences inside the Core model: Convert, and the standard printer ---------------- *)
From RG Require Spec.BinarySpec Proofs.PrinterBinProofs.

(* the events of a Core run, as events of the C14 model; the trace starts with the one begin *)
Lemma core_trace cfg M r s :
  (forall i, r i <> Fail) ->
  c_before cfg = 0 -> c_after cfg = 0 -> c_stop_on_nonmatch cfg = false -> find_spec cfg M s ->
  exists evs plan, slice_by_line_run cfg M r s = RunOk evs /\
    map ev14 evs = rev (snd (slice_run (sink_of r) (mode14 (c_binary cfg)) default_buffer_capacity s plan (length s) (0, []))).
Proof.
  intros Hr Hb Ha Hs Hfs. pose proof (slice_sim_proof cfg M r Hr Hb Ha Hs s Hfs) as H.
  destruct (slice_by_line_run cfg M r s) as [evs| |]; cbn [result14] in H; try discriminate H.
  injection H as H. exists evs, (core_plan_on (fastb cfg M) cfg (m_is_match M) s). split; [reflexivity|exact H].
Qed.

Theorem core_convert_guarded_proof :
  forall (cfg : config) (M : matcher) (r : nat -> reply) (b : byte),
    (forall i, r i <> Fail) ->
    c_before cfg = 0 -> c_after cfg = 0 -> c_stop_on_nonmatch cfg = false ->
    c_binary cfg = SearcherCore.BConvert b ->
    forall s : bytes, find_spec cfg M s ->
    exists evs, slice_by_line_run cfg M r s = RunOk evs /\ BinaryDetectProofs.guarded b (map ev14 evs).
Proof.
  intros cfg M r b Hr Hb Ha Hs Hc s Hfs.
  destruct (core_trace cfg M r s Hr Hb Ha Hs Hfs) as (evs & plan & E & H).
  exists evs. split; [exact E|]. rewrite H, Hc. cbn [mode14].
  apply BinaryDetectProofs.slice_convert_guarded_proof. reflexivity.
Qed.

(* whatever the sink replies: feeding the delivered events to the standard printer writes no b *)
Theorem core_standard_output_free_proof :
  forall (cfg : config) (M : matcher) (r : nat -> reply) (b : byte)
         (pcfg : std_cfg) (render : BinaryDetect.event -> bytes),
    (forall i, r i <> Fail) ->
    c_before cfg = 0 -> c_after cfg = 0 -> c_stop_on_nonmatch cfg = false ->
    c_binary cfg = SearcherCore.BQuit b \/ c_binary cfg = SearcherCore.BConvert b ->
    sc_mode pcfg = mode14 (c_binary cfg) ->
    PrinterBinProofs.render_ok render b -> PrinterBinProofs.texts_free pcfg b ->
    forall s : bytes, find_spec cfg M s ->
    exists evs, slice_by_line_run cfg M r s = RunOk evs /\
      ~ In b (ss_out (PrinterBinProofs.std_run pcfg render (map ev14 evs) PrinterBinProofs.st0)).
Proof.
  intros cfg M r b pcfg render Hr Hb Ha Hs Hqc Hm Hren Htx s Hfs.
  destruct (core_trace cfg M r s Hr Hb Ha Hs Hfs) as (evs & plan & E & H).
  exists evs. split; [exact E|]. rewrite H.
  set (w := slice_run (sink_of r) (mode14 (c_binary cfg)) default_buffer_capacity s plan (length s) (0, [])).
  assert (Hshape : exists t, rev (snd w) = BinaryDetect.EBegin :: t /\ BinarySpec.no_begin t).
  { apply (BinaryDetectProofs.slice_run_emit_pres (sink_of r) (mode14 (c_binary cfg)) b
             (fun w => exists t, rev (snd w) = BinaryDetect.EBegin :: t /\ BinarySpec.no_begin t)).
    - intros w0 ev Hne (t & Ht & Hnb). exists (t ++ [ev]). unfold BinaryDetect.emit.
      destruct (sink_of r (fst w0) ev) as [s' g]. cbn [fst snd rev]. rewrite Ht. split; [reflexivity|].
      apply Forall_app. split; [exact Hnb|]. constructor; [exact Hne|constructor].
    - exists []. split; [reflexivity|constructor]. }
  destruct Hshape as (t & Ht & Hnb). rewrite Ht.
  rewrite PrinterBinProofs.std_run_eq_spec_proof.
  change (ss_out PrinterBinProofs.st0 ++
          BinarySpec.std_spec pcfg render (BinaryDetect.EBegin :: t) (ss_match_count PrinterBinProofs.st0)
            (ss_bin PrinterBinProofs.st0))
    with (BinarySpec.std_spec pcfg render t 0 None).
  destruct Hqc as [Hq|Hc].
  - pose proof (BinaryDetectProofs.slice_quit_events_free_proof (sink_of r) (mode14 (c_binary cfg)) b
                  default_buffer_capacity s plan (length s) 0) as Hf.
    rewrite Hq in Hf. specialize (Hf eq_refl). rewrite <- Hq in Hf. fold w in Hf.
    apply BinaryDetectProofs.Forall_rev' in Hf. rewrite Ht in Hf. inversion Hf; subst.
    apply PrinterBinProofs.spec_free_all with (b := b); assumption.
  - pose proof (BinaryDetectProofs.slice_convert_guarded_proof (sink_of r) (mode14 (c_binary cfg)) b
                  default_buffer_capacity s plan (length s) 0) as Hg.
    rewrite Hc in Hg. specialize (Hg eq_refl). rewrite <- Hc in Hg. fold w in Hg.
    rewrite Ht in Hg. cbn [BinaryDetectProofs.guarded] in Hg. destruct Hg as [_ Hg].
    apply PrinterBinProofs.spec_free_guarded with (b := b); try assumption. rewrite Hm, Hc. reflexivity.
Qed.
