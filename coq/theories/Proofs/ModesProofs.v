(* Proofs/ModesProofs.v — C10: what each printer's counters are, as functions of the event stream *)
From RG Require Import Base.Bytes Base.BytesFacts Model.MatchIter Model.Replace Model.Sink Model.Summary
  Model.Standard Model.Json Spec.ReplaceSpec Spec.ModesSpec Proofs.ReplaceProofs Proofs.SinkProofs.

Lemma count_matched_cons e evs :
  count_matched (e :: evs) = (if is_matched e then 1 else 0) + count_matched evs.
Proof. unfold count_matched. cbn [filter]. destruct (is_matched e); reflexivity. Qed.

Lemma limited_pos limit n : 0 < limited limit n <-> 0 < n /\ limit <> Some 0.
Proof.
  unfold limited. destruct limit as [[|L]|]; split; intro H; try lia.
  - destruct H as [_ H]. congruence.
  - split; [lia|discriminate].
  - split; [lia|discriminate].
Qed.

(* ------------------------------------------------------------------ summary printer *)
Section SummaryCount.
  Variable find_at : bytes -> nat -> option (nat * nat).
  Variable cfg : sconfig.
  Variable env : senv.

  Definition has_stats : bool := sc_stats cfg || requires_stats (sc_kind cfg).
  (* the summary printer counts sink calls (lines), not pattern matches *)
  Definition line_counting : Prop := (e_multi env && negb (e_invert env)) = false.

  Definition sinv (s : ssink) : Prop := is_some (ss_stats s) = has_stats.

  Lemma summary_sink_inv path w : sinv (summary_sink cfg path w).
  Proof. unfold sinv, summary_sink, has_stats. cbn. now destruct (sc_stats cfg || requires_stats (sc_kind cfg)). Qed.

  Lemma summary_begin_inv s : sinv s -> sinv (fst (summary_begin cfg s)).
  Proof. unfold sinv, summary_begin. destruct (ss_path s); [|destruct (requires_path (sc_kind cfg))]; cbn; auto. Qed.

  Lemma find_count_ok (m : sink_match) :
    ev_ok find_at env (SMatched m) ->
    find_iter_at_in_context find_at env (m_buf m) (m_rs m) (m_re m) count_cb 0 = Some (nsub find_at env m).
  Proof.
    intro Hok. cbn [ev_ok] in Hok. destruct Hok as [Hok _].
    destruct (successive_total find_at env (m_buf m) (m_rs m) (m_re m) Hok) as [l Hl].
    unfold nsub. rewrite Hl. now apply find_iter_count.
  Qed.

  Lemma should_quit_reached mc : ss_should_quit cfg mc = reached (sc_max cfg) mc.
  Proof. reflexivity. Qed.

  (* one Matched event, counting kinds *)
  Lemma summary_matched_counting m s :
    line_counting -> quit_early (sc_kind cfg) = false \/ has_stats = true ->
    sinv s -> ev_ok find_at env (SMatched m) ->
    exists s', summary_matched find_at cfg env m s
               = Some (s', reply_of (negb (reached (sc_max cfg) (ss_match_count s + 1)))) /\
               ss_match_count s' = ss_match_count s + 1 /\ sinv s' /\
               ss_path s' = ss_path s /\ ss_wtr s' = ss_wtr s.
  Proof.
    intros LC Hk Hinv Hok. unfold summary_matched. unfold line_counting in LC. rewrite LC.
    unfold sinv in Hinv.
    destruct (ss_stats s) as [st|] eqn:Es; cbn [is_some] in Hinv.
    - rewrite (find_count_ok m Hok). eexists. split; [reflexivity|]. cbn. unfold sinv. cbn. auto.
    - assert (quit_early (sc_kind cfg) = false) as Hq by (destruct Hk as [Hk|Hk]; [exact Hk|congruence]).
      rewrite Hq.
      destruct (negb (e_multi env)).
      + eexists. split; [reflexivity|]. cbn. unfold sinv. cbn. auto.
      + rewrite (find_count_ok m Hok). eexists. split; [reflexivity|]. cbn. unfold sinv. cbn. auto.
  Qed.

  Lemma summary_feed_counting evs k s :
    line_counting -> quit_early (sc_kind cfg) = false \/ has_stats = true ->
    Forall (ev_ok find_at env) evs -> sinv s -> reached (sc_max cfg) (ss_match_count s) = false ->
    exists s' rp k', feed (summary_step find_at cfg env) evs k s = Some (s', rp, k') /\ rp <> Fail /\
      (sinv s' /\ ss_path s' = ss_path s /\ ss_wtr s' = ss_wtr s) /\
      ss_match_count s' = match sc_max cfg with
                          | None => ss_match_count s + count_matched evs
                          | Some L => Nat.min L (ss_match_count s + count_matched evs)
                          end.
  Proof.
    intros LC Hk Hok Hinv Hr.
    apply (feed_limit (summary_step find_at cfg env) ss_match_count (sc_max cfg)
             (fun s' => sinv s' /\ ss_path s' = ss_path s /\ ss_wtr s' = ss_wtr s) (ev_ok find_at env));
      [| |exact Hok|auto|exact Hr].
    - intros m s0 (Hi & Hp & Hw) Hokm _. cbn [summary_step].
      destruct (summary_matched_counting m s0 LC Hk Hi Hokm) as (s' & E & Hmc & Hi' & Hp' & Hw').
      exists s'. repeat split; try assumption; congruence.
    - intros e s0 He Hi _ _. exists s0. destruct e; cbn in He; try discriminate; cbn [summary_step]; auto.
  Qed.

  (* kinds that stop at the first match (no statistics requested) *)
  Lemma summary_feed_quit_early : forall evs k s,
    line_counting -> quit_early (sc_kind cfg) = true -> has_stats = false ->
    Forall (ev_ok find_at env) evs -> sinv s ->
    exists s' rp k', feed (summary_step find_at cfg env) evs k s = Some (s', rp, k') /\ rp <> Fail /\
      ss_path s' = ss_path s /\ ss_wtr s' = ss_wtr s /\ ss_stats s' = None /\
      ss_match_count s' = ss_match_count s + Nat.min 1 (count_matched evs).
  Proof.
    induction evs as [|e evs IH]; intros k s LC Hq Hs Hok Hinv.
    - exists s, Go, k. cbn [feed]. unfold sinv in Hinv. rewrite Hs in Hinv.
      destruct (ss_stats s); [discriminate|]. repeat split; [discriminate|]. cbn. lia.
    - cbn [feed]. pose proof Hinv as Hinv0. unfold sinv in Hinv. rewrite Hs in Hinv.
      inversion Hok as [|? ? He Hrest]; subst.
      destruct (ss_stats s) as [st|] eqn:Es; [discriminate|].
      destruct e as [m|c| |off]; cbn [summary_step].
      + unfold summary_matched. rewrite Es. unfold line_counting in LC. rewrite LC, Hq.
        destruct (negb (e_multi env)).
        * eexists _, Halt, k. split; [reflexivity|]. rewrite count_matched_cons.
          cbn [is_matched ss_path ss_wtr ss_stats ss_match_count].
          repeat split; try discriminate; lia.
        * rewrite (find_count_ok m He).
          eexists _, Halt, k. split; [reflexivity|]. rewrite count_matched_cons.
          cbn [is_matched ss_path ss_wtr ss_stats ss_match_count].
          repeat split; try discriminate; lia.
      + destruct (IH (S k) s LC Hq Hs Hrest Hinv0) as (s' & rp & k' & -> & H).
        exists s', rp, k'. rewrite count_matched_cons. exact (conj eq_refl H).
      + destruct (IH (S k) s LC Hq Hs Hrest Hinv0) as (s' & rp & k' & -> & H).
        exists s', rp, k'. rewrite count_matched_cons. exact (conj eq_refl H).
      + destruct (IH (S k) s LC Hq Hs Hrest Hinv0) as (s' & rp & k' & -> & H).
        exists s', rp, k'. rewrite count_matched_cons. exact (conj eq_refl H).
  Qed.
End SummaryCount.

(* ------------------------------------------------------------------ summary printer: whole runs *)
Section SummaryRun.
  Variable find_at : bytes -> nat -> option (nat * nat).
  Variable cfg : sconfig.
  Variable env : senv.

  (* the path the sink carries *)
  Definition spath (path : option bytes) : option bytes := ss_path (summary_sink cfg path w_new).
  Definition path_present (path : option bytes) : Prop :=
    requires_path (sc_kind cfg) = true -> spath path <> None.

  Lemma summary_begin_go path w :
    path_present path ->
    summary_begin cfg (summary_sink cfg path w)
    = (mkSS (spath path) 0 None (ss_stats (summary_sink cfg path w)) (reset_count w),
       match sc_max cfg with Some 0 => Halt | _ => Go end).
  Proof.
    intro Hp. unfold summary_begin, path_present, spath in *. cbn [ss_path summary_sink] in *.
    destruct (match path with Some p => _ | None => None end) eqn:E.
    - reflexivity.
    - destruct (requires_path (sc_kind cfg)); [exfalso; now apply Hp|reflexivity].
  Qed.

  (* kinds that see the whole stream (or -m N of it): the counter is the number of Matched events *)
  Theorem summary_run_counting path w evs fins :
    line_counting env -> quit_early (sc_kind cfg) = false \/ has_stats cfg = true ->
    Forall (ev_ok find_at env) evs -> path_present path ->
    exists s' k, summary_run find_at cfg env path w evs fins = Some (summary_finish cfg env (fins k) s', true) /\
      ss_match_count s' = limited (sc_max cfg) (count_matched evs) /\
      ss_path s' = spath path /\ ss_wtr s' = reset_count w /\ sinv cfg s'.
  Proof.
    intros LC Hk Hok Hp. unfold summary_run, run_sink. rewrite (summary_begin_go path w Hp).
    pose proof (summary_begin_inv cfg _ (summary_sink_inv cfg path w)) as Hinv.
    rewrite (summary_begin_go path w Hp) in Hinv. cbn [fst] in Hinv.
    destruct (sc_max cfg) as [[|L]|] eqn:Emax.
    - eexists _, 0. split; [reflexivity|]. cbn. auto.
    - destruct (summary_feed_counting find_at cfg env evs 0 _ LC Hk Hok Hinv)
        as (s' & rp & k' & -> & Hrp & (Hi & Hpa & Hw) & Hmc); [now rewrite Emax|].
      rewrite Emax in Hmc. cbn [ss_match_count Nat.add] in Hmc.
      exists s', (1 + k'). split; [destruct rp; congruence|]. cbn [limited]. auto.
    - destruct (summary_feed_counting find_at cfg env evs 0 _ LC Hk Hok Hinv)
        as (s' & rp & k' & -> & Hrp & (Hi & Hpa & Hw) & Hmc); [now rewrite Emax|].
      rewrite Emax in Hmc. cbn [ss_match_count Nat.add] in Hmc.
      exists s', (1 + k'). split; [destruct rp; congruence|]. cbn [limited]. auto.
  Qed.

  (* kinds that stop at the first match: the counter says whether there is a Matched event *)
  Theorem summary_run_quit_early path w evs fins :
    line_counting env -> quit_early (sc_kind cfg) = true -> has_stats cfg = false ->
    Forall (ev_ok find_at env) evs -> path_present path ->
    exists s' k, summary_run find_at cfg env path w evs fins = Some (summary_finish cfg env (fins k) s', true) /\
      ss_match_count s' = Nat.min 1 (limited (sc_max cfg) (count_matched evs)) /\
      ss_path s' = spath path /\ ss_wtr s' = reset_count w /\ ss_stats s' = None.
  Proof.
    intros LC Hq Hs Hok Hp. unfold summary_run, run_sink. rewrite (summary_begin_go path w Hp).
    pose proof (summary_begin_inv cfg _ (summary_sink_inv cfg path w)) as Hinv.
    rewrite (summary_begin_go path w Hp) in Hinv. cbn [fst] in Hinv.
    assert (ss_stats (summary_sink cfg path w) = None) as Hst.
    { unfold summary_sink. cbn. unfold has_stats in Hs. now rewrite Hs. }
    destruct (sc_max cfg) as [[|L]|] eqn:Emax.
    - eexists _, 0. split; [reflexivity|]. cbn. auto.
    - destruct (summary_feed_quit_early find_at cfg env evs 0 _ LC Hq Hs Hok Hinv)
        as (s' & rp & k' & -> & Hrp & Hpa & Hw & Hst' & Hmc).
      cbn [ss_match_count Nat.add] in Hmc.
      exists s', (1 + k'). split; [destruct rp; congruence|]. cbn [limited]. repeat split; auto. lia.
    - destruct (summary_feed_quit_early find_at cfg env evs 0 _ LC Hq Hs Hok Hinv)
        as (s' & rp & k' & -> & Hrp & Hpa & Hw & Hst' & Hmc).
      cbn [ss_match_count Nat.add] in Hmc.
      exists s', (1 + k'). split; [destruct rp; congruence|]. cbn [limited]. repeat split; auto.
  Qed.

  (* what finish writes *)
  Definition path_field (path : option bytes) : bytes :=
    match path with
    | Some p => p ++ match sc_path_term cfg with Some t => [t] | None => sc_sep_field cfg end
    | None => []
    end.
  Definition path_line (path : option bytes) : bytes :=
    match path with
    | Some p => p ++ match sc_path_term cfg with Some t => [t] | None => lt_bytes (e_lt env) end
    | None => []
    end.
  (* the line `-c` prints for a file with count n *)
  Definition count_output (path : option bytes) (n : nat) : bytes :=
    if negb (sc_exclude_zero cfg) || Nat.ltb 0 n then path_field path ++ dec n ++ lt_bytes (e_lt env) else [].

  Definition squashed (fin : sfinish) : bool := is_some (f_bin fin) && e_quit env.

  Lemma write_path_field_out s : w_out (ss_wtr (Summary.write_path_field cfg s)) = w_out (ss_wtr s) ++ path_field (ss_path s).
  Proof.
    unfold Summary.write_path_field, path_field. destruct (ss_path s) as [p|]; [|now rewrite app_nil_r].
    destruct (sc_path_term cfg); cbn; now rewrite <- app_assoc.
  Qed.
  Lemma write_path_line_out s : w_out (ss_wtr (Summary.write_path_line cfg env s)) = w_out (ss_wtr s) ++ path_line (ss_path s).
  Proof.
    unfold Summary.write_path_line, path_line. destruct (ss_path s) as [p|]; [|now rewrite app_nil_r].
    destruct (sc_path_term cfg); cbn; now rewrite <- app_assoc.
  Qed.
  Lemma write_path_field_mc s : ss_match_count (Summary.write_path_field cfg s) = ss_match_count s.
  Proof. unfold Summary.write_path_field. destruct (ss_path s); [|reflexivity]. now destruct (sc_path_term cfg). Qed.

  Lemma finish_unsquashed fin s : squashed fin = false ->
    ss_match_count (summary_finish cfg env fin s) = ss_match_count s.
  Proof.
    intro Hs. unfold summary_finish. cbn [ss_bin ss_match_count ss_stats ss_path ss_wtr].
    unfold squashed in Hs. destruct (f_bin fin); cbn [is_some andb] in Hs |- *; [rewrite Hs|].
    all: destruct (sc_kind cfg); cbn [ss_match_count];
      repeat match goal with |- context [if ?b then _ else _] => destruct b end;
      try reflexivity; unfold ss_write; cbn [ss_match_count];
      try (unfold Summary.write_path_line; destruct (ss_path _); [destruct (sc_path_term cfg)|]; reflexivity);
      try (rewrite write_path_field_mc; reflexivity).
  Qed.

  Lemma finish_count_output fin s : sc_kind cfg = KCount -> squashed fin = false ->
    w_out (ss_wtr (summary_finish cfg env fin s))
    = w_out (ss_wtr s) ++ count_output (ss_path s) (ss_match_count s).
  Proof.
    intros Hk Hs. unfold summary_finish, count_output. cbn [ss_bin ss_match_count ss_stats ss_path ss_wtr].
    unfold squashed in Hs. rewrite Hk.
    destruct (f_bin fin); cbn [is_some andb] in Hs |- *; [rewrite Hs|].
    all: destruct (negb (sc_exclude_zero cfg) || Nat.ltb 0 (ss_match_count s)); [|now rewrite app_nil_r].
    all: unfold ss_write; cbn [ss_wtr ss_match_count ss_path ss_bin ss_stats write w_out].
    all: rewrite write_path_field_out, write_path_field_mc; cbn [ss_wtr ss_path ss_match_count].
    all: now rewrite <- !app_assoc.
  Qed.

  Lemma finish_path_with_match_output fin s : sc_kind cfg = KPathWithMatch -> squashed fin = false ->
    w_out (ss_wtr (summary_finish cfg env fin s))
    = w_out (ss_wtr s) ++ (if Nat.ltb 0 (ss_match_count s) then path_line (ss_path s) else []).
  Proof.
    intros Hk Hs. unfold summary_finish. cbn [ss_bin ss_match_count ss_stats ss_path ss_wtr].
    unfold squashed in Hs. rewrite Hk.
    destruct (f_bin fin); cbn [is_some andb] in Hs |- *; [rewrite Hs|].
    all: destruct (Nat.ltb 0 (ss_match_count s)); [|now rewrite app_nil_r].
    all: now rewrite write_path_line_out.
  Qed.

  Lemma finish_path_without_match_output fin s : sc_kind cfg = KPathWithoutMatch -> squashed fin = false ->
    w_out (ss_wtr (summary_finish cfg env fin s))
    = w_out (ss_wtr s) ++ (if Nat.eqb (ss_match_count s) 0 then path_line (ss_path s) else []).
  Proof.
    intros Hk Hs. unfold summary_finish. cbn [ss_bin ss_match_count ss_stats ss_path ss_wtr].
    unfold squashed in Hs. rewrite Hk.
    destruct (f_bin fin); cbn [is_some andb] in Hs |- *; [rewrite Hs|].
    all: destruct (Nat.eqb (ss_match_count s) 0); [|now rewrite app_nil_r].
    all: now rewrite write_path_line_out.
  Qed.
End SummaryRun.

(* ------------------------------------------------------------------ standard and JSON printers *)
Section StdJson.
  Variable find_at : bytes -> nat -> option (nat * nat).
  Variable env : senv.

  Lemma record_matches_total cfg buf rs re :
    range_ok find_at env buf re ->
    exists ms, record_matches find_at cfg env buf rs re = Some ms /\
      (needs_match_granularity cfg = true ->
       exists l, successive find_at env buf rs re = Some l /\ ms = submatches_of buf rs re l).
  Proof.
    intro Hok. destruct (successive_total find_at env buf rs re Hok) as [l Hl].
    destruct (needs_match_granularity cfg) eqn:Hg.
    - exists (submatches_of buf rs re l). split; [now apply record_matches_eq|]. intros _. eauto.
    - exists []. split; [now apply record_matches_off|]. discriminate.
  Qed.

  Lemma json_record_matches_total buf rs re :
    range_ok find_at env buf re -> re <= length buf ->
    exists l, successive find_at env buf rs re = Some l /\
      json_record_matches find_at env buf rs re = Some (submatches_of buf rs re l).
  Proof.
    intros Hok Hb. destruct (successive_total find_at env buf rs re Hok) as [l Hl].
    exists l. split; [exact Hl|now apply json_record_matches_eq].
  Qed.

  (* -m N without after-context, or no -m at all: the limit test never waits for context lines *)
  Definition no_after_wait (limit : option nat) : Prop := limit = None \/ e_after env = 0.

  Section Std.
    Variable cfg : stdconfig.

    Definition dinv (s : stdsink) : Prop := st_max cfg = None \/ sd_after_rem s = 0.

    Lemma sd_should_quit_reached mc ar : st_max cfg = None \/ ar = 0 ->
      sd_should_quit cfg mc ar = reached (st_max cfg) mc.
    Proof.
      unfold sd_should_quit, reached. intros [H| ->]; [now rewrite H|].
      destruct (st_max cfg) as [L|]; [|reflexivity].
      destruct (Nat.ltb_spec mc L); destruct (Nat.leb_spec L mc); try lia; reflexivity.
    Qed.

    Lemma standard_feed_count evs k s (Hconv : e_convert env = false) (Hwait : no_after_wait (st_max cfg)) :
      Forall (ev_ok find_at env) evs -> dinv s -> reached (st_max cfg) (sd_match_count s) = false ->
      exists s' rp k', feed (standard_step find_at cfg env) evs k s = Some (s', rp, k') /\ rp <> Fail /\
        dinv s' /\
        sd_match_count s' = match st_max cfg with
                            | None => sd_match_count s + count_matched evs
                            | Some L => Nat.min L (sd_match_count s + count_matched evs)
                            end.
    Proof.
      intros Hok Hinv Hr.
      apply (feed_limit (standard_step find_at cfg env) sd_match_count (st_max cfg) dinv (ev_ok find_at env));
        [| |exact Hok|exact Hinv|exact Hr].
      - intros m s0 Hi [Hokm _] _. cbn [standard_step]. unfold standard_matched.
        destruct (record_matches_total cfg (m_buf m) (m_rs m) (m_re m) Hokm) as (ms & -> & _).
        rewrite Hconv. cbn [andb].
        assert (st_max cfg = None \/
                (if sd_more_than_limit cfg (sd_match_count s0 + 1) then sd_after_rem s0 - 1 else e_after env) = 0) as Har.
        { destruct Hi as [Hi|Hi]; [now left|]. destruct Hwait as [Hw|Hw]; [now left|right].
          destruct (sd_more_than_limit cfg (sd_match_count s0 + 1)); lia. }
        eexists. split; [rewrite (sd_should_quit_reached _ _ Har); reflexivity|].
        cbn [sd_match_count]. split; [reflexivity|]. unfold dinv. cbn [sd_after_rem]. exact Har.
      - intros e s0 He Hi Hoke Hr0. destruct e as [m|c| |off]; cbn in He; try discriminate; cbn [standard_step].
        + unfold standard_context.
          assert (exists ms, (if e_invert env then record_matches find_at cfg env (c_bytes c) 0 (length (c_bytes c))
                              else Some []) = Some ms) as [ms ->].
          { destruct (e_invert env); [|eauto].
            destruct (record_matches_total cfg (c_bytes c) 0 (length (c_bytes c)) Hoke) as (ms & -> & _). eauto. }
          rewrite Hconv. cbn [andb].
          assert (st_max cfg = None \/
                  (match c_kind c with CAfter => sd_after_rem s0 - 1 | _ => sd_after_rem s0 end) = 0) as Har.
          { destruct Hi as [Hi|Hi]; [now left|right]. destruct (c_kind c); lia. }
          eexists. rewrite (sd_should_quit_reached _ _ Har), Hr0. split; [reflexivity|].
          cbn [sd_match_count]. split; [reflexivity|]. unfold dinv. cbn [sd_after_rem]. exact Har.
        + eexists. split; [reflexivity|]. split; [reflexivity|exact Hi].
        + eexists. split; [reflexivity|]. split; [reflexivity|exact Hi].
    Qed.

    (* StandardSink::match_count after a search = number of Matched events it accepted *)
    Theorem standard_run_count path w evs fins :
      e_convert env = false -> no_after_wait (st_max cfg) ->
      Forall (ev_ok find_at env) evs ->
      exists s, standard_run find_at cfg env path w evs fins = Some (s, true) /\
        sd_match_count s = limited (st_max cfg) (count_matched evs).
    Proof.
      intros Hconv Hwait Hok. unfold standard_run, run_sink, standard_begin.
      pose proof (fun evs k s => standard_feed_count evs k s Hconv Hwait) as Hfeed. clear Hwait.
      destruct (st_max cfg) as [[|L]|] eqn:Emax.
      - eexists. split; [reflexivity|]. reflexivity.
      - destruct (Hfeed evs 0
                    (mkSD (sd_path (standard_sink cfg path w)) 0 0 None (sd_stats (standard_sink cfg path w))
                          (sd_matches (standard_sink cfg path w)) (reset_count (sd_wtr (standard_sink cfg path w))))
                    Hok)
          as (s' & rp & k' & -> & Hrp & _ & Hmc); [right; reflexivity|reflexivity|].
        cbn [sd_match_count Nat.add] in Hmc.
        eexists. split; [destruct rp; [reflexivity|reflexivity|congruence]|]. cbn [limited]. exact Hmc.
      - destruct (Hfeed evs 0
                    (mkSD (sd_path (standard_sink cfg path w)) 0 0 None (sd_stats (standard_sink cfg path w))
                          (sd_matches (standard_sink cfg path w)) (reset_count (sd_wtr (standard_sink cfg path w))))
                    Hok)
          as (s' & rp & k' & -> & Hrp & _ & Hmc); [right; reflexivity|reflexivity|].
        cbn [sd_match_count Nat.add] in Hmc.
        eexists. split; [destruct rp; [reflexivity|reflexivity|congruence]|]. cbn [limited]. exact Hmc.
    Qed.
  End Std.

  Section Js.
    Variable cfg : jconfig.

    Definition jinv (s : jsink) : Prop := j_max cfg = None \/ js_after_rem s = 0.

    Lemma js_should_quit_reached mc ar : j_max cfg = None \/ ar = 0 ->
      js_should_quit cfg mc ar = reached (j_max cfg) mc.
    Proof.
      unfold js_should_quit, reached. intros [H| ->]; [now rewrite H|].
      destruct (j_max cfg) as [L|]; [|reflexivity].
      destruct (Nat.ltb_spec mc L); destruct (Nat.leb_spec L mc); try lia; reflexivity.
    Qed.

    Lemma wbm_fields s :
      js_match_count (write_begin_message s) = js_match_count s /\
      js_after_rem (write_begin_message s) = js_after_rem s.
    Proof. unfold write_begin_message. destruct (js_begin_printed s); auto. Qed.

    Lemma json_feed_count evs k s (Hwait : no_after_wait (j_max cfg)) :
      Forall (ev_ok find_at env) evs -> jinv s -> reached (j_max cfg) (js_match_count s) = false ->
      exists s' rp k', feed (json_step find_at cfg env) evs k s = Some (s', rp, k') /\ rp <> Fail /\
        jinv s' /\
        js_match_count s' = match j_max cfg with
                            | None => js_match_count s + count_matched evs
                            | Some L => Nat.min L (js_match_count s + count_matched evs)
                            end.
    Proof.
      intros Hok Hinv Hr.
      apply (feed_limit (json_step find_at cfg env) js_match_count (j_max cfg) jinv (ev_ok find_at env));
        [| |exact Hok|exact Hinv|exact Hr].
      - intros m s0 Hi [Hokm Hb] _. cbn [json_step]. unfold json_matched.
        destruct (json_record_matches_total (m_buf m) (m_rs m) (m_re m) Hokm Hb) as (l & _ & ->).
        destruct (wbm_fields s0) as [E1 E2]. rewrite E1, E2.
        assert (j_max cfg = None \/
                (if js_more_than_limit cfg (js_match_count s0 + 1) then js_after_rem s0 - 1 else e_after env) = 0) as Har.
        { destruct Hi as [Hi|Hi]; [now left|]. destruct Hwait as [Hw|Hw]; [now left|right].
          destruct (js_more_than_limit cfg (js_match_count s0 + 1)); lia. }
        eexists. split; [rewrite (js_should_quit_reached _ _ Har); reflexivity|].
        cbn [js_match_count]. split; [reflexivity|]. unfold jinv. cbn [js_after_rem]. exact Har.
      - intros e s0 He Hi Hoke Hr0. destruct e as [m|c| |off]; cbn in He; try discriminate; cbn [json_step].
        + unfold json_context. destruct (wbm_fields s0) as [E1 E2]. rewrite E1, E2.
          assert (exists ms, (if e_invert env then json_record_matches find_at env (c_bytes c) 0 (length (c_bytes c))
                              else Some []) = Some ms) as [ms ->].
          { destruct (e_invert env); [|eauto].
            destruct (json_record_matches_total (c_bytes c) 0 (length (c_bytes c)) Hoke (le_n _)) as (l & _ & ->). eauto. }
          assert (j_max cfg = None \/
                  (match c_kind c with CAfter => js_after_rem s0 - 1 | _ => js_after_rem s0 end) = 0) as Har.
          { destruct Hi as [Hi|Hi]; [now left|right]. destruct (c_kind c); lia. }
          eexists. rewrite (js_should_quit_reached _ _ Har), Hr0. split; [reflexivity|].
          cbn [js_match_count]. split; [reflexivity|]. unfold jinv. cbn [js_after_rem]. exact Har.
        + eexists. split; [reflexivity|]. split; [reflexivity|exact Hi].
        + eexists. split; [reflexivity|]. split; [reflexivity|exact Hi].
    Qed.

    Theorem json_run_count path evs fins :
      no_after_wait (j_max cfg) ->
      Forall (ev_ok find_at env) evs ->
      exists s, json_run find_at cfg env path evs fins = Some (s, true) /\
        js_match_count s = limited (j_max cfg) (count_matched evs).
    Proof.
      intros Hwait Hok. pose proof (fun evs k s => json_feed_count evs k s Hwait) as Hfeed. clear Hwait.
      unfold json_run, run_sink, json_begin. cbn [json_sink js_path js_begin_printed js_stats js_matches js_out].
      destruct (j_max cfg) as [[|L]|] eqn:Emax.
      - eexists. split; [reflexivity|]. reflexivity.
      - set (s0 := if negb (j_always_begin_end cfg) then _ else _).
        assert (js_match_count (fst s0) = 0 /\ js_after_rem (fst s0) = 0 /\ snd s0 = Go) as (H0 & H1 & H2).
        { unfold s0. destruct (negb (j_always_begin_end cfg)); cbn; auto. }
        destruct s0 as [s1 r1]. cbn [fst snd] in *. subst r1.
        destruct (Hfeed evs 0 s1 Hok) as (s' & rp & k' & -> & Hrp & _ & Hmc);
          [right; exact H1|rewrite H0; reflexivity|].
        rewrite H0 in Hmc. cbn [Nat.add] in Hmc.
        assert (js_match_count (json_finish (fins (1 + k')) s') = js_match_count s') as Hf.
        { unfold json_finish. destruct (negb (js_begin_printed s')); reflexivity. }
        eexists. split; [destruct rp; [reflexivity|reflexivity|congruence]|]. rewrite Hf. exact Hmc.
      - set (s0 := if negb (j_always_begin_end cfg) then _ else _).
        assert (js_match_count (fst s0) = 0 /\ js_after_rem (fst s0) = 0 /\ snd s0 = Go) as (H0 & H1 & H2).
        { unfold s0. destruct (negb (j_always_begin_end cfg)); cbn; auto. }
        destruct s0 as [s1 r1]. cbn [fst snd] in *. subst r1.
        destruct (Hfeed evs 0 s1 Hok) as (s' & rp & k' & -> & Hrp & _ & Hmc);
          [right; exact H1|reflexivity|].
        rewrite H0 in Hmc. cbn [Nat.add] in Hmc.
        assert (js_match_count (json_finish (fins (1 + k')) s') = js_match_count s') as Hf.
        { unfold json_finish. destruct (negb (js_begin_printed s')); reflexivity. }
        eexists. split; [destruct rp; [reflexivity|reflexivity|congruence]|]. rewrite Hf. exact Hmc.
    Qed.
  End Js.
End StdJson.

(* ------------------------------------------------------------------ counting individual matches *)
Section CountMatches.
  Variable find_at : bytes -> nat -> option (nat * nat).
  Variable env : senv.

  Lemma count_submatches_cons e evs :
    count_submatches find_at env (e :: evs) = nsub_ev find_at env e + count_submatches find_at env evs.
  Proof. reflexivity. Qed.
  Lemma count_matched_lines_cons e evs :
    count_matched_lines env (e :: evs) = nlines_ev env e + count_matched_lines env evs.
  Proof. reflexivity. Qed.

  (* summary printer with statistics (always the case for --count-matches), no -m *)
  Lemma summary_feed_stats cfg : sc_max cfg = None ->
    forall evs k s st, ss_stats s = Some st -> Forall (ev_ok find_at env) evs ->
    exists s' st', feed (summary_step find_at cfg env) evs k s = Some (s', Go, k + length evs) /\
      ss_stats s' = Some st' /\ ss_path s' = ss_path s /\ ss_wtr s' = ss_wtr s /\
      s_matches st' = s_matches st + count_submatches find_at env evs /\
      s_matched_lines st' = s_matched_lines st + count_matched_lines env evs /\
      ss_match_count s' = ss_match_count s +
        (if e_multi env && negb (e_invert env) then count_submatches find_at env evs else count_matched evs).
  Proof.
    intro Hmax. induction evs as [|e evs IH]; intros k s st Es Hok.
    - exists s, st. cbn [feed length]. rewrite Nat.add_0_r.
      assert (count_submatches find_at env [] = 0) as E1 by reflexivity.
      assert (count_matched_lines env [] = 0) as E2 by reflexivity.
      assert (count_matched [] = 0) as E3 by reflexivity.
      rewrite E1, E2, E3. destruct (e_multi env && negb (e_invert env)); repeat split; auto; lia.
    - inversion Hok as [|? ? He Hrest]; subst. cbn [feed].
      destruct e as [m|c| |off]; cbn [summary_step].
      + unfold summary_matched. rewrite Es. rewrite (find_count_ok find_at env m He).
        unfold ss_should_quit. rewrite Hmax. cbn [negb reply_of].
        edestruct (IH (S k)) as (s' & st' & -> & Hst & Hp & Hw & H1 & H2 & H3); [|exact Hrest|]; [reflexivity|].
        exists s', st'. split; [do 2 f_equal; cbn [length]; lia|].
        rewrite count_submatches_cons, count_matched_lines_cons, count_matched_cons.
        cbn [ss_path ss_wtr ss_match_count s_matches s_matched_lines add_matched_lines add_matches nsub_ev nlines_ev is_matched] in *.
        repeat split; auto; try lia.
        destruct (e_multi env && negb (e_invert env)); lia.
      + destruct (IH (S k) s st Es Hrest) as (s' & st' & -> & H). exists s', st'.
        split; [do 2 f_equal; cbn [length]; lia|].
        rewrite count_submatches_cons, count_matched_lines_cons, count_matched_cons. exact H.
      + destruct (IH (S k) s st Es Hrest) as (s' & st' & -> & H). exists s', st'.
        split; [do 2 f_equal; cbn [length]; lia|].
        rewrite count_submatches_cons, count_matched_lines_cons, count_matched_cons. exact H.
      + destruct (IH (S k) s st Es Hrest) as (s' & st' & -> & H). exists s', st'.
        split; [do 2 f_equal; cbn [length]; lia|].
        rewrite count_submatches_cons, count_matched_lines_cons, count_matched_cons. exact H.
  Qed.

  (* number of submatches in the match messages of a JSON output *)
  Definition msg_subs (m : jmsg) : nat := match m with JMatch _ _ _ _ subs => length subs | _ => 0 end.
  Definition json_submatch_total (out : list jmsg) : nat := list_sum (map msg_subs out).

  Lemma json_submatch_total_app a b :
    json_submatch_total (a ++ b) = json_submatch_total a + json_submatch_total b.
  Proof. unfold json_submatch_total. rewrite map_app. apply list_sum_app. Qed.

  Lemma json_submatch_total_one m : json_submatch_total [m] = msg_subs m.
  Proof. unfold json_submatch_total. cbn. lia. Qed.

  Lemma wbm_total s : json_submatch_total (js_out (write_begin_message s)) = json_submatch_total (js_out s) /\
                      js_stats (write_begin_message s) = js_stats s.
  Proof.
    unfold write_begin_message. destruct (js_begin_printed s); [auto|]. cbn [js_out js_stats].
    rewrite json_submatch_total_app, json_submatch_total_one. cbn [msg_subs]. split; [lia|reflexivity].
  Qed.

  Lemma json_feed_stats cfg : j_max cfg = None ->
    forall evs k s, Forall (ev_ok find_at env) evs ->
    exists s', feed (json_step find_at cfg env) evs k s = Some (s', Go, k + length evs) /\
      s_matches (js_stats s') = s_matches (js_stats s) + count_submatches find_at env evs /\
      json_submatch_total (js_out s') = json_submatch_total (js_out s) + count_submatches find_at env evs.
  Proof.
    intro Hmax. induction evs as [|e evs IH]; intros k s Hok.
    - exists s. cbn [feed length]. rewrite Nat.add_0_r. cbn. repeat split; lia.
    - inversion Hok as [|? ? He Hrest]; subst. cbn [feed].
      destruct e as [m|c| |off]; cbn [json_step].
      + destruct He as [Hokm Hb]. unfold json_matched.
        destruct (json_record_matches_total find_at env (m_buf m) (m_rs m) (m_re m) Hokm Hb) as (l & Hl & ->).
        unfold js_should_quit. rewrite Hmax. cbn [negb reply_of].
        edestruct (IH (S k)) as (s' & -> & H1 & H2); [exact Hrest|].
        exists s'. split; [do 2 f_equal; cbn [length]; lia|].
        destruct (wbm_total s) as [T1 T2].
        cbn [js_stats js_out] in H1, H2. rewrite json_submatch_total_app in H2. rewrite T1 in H2. rewrite T2 in H1.
        rewrite count_submatches_cons. cbn [nsub_ev]. unfold nsub. rewrite Hl.
        rewrite json_submatch_total_one in H2. cbn [msg_subs] in H2. unfold submatches_new in H2. rewrite map_length in H2.
        cbn [s_matches add_matched_lines add_matches] in H1. split; lia.
      + unfold json_context.
        assert (exists ms, (if e_invert env then json_record_matches find_at env (c_bytes c) 0 (length (c_bytes c))
                            else Some []) = Some ms) as [ms ->].
        { destruct (e_invert env); [|eauto].
          destruct (json_record_matches_total find_at env (c_bytes c) 0 (length (c_bytes c)) He (le_n _)) as (l & _ & ->). eauto. }
        unfold js_should_quit. rewrite Hmax. cbn [negb reply_of].
        edestruct (IH (S k)) as (s' & -> & H1 & H2); [exact Hrest|].
        exists s'. split; [do 2 f_equal; cbn [length]; lia|].
        destruct (wbm_total s) as [T1 T2].
        cbn [js_stats js_out] in H1, H2. rewrite json_submatch_total_app in H2. rewrite T1 in H2. rewrite T2 in H1.
        rewrite count_submatches_cons. cbn [nsub_ev]. rewrite json_submatch_total_one in H2. cbn [msg_subs] in H2. split; lia.
      + destruct (IH (S k) s Hrest) as (s' & -> & H). exists s'. split; [do 2 f_equal; cbn [length]; lia|].
        rewrite count_submatches_cons. exact H.
      + destruct (IH (S k) s Hrest) as (s' & -> & H). exists s'. split; [do 2 f_equal; cbn [length]; lia|].
        rewrite count_submatches_cons. exact H.
  Qed.
End CountMatches.

(* ------------------------------------------------------------------ a matched line has a submatch *)
Section HasSubmatch.
  Variable find_at : bytes -> nat -> option (nat * nat).
  Variable env : senv.

  (* the first successive match is the one find_at reports at the range start *)
  Lemma successive_head buf rs re l s e :
    let hay := context_haystack env buf re in
    successive find_at env buf rs re = Some l -> find_at hay rs = Some (s, e) -> rs <= length hay ->
    exists l', l = (s, e) :: l'.
  Proof.
    intros hay Hl Hf Hle. unfold successive, all_matches in Hl. fold hay in Hl.
    replace (length hay + 2 - rs + 1) with (S (length hay + 2 - rs)) in Hl by lia.
    cbn [matches_from] in Hl.
    replace (Nat.ltb (length hay) rs) with false in Hl by (symmetry; apply Nat.ltb_ge; lia).
    rewrite Hf in Hl. unfold opt_nat_eqb in Hl.
    destruct (Nat.eqb s e).
    - destruct (matches_from _ _ _ _ _ _) as [l'|]; [|discriminate]. injection Hl as <-. eauto.
    - destruct (matches_from _ _ _ _ _ _) as [l'|]; [|discriminate]. injection Hl as <-. eauto.
  Qed.

  Theorem matched_line_has_submatch_proof (m : sink_match) :
    ev_ok find_at env (SMatched m) -> genuine find_at env m ->
    ~ EmptyMatchAtEndOfUnterminatedLastLine find_at env m ->
    0 < nsub find_at env m.
  Proof.
    intros [Hok _] (s & e & Hf & H1 & H2 & H3 & H4) Hn.
    destruct (successive_total find_at env (m_buf m) (m_rs m) (m_re m) Hok) as [l Hl].
    unfold nsub. rewrite Hl.
    destruct (successive_head _ _ _ _ _ _ Hl Hf H4) as [l' ->].
    unfold submatches_of. cbn [take_while]. unfold starts_before at 1. cbn [fst].
    destruct (Nat.ltb_spec s (m_re m)) as [Hlt|Hge]; [cbn; lia|].
    exfalso. apply Hn. exists s, e. auto.
  Qed.
End HasSubmatch.

(* ------------------------------------------------------------------ statistics are sums *)
Lemma stats_add_assoc a b c : stats_add (stats_add a b) c = stats_add a (stats_add b c).
Proof. destruct a, b, c. unfold stats_add. cbn. f_equal; lia. Qed.
Lemma stats_sum_cons s l : stats_sum (s :: l) = stats_add s (stats_sum l).
Proof. reflexivity. Qed.
Lemma stats_add_zero a : stats_add a (stats_sum []) = a.
Proof. destruct a. unfold stats_add, stats_sum. cbn. f_equal; lia. Qed.

Lemma stats_fold_sum (l : list stats) (acc : stats) :
  fold_left stats_add l acc = stats_add acc (stats_sum l).
Proof.
  revert acc. induction l as [|s l IH]; intro acc.
  - cbn [fold_left]. now rewrite stats_add_zero.
  - cbn [fold_left]. rewrite IH, stats_sum_cons. apply stats_add_assoc.
Qed.

(* ------------------------------------------------------------------ what each summary mode prints *)
Section SummaryOutputs.
  Variable find_at : bytes -> nat -> option (nat * nat).
  Variable cfg : sconfig.
  Variable env : senv.
  Variable path : option bytes.
  Variable w : wtr.
  Variable evs : list sevent.
  Variable fins : nat -> sfinish.
  Hypothesis LC : line_counting env.
  Hypothesis Hok : Forall (ev_ok find_at env) evs.
  Hypothesis Hp : path_present cfg path.
  Hypothesis Hsq : forall k, squashed env (fins k) = false.

  Let n := limited (sc_max cfg) (count_matched evs).

  Theorem count_run_output : sc_kind cfg = KCount ->
    exists s, summary_run find_at cfg env path w evs fins = Some (s, true) /\
      w_out (ss_wtr s) = w_out w ++ count_output cfg env (spath cfg path) n /\
      ss_has_match cfg s = Nat.ltb 0 n.
  Proof.
    intro Hk. destruct (summary_run_counting find_at cfg env path w evs fins LC) as (s' & k & -> & Hmc & Hpa & Hw & _);
      [left; now rewrite Hk|exact Hok|exact Hp|].
    eexists. split; [reflexivity|]. split.
    - rewrite (finish_count_output cfg env _ _ Hk (Hsq k)), Hw, Hpa, Hmc. reflexivity.
    - unfold ss_has_match. rewrite Hk, (finish_unsquashed cfg env _ _ (Hsq k)), Hmc. reflexivity.
  Qed.

  Theorem files_with_matches_output : sc_kind cfg = KPathWithMatch -> sc_stats cfg = false ->
    exists s, summary_run find_at cfg env path w evs fins = Some (s, true) /\
      w_out (ss_wtr s) = w_out w ++ (if Nat.ltb 0 n then path_line cfg env (spath cfg path) else []) /\
      ss_has_match cfg s = Nat.ltb 0 n.
  Proof.
    intros Hk Hs.
    destruct (summary_run_quit_early find_at cfg env path w evs fins LC) as (s' & k & -> & Hmc & Hpa & Hw & _);
      [now rewrite Hk|unfold has_stats; now rewrite Hk, Hs|exact Hok|exact Hp|].
    assert (Nat.ltb 0 (ss_match_count s') = Nat.ltb 0 n) as E.
    { rewrite Hmc. fold n. destruct n; reflexivity. }
    eexists. split; [reflexivity|]. split.
    - rewrite (finish_path_with_match_output cfg env _ _ Hk (Hsq k)), Hw, Hpa, E. reflexivity.
    - unfold ss_has_match. rewrite Hk, (finish_unsquashed cfg env _ _ (Hsq k)). exact E.
  Qed.

  Theorem files_without_match_output : sc_kind cfg = KPathWithoutMatch ->
    exists s, summary_run find_at cfg env path w evs fins = Some (s, true) /\
      w_out (ss_wtr s) = w_out w ++ (if Nat.eqb n 0 then path_line cfg env (spath cfg path) else []).
  Proof.
    intro Hk. destruct (summary_run_counting find_at cfg env path w evs fins LC) as (s' & k & -> & Hmc & Hpa & Hw & _);
      [left; now rewrite Hk|exact Hok|exact Hp|].
    eexists. split; [reflexivity|].
    rewrite (finish_path_without_match_output cfg env _ _ Hk (Hsq k)), Hw, Hpa, Hmc. reflexivity.
  Qed.

  Theorem quiet_verdict : sc_kind cfg = KQuiet ->
    exists s, summary_run find_at cfg env path w evs fins = Some (s, true) /\
      w_out (ss_wtr s) = w_out w /\ ss_has_match cfg s = Nat.ltb 0 n.
  Proof.
    intro Hk. destruct (sc_stats cfg) eqn:Hs.
    - destruct (summary_run_counting find_at cfg env path w evs fins LC) as (s' & k & -> & Hmc & Hpa & Hw & _);
        [right; unfold has_stats; now rewrite Hs|exact Hok|exact Hp|].
      eexists. split; [reflexivity|]. split.
      + unfold summary_finish. rewrite Hk. cbn [ss_bin ss_match_count ss_stats ss_path ss_wtr].
        destruct (match f_bin (fins k) with Some _ => true | None => false end && e_quit env); cbn [ss_wtr]; now rewrite Hw.
      + unfold ss_has_match. rewrite Hk, (finish_unsquashed cfg env _ _ (Hsq k)), Hmc. reflexivity.
    - destruct (summary_run_quit_early find_at cfg env path w evs fins LC) as (s' & k & -> & Hmc & Hpa & Hw & _);
        [now rewrite Hk|unfold has_stats; now rewrite Hk, Hs|exact Hok|exact Hp|].
      eexists. split; [reflexivity|]. split.
      + unfold summary_finish. rewrite Hk. cbn [ss_bin ss_match_count ss_stats ss_path ss_wtr].
        destruct (match f_bin (fins k) with Some _ => true | None => false end && e_quit env); cbn [ss_wtr]; now rewrite Hw.
      + unfold ss_has_match. rewrite Hk, (finish_unsquashed cfg env _ _ (Hsq k)), Hmc. fold n. destruct n; reflexivity.
  Qed.
End SummaryOutputs.

(* ------------------------------------------------------------------ counting matches under -m N *)
Section CountMatchesLimit.
  Variable find_at : bytes -> nat -> option (nat * nat).
  Variable env : senv.

  Definition st_matches (o : option stats) : nat := match o with Some st => s_matches st | None => 0 end.
  Definition st_lines (o : option stats) : nat := match o with Some st => s_matched_lines st | None => 0 end.

  Section Sum.
    Variable cfg : sconfig.
    Hypothesis LC : line_counting env.
    Hypothesis Hst : has_stats cfg = true.

    Lemma summary_matched_stats m s :
      sinv cfg s -> ev_ok find_at env (SMatched m) ->
      exists s', summary_matched find_at cfg env m s
                 = Some (s', reply_of (negb (limit_reached (sc_max cfg) (ss_match_count s + 1)))) /\
                 ss_match_count s' = ss_match_count s + 1 /\
                 (sinv cfg s' /\ ss_path s' = ss_path s /\ ss_wtr s' = ss_wtr s) /\
                 st_matches (ss_stats s') = st_matches (ss_stats s) + nsub find_at env m /\
                 st_lines (ss_stats s') = st_lines (ss_stats s) + line_count (e_lt env) (m_bytes m).
    Proof.
      intros Hinv Hok. unfold summary_matched. unfold line_counting in LC. rewrite LC.
      unfold sinv in Hinv. rewrite Hst in Hinv.
      destruct (ss_stats s) as [st|] eqn:Es; [|discriminate].
      rewrite (find_count_ok find_at env m Hok). eexists. split; [reflexivity|].
      cbn. unfold sinv. cbn. rewrite Hst. repeat split; lia.
    Qed.

    Lemma summary_feed_sums (q : option stats -> nat) (wt : sevent -> nat) :
      (forall m s, sinv cfg s -> ev_ok find_at env (SMatched m) ->
         forall s' r, summary_matched find_at cfg env m s = Some (s', r) -> q (ss_stats s') = q (ss_stats s) + wt (SMatched m)) ->
      (forall e, is_matched e = false -> wt e = 0) ->
      forall evs k s, Forall (ev_ok find_at env) evs -> sinv cfg s ->
        limit_reached (sc_max cfg) (ss_match_count s) = false ->
        exists s' rp k', feed (summary_step find_at cfg env) evs k s = Some (s', rp, k') /\ rp <> Fail /\
          (sinv cfg s' /\ ss_path s' = ss_path s /\ ss_wtr s' = ss_wtr s) /\
          q (ss_stats s') = q (ss_stats s) + list_sum (map wt (consumed_from (sc_max cfg) (ss_match_count s) evs)).
    Proof.
      intros Hq Hz evs k s Hok Hinv Hr.
      apply (feed_limit_sum (summary_step find_at cfg env) ss_match_count (sc_max cfg)
               (fun s' => sinv cfg s' /\ ss_path s' = ss_path s /\ ss_wtr s' = ss_wtr s) (ev_ok find_at env)
               (fun s' => q (ss_stats s')) wt); [| |exact Hok|auto|exact Hr].
      - intros m s0 (Hi & Hp & Hw) Hokm _. cbn [summary_step].
        destruct (summary_matched_stats m s0 Hi Hokm) as (s' & E & Hmc & (Hi' & Hp' & Hw') & _).
        exists s'. split; [exact E|]. split; [exact Hmc|]. split; [repeat split; congruence|].
        exact (Hq m s0 Hi Hokm s' _ E).
      - intros e s0 He (Hi & Hp & Hw) _ _. exists s0. rewrite (Hz e He).
        destruct e; cbn in He; try discriminate; cbn [summary_step]; repeat split; auto; lia.
    Qed.
  End Sum.

  (* --count-matches with any -m N, line-oriented counting: what is printed is the number of
     submatches in the consumed prefix of the stream *)
  Lemma finish_count_matches_output cfg fin s : sc_kind cfg = KCountMatches -> squashed env fin = false ->
    w_out (ss_wtr (summary_finish cfg env fin s))
    = w_out (ss_wtr s) ++
      (if negb (sc_exclude_zero cfg) || Nat.ltb 0 (ss_match_count s)
       then path_field cfg (ss_path s) ++ dec (st_matches (ss_stats s)) ++ lt_bytes (e_lt env) else []).
  Proof.
    intros Hk Hs. unfold summary_finish. cbn [ss_bin ss_match_count ss_stats ss_path ss_wtr].
    unfold squashed in Hs. rewrite Hk.
    destruct (f_bin fin); cbn [is_some andb] in Hs |- *; [rewrite Hs|].
    all: destruct (negb (sc_exclude_zero cfg) || Nat.ltb 0 (ss_match_count s)); [|now rewrite app_nil_r].
    all: unfold ss_write; cbn [ss_wtr ss_match_count ss_path ss_bin ss_stats write w_out].
    all: rewrite write_path_field_out; cbn [ss_wtr ss_path ss_match_count ss_stats].
    all: assert (forall o, match (match Summary.write_path_field cfg o with x => ss_stats x end) with
                           | Some st => s_matches st | None => 0 end = st_matches (ss_stats o)) as E
           by (intro o; unfold Summary.write_path_field; destruct (ss_path o); [destruct (sc_path_term cfg)|]; reflexivity).
    all: rewrite E; cbn [ss_stats]; destruct (ss_stats s); cbn [st_matches];
         repeat match goal with |- context [if ?b then _ else _] => destruct b end;
         cbn; now rewrite <- !app_assoc.
  Qed.

  Theorem count_matches_run_output_proof cfg path w evs fins :
    line_counting env -> Forall (ev_ok find_at env) evs -> path_present cfg path ->
    (forall k, squashed env (fins k) = false) -> sc_kind cfg = KCountMatches ->
    exists s, summary_run find_at cfg env path w evs fins = Some (s, true) /\
      w_out (ss_wtr s) = w_out w ++
        (if negb (sc_exclude_zero cfg) || Nat.ltb 0 (limited (sc_max cfg) (count_matched evs))
         then path_field cfg (spath cfg path)
              ++ dec (count_submatches find_at env (consumed (sc_max cfg) evs)) ++ lt_bytes (e_lt env)
         else []).
  Proof.
    intros LC Hok Hp Hsq Hk.
    assert (has_stats cfg = true) as Hst by (unfold has_stats; rewrite Hk; apply orb_true_r).
    unfold summary_run, run_sink. rewrite (summary_begin_go cfg path w Hp).
    pose proof (summary_begin_inv cfg _ (summary_sink_inv cfg path w)) as Hinv.
    rewrite (summary_begin_go cfg path w Hp) in Hinv. cbn [fst] in Hinv.
    assert (st_matches (ss_stats (summary_sink cfg path w)) = 0) as Hz0.
    { unfold summary_sink. cbn [ss_stats]. unfold has_stats in Hst. rewrite Hst. reflexivity. }
    assert (forall m s0, sinv cfg s0 -> ev_ok find_at env (SMatched m) -> forall s2 r,
              summary_matched find_at cfg env m s0 = Some (s2, r) ->
              st_matches (ss_stats s2) = st_matches (ss_stats s0) + nsub_ev find_at env (SMatched m)) as HQ.
    { intros m s0 Hi0 Hokm s2 r E2. destruct (summary_matched_stats cfg LC Hst m s0 Hi0 Hokm) as (s3 & E3 & _ & _ & Hq3 & _).
      rewrite E3 in E2. inversion E2; subst. exact Hq3. }
    assert (forall e, is_matched e = false -> nsub_ev find_at env e = 0) as HZ
      by (intros e He; destruct e; cbn in He; try discriminate; reflexivity).
    set (s0 := mkSS (spath cfg path) 0 None (ss_stats (summary_sink cfg path w)) (reset_count w)) in *.
    destruct (sc_max cfg) as [[|L]|] eqn:Emax.
    - eexists. split; [reflexivity|].
      rewrite (finish_count_matches_output cfg _ _ Hk (Hsq 0)). unfold s0.
      cbn [ss_wtr ss_match_count ss_path ss_stats w_out reset_count].
      rewrite Hz0. cbn [limited consumed Nat.min]. reflexivity.
    - destruct (summary_feed_counting find_at cfg env evs 0 s0 LC (or_intror Hst) Hok Hinv)
        as (s1 & rp1 & k1 & E1 & Hrp1 & (Hi1 & Hpa & Hw) & Hmc); [rewrite Emax; reflexivity|].
      destruct (summary_feed_sums cfg LC Hst st_matches (nsub_ev find_at env) HQ HZ evs 0 s0 Hok Hinv)
        as (s' & rp & k' & E & _ & _ & Hq); [rewrite Emax; reflexivity|].
      rewrite E1 in E. inversion E; subst s' rp k'. clear E.
      rewrite E1. rewrite Emax in Hmc, Hq.
      eexists. split; [destruct rp1; [reflexivity|reflexivity|congruence]|].
      rewrite (finish_count_matches_output cfg _ _ Hk (Hsq _)), Hw, Hpa, Hmc, Hq. unfold s0.
      cbn [ss_wtr ss_path ss_stats ss_match_count w_out reset_count]. rewrite Hz0. cbn [Nat.add consumed limited]. reflexivity.
    - destruct (summary_feed_counting find_at cfg env evs 0 s0 LC (or_intror Hst) Hok Hinv)
        as (s1 & rp1 & k1 & E1 & Hrp1 & (Hi1 & Hpa & Hw) & Hmc); [rewrite Emax; reflexivity|].
      destruct (summary_feed_sums cfg LC Hst st_matches (nsub_ev find_at env) HQ HZ evs 0 s0 Hok Hinv)
        as (s' & rp & k' & E & _ & _ & Hq); [rewrite Emax; reflexivity|].
      rewrite E1 in E. inversion E; subst s' rp k'. clear E.
      rewrite E1. rewrite Emax in Hmc, Hq.
      eexists. split; [destruct rp1; [reflexivity|reflexivity|congruence]|].
      rewrite (finish_count_matches_output cfg _ _ Hk (Hsq _)), Hw, Hpa, Hmc, Hq. unfold s0.
      cbn [ss_wtr ss_path ss_stats ss_match_count w_out reset_count]. rewrite Hz0. cbn [Nat.add consumed limited]. reflexivity.
  Qed.
End CountMatchesLimit.

Section JsonLimit.
  Variable find_at : bytes -> nat -> option (nat * nat).
  Variable env : senv.
  Variable cfg : jconfig.

  Lemma json_matched_sums (Hwait : no_after_wait env (j_max cfg)) m s : jinv cfg s -> ev_ok find_at env (SMatched m) ->
    exists s', json_matched find_at cfg env m s
               = Some (s', reply_of (negb (limit_reached (j_max cfg) (js_match_count s + 1)))) /\
      js_match_count s' = js_match_count s + 1 /\ jinv cfg s' /\
      s_matches (js_stats s') = s_matches (js_stats s) + nsub find_at env m /\
      json_submatch_total (js_out s') = json_submatch_total (js_out s) + nsub find_at env m.
  Proof.
    intros Hi [Hokm Hb]. unfold json_matched.
    destruct (json_record_matches_total find_at env (m_buf m) (m_rs m) (m_re m) Hokm Hb) as (l & Hl & ->).
    destruct (wbm_fields s) as [E1 E2]. rewrite E1, E2.
    destruct (wbm_total s) as [T1 T2].
    assert (j_max cfg = None \/
            (if js_more_than_limit cfg (js_match_count s + 1) then js_after_rem s - 1 else e_after env) = 0) as Har.
    { destruct Hi as [Hi|Hi]; [now left|]. destruct Hwait as [Hw|Hw]; [now left|right].
      destruct (js_more_than_limit cfg (js_match_count s + 1)); lia. }
    eexists. split; [rewrite (js_should_quit_reached cfg _ _ Har); reflexivity|].
    cbn [js_match_count js_stats js_out]. split; [reflexivity|]. split; [unfold jinv; cbn [js_after_rem]; exact Har|].
    rewrite json_submatch_total_app, json_submatch_total_one, T1, T2. cbn [msg_subs s_matches add_matched_lines add_matches].
    unfold submatches_new. rewrite map_length. unfold nsub. rewrite Hl. split; lia.
  Qed.

  Lemma json_other_step e s : is_matched e = false -> jinv cfg s -> ev_ok find_at env e ->
    limit_reached (j_max cfg) (js_match_count s) = false ->
    exists s', json_step find_at cfg env e s = Some (s', Go) /\ js_match_count s' = js_match_count s /\ jinv cfg s' /\
      s_matches (js_stats s') = s_matches (js_stats s) /\
      json_submatch_total (js_out s') = json_submatch_total (js_out s).
  Proof.
    intros He Hi Hoke Hr0. destruct e as [m|c| |off]; cbn in He; try discriminate; cbn [json_step].
    - unfold json_context. destruct (wbm_fields s) as [E1 E2]. rewrite E1, E2. destruct (wbm_total s) as [T1 T2].
      assert (exists ms, (if e_invert env then json_record_matches find_at env (c_bytes c) 0 (length (c_bytes c))
                          else Some []) = Some ms) as [ms ->].
      { destruct (e_invert env); [|eauto].
        destruct (json_record_matches_total find_at env (c_bytes c) 0 (length (c_bytes c)) Hoke (le_n _)) as (l & _ & ->). eauto. }
      assert (j_max cfg = None \/
              (match c_kind c with CAfter => js_after_rem s - 1 | _ => js_after_rem s end) = 0) as Har.
      { destruct Hi as [Hi|Hi]; [now left|right]. destruct (c_kind c); lia. }
      eexists. rewrite (js_should_quit_reached cfg _ _ Har). unfold reached. fold (limit_reached (j_max cfg) (js_match_count s)).
      rewrite Hr0. split; [reflexivity|]. cbn [js_match_count js_stats js_out].
      split; [reflexivity|]. split; [unfold jinv; cbn [js_after_rem]; exact Har|].
      rewrite json_submatch_total_app, json_submatch_total_one, T1, T2. cbn [msg_subs]. split; lia.
    - exists s. auto.
    - exists s. auto.
  Qed.

  Theorem json_run_submatches_proof path evs fins :
    no_after_wait env (j_max cfg) -> Forall (ev_ok find_at env) evs ->
    exists s, json_run find_at cfg env path evs fins = Some (s, true) /\
      s_matches (js_stats s) = count_submatches find_at env (consumed (j_max cfg) evs) /\
      json_submatch_total (js_out s) = count_submatches find_at env (consumed (j_max cfg) evs).
  Proof.
    intros Hwait Hok. unfold json_run, run_sink, json_begin.
    cbn [json_sink js_path js_begin_printed js_stats js_matches js_out].
    pose proof (json_matched_sums Hwait) as JM. pose proof json_other_step as JO. clear Hwait.
    pose proof (fun q Hm Ho s => feed_limit_sum (json_step find_at cfg env) js_match_count (j_max cfg) (jinv cfg)
                      (ev_ok find_at env) q (nsub_ev find_at env) Hm Ho evs 0 s Hok) as F.
    assert (forall fin s0, s_matches (js_stats (json_finish fin s0)) = s_matches (js_stats s0) /\
                           json_submatch_total (js_out (json_finish fin s0)) = json_submatch_total (js_out s0)) as Hfin.
    { intros fin s0. unfold json_finish. destruct (negb (js_begin_printed s0)); cbn [js_stats js_out].
      - destruct (Nat.ltb 0 (js_match_count s0)); cbn; split; lia.
      - rewrite json_submatch_total_app, json_submatch_total_one. cbn [msg_subs].
        destruct (Nat.ltb 0 (js_match_count s0)); cbn; split; lia. }
    destruct (j_max cfg) as [[|L]|] eqn:Emax.
    - eexists. split; [reflexivity|]. destruct (Hfin (fins 0) (mkJS path 0 0 None false stats_new [] [])) as [-> ->].
      cbn. auto.
    - set (s0 := if negb (j_always_begin_end cfg) then _ else _).
      assert (js_match_count (fst s0) = 0 /\ js_after_rem (fst s0) = 0 /\ snd s0 = Go /\
              s_matches (js_stats (fst s0)) = 0 /\ json_submatch_total (js_out (fst s0)) = 0) as (H0 & H1 & H2 & H3 & H4).
      { unfold s0. destruct (negb (j_always_begin_end cfg)); cbn; auto. }
      destruct s0 as [s1 r1]. cbn [fst snd] in *. subst r1.
      destruct (F (fun s => s_matches (js_stats s))) with (s := s1) as (sa & rpa & ka & Ea & Hrpa & _ & Hqa).
      { intros m s Hi Hokm _. cbn [json_step].
        destruct (JM m s Hi Hokm) as (s' & E & A & B & C & D). exists s'. auto. }
      { intros e s He Hi Hoke Hr.
        destruct (JO e s He Hi Hoke Hr) as (s' & E & A & B & C & D). exists s'.
        replace (nsub_ev find_at env e) with 0 by (destruct e; cbn in He; try discriminate; reflexivity).
        repeat split; auto; lia. }
      { right. exact H1. } { rewrite H0. reflexivity. }
      destruct (F (fun s => json_submatch_total (js_out s))) with (s := s1) as (sb & rpb & kb & Eb & _ & _ & Hqb).
      { intros m s Hi Hokm _. cbn [json_step].
        destruct (JM m s Hi Hokm) as (s' & E & A & B & C & D). exists s'. auto. }
      { intros e s He Hi Hoke Hr.
        destruct (JO e s He Hi Hoke Hr) as (s' & E & A & B & C & D). exists s'.
        replace (nsub_ev find_at env e) with 0 by (destruct e; cbn in He; try discriminate; reflexivity).
        repeat split; auto; lia. }
      { right. exact H1. } { rewrite H0. reflexivity. }
      rewrite Ea in Eb. inversion Eb; subst sb rpb kb. rewrite Ea.
      eexists. split; [destruct rpa; [reflexivity|reflexivity|congruence]|].
      destruct (Hfin (fins (1 + ka)) sa) as [-> ->]. rewrite Hqa, Hqb, H0, H3, H4. cbn [consumed Nat.add]. auto.
    - set (s0 := if negb (j_always_begin_end cfg) then _ else _).
      assert (js_match_count (fst s0) = 0 /\ js_after_rem (fst s0) = 0 /\ snd s0 = Go /\
              s_matches (js_stats (fst s0)) = 0 /\ json_submatch_total (js_out (fst s0)) = 0) as (H0 & H1 & H2 & H3 & H4).
      { unfold s0. destruct (negb (j_always_begin_end cfg)); cbn; auto. }
      destruct s0 as [s1 r1]. cbn [fst snd] in *. subst r1.
      destruct (F (fun s => s_matches (js_stats s))) with (s := s1) as (sa & rpa & ka & Ea & Hrpa & _ & Hqa).
      { intros m s Hi Hokm _. cbn [json_step].
        destruct (JM m s Hi Hokm) as (s' & E & A & B & C & D). exists s'. auto. }
      { intros e s He Hi Hoke Hr.
        destruct (JO e s He Hi Hoke Hr) as (s' & E & A & B & C & D). exists s'.
        replace (nsub_ev find_at env e) with 0 by (destruct e; cbn in He; try discriminate; reflexivity).
        repeat split; auto; lia. }
      { right. exact H1. } { reflexivity. }
      destruct (F (fun s => json_submatch_total (js_out s))) with (s := s1) as (sb & rpb & kb & Eb & _ & _ & Hqb).
      { intros m s Hi Hokm _. cbn [json_step].
        destruct (JM m s Hi Hokm) as (s' & E & A & B & C & D). exists s'. auto. }
      { intros e s He Hi Hoke Hr.
        destruct (JO e s He Hi Hoke Hr) as (s' & E & A & B & C & D). exists s'.
        replace (nsub_ev find_at env e) with 0 by (destruct e; cbn in He; try discriminate; reflexivity).
        repeat split; auto; lia. }
      { right. exact H1. } { reflexivity. }
      rewrite Ea in Eb. inversion Eb; subst sb rpb kb. rewrite Ea.
      eexists. split; [destruct rpa; [reflexivity|reflexivity|congruence]|].
      destruct (Hfin (fins (1 + ka)) sa) as [-> ->]. rewrite Hqa, Hqb, H0, H3, H4. cbn [consumed Nat.add]. auto.
  Qed.
End JsonLimit.
