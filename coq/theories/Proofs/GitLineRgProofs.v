(* Proofs/GitLineRgProofs.v — ripgrep's add_line on the text of a grammar line (Spec/GitLineSyntax.v) *)
From RG Require Import Base.Bytes Base.BytesFacts Model.Glob Model.GlobSet Model.Gitignore Spec.GlobSyntax Spec.GitSem
  Spec.GitLineSyntax Proofs.GlobSemProofs Proofs.GlobPathProofs Proofs.GlobParseProofs Proofs.GlobRenderProofs.

Lemma list_len_ind {A} (P : list A -> Prop) :
  (forall l, (forall l', length l' < length l -> P l') -> P l) -> forall l, P l.
Proof.
  intros H l. remember (length l) as n eqn:E. revert l E.
  induction n as [n IH] using lt_wf_ind. intros l E. apply H. intros l' Hl. apply (IH (length l')); [lia|reflexivity].
Qed.

(* text in which every backslash quotes a following byte and no space is unquoted *)
Fixpoint esc_clean (s : bytes) : bool :=
  match s with
  | [] => true
  | b :: r =>
    if (b =? 92)%N then match r with [] => false | _ :: r' => esc_clean r' end
    else if (b =? 32)%N then false else esc_clean r
  end.

Lemma esc_clean_app a : forall b, esc_clean a = true -> esc_clean (a ++ b) = esc_clean b.
Proof.
  induction a as [a IH] using list_len_ind.
  intros b H. destruct a as [|x r]; [reflexivity|]. cbn [app esc_clean] in *.
  destruct (x =? 92)%N.
  - destruct r as [|y r']; [discriminate|]. cbn [app]. apply IH; [cbn; lia|exact H].
  - destruct (x =? 32)%N; [discriminate|]. apply IH; [cbn; lia|exact H].
Qed.

Lemma tts_spaces n : forall i ls, tts_loop (repeat 32%N n) i (Some ls) = Some ls.
Proof. induction n as [|n IH]; intros i ls; [reflexivity|]. cbn [repeat tts_loop]. change ((32 =? 32)%N) with true. cbv iota. apply IH. Qed.

Lemma tts_clean T : forall n i, esc_clean T = true ->
  tts_loop (T ++ repeat 32%N n) i None = match n with 0 => None | S _ => Some (i + length T) end.
Proof.
  induction T as [T IH] using list_len_ind.
  intros n i H. destruct T as [|x r].
  - cbn [app length]. rewrite Nat.add_0_r. destruct n as [|n]; [reflexivity|].
    cbn [repeat tts_loop]. change ((32 =? 32)%N) with true. cbv iota. apply tts_spaces.
  - cbn [app esc_clean tts_loop length] in *. destruct (x =? 92)%N eqn:E92.
    + assert (x =? 32 = false)%N as -> by (apply N.eqb_eq in E92; subst; reflexivity).
      destruct r as [|y r']; [discriminate|]. cbn [app length].
      rewrite (IH r') by (cbn; lia || exact H). destruct n; [reflexivity|]. f_equal. lia.
    + destruct (x =? 32)%N; [discriminate|]. rewrite (IH r) by (cbn; lia || exact H).
      destruct n; [reflexivity|]. f_equal. lia.
Qed.

Lemma trim_clean T n : esc_clean T = true -> trim_trailing_spaces (T ++ repeat 32%N n) = T.
Proof.
  intro H. unfold trim_trailing_spaces. rewrite (tts_clean T n 0 H). destruct n; [now rewrite app_nil_r|].
  cbn [Nat.add]. rewrite firstn_app, Nat.sub_diag, firstn_all. cbn. apply app_nil_r.
Qed.

Ltac split_orbs :=
  repeat match goal with
         | H : negb _ = true |- _ => apply negb_true_iff in H
         | H : (_ || _) = false |- _ => apply orb_false_iff in H; destruct H
         | H : (_ && _) = true |- _ => apply andb_true_iff in H; destruct H
         end.
Ltac use_eqbs :=
  repeat match goal with
         | H : (?x =? ?y)%N = false |- context [(?x =? ?y)%N] => rewrite H
         | H : (?x =? ?y)%N = false |- context [(?y =? ?x)%N] => rewrite (N.eqb_sym y x), H
         end.

(* ---- byte facts about renderings ---- *)
Definition avoid (bad : list N) (s : bytes) : bool := forallb (fun b => negb (existsb (N.eqb b) bad)) s.

Lemma avoid_app bad a b : avoid bad (a ++ b) = avoid bad a && avoid bad b.
Proof. apply forallb_app. Qed.

Lemma avoid_clean s : avoid [92; 32]%N s = true -> esc_clean s = true.
Proof.
  induction s as [|b r IH]; [reflexivity|]. cbn [avoid forallb existsb]. intro H. apply andb_true_iff in H as [H1 H2].
  apply negb_true_iff in H1. apply orb_false_iff in H1 as [E1 H1]. apply orb_false_iff in H1 as [E2 _].
  cbn [esc_clean]. rewrite E1, E2. now apply IH.
Qed.

Lemma avoid_has c s : avoid [c] s = true -> has c s = false.
Proof.
  induction s as [|b r IH]; [reflexivity|]. cbn [avoid forallb existsb]. intro H. apply andb_true_iff in H as [H1 H2].
  apply negb_true_iff in H1. rewrite orb_false_r in H1. rewrite has_cons, N.eqb_sym, H1. now apply IH.
Qed.

Lemma avoid_weaken bad bad' s : (forall b, existsb (N.eqb b) bad' = true -> existsb (N.eqb b) bad = true) ->
  avoid bad s = true -> avoid bad' s = true.
Proof.
  intros Hw H. unfold avoid in *. rewrite forallb_forall in *. intros b Hb. specialize (H b Hb).
  apply negb_true_iff in H. apply negb_true_iff. destruct (existsb (N.eqb b) bad') eqn:E; [|reflexivity].
  apply Hw in E. congruence.
Qed.

Lemma class_safe_avoid c : class_safe c = true -> avoid [92; 32; 47]%N [c] = true.
Proof.
  unfold class_safe. intro H. split_orbs. cbn. use_eqbs. reflexivity.
Qed.

Lemma members_avoid ms : forallb member_safe ms = true -> avoid [92; 32; 47]%N (flat_map render_member ms) = true.
Proof.
  induction ms as [|[lo hi] ms IH]; [reflexivity|]. cbn [forallb flat_map]. intro H. apply andb_true_iff in H as [Hm H].
  unfold member_safe in Hm. cbn [fst snd] in Hm. apply andb_true_iff in Hm as [Hm _]. apply andb_true_iff in Hm as [Hlo Hhi].
  rewrite avoid_app, (IH H), andb_true_r. unfold render_member. cbn [fst snd].
  apply class_safe_avoid in Hlo, Hhi. destruct (lo =? hi)%N; [exact Hlo|].
  change [lo; 45%N; hi] with ([lo] ++ [45%N] ++ [hi]). now rewrite !avoid_app, Hlo, Hhi.
Qed.

Lemma item_avoid i : item_lok i = true -> esc_clean (render_item i) = true /\ has 47 (render_item i) = false.
Proof.
  destruct i as [c|c| | |ms]; cbn [item_lok render_item]; intro H.
  - unfold plain_safe, plain_ok in H. split_orbs. cbn [esc_clean has existsb]. use_eqbs. auto.
  - split_orbs. cbn [esc_clean has existsb]. use_eqbs. auto.
  - auto.
  - auto.
  - apply andb_true_iff in H as [H _]. apply andb_true_iff in H as [H _]. apply members_avoid in H.
    assert (Ha : avoid [92; 32; 47]%N (91%N :: flat_map render_member ms ++ [93%N]) = true).
    { change (91%N :: flat_map render_member ms ++ [93%N]) with ([91%N] ++ flat_map render_member ms ++ [93%N]).
      now rewrite !avoid_app, H. }
    split.
    + apply avoid_clean. eapply avoid_weaken; [|exact Ha]. intros b Hb. cbn in *.
      destruct (b =? 92)%N; [reflexivity|]. destruct (b =? 32)%N; [reflexivity|discriminate].
    + apply avoid_has. eapply avoid_weaken; [|exact Ha]. intros b Hb. cbn in *.
      destruct (b =? 47)%N; [now rewrite !orb_true_r|discriminate].
Qed.

Lemma comp_avoid its : forallb item_lok its = true ->
  esc_clean (render_comp its) = true /\ has 47 (render_comp its) = false.
Proof.
  induction its as [|i its IH]; [auto|]. cbn [forallb render_comp flat_map]. intro H. apply andb_true_iff in H as [Hi H].
  destruct (item_avoid i Hi) as [C1 S1]. destruct (IH H) as [C2 S2]. fold (render_comp its).
  rewrite (esc_clean_app _ _ C1), has_app, S1, S2. auto.
Qed.

Lemma piece_avoid p : piece_lok p = true ->
  esc_clean (render_piece p) = true /\ has 47 (render_piece p) = false.
Proof. destruct p as [its|]; [apply comp_avoid|auto]. Qed.

Lemma render_after_clean r : forallb piece_lok r = true -> esc_clean (render_after r) = true.
Proof.
  induction r as [|p r IH]; [reflexivity|]. cbn [forallb render_after flat_map]. intro H. apply andb_true_iff in H as [Hp H].
  fold (render_after r). destruct (piece_avoid p Hp) as [C _].
  cbn [app esc_clean]. change ((47 =? 92)%N) with false. change ((47 =? 32)%N) with false. cbv iota.
  rewrite (esc_clean_app _ _ C). now apply IH.
Qed.

Lemma glob_clean ps : forallb piece_lok ps = true -> esc_clean (render_glob ps) = true.
Proof.
  destruct ps as [|p r]; [reflexivity|]. cbn [forallb]. intro H. apply andb_true_iff in H as [Hp H].
  rewrite render_glob_cons. destruct (piece_avoid p Hp) as [C _]. rewrite (esc_clean_app _ _ C). now apply render_after_clean.
Qed.

Lemma glob_has_slash ps : forallb piece_lok ps = true ->
  has 47 (render_glob ps) = match ps with _ :: _ :: _ => true | _ => false end.
Proof.
  destruct ps as [|p r]; [reflexivity|]. cbn [forallb]. intro H. apply andb_true_iff in H as [Hp H].
  rewrite render_glob_cons, has_app. destruct (piece_avoid p Hp) as [_ ->]. destruct r; reflexivity.
Qed.

(* ---- first and last byte of a rendered pattern ---- *)
Lemma glob_ok_parts ps : glob_ok ps = true ->
  forallb piece_ok ps = true /\ no_adjacent_dstar_p ps = true /\ ps <> [].
Proof.
  unfold glob_ok. intro H. apply andb_true_iff in H as [H H3]. apply andb_true_iff in H as [H1 H2].
  repeat split; try assumption. now destruct ps.
Qed.

Lemma glob_first ps :
  glob_ok ps = true -> forallb piece_lok ps = true -> first_item_ok ps = true ->
  exists b rest, render_glob ps = b :: rest /\ (b =? 35)%N = false /\ (b =? 33)%N = false /\ (b =? 47)%N = false /\
                 (b = 92%N -> exists c rest', rest = c :: rest' /\ (c =? 33)%N = false /\ (c =? 35)%N = false).
Proof.
  intros Hg Hl Hf. apply glob_ok_parts in Hg as (Hok & _ & Hne). destruct ps as [|p r]; [congruence|].
  rewrite render_glob_cons. cbn [forallb] in Hok, Hl. apply andb_true_iff in Hok as [Hp _]. apply andb_true_iff in Hl as [Hlp _].
  destruct p as [its|]; [|cbn; eexists; eexists; repeat split; try reflexivity; discriminate].
  destruct its as [|i its]; [cbn in Hp; discriminate|].
  cbn [piece_lok forallb] in Hlp. apply andb_true_iff in Hlp as [Hi _].
  cbn [render_piece render_comp flat_map]. rewrite <- !app_assoc.
  destruct i as [c|c| | |ms]; cbn [render_item app item_lok] in *.
  - unfold plain_safe, plain_ok in Hi. split_orbs. eexists; eexists; repeat split; try reflexivity; try assumption.
    intros ->. discriminate.
  - cbn [first_item_ok] in Hf. split_orbs. eexists; eexists; repeat split; try reflexivity.
    intros _. eexists; eexists; repeat split; assumption.
  - eexists; eexists; repeat split; try reflexivity; discriminate.
  - eexists; eexists; repeat split; try reflexivity; discriminate.
  - eexists; eexists; repeat split; try reflexivity; discriminate.
Qed.

Lemma last_is_app b a t : t <> [] -> last_is b (a ++ t) = last_is b t.
Proof.
  intro H. unfold last_is. rewrite rev_app_distr. destruct (rev t) eqn:E; [|reflexivity].
  exfalso. apply H. rewrite <- (rev_involutive t), E. reflexivity.
Qed.

Lemma render_glob_snoc init q :
  render_glob (init ++ [q]) = match init with [] => [] | _ => render_glob init ++ [47%N] end ++ render_piece q.
Proof.
  destruct init as [|p r]; [reflexivity|].
  cbn [app]. rewrite !render_glob_cons.
  assert (E : render_after (r ++ [q]) = render_after r ++ 47%N :: render_piece q).
  { unfold render_after. rewrite flat_map_app. cbn. now rewrite app_nil_r. }
  rewrite E, <- !app_assoc. reflexivity.
Qed.

Lemma item_last_ok i : item_lok i = true ->
  render_item i <> [] /\ last_is 47 (render_item i) = false /\ last_is 92 (render_item i) = false.
Proof.
  destruct i as [c|c| | |ms]; cbn [item_lok render_item]; intro H.
  - unfold plain_safe, plain_ok in H. split_orbs. repeat split; [discriminate| |]; cbn; assumption.
  - split_orbs. repeat split; [discriminate| |]; cbn; assumption.
  - repeat split; discriminate || reflexivity.
  - repeat split; discriminate || reflexivity.
  - split; [discriminate|].
    change (91%N :: flat_map render_member ms ++ [93%N]) with ((91%N :: flat_map render_member ms) ++ [93%N]).
    rewrite !last_is_app by discriminate. split; reflexivity.
Qed.

Lemma piece_last_ok q : piece_ok q = true -> piece_lok q = true ->
  render_piece q <> [] /\ last_is 47 (render_piece q) = false /\ last_is 92 (render_piece q) = false.
Proof.
  destruct q as [its|]; [|repeat split; discriminate || reflexivity].
  cbn [piece_ok piece_lok render_piece]. intros Hok Hl. apply andb_true_iff in Hok as [_ Hne].
  destruct its as [|i0 its0]; [discriminate|]. destruct (exists_last (l := i0 :: its0)) as (its' & j & E); [discriminate|].
  rewrite E in *. unfold render_comp. rewrite flat_map_app. cbn [flat_map]. rewrite app_nil_r.
  rewrite forallb_app in Hl. apply andb_true_iff in Hl as [_ Hj]. cbn [forallb] in Hj. rewrite andb_true_r in Hj.
  destruct (item_last_ok j Hj) as (N1 & L1 & L2). rewrite !last_is_app by assumption.
  repeat split; try assumption. intro F. apply app_eq_nil in F as [_ F]. congruence.
Qed.

Lemma glob_last ps : glob_ok ps = true -> forallb piece_lok ps = true ->
  last_is 47 (render_glob ps) = false /\ last_is 92 (render_glob ps) = false.
Proof.
  intros Hg Hl. apply glob_ok_parts in Hg as (Hok & _ & Hne).
  destruct (exists_last Hne) as (init & q & ->). rewrite render_glob_snoc.
  rewrite forallb_app in Hok, Hl. apply andb_true_iff in Hok as [_ Hq]. apply andb_true_iff in Hl as [_ Hlq].
  cbn [forallb] in Hq, Hlq. rewrite andb_true_r in Hq, Hlq.
  destruct (piece_last_ok q Hq Hlq) as (N1 & L1 & L2). now rewrite !last_is_app by assumption.
Qed.

(* ---- add_line in stages ---- *)
Definition stage1 (line : bytes) : bool * bool * bytes :=
  if is_prefix_of [92; 33]%N line || is_prefix_of [92; 35]%N line then
    let l := skipn 1 line in (false, is_prefix_of [47%N] l, l)
  else
    let '(w, l) := if is_prefix_of [33%N] line then (true, skipn 1 line) else (false, line) in
    if is_prefix_of [47%N] l then (w, true, skipn 1 l) else (w, false, l).
Definition stage2 (line : bytes) : bool * bytes :=
  if last_is 47 line then
    let l := removelast line in
    (true, if Nat.odd (trailing_backslashes l) then removelast l else l)
  else (false, line).
Definition stage3 (is_absolute : bool) (line : bytes) : bytes :=
  let actual :=
    if negb is_absolute && negb (has_byte 47 line) then
      if has_doublestar_prefix line then line else [42; 42; 47]%N ++ line
    else line in
  if is_suffix_of [47; 42; 42]%N actual then actual ++ [47; 42]%N else actual.

Lemma add_line_stages ci line0 :
  add_line ci line0 =
  if is_prefix_of [35%N] line0 then LSkip else
  let line := trim_trailing_spaces line0 in
  match line with
  | [] => LSkip
  | _ =>
    let '(w, a, l1) := stage1 line in
    match l1 with
    | [] => LSkip
    | _ =>
      let '(d, l2) := stage2 l1 in
      let actual := stage3 a l2 in
      let o := mk_gopts ci true true false in
      match build o actual with
      | Some (Ok ts) => LGlob (mk_iglob w d actual (mk_glob o ts))
      | Some (Err e) => LError e
      | None => LError Panic
      end
    end
  end.
Proof.
  unfold add_line, stage1, stage2, stage3. destruct (is_prefix_of [35%N] line0); [reflexivity|].
  destruct (trim_trailing_spaces line0) as [|b0 l0]; [reflexivity|].
  destruct (is_prefix_of [92; 33]%N (b0 :: l0) || is_prefix_of [92; 35]%N (b0 :: l0)).
  - destruct (skipn 1 (b0 :: l0)); [reflexivity|]. destruct (last_is 47 (n :: l)); reflexivity.
  - destruct (is_prefix_of [33%N] (b0 :: l0)).
    + destruct (is_prefix_of [47%N] (skipn 1 (b0 :: l0))).
      * destruct (skipn 1 (skipn 1 (b0 :: l0))); [reflexivity|]. destruct (last_is 47 (n :: l)); reflexivity.
      * destruct (skipn 1 (b0 :: l0)); [reflexivity|]. destruct (last_is 47 (n :: l)); reflexivity.
    + destruct (is_prefix_of [47%N] (b0 :: l0)).
      * destruct (skipn 1 (b0 :: l0)); [reflexivity|]. destruct (last_is 47 (n :: l)); reflexivity.
      * destruct (last_is 47 (b0 :: l0)); reflexivity.
Qed.

Section Stages.
Variable ps : list gpiece.
Hypothesis Hg : glob_ok ps = true.
Hypothesis Hl : forallb piece_lok ps = true.
Hypothesis Hf : first_item_ok ps = true.
Let B := render_glob ps.

Lemma stage1_render (neg lead : bool) (X : bytes) :
  stage1 ((if neg then [33%N] else []) ++ (if lead then [47%N] else []) ++ B ++ X) = (neg, lead, B ++ X).
Proof.
  destruct (glob_first ps Hg Hl Hf) as (b & rest & EB & E35 & E33 & E47 & E92). fold B in EB.
  unfold stage1. rewrite EB.
  assert (Hsym : (47 =? b)%N = false /\ (33 =? b)%N = false) by (rewrite (N.eqb_sym 47 b), (N.eqb_sym 33 b); auto).
  destruct Hsym as [S47 S33].
  destruct (92 =? b)%N eqn:Eb.
  - apply N.eqb_eq in Eb. symmetry in Eb. destruct (E92 Eb) as (c & rest' & Er & Ec1 & Ec2). subst b rest.
    rewrite (N.eqb_sym c 33) in Ec1. rewrite (N.eqb_sym c 35) in Ec2.
    destruct neg, lead; cbn [app is_prefix_of skipn orb andb];
      change ((92 =? 33)%N) with false; change ((92 =? 47)%N) with false; change ((33 =? 33)%N) with true;
      change ((47 =? 47)%N) with true; change ((33 =? 47)%N) with false; change ((92 =? 92)%N) with true;
      change ((33 =? 92)%N) with false; change ((47 =? 92)%N) with false; change ((47 =? 33)%N) with false;
      cbn [andb orb skipn]; rewrite ?Ec1, ?Ec2; cbn [andb orb skipn]; reflexivity.
  - destruct neg, lead; cbn [app is_prefix_of skipn orb andb];
      change ((92 =? 33)%N) with false; change ((92 =? 47)%N) with false; change ((33 =? 33)%N) with true;
      change ((47 =? 47)%N) with true; change ((33 =? 47)%N) with false;
      change ((33 =? 92)%N) with false; change ((47 =? 92)%N) with false; change ((47 =? 33)%N) with false;
      cbn [andb orb skipn]; rewrite ?Eb, ?S47, ?S33; cbn [andb orb skipn]; rewrite ?S47, ?S33; cbn [andb orb skipn]; reflexivity.
Qed.

Lemma B_nonempty : B <> [].
Proof. destruct (glob_first ps Hg Hl Hf) as (b & rest & EB & _). fold B in EB. rewrite EB. discriminate. Qed.

Lemma removelast_snoc {A} (l : list A) x : removelast (l ++ [x]) = l.
Proof. rewrite removelast_app by discriminate. cbn. apply app_nil_r. Qed.

Lemma trailing_backslashes_0 s : last_is 92 s = false -> trailing_backslashes s = 0.
Proof.
  unfold last_is, trailing_backslashes. destruct (rev s) as [|x r]; [reflexivity|]. intro H. cbn [take_while].
  now rewrite N.eqb_sym, H.
Qed.

Lemma stage2_render (dir : bool) : stage2 (B ++ (if dir then [47%N] else [])) = (dir, B).
Proof.
  destruct (glob_last ps Hg Hl) as [L47 L92]. fold B in L47, L92. unfold stage2. destruct dir.
  - rewrite last_is_app by discriminate. cbn [last_is rev app]. change ((47 =? 47)%N) with true. cbv iota.
    rewrite removelast_snoc, (trailing_backslashes_0 B L92). reflexivity.
  - rewrite app_nil_r, L47. reflexivity.
Qed.
End Stages.

(* ---- stage 3: the "**/" prefix and the "/*" suffix ---- *)
Definition actual_pieces (lead : bool) (ps : list gpiece) : list gpiece :=
  match ps with
  | [PComp its] => if lead then ps else [PDStar; PComp its]
  | _ => match rev ps with
         | PDStar :: _ :: _ => ps ++ [PComp [IStar]]
         | _ => ps
         end
  end.

Lemma prefix_needs_slash s : has 47 s = false -> is_prefix_of [42; 42; 47]%N s = false.
Proof.
  intro H. destruct (is_prefix_of [42; 42; 47]%N s) eqn:E; [|reflexivity].
  apply is_prefix_of_iff in E as (y & ->). cbn in H. discriminate.
Qed.

Lemma item_head i r : item_lok i = true -> i <> IStar -> hd_error (render_item i ++ r) <> Some 42%N.
Proof.
  destruct i as [c|c| | |ms]; cbn; intros H Hn; try discriminate; try congruence.
  unfold plain_safe, plain_ok in H. split_orbs. intro E. injection E as ->. discriminate.
Qed.

Lemma comp_not_dstar its : forallb item_lok its = true -> no_adjacent_star its = true ->
  bytes_eqb (render_comp its) [42; 42]%N = false.
Proof.
  intros Hl Ha. destruct (bytes_eqb (render_comp its) [42; 42]%N) eqn:E; [|reflexivity]. exfalso.
  apply bytes_eqb_eq in E. destruct its as [|i its]; [discriminate|].
  cbn [forallb] in Hl. apply andb_true_iff in Hl as [Hi Hl]. cbn [render_comp flat_map] in E. fold (render_comp its) in E.
  assert (i = IStar) as ->.
  { destruct i; try reflexivity; exfalso; eapply (item_head _ (render_comp its) Hi); try discriminate; rewrite E; reflexivity. }
  cbn [render_item app] in E. injection E as E. destruct its as [|j its']; [discriminate|].
  cbn [forallb] in Hl. apply andb_true_iff in Hl as [Hj _]. cbn [render_comp flat_map] in E. fold (render_comp its') in E.
  assert (j = IStar) as ->.
  { destruct j; try reflexivity; exfalso; eapply (item_head _ (render_comp its') Hj); try discriminate; rewrite E; reflexivity. }
  discriminate Ha.
Qed.

Lemma no_adj_snoc ps its : no_adjacent_dstar_p ps = true -> no_adjacent_dstar_p (ps ++ [PComp its]) = true.
Proof.
  induction ps as [|p r IH]; [reflexivity|]. intro H. destruct p as [x|].
  - exact (IH H).
  - destruct r as [|[y|] r']; [reflexivity| |discriminate]. exact (IH H).
Qed.

Lemma suffix_dstar ps (Hg : glob_ok ps = true) (Hl : forallb piece_lok ps = true) :
  is_suffix_of [47; 42; 42]%N (render_glob ps) = match rev ps with PDStar :: _ :: _ => true | _ => false end.
Proof.
  destruct (glob_ok_parts ps Hg) as (Hok & _ & Hne). destruct (exists_last Hne) as (init & q & E). subst ps.
  rewrite rev_app_distr. cbn [rev app]. rewrite render_glob_snoc.
  rewrite forallb_app in Hok, Hl. apply andb_true_iff in Hok as [_ Hq]. apply andb_true_iff in Hl as [Hli Hlq].
  cbn [forallb] in Hq, Hlq. rewrite andb_true_r in Hq, Hlq.
  destruct q as [its|].
  - (* the last piece is a component: no *)
    apply bool_eq_iff. split; [|discriminate]. intro H. exfalso. apply is_suffix_of_iff in H as (z & Hz).
    cbn [piece_ok piece_lok render_piece] in *. apply andb_true_iff in Hq as [Hq _]. apply andb_true_iff in Hq as [_ Hadj].
    destruct (comp_avoid its Hlq) as [_ Hns]. pose proof (comp_not_dstar its Hlq Hadj) as Hnd.
    destruct init as [|p0 r0].
    + cbn [app] in Hz. rewrite Hz, has_app in Hns. cbn in Hns. now rewrite orb_true_r in Hns.
    + rewrite <- app_assoc in Hz. cbn [app] in Hz. change (z ++ [47; 42; 42]%N) with (z ++ 47%N :: [42; 42]%N) in Hz.
      apply last_occ_unique in Hz as [_ Hz]; [|assumption|reflexivity].
      rewrite Hz in Hnd. discriminate.
  - cbn [render_piece]. destruct init as [|p0 r0].
    + reflexivity.
    + destruct (rev (p0 :: r0)) eqn:Er; [apply (f_equal (@rev _)) in Er; rewrite rev_involutive in Er; discriminate|].
      apply is_suffix_of_iff. exists (render_glob (p0 :: r0)). now rewrite <- app_assoc.
Qed.

Lemma stage3_render ps (Hg : glob_ok ps = true) (Hl : forallb piece_lok ps = true) lead :
  stage3 lead (render_glob ps) = render_glob (actual_pieces lead ps).
Proof.
  destruct (glob_ok_parts ps Hg) as (Hok & Hadj & Hne). pose proof Hl as Hl0.
  unfold stage3. change (has_byte 47 (render_glob ps)) with (has 47 (render_glob ps)). rewrite (glob_has_slash ps Hl).
  destruct ps as [|p r] eqn:Eps; [congruence|]. rewrite <- Eps in *.
  destruct r as [|p2 r'].
  - (* one piece *)
    subst ps. cbn [forallb] in Hok, Hl. rewrite andb_true_r in Hok, Hl. cbn [negb andb].
    destruct p as [its|].
    + cbn [actual_pieces]. destruct lead; cbn [negb andb].
      * rewrite (suffix_dstar _ Hg Hl0). reflexivity.
      * cbn [render_glob render_piece]. unfold has_doublestar_prefix.
        cbn [piece_ok piece_lok] in Hok, Hl. apply andb_true_iff in Hok as [Hok _]. apply andb_true_iff in Hok as [_ Hadjs].
        destruct (comp_avoid its Hl) as [_ Hns]. rewrite (prefix_needs_slash _ Hns), (comp_not_dstar its Hl Hadjs). cbn [orb].
        assert (Hs : is_suffix_of [47; 42; 42]%N ([42; 42; 47]%N ++ render_comp its) = false).
        { apply bool_eq_iff. split; [|discriminate]. intro H. exfalso. apply is_suffix_of_iff in H as (z & Hz).
          change ([42; 42; 47]%N ++ render_comp its) with ([42; 42]%N ++ 47%N :: render_comp its) in Hz.
          change (z ++ [47; 42; 42]%N) with (z ++ 47%N :: [42; 42]%N) in Hz.
          apply last_occ_unique in Hz as [_ Hz]; [|assumption|reflexivity].
          pose proof (comp_not_dstar its Hl Hadjs) as Hnd. rewrite Hz in Hnd. discriminate. }
        rewrite Hs. reflexivity.
    + cbn [actual_pieces rev app render_glob render_piece]. destruct lead; reflexivity.
  - (* several pieces: anchored *)
    rewrite andb_false_r. rewrite (suffix_dstar _ Hg Hl0).
    assert (Hap : actual_pieces lead ps = match rev ps with PDStar :: _ :: _ => ps ++ [PComp [IStar]] | _ => ps end).
    { subst ps. destruct p; reflexivity. }
    rewrite Hap. destruct (rev ps) as [|[x|] [|y t]] eqn:Er; try reflexivity.
    rewrite render_glob_snoc. subst ps. rewrite <- app_assoc. reflexivity.
Qed.

Lemma actual_pieces_ok ps (Hg : glob_ok ps = true) lead : glob_ok (actual_pieces lead ps) = true.
Proof.
  destruct (glob_ok_parts ps Hg) as (Hok & Hadj & Hne). unfold glob_ok.
  assert (Hsn : forallb piece_ok (ps ++ [PComp [IStar]]) = true /\ no_adjacent_dstar_p (ps ++ [PComp [IStar]]) = true
                /\ negb (match ps ++ [PComp [IStar]] with [] => true | _ => false end) = true).
  { rewrite forallb_app, Hok. repeat split; [now apply no_adj_snoc|]. now destruct ps. }
  destruct ps as [|p r] eqn:Eps; [congruence|]. rewrite <- Eps in *.
  assert (Hself : forallb piece_ok ps && no_adjacent_dstar_p ps && negb (match ps with [] => true | _ => false end) = true)
    by (rewrite Hok, Hadj; subst ps; reflexivity).
  assert (Hcase : actual_pieces lead ps = ps \/ actual_pieces lead ps = ps ++ [PComp [IStar]] \/
                  exists its, ps = [PComp its] /\ actual_pieces lead ps = [PDStar; PComp its]).
  { subst ps. destruct p as [its|]; destruct r as [|p2 r'].
    - destruct lead; [left; reflexivity|right; right; eauto].
    - cbn [actual_pieces]. destruct (rev (PComp its :: p2 :: r')) as [|[x|] [|y t]]; auto.
    - left. reflexivity.
    - cbn [actual_pieces]. destruct (rev (PDStar :: p2 :: r')) as [|[x|] [|y t]]; auto. }
  destruct Hcase as [->|[->|(its & E1 & ->)]].
  - exact Hself.
  - destruct Hsn as (A & B0 & C). now rewrite A, B0, C.
  - rewrite E1 in Hok. cbn [forallb] in *. rewrite andb_true_r in Hok. now rewrite Hok.
Qed.

(* ---- add_line on a grammar line ---- *)
Lemma gline_ok_parts gl : gline_ok gl = true ->
  glob_ok (gl_pieces gl) = true /\ forallb piece_lok (gl_pieces gl) = true /\ first_item_ok (gl_pieces gl) = true.
Proof. unfold gline_ok. intro H. apply andb_true_iff in H as [H H3]. apply andb_true_iff in H as [H1 H2]. auto. Qed.

Definition line_core (gl : gline) : bytes :=
  (if gl_neg gl then [33%N] else []) ++ (if gl_lead gl then [47%N] else []) ++
  render_glob (gl_pieces gl) ++ (if gl_dir gl then [47%N] else []).

Lemma render_line_core gl : render_line gl = line_core gl ++ repeat 32%N (gl_blanks gl).
Proof. unfold render_line, line_core. now rewrite <- !app_assoc. Qed.

Lemma line_core_clean gl : gline_ok gl = true -> esc_clean (line_core gl) = true.
Proof.
  intro H. apply gline_ok_parts in H as (Hg & Hl & _). unfold line_core.
  rewrite esc_clean_app by (destruct (gl_neg gl); reflexivity).
  rewrite esc_clean_app by (destruct (gl_lead gl); reflexivity).
  rewrite esc_clean_app by (now apply glob_clean). destruct (gl_dir gl); reflexivity.
Qed.

Lemma line_core_first gl : gline_ok gl = true ->
  exists b rest, line_core gl = b :: rest /\ (b =? 35)%N = false.
Proof.
  intro H. apply gline_ok_parts in H as (Hg & Hl & Hf).
  destruct (glob_first _ Hg Hl Hf) as (b & rest & EB & E35 & _). unfold line_core. rewrite EB.
  destruct (gl_neg gl), (gl_lead gl); cbn [app]; eexists; eexists; (split; [reflexivity|]); assumption || reflexivity.
Qed.

Theorem add_line_render_proof ci gl :
  gline_ok gl = true ->
  let ps' := actual_pieces (gl_lead gl) (gl_pieces gl) in
  add_line ci (render_line gl) =
  LGlob (mk_iglob (gl_neg gl) (gl_dir gl) (render_glob ps')
           (mk_glob (mk_gopts ci true true false) (glob_tokens ps'))).
Proof.
  intros Hok ps'. pose proof (gline_ok_parts gl Hok) as (Hg & Hl & Hf).
  rewrite add_line_stages, render_line_core.
  destruct (line_core_first gl Hok) as (b & rest & Ecore & E35).
  assert (Hc : is_prefix_of [35%N] (line_core gl ++ repeat 32%N (gl_blanks gl)) = false).
  { rewrite Ecore. cbn. now rewrite (N.eqb_sym 35 b), E35. }
  rewrite Hc. cbv zeta. rewrite (trim_clean _ _ (line_core_clean gl Hok)).
  rewrite Ecore. rewrite <- Ecore. unfold line_core at 1.
  rewrite (stage1_render _ Hg Hl Hf).
  destruct (render_glob (gl_pieces gl) ++ (if gl_dir gl then [47%N] else [])) as [|x xs] eqn:Ebd.
  { exfalso. apply app_eq_nil in Ebd as [Ebd _]. now apply (B_nonempty _ Hg Hl Hf). }
  rewrite <- Ebd. rewrite (stage2_render _ Hg Hl), (stage3_render _ Hg Hl). fold ps'.
  rewrite (build_render_proof (mk_gopts ci true true false) ps' eq_refl (actual_pieces_ok _ Hg _)).
  reflexivity.
Qed.
